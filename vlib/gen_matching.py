"""Generator of `matching!` inputs: for each case the macro invocation text, the hand-expanded native
`match` arms and the S-expression of the same input for the Lean model."""
import re
from .scn import Rng

TYPES = {
    'nn': ('m_nn', ['n', 'n']), 'on': ('m_on', ['o', 'n']), 'ss': ('m_ss', ['s', 's']), 'll': ('m_ll', ['l', 'l']), 'n': ('m_n', ['n']),
    # W has a deliberately irregular PartialEq: `eq` is not symmetric and `ne` is not `!eq` — `eq!`/`ne!` must be the Rust
    # operators `arg == operand` / `arg != operand` verbatim (no Lean line: judged against the native match only)
    'ww': ('m_ww', ['w', 'w']),
}
STRS = ['', 'a', 'ab', 'b']

class Pat:
    def __init__(self, rust, sexpr, binds=()):
        self.rust, self.sexpr, self.binds = rust, sexpr, tuple(binds)

CONSTS = ['ka::A', 'ka::B', 'kb::A', 'kb::B']     # harness/src/bin/matchers.rs: ka::{A = 0, B = 1}, kb::{A = 2, B = 3} — same names, different values

def lit(rng, c, top):
    """the literal c; at an argument's own position one time in five spelled as the path of a constant with that value
    (a path pattern is matched against the `&u8` as it is, hence the `&`; literals are dereferenced by rustc itself)"""
    return Pat('&' + CONSTS[c] if top and rng.chance(1, 5) else str(c), f"l{c}")

def pat_n(rng, pos, depth=0, allow_bind=True, top=True):
    k = rng.below(9 if depth == 0 else 6)
    if k == 0:
        return lit(rng, rng.below(4), top)
    if k == 1:
        a = rng.below(3); b = a + rng.below(3)
        if top and rng.chance(1, 5):
            return Pat(f"&({CONSTS[a]}..={CONSTS[min(b, 3)]})", f"r{a}-{min(b, 3)}")
        return Pat(f"{a}..={b}", f"r{a}-{b}")
    if k == 2:
        return Pat('_', 'w')
    if k == 3 and allow_bind:
        return Pat(f"x{pos}", f"b{pos}", [pos])
    if k == 4 and allow_bind and depth == 0:
        inner = pat_n(rng, pos, 1, False, top)
        if '|' in inner.rust:
            return Pat(f"x{pos} @ ({inner.rust})", f"a{pos}({inner.sexpr})", [pos])
        return Pat(f"x{pos} @ {inner.rust}", f"a{pos}({inner.sexpr})", [pos])
    if k == 5 and depth == 0:
        n = 2 + rng.below(2)
        parts = [pat_n(rng, pos, 1, False, top) for _ in range(n)]
        parts = [p for p in parts if '|' not in p.rust]
        if len(parts) >= 2:
            return Pat(' | '.join(p.rust for p in parts), 'o[' + ','.join(p.sexpr for p in parts) + ']')
    return lit(rng, rng.below(4), top)

def pat_o(rng, pos):
    k = rng.below(6)
    if k == 0: return Pat('None', 'N')
    if k == 1: return Pat('_', 'w')
    if k == 2:
        a = Pat('None', 'N'); b = pat_n(rng, pos, 1, False, False)
        return Pat(f"None | Some({b.rust})", f"o[N,S({b.sexpr})]")
    inner = pat_n(rng, pos, 1, True, False)
    return Pat(f"Some({inner.rust})", f"S({inner.sexpr})", inner.binds)

def str_sexpr(s):
    return 's[' + ','.join(str(ord(c)) for c in s) + ']'

def pat_s(rng, pos):
    k = rng.below(5)
    if k == 0: return Pat('_', 'w')
    if k == 1:
        a, b = rng.choice(STRS), rng.choice(STRS)
        return Pat(f'"{a}" | "{b}"', f"o[{str_sexpr(a)},{str_sexpr(b)}]")
    s = rng.choice(STRS)
    return Pat(f'"{s}"', str_sexpr(s))

def pat_l(rng, pos):
    k = rng.below(7)
    el = lambda: pat_n(rng, pos, 1, False, False)
    if k == 0: return Pat('_', 'w')
    if k == 1: return Pat('[]', 'e[]')
    if k == 2:
        a = el(); return Pat(f"[{a.rust}]", f"e[{a.sexpr}]")
    if k == 3:
        a, b = el(), el(); return Pat(f"[{a.rust}, {b.rust}]", f"e[{a.sexpr},{b.sexpr}]")
    if k == 4:
        a = el(); return Pat(f"[{a.rust}, ..]", f"t[{a.sexpr}][]")
    if k == 5:
        a = el(); return Pat(f"[.., {a.rust}]", f"t[][{a.sexpr}]")
    a, b = el(), el()
    return Pat(f"[{a.rust}, .., {b.rust}]", f"t[{a.sexpr}][{b.sexpr}]")

def pat_w(rng, pos):
    k = rng.below(3)
    if k == 0: return Pat('_', 'w')
    if k == 1: return Pat(f"x{pos}", f"b{pos}", [pos])
    return Pat(f"W({rng.below(4)})", 'w')

PATGEN = {'n': pat_n, 'o': pat_o, 's': pat_s, 'l': pat_l, 'w': pat_w}

class Case:
    pass

def gen_case(rng, ident, force=None):
    c = Case()
    c.ident = ident
    c.types = force or rng.weighted([('nn', 5), ('on', 3), ('ss', 2), ('ll', 2), ('n', 2), ('ww', 2)])
    c.method, argtys = TYPES[c.types]
    nalts = rng.weighted([(1, 5), (2, 3), (3, 1)])     # the documented disjunctive form has any number of alternatives
    use_guard = rng.chance(1, 3) and 'n' in argtys[:1] + argtys[1:2] and c.types != 'ww'
    guard_pos = None
    if use_guard:
        cand = [i for i, t in enumerate(argtys) if t == 'n']
        guard_pos = rng.choice(cand)
    alts = []
    # with two alternatives over (n, n) the guard variable may be bound at a different position in the second
    # alternative: `(x, _) | (_, x) if *x == 1` — the guard has to be re-evaluated per alternative
    swap = use_guard and nalts == 2 and argtys == ['n', 'n'] and rng.chance(1, 2)
    for ai in range(nalts):
        elems = []
        bind_here = guard_pos
        if swap and ai == 1:
            bind_here = 1 - guard_pos
        for pos, t in enumerate(argtys):
            if use_guard and pos == bind_here:
                # must bind x{guard_pos} (the guard reads it)
                if rng.chance(1, 2):
                    elems.append(('P', Pat(f"x{guard_pos}", f"b{guard_pos}", [guard_pos])))
                else:
                    inner = pat_n(rng, pos, 1, False)
                    r = f"x{guard_pos} @ ({inner.rust})" if '|' in inner.rust else f"x{guard_pos} @ {inner.rust}"
                    elems.append(('P', Pat(r, f"a{guard_pos}({inner.sexpr})", [guard_pos])))
            elif swap and ai == 1 and pos == guard_pos:
                elems.append(('P', pat_n(rng, pos, 1, False)))
            elif False and pos == guard_pos:
                # must bind x{pos} (the guard reads it)
                if rng.chance(1, 2):
                    elems.append(('P', Pat(f"x{pos}", f"b{pos}", [pos])))
                else:
                    inner = pat_n(rng, pos, 1, False)
                    r = f"x{pos} @ ({inner.rust})" if '|' in inner.rust else f"x{pos} @ {inner.rust}"
                    elems.append(('P', Pat(r, f"a{pos}({inner.sexpr})", [pos])))
            elif t == 'n' and rng.chance(1, 4):
                k = rng.below(4)
                op = rng.choice(['EQ', 'NE'])
                elems.append((op, k))
            elif t == 'w' and rng.chance(2, 3):
                elems.append((rng.choice(['EQ', 'NE']), f"W({rng.below(4)})"))
            else:
                elems.append(('P', PATGEN[t](rng, pos)))
        alts.append(elems)
    c.alts = alts
    c.guard = None
    if use_guard:
        def atom():
            k = rng.below(4)
            return (f"*x{guard_pos} == {k}", f"q{guard_pos}:{k}") if rng.chance(1, 2) else (f"*x{guard_pos} < {k}", f"l{guard_pos}:{k}")
        shape = rng.below(4)
        a, b = atom(), atom()
        if shape == 0: c.guard = a
        elif shape == 1: c.guard = (f"{a[0]} || {b[0]}", f"O({a[1]},{b[1]})")
        elif shape == 2: c.guard = (f"{a[0]} && {b[0]}", f"A({a[1]},{b[1]})")
        else:
            d = atom(); c.guard = (f"{a[0]} || {b[0]} && {d[0]}", f"O({a[1]},A({b[1]},{d[1]}))")
    # user bindings named like the identifiers the macro uses itself (the eq!/ne! operand locals l0, l1, .. and the pattern
    # bindings m0, m1, .. of the compared positions): one case in three among those with an eq!/ne! operand
    if any(e[0] != 'P' for alt in alts for e in alt) and rng.chance(1, 3):
        rename(c, rng.choice([{'x0': 'l0', 'x1': 'l1'}, {'x0': 'l1', 'x1': 'l0'}, {'x0': 'm1', 'x1': 'm0'}, {'x0': 'a1', 'x1': 'a0'}, {'x0': 'a0', 'x1': 'a1'}]))
    return c

def rename(c, ren):
    def sub(t):
        for a, b in ren.items():
            t = re.sub(r'\b' + a + r'\b', b, t)
        return t
    c.alts = [[(e[0], Pat(sub(e[1].rust), e[1].sexpr, e[1].binds)) if e[0] == 'P' else e for e in alt] for alt in c.alts]
    if c.guard:
        c.guard = (sub(c.guard[0]), c.guard[1])

def macro_text(c):
    def el(e):
        if e[0] == 'P': return e[1].rust
        return f"{'eq' if e[0] == 'EQ' else 'ne'}!(&{e[1]})"
    alts = ['(' + ', '.join(el(e) for e in alt) + (',' if False else '') + ')' for alt in c.alts]
    if len(c.alts) == 1 and c.guard is None:
        body = ', '.join(el(e) for e in c.alts[0])
    else:
        body = ' | '.join(alts)
    if c.guard:
        body += f" if {c.guard[0]}"
    return body

def native_arms(c):
    arms = []
    for alt in c.alts:
        pats, conds = [], []
        for i, e in enumerate(alt):
            if e[0] == 'P':
                pats.append(e[1].rust)
            else:
                pats.append(f"cmp_arg_{i}")      # (a name no generated user binding uses)
                conds.append(f"(cmp_arg_{i} {'==' if e[0] == 'EQ' else '!='} &{e[1]})")
        g = ([f"({c.guard[0]})"] if c.guard else []) + conds
        pat = pats[0] if len(pats) == 1 else '(' + ', '.join(pats) + ')'
        arms.append(f"{pat}{' if ' + ' && '.join(g) if g else ''} => true,")
    return arms

def lean_line(c):
    if c.types == 'ww':
        return f"# {c.ident}: irregular PartialEq, no model line"
    def el(e):
        if e[0] == 'P': return 'P:' + e[1].sexpr
        return f"{e[0]}:n{e[1]}"
    alts = '/'.join(';'.join(el(e) for e in alt) for alt in c.alts)
    return f"matchcase {c.ident} types={c.types} guard={c.guard[1] if c.guard else '-'} alts={alts}"

DOMAIN_RS = {
    'n': ('u8', '[0u8, 1, 2, 3]'),
    'o': ('Option<u8>', '[None, Some(0u8), Some(1), Some(2)]'),
    's': ('&str', '["", "a", "ab"]'),
    'l': ('Vec<u8>', '[vec![], vec![1u8], vec![1, 2], vec![1, 2, 3]]'),
    'w': ('W', '[W(0), W(1), W(2), W(3)]'),
}

def rust_case(c):
    _, argtys = TYPES[c.types]
    # argument conversion per method signature
    conv = {
        'nn': ('*a0, *a1', '(a0, a1)'), 'on': ('*a0, *a1', '(a0, a1)'), 'n': ('*a0', 'a0'),
        'ss': ('a0, a1.to_string()', '(AsRef::<str>::as_ref(a0), AsRef::<str>::as_ref(a1))'),
        'll': ('&a0[..], a1.clone()', '(AsRef::<[u8]>::as_ref(a0), AsRef::<[u8]>::as_ref(a1))'),
        'ww': ('a0.clone(), a1.clone()', '(a0, a1)'),
    }[c.types]
    # guard-free single alternative: which argument positions' sub-pattern rejects, by rustc's own match / == / != per position
    if len(c.alts) == 1 and c.guard is None:
        tests = []
        for i, e in enumerate(c.alts[0]):
            scrut = 't' if len(argtys) == 1 else f't.{i}'
            if e[0] == 'P':
                tests.append(f"if !(match {scrut} {{ {e[1].rust} => true, _ => false }}) {{ np.push(\"{i}\".to_string()); }}")
            else:
                tests.append(f"if !({scrut} {'==' if e[0] == 'EQ' else '!='} &{e[1]}) {{ np.push(\"{i}\".to_string()); }}")
        npos_code = f"let t = {conv[1]}; let mut np: Vec<String> = vec![]; " + ' '.join(tests) + ' npos.push(np.join(","));'
    else:
        npos_code = 'npos.push("x".to_string());'
    loops = ''.join(f"for a{i} in {DOMAIN_RS[t][1]}.iter() {{ " for i, t in enumerate(argtys))
    closes = '}' * len(argtys)
    arms = '\n                '.join(native_arms(c))
    mt = macro_text(c)
    return f'''
fn case_{c.ident}() {{
    let (mut un, mut ord, mut nat, mut diag, mut npos) = (String::new(), String::new(), String::new(), Vec::<String>::new(), Vec::<String>::new());
    {loops}
        let u = Unimock::new(MTMock::{c.method}.each_call(matching!({mt})).returns(1u32)).no_verify_in_drop();
        un.push(if accepts(|| u.{c.method}({conv[0]})).0 {{ '1' }} else {{ '0' }});
        let o = Unimock::new((MTMock::{c.method}.next_call(matching!({mt})).returns(1u32).n_times(1), MTMock::{c.method}.next_call(matching!({mt})).returns(2u32).n_times(1))).no_verify_in_drop();      // a second ordered pattern of the same method stays out of the first call's mismatch report
        let (ok, msg) = accepts(|| o.{c.method}({conv[0]}));
        ord.push(if ok {{ '1' }} else {{ '0' }});
        diag.push(if ok {{ "-".to_string() }} else {{ positions(&msg) }});
        #[allow(unused_variables, unreachable_patterns, clippy::all)]
        let n = match {conv[1]} {{
                {arms}
                _ => false,
        }};
        nat.push(if n {{ '1' }} else {{ '0' }});
        #[allow(unused_variables, unreachable_patterns, clippy::all)]
        {{ {npos_code} }}
    {closes}
    println!("case {c.ident} un={{}} ord={{}} native={{}} diag={{}} npos={{}}", un, ord, nat, diag.join(";"), npos.join(";"));
}}
'''

def rust_file(cases):
    out = ["// GENERATED by /verif/vlib/gen_matching.py — do not edit.\n"]
    for c in cases:
        out.append(rust_case(c))
    out.append("pub fn run_all() {\n" + ''.join(f"    case_{c.ident}();\n" for c in cases) + "}\n")
    return ''.join(out)

def gen_cases(seed, n):
    rng = Rng(seed * 6151 + 13)
    cases = []
    # fixed regression cases first (found while probing the unmodified tree)
    fixed = Case(); fixed.ident = 'f0'; fixed.types = 'nn'; fixed.method = 'm_nn'
    fixed.alts = [[('EQ', 1), ('P', Pat('x1', 'b1', [1]))]]; fixed.guard = ('*x1 == 0 || *x1 == 3', 'O(q1:0,q1:3)')
    cases.append(fixed)
    # refutable bare identifiers (`None`) next to wildcards / bindings, with and without a second alternative
    firsts = [Pat('None', 'N'), Pat('_', 'w'), Pat('Some(_)', 'S(w)'), Pat('Some(x0)', 'S(b0)', [0])]
    seconds = [Pat('_', 'w'), Pat('x1', 'b1', [1]), Pat('2', 'l2')]
    k = 0
    for a in firsts:
        for b in seconds:
            c = Case(); c.ident = f"k{k}"; c.types = 'on'; c.method = 'm_on'; c.guard = None
            c.alts = [[('P', a), ('P', b)]]
            cases.append(c); k += 1
    for (a1, b1, a2, b2) in [(0, 2, 1, 0), (2, 0, 0, 1), (0, 0, 2, 2), (3, 2, 0, 0), (0, 1, 3, 0)]:
        c = Case(); c.ident = f"k{k}"; c.types = 'on'; c.method = 'm_on'; c.guard = None
        c.alts = [[('P', firsts[a1]), ('P', seconds[b1])], [('P', firsts[a2]), ('P', seconds[b2])]]
        cases.append(c); k += 1
    # alternatives that differ only in the path prefix of a constant / in non-literal range bounds
    W_ = Pat('_', 'w')
    for alts in ([[('P', Pat('&ka::A', 'l0')), ('P', W_)], [('P', Pat('&kb::A', 'l2')), ('P', W_)]],
                 [[('P', Pat('&(ka::A..=ka::B)', 'r0-1')), ('P', W_)], [('P', Pat('&(kb::A..=kb::B)', 'r2-3')), ('P', W_)]],
                 [[('P', W_), ('P', Pat('&kb::B', 'l3'))], [('P', W_), ('P', Pat('&ka::B', 'l1'))]],
                 [[('P', Pat('&ka::A | &kb::A', 'o[l0,l2]')), ('P', Pat('&(ka::B..=kb::A)', 'r1-2'))]]):
        c = Case(); c.ident = f"k{k}"; c.types = 'nn'; c.method = 'm_nn'; c.guard = None; c.alts = alts
        cases.append(c); k += 1
    # the documented disjunctive form with three and four alternatives
    L_ = lambda n: Pat(str(n), f"l{n}")
    for alts in ([[('P', L_(1)), ('P', L_(2))], [('P', L_(3)), ('P', L_(0))], [('P', L_(2)), ('P', L_(2))]],
                 [[('P', L_(0)), ('P', W_)], [('P', L_(1)), ('P', W_)], [('P', L_(2)), ('P', W_)], [('P', W_), ('P', L_(3))]]):
        c = Case(); c.ident = f"k{k}"; c.types = 'nn'; c.method = 'm_nn'; c.guard = None; c.alts = alts
        cases.append(c); k += 1
    # bindings named like the macro's own identifiers next to an eq!/ne! operand
    for alts in ([[('P', Pat('l0', 'b0', [0])), ('EQ', 3)]], [[('P', Pat('m1', 'b0', [0])), ('EQ', 3)]], [[('NE', 2), ('P', Pat('l0', 'b1', [1]))]],
                 [[('P', Pat('l0 @ 1..=3', 'a0(r1-3)', [0])), ('NE', 1)]], [[('P', Pat('a1', 'b0', [0])), ('EQ', 3)]], [[('NE', 0), ('P', Pat('a0', 'b1', [1]))]], [[('EQ', 1), ('P', Pat('m0', 'b1', [1]))], [('P', Pat('l0', 'b0', [0])), ('EQ', 2)]]):
        c = Case(); c.ident = f"k{k}"; c.types = 'nn'; c.method = 'm_nn'; c.guard = None; c.alts = alts
        cases.append(c); k += 1
    for k2 in range(n):
        cases.append(gen_case(rng.fork(), f"g{k2}"))
    return cases
