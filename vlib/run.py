"""Run scenario text through the real library (Rust replay) and the model (Lean driver)."""
import os, subprocess, time
from . import canon

VERIF = os.path.dirname(os.path.dirname(os.path.abspath(__file__)))
REPLAY = os.path.join(VERIF, 'harness', 'target', 'debug', 'replay')
DRIVER = os.path.join(VERIF, 'lean', '.lake', 'build', 'bin', 'driver')

class ToolError(Exception):
    pass

def run_real(text, timeout=600):
    p = subprocess.run([REPLAY], input=text, capture_output=True, text=True, timeout=timeout)
    if p.returncode != 0:
        raise ToolError(f"replay exited {p.returncode}: {p.stderr[-2000:]}")
    return p.stdout

def run_model(text, timeout=600):
    p = subprocess.run([DRIVER], input=text, capture_output=True, text=True, timeout=timeout)
    if p.returncode != 0:
        raise ToolError(f"driver exited {p.returncode}: {p.stderr[-2000:]}")
    return p.stdout

def traces(text):
    """-> (order, real: name -> canonical lines, model: name -> canonical lines)"""
    real_raw, order = canon.split_scenarios(run_real(text))
    model_raw, _ = canon.split_scenarios(run_model(text))
    real = {n: [canon.normalise(x) for x in canon.canon_scenario(real_raw[n])] for n in order}
    model = {n: [canon.normalise(canon.canon_model_line(x)) for x in model_raw.get(n, [])] for n in order}
    return order, real, model

def events_of(lines):
    """group canonical lines as [(event_line, [state_lines])]"""
    out = []
    for l in lines:
        if l.startswith('state '):
            if out:
                out[-1][1].append(l)
        else:
            out.append((l, []))
    return out
