"""Generators of runtime scenarios (clause sets + histories) over the fixed universe."""
from . import scn
from .scn import Pat, seg, term, stub, tup, UNIT

N_METHODS = 8
HAS_DEFAULT = lambda m: m % 4 in (2, 3)
HAS_UNMOCK = lambda m: m % 4 in (0, 3)

class Profile:
    """knobs of the random generator; every field has a sane default"""
    def __init__(self, **kw):
        self.methods = [0, 1, 2, 3, 4, 5]       # methods clauses may mention
        self.max_terms = 5
        self.ordered_weight = 1                 # weight of next_call terminals
        self.unordered_weight = 3
        self.stub_weight = 1
        self.max_segs = 3
        self.max_count = 3
        self.arg_domain = 4                     # args 0..arg_domain-1 in the history (4..7 trigger nested bodies)
        self.nested_args = False
        self.resp_weights = [('ret', 8), ('def', 1), ('ans', 2), ('pan', 1), ('unm', 1), ('dfl', 1)]
        self.partial_chance = (1, 4)
        self.max_calls = 8
        self.clones = 1
        self.threads = 1
        self.nomatcher_chance = (0, 1)
        self.pmask_chance = (0, 1)
        self.dbg_chance = (1, 3)
        self.nest_chance = (1, 4)
        self.unmentioned_call_chance = (1, 8)
        self.end = 'verify'                     # how the history ends: verify | drop | report | mixed
        self.allow_mode_conflict = False
        self.empty_stub_chance = (0, 1)
        self.noresp_chance = (0, 1)             # a stub pattern left without any response (`each.call(matching!(..));`): it still claims its calls
        self.user_panic_answers = False
        self.lifecycle = False
        self.park_weight = 0                    # answers that lend out a clone of the mock via make_ref                  # interleave clone/drop/verify/noverify events
        for k, v in kw.items():
            if not hasattr(self, k):
                raise KeyError(k)
            setattr(self, k, v)

def gen_chain(rng, prof, kind, serial, mode_ordered):
    nseg = 1 + rng.below(prof.max_segs)
    chain = []
    for j in range(nseg):
        last = (j == nseg - 1)
        r = rng.weighted(prof.resp_weights)
        if r == 'ret':
            resp = f"ret{serial * 10 + j}"
        elif r == 'ans':
            flav = rng.weighted([(0, 6), (7, prof.park_weight), (8, 2 if prof.nested_args else 0), (9, 1 if prof.user_panic_answers else 0)])
            resp = f"ans{serial * 100 + j * 10 + flav}"
        elif r == 'pan':
            resp = f"pan{serial * 10 + j}" if rng.below(6) else 'panE'     # `panE`: the empty message `.panics("")`
        else:
            resp = r
        if not last:
            q = rng.weighted([('once', 2), (f"n{rng.below(prof.max_count + 1)}", 3)])
        else:
            opts = [('once', 2), (f"n{rng.below(prof.max_count + 1)}", 3), ('-', 3)]
            if not mode_ordered:
                opts.append((f"al{rng.below(prof.max_count + 1)}", 2))
            q = rng.weighted(opts)
        chain.append(seg(resp, q))
    return chain

def gen_pat(rng, prof, kind, serial, mode_ordered):
    dom = prof.arg_domain
    full = (1 << 8) - 1
    if rng.chance(*prof.nomatcher_chance):
        mask = None
    else:
        mask = rng.weighted([(full, 2), (rng.below(1 << dom) | (rng.below(16) << 4 if prof.nested_args else 0), 6), (0, 1)])
    pmask = 0
    if mask is not None and rng.chance(*prof.pmask_chance):
        pmask = 1 << rng.below(dom)
    dbg = serial + 1 if rng.chance(*prof.dbg_chance) else 0
    return Pat(mask=mask, chain=gen_chain(rng, prof, kind, serial, mode_ordered), pmask=pmask, dbg=dbg)

def gen_clauses(rng, prof):
    """-> (tree, terminals in flatten order)"""
    nterm = rng.below(prof.max_terms + 1)
    mode_of = {}
    items = []
    serial = 0
    for _ in range(nterm):
        m = rng.choice(prof.methods)
        kindclass = rng.weighted([('ord', prof.ordered_weight), ('un', prof.unordered_weight), ('stub', prof.stub_weight)])
        want_ordered = kindclass == 'ord'
        if m in mode_of and not prof.allow_mode_conflict:
            want_ordered = mode_of[m]
            if not want_ordered and kindclass == 'ord':
                kindclass = 'un'
            if want_ordered:
                kindclass = 'ord'
        mode_of.setdefault(m, want_ordered)
        if kindclass == 'ord':
            items.append(term(m, 'next', gen_pat(rng, prof, 'next', serial, True)))
            serial += 1
        elif kindclass == 'un':
            kind = rng.choice(['some', 'each'])
            items.append(term(m, kind, gen_pat(rng, prof, kind, serial, False)))
            serial += 1
        else:
            if rng.chance(*prof.empty_stub_chance):
                items.append(stub(m, []))
            else:
                k = 1 + rng.below(3)
                pats = []
                for _ in range(k):
                    pats.append(gen_pat(rng, prof, 'stub', serial, False))
                    if rng.chance(*prof.noresp_chance):
                        pats[-1].chain = []
                    serial += 1
                items.append(stub(m, pats))
    # random nesting
    def nest(xs):
        if len(xs) <= 1 or not rng.chance(*prof.nest_chance):
            return xs
        i = rng.below(len(xs))
        j = i + 1 + rng.below(len(xs) - i)
        return xs[:i] + [tup(nest(xs[i:j]))] + xs[j:]
    items = nest(items)
    if len(items) == 0:
        tree = UNIT if rng.chance(1, 2) else tup([])
    elif len(items) == 1 and rng.chance(1, 2):
        tree = items[0]
    else:
        tree = tup(items)
    return tree

def gen_history(rng, prof, tree, inst_ids):
    terms = scn.terminals(tree)
    mentioned = sorted({m for (m, _, _) in terms})
    ncalls = rng.below(prof.max_calls + 1)
    evs = []
    dom = 8 if prof.nested_args else prof.arg_domain
    for _ in range(ncalls):
        if mentioned and not rng.chance(*prof.unmentioned_call_chance):
            m = rng.choice(mentioned)
        else:
            m = rng.below(N_METHODS)
        a = rng.below(dom)
        i = rng.choice(inst_ids)
        evs.append(scn.call(i, m, a, t=rng.below(prof.threads) if prof.threads > 1 else 0))
    return evs

def gen_scenario(rng, prof, name):
    tree = gen_clauses(rng, prof)
    mode = 'partial' if rng.chance(*prof.partial_chance) else 'strict'
    evs = [scn.build(0, 0, mode, tree)]
    insts = [0]
    for k in range(prof.clones):
        if rng.chance(1, 2):
            evs.append(scn.clone(rng.choice(insts), k + 1))
            insts.append(k + 1)
    evs += gen_history(rng, prof, tree, insts)
    # tear down: clones first (so that verification can run), then the original
    for j in insts[1:]:
        evs.append(scn.drop(j))
    end = prof.end
    if end == 'mixed':
        end = rng.choice(['verify', 'drop', 'report'])
    evs.append({'verify': scn.verify, 'drop': scn.drop, 'report': scn.report}[end](0))
    return scn.scenario(name, evs)

def gen_batch(seed, prof, n, prefix='r'):
    rng = scn.Rng(seed)
    return ''.join(gen_scenario(rng.fork(), prof, f"{prefix}{k}") for k in range(n))
