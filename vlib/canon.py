"""Canonicalise the real library's trace (tab separated, raw panic messages) into the textual
form printed by the Lean driver, so that the two traces can be compared line by line."""
import re

def unesc(s):
    out = []
    i = 0
    while i < len(s):
        c = s[i]
        if c == '\\' and i + 1 < len(s):
            n = s[i + 1]
            out.append({'n': '\n', 't': '\t', 'r': '\r', '\\': '\\'}.get(n, n))
            i += 2
        else:
            out.append(c)
            i += 1
    return ''.join(out)

PATH = r'(?P<path>\w+::\w+)'
CALL = r'(?P<path>\w+::\w+)\((?P<args>[^)]*)\)'

def pat_ref(text):
    """'U0::a(p3) at scn.rs:3' -> ('U0::a', '@3');  'call pattern U0::a[#1]' -> ('U0::a', '#1')"""
    m = re.match(r'^(\w+::\w+)\(p(\d+)\) at scn\.rs:(\d+)$', text)
    if m:
        return m.group(1), '@' + m.group(3)
    m = re.match(r'^call pattern (\w+::\w+)\[#(\d+)\]$', text)
    if m:
        return m.group(1), '#' + m.group(2)
    return None, '?' + text

def ncalls(text):
    if text == 'no calls':
        return 0
    m = re.match(r'^(\d+) calls?$', text)
    return int(m.group(1)) if m else -1

def canon_error(kind, msg):
    """canonical one-line form of a MockError given the hook's kind tag and its Display text"""
    first = msg.split('\n', 1)[0]
    if kind == 'NoMockImplementation':
        m = re.match('^' + CALL + r': No mock implementation found\.$', first)
        if m: return f"NoMockImplementation {m['path']}"
    elif kind == 'NoMatcherFunction':
        m = re.match('^' + CALL + r': No function supplied for matching inputs for (?P<pat>.*)\.$', first)
        if m: return f"NoMatcherFunction {m['path']} pat={pat_ref(m['pat'])[1]}"
    elif kind == 'NoMatchingCallPatterns':
        m = re.match('^' + CALL + r': No matching call patterns\.', first)
        if m: return f"NoMatchingCallPatterns {m['path']}"
    elif kind == 'NoOutputAvailableForCallPattern':
        m = re.match('^' + CALL + r': No output available for after matching (?P<pat>.*)\.$', first)
        if m: return f"NoOutputAvailableForCallPattern {m['path']} pat={pat_ref(m['pat'])[1]}"
    elif kind == 'MockNeverCalled':
        m = re.match('^Mock for ' + PATH + r' was never called\. Dead mocks should be removed\.$', first)
        if m: return f"MockNeverCalled {m['path']}"
    elif kind == 'CallOrderNotMatchedForMockFn':
        m = re.match('^' + CALL + r': Method matched in wrong order\. Expected a call matching (?P<pat>.*)\.$', first)
        if m:
            epath, eref = pat_ref(m['pat'])
            return f"CallOrderNotMatchedForMockFn {m['path']} expected={epath}/{eref}"
        m = re.match('^' + CALL + r': Ordered call \((?P<n>\d+)\) out of range: ', first)
        if m: return f"CallOrderNotMatchedForMockFn {m['path']} order={m['n']} expected=none"
    elif kind == 'InputsNotMatchedInCallOrder':
        m = re.match('^' + CALL + r": Method invoked in the correct order \((?P<n>\d+)\), but inputs didn't match (?P<pat>.*?)\. ?$", first)
        if m: return f"InputsNotMatchedInCallOrder {m['path']} order={m['n']} pat={pat_ref(m['pat'])[1]}"
    elif kind == 'CannotReturnValueMoreThanOnce':
        m = re.match('^' + CALL + r': Cannot return value more than once from (?P<pat>.*), because of missing Clone bound\.', first)
        if m: return f"CannotReturnValueMoreThanOnce {m['path']} pat={pat_ref(m['pat'])[1]}"
    elif kind == 'FailedVerification':
        m = re.match('^' + PATH + r': Expected (?P<pat>.*) to match (?P<how>exactly|at least) (?P<b>no calls|\d+ calls?), but it actually matched (?P<a>no calls|\d+ calls?)\.$', first)
        if m:
            how = 'exactly' if m['how'] == 'exactly' else 'atleast'
            return f"FailedVerification {m['path']} pat={pat_ref(m['pat'])[1]} {how}={ncalls(m['b'])} actual={ncalls(m['a'])}"
    elif kind == 'CannotUnmock':
        m = re.match('^' + PATH + r' cannot be unmocked as there is no function available to call\.$', first)
        if m: return f"CannotUnmock {m['path']}"
    elif kind == 'NoDefaultImpl':
        m = re.match('^' + PATH + r' has not been set up with default implementation delegation\.$', first)
        if m: return f"NoDefaultImpl {m['path']}"
    elif kind == 'NotAnswered':
        m = re.match('^' + PATH + r' did not apply the answer function, this is a bug\.$', first)
        if m: return f"NotAnswered {m['path']}"
    elif kind == 'ExplicitPanic':
        m = re.match('^' + CALL + r': Explicit panic from (?P<pat>.*?): (?P<msg>.*)$', first)
        if m: return f"ExplicitPanic {m['path']} pat={pat_ref(m['pat'])[1]} msg={m['msg']}"
    return f"UNPARSED[{kind}] {msg!r}"

def guess_kind(line):
    """kind of a verification line (only FailedVerification / MockNeverCalled can come out of verify)"""
    if line.startswith('Mock for '):
        return 'MockNeverCalled'
    if ': Expected ' in line and ' to match ' in line:
        return 'FailedVerification'
    table = [
        (': No mock implementation found.', 'NoMockImplementation'),
        (': No function supplied for matching inputs for ', 'NoMatcherFunction'),
        (': No matching call patterns.', 'NoMatchingCallPatterns'),
        (': No output available for after matching ', 'NoOutputAvailableForCallPattern'),
        (': Method matched in wrong order.', 'CallOrderNotMatchedForMockFn'),
        (') out of range: There were no more ordered call patterns', 'CallOrderNotMatchedForMockFn'),
        (': Method invoked in the correct order (', 'InputsNotMatchedInCallOrder'),
        (': Cannot return value more than once from ', 'CannotReturnValueMoreThanOnce'),
        (' cannot be unmocked as there is no function available to call.', 'CannotUnmock'),
        (' has not been set up with default implementation delegation.', 'NoDefaultImpl'),
        (' did not apply the answer function, this is a bug.', 'NotAnswered'),
        (': Explicit panic from ', 'ExplicitPanic'),
    ]
    for frag, kind in table:
        if frag in line:
            return kind
    return 'Unknown'

def canon_build_panic(msg):
    if msg == 'Stub contained no call patterns':
        return 'empty-stub'
    if msg == 'Ownership required' or msg.startswith('No Mutex API available'):
        return 'output-error'
    m = re.match(r'^A clause for (\w+::\w+) has already been registered as (\w+), but got re-registered as (\w+)\. They cannot be mixed for the same MockFn\.$', msg)
    if m:
        return f"mode-conflict {m.group(1)} {m.group(2)} {m.group(3)}"
    return f"UNPARSED-BUILD {msg!r}"

CLONES_ALIVE = 'Unimock cannot verify calls, because the original instance got dropped while there are clones still alive.'
WRONG_THREAD = 'Original Unimock instance destroyed on a different thread than the one it was created on.'

class RealCanon:
    """stateful: needs the reasons list of the previous state to classify panics"""
    def __init__(self):
        self.reasons = {}      # sh -> list of (kind, msg)
        self.prev_reasons = {}
        self.pending = None

    def state_line(self, fields):
        # fields: ['state', 'sh=0', 'fb=..', 'next=..', 'strong=..', 'fns=..', 'reasons', kind, msg, ...]
        if len(fields) >= 3 and fields[2] == 'dead':
            return f"state {fields[1]} dead", None
        sh = fields[1]
        rs = fields[7:]
        reasons = [(rs[i], unesc(rs[i + 1])) for i in range(0, len(rs) - 1, 2)]
        canon = ' | '.join(canon_error(k, m) for k, m in reasons)
        fns = fields[5][len('fns='):]
        line = f"state {sh} {fields[2]} {fields[3]} {fields[4]} reasons=[{canon}] fns={fns}"
        return line, (sh, reasons)

def find_new_reason(reasons, new_reasons, msg):
    """a reason that is new in some shared state and carries this message"""
    found = None
    for sh, rs in new_reasons.items():
        old = reasons.get(sh, [])
        for (k, m) in rs[len(old):]:
            if m == msg:
                found = (k, m)
    return found

def is_teardown_msg(msg, reasons):
    if msg == CLONES_ALIVE or msg.startswith(WRONG_THREAD):
        return True
    for sh, rs in reasons.items():
        if rs and msg == '\n'.join(m for _, m in rs):
            return True
    return all(guess_kind(l) in ('FailedVerification', 'MockNeverCalled') for l in msg.split('\n'))

def canon_teardown_msg(msg, reasons):
    if msg == CLONES_ALIVE:
        return 'teardown clones-alive'
    if msg.startswith(WRONG_THREAD):
        return 'teardown wrong-thread'
    if msg.startswith('Called verify() on a cloned instance') or msg.startswith('Called no_verify_on_drop() on a cloned instance'):
        return 'panic-on-clone'
    for sh, rs in reasons.items():
        if rs and msg == '\n'.join(m for _, m in rs):
            return f"teardown errs {len(rs)} [" + ' | '.join(canon_error(k, m) for k, m in rs) + "]"
    lines = msg.split('\n')
    return f"teardown errs {len(lines)} [" + ' | '.join(canon_error(guess_kind(l), l) for l in lines) + "]"

def canon_scenario(real_lines):
    """real_lines: list of raw lines of one scenario (without the scenario/end markers).
    Returns the list of canonical lines."""
    # group: each event line followed by its state lines
    groups = []
    for raw in real_lines:
        f = raw.split('\t')
        if f[0] == 'state':
            if groups:
                groups[-1][1].append(f)
        else:
            groups.append((f, []))
    out = []
    reasons = {}
    rc = RealCanon()
    for ev, states in groups:
        new_states = []
        new_reasons = dict(reasons)
        for f in states:
            line, r = rc.state_line(f)
            new_states.append(line)
            if r is not None:
                new_reasons[r[0]] = r[1]
        tag = ev[0]
        if tag == 'built':
            out.append('built')
        elif tag == 'build-panic':
            out.append('build-panic ' + canon_build_panic(unesc(ev[1])))
        elif tag == 'call':
            kind = ev[1]
            log = ev[3] if len(ev) > 3 else ''
            if kind == 'ret':
                out.append(f"call ret {ev[2]} log=[{log}]")
            elif kind == 'user-panic':
                out.append(f"call user-panic log=[{log}]")
            else:
                msg = unesc(ev[2])
                found = find_new_reason(reasons, new_reasons, msg)
                if not found and any(' dead' in x for x in new_states) and guess_kind(msg) not in ('Unknown', 'FailedVerification', 'MockNeverCalled'):
                    found = (guess_kind(msg), msg)
                if found:
                    out.append(f"call mock-panic {canon_error(*found)} log=[{log}]")
                elif is_teardown_msg(msg, reasons):
                    # a by-value call whose instance is verified when it is dropped after returning
                    out.append(f"call {canon_teardown_msg(msg, reasons)} log=[{log}]")
                else:
                    out.append(f"call other-panic {msg!r} log=[{log}]")
        elif tag == 'ok':
            out.append('ok')
        elif tag == 'unwound':
            log = ev[3] if len(ev) > 3 else ''
            if ev[1] == 'user':
                out.append(f"unwound user log=[{log}]")
            elif ev[1] == 'panic':
                msg = unesc(ev[2])
                found = find_new_reason(reasons, new_reasons, msg)
                if not found and any(' dead' in x for x in new_states) and guess_kind(msg) not in ('Unknown', 'FailedVerification', 'MockNeverCalled'):
                    found = (guess_kind(msg), msg)     # the mock is gone: no snapshot to look the error up in
                if found:
                    out.append(f"unwound mock-panic {canon_error(*found)} log=[{log}]")
                else:
                    out.append(f"unwound other-panic {msg!r} log=[{log}]")
            else:
                out.append('unwound ' + ' '.join(ev[1:]))
        elif tag == 'teardown':
            if ev[1] == 'ok':
                out.append('teardown ok')
            elif ev[1] == 'panic':
                out.append(canon_teardown_msg(unesc(ev[2]), reasons))
            else:
                out.append('teardown ' + ' '.join(ev[1:]))
        elif tag == 'exit':
            out.append(f"exit {ev[1]}")
        else:
            out.append(' '.join(ev))
        out.extend(new_states)
        reasons = new_reasons
    return out

def strip_args(line):
    return line

def canon_model_line(line):
    """model lines are canonical already; reduce `exit f [...]` to `exit f` (stderr is not captured)"""
    if line.startswith('exit '):
        return ' '.join(line.split(' ')[:2])
    # order= is not rendered by the real message for the 'wrong order' flavour
    m = re.match(r'^(.*CallOrderNotMatchedForMockFn \S+) order=\d+ (expected=(?!none).*)$', line)
    return line

_ORDER_RE = re.compile(r'(CallOrderNotMatchedForMockFn \S+) order=\d+ (expected=(?!none))')

_ERRS_RE = re.compile(r'^((?:call )?teardown errs \d+|exit [01]) \[(.*?)\](\s*log=\[.*\])?\s*$')

def normalise(line):
    """shared normalisation applied to both sides"""
    line = _ORDER_RE.sub(r'\1 \2', line)
    m = _ERRS_RE.match(line)
    if m:
        items = m.group(2).split(' | ') if m.group(2) else []
        if items and all(i.startswith('FailedVerification ') or i.startswith('MockNeverCalled ') for i in items):
            # the method table is a BTreeMap<TypeId, _>: methods come out in an arbitrary order,
            # the lines of one method keep their order
            items = sorted(items, key=lambda i: i.split(' ')[1])
            line = f"{m.group(1)} [{' | '.join(items)}]{m.group(3) or ''}"
    return line.rstrip()

def split_scenarios(text):
    """-> dict name -> list of lines"""
    out = {}
    order = []
    cur = None
    name = None
    for line in text.split('\n'):
        if line.startswith('scenario '):
            name = line[len('scenario '):].strip()
            cur = []
        elif line == 'end':
            if name is not None:
                out[name] = cur
                order.append(name)
            name = None
            cur = None
        elif cur is not None:
            cur.append(line)
    return out, order
