"""Configuration C: unimock built with neither `std` nor `spin-lock` (no Mutex API). /verif/harness_nomutex prints what happens when
returns() values are configured there. Rule (model-free, from C14's "fails immediately ... when a configured return cannot be
produced in the current feature set" and C17's shape clause): a value with an owned leaf configured through the single-use path
(some_call / next_call .. returns(v), unquantified) needs a slot that does not exist here -> Unimock::new must panic right away;
every other configuration constructs and reproduces the configured value on every call."""
import os, re, shutil, subprocess
from . import engine

HB = os.path.join(engine.VERIF, 'harness_nomutex')
EXE = os.path.join(HB, 'target', 'debug', 'verif-harness-nomutex')

# case -> (has an owned leaf?, the configured value as the harness prints it)
CASES = {
    'o_tok.some': (True, 'L1'), 'o_tok.some.once-then': (True, 'L1'), 'o_tok.next': (True, 'L1'), 'o_tok.each': (True, 'L1'), 'o_tok.n2': (True, 'L1'),
    'r_tok.some': (False, 'L1'), 's_opt.some': (False, 'S(L1)'),
    's_res.err.some': (True, 'E(L2)'), 's_res.ok.some': (False, 'O(L1)'), 's_res.err.each': (True, 'E(L2)'),
    'd_vec_res.mixed.some': (True, 'O(L1),E(L2),O(L3),E(L4)'), 'd_vec_res.err.next': (True, 'E(L7)'),
    'd_vec_res.oks.some': (False, 'O(L1),O(L2)'), 'd_vec_res.empty.some': (False, '[]'), 'd_vec_res.mixed.each': (True, 'O(L1),E(L2)'),
    'd_opt_res.err.some': (True, 'S(E(L2))'), 'd_opt_res.none.some': (False, 'N'),
}

def report(rep, prop):
    if not os.path.exists(os.path.join(HB, 'Cargo.lock')):
        shutil.copy('/repo/Cargo.lock', os.path.join(HB, 'Cargo.lock'))
    rc, out, err = engine.sh(['cargo', 'build', '--offline'], cwd=HB)
    if rc != 0:
        path = engine.write_replay(prop, 'build', (out + err)[-6000:], ["/verif/harness_nomutex no longer builds against /repo (default-features = false, features = [critical-section])"])
        rep.violation(path, "no-Mutex configuration of the harness does not build against /repo", no_input=True)
        return
    p = subprocess.run([EXE], capture_output=True, text=True, timeout=300)
    seen = {}
    for l in p.stdout.split('\n'):
        m = re.match(r'^case (\S+) (.*)$', l)
        if m:
            seen[m.group(1)] = m.group(2)
    if p.returncode != 0 or set(seen) != set(CASES):
        path = engine.write_replay(prop, 'toolerror', p.stdout[-2000:] + p.stderr[-2000:], ["harness_nomutex crashed or did not print every case"])
        rep.violation(path, f"no-Mutex harness failed (exit {p.returncode})", no_input=True)
        return
    shown = 0
    for name, (owned, val) in CASES.items():
        single_use = name.endswith(('.some', '.next', '.once-then'))
        got = seen[name]
        if owned and single_use:
            ok = got.startswith('new-panic:') and 'Mutex' in got
            want = "Unimock::new panics at once (the value cannot be produced without a Mutex API)"
        else:
            ok = got == 'ok ' + ' '.join([val] * 3)
            want = f"constructs and returns {val} on each of three calls"
        if not ok and shown < 2:
            shown += 1
            path = engine.write_replay(prop, 'spec', f"{EXE}   # case {name}\n", [f"property {prop} violated by the real code built without std and without spin-lock: case {name} of harness_nomutex/src/main.rs: observed `{got[:200]}`, required: {want}", "replay: run the binary above and read the line of that case"])
            rep.violation(path, f"no-Mutex build, case {name}: observed `{got[:160]}`; required: {want}")
    rep.coverage['nomutex_cases'] = len(CASES)
    rep.coverage['evaluations'] = rep.coverage.get('evaluations', 0) + len(CASES)
