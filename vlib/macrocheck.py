"""Macro correspondence: trait shapes -> real `#[unimock]` code generator (run as a library) vs the
Lean code-generation model, compared on extracted IR facts."""
import os, re, subprocess, itertools
from . import engine, canon
from .scn import Rng

MH = os.path.join(engine.VERIF, 'macroharness')
MACROLIB = os.path.join(MH, 'target', 'debug', 'verif-macroharness')
DRIVER = os.path.join(engine.LEAN, '.lake', 'build', 'bin', 'driver')

TY = {'own': 'u32', 'ref': '&u32', 'refref': '&&u32', 'mut': '&mut u32', 'imp': "&mut Vec<&'static u32>", 'slice': '&[u32]', 'mutdyn': '&mut dyn core::fmt::Debug', 'mutst': "&'static mut u32", 'mutgu': '&mut U',
      'gt': 'T', 'gu': 'U', 'impl': "impl Into<u32> + 'static"}   # gt: the trait's type parameter, gu: the method's, impl: an impl-Trait parameter
RECV = {'ref': '&self', 'mut': '&mut self', 'own': 'self', 'rc': 'self: Rc<Self>', 'arc': 'self: Arc<Self>', 'pin': 'self: Pin<&mut Self>',
        'tref': 'self: &Self', 'tmut': 'self: &mut Self'}   # longhand spellings: classified like an owned receiver by the macro

class Method:
    def __init__(self, name, recv, params, is_async=False, rpit=False, default=False, unmock=('none',), mgen=False):
        self.name, self.recv, self.params, self.is_async, self.rpit, self.default, self.unmock = name, recv, params, is_async, rpit, default, unmock
        self.mgen = mgen or ('gu' in params) or ('mutgu' in params)     # the method declares `<U: 'static>`

class Trait:
    def __init__(self, ident, name, api, methods, tgen=False):
        self.ident, self.name, self.api, self.methods = ident, name, api, methods   # api: ('mod', 'TMock') | ('flat',) | ('hidden',)
        self.tgen = tgen or any('gt' in m.params for m in methods if m.recv != 'static')   # the trait declares `<T: 'static>`
    def attr(self):
        parts = []
        if self.api[0] == 'mod':
            parts.append(f"api={self.api[1]}")
        elif self.api[0] == 'flat':
            parts.append("api=[" + ', '.join(f"Flat_{m.name}" for m in self.methods) + "]")
        if any(m.unmock[0] != 'none' for m in self.methods):
            items = []
            for m in self.methods:
                if m.unmock[0] == 'none': items.append('_')
                elif m.unmock[0] == 'path': items.append(m.unmock[1])
                else: items.append(f"{m.unmock[1]}({', '.join(m.unmock[2])})")
            parts.append("unmock_with=[" + ', '.join(items) + "]")
        return ', '.join(parts)
    def source(self):
        ms = []
        for m in self.methods:
            if m.recv == 'static':
                ms.append(f"fn {m.name}(x: u32) -> u32 {{ x }}")
                continue
            ps = ', '.join([RECV[m.recv]] + [f"p{i}: {TY[c]}" for i, c in enumerate(m.params)])
            g = "<U: 'static>" if m.mgen else ''
            if m.rpit:
                sig = f"fn {m.name}{g}({ps}) -> impl Future<Output = u32>"
                body = " { async { 0 } }" if m.default else ";"
            else:
                sig = f"{'async ' if m.is_async else ''}fn {m.name}{g}({ps}) -> u32"
                body = " { 0 }" if m.default else ";"
            ms.append(sig + body)
        tg = "<T: 'static>" if self.tgen else ''
        return f"trait {self.name}{tg} {{ " + ' '.join(ms) + " }"
    def shape(self):
        api = {'mod': lambda: f"mod:{self.api[1]}", 'flat': lambda: 'flat', 'hidden': lambda: 'hidden'}[self.api[0]]()
        out = f"shape {self.ident} trait={self.name} api={api} tgen={int(self.tgen)}"
        for m in self.methods:
            if m.recv == 'static':
                continue
            um = 'none' if m.unmock[0] == 'none' else (f"path@{m.unmock[1]}" if m.unmock[0] == 'path' else f"listed@{m.unmock[1]}@{';'.join(m.unmock[2])}")
            k = 0; plist = []
            for i, c in enumerate(m.params):
                if c == 'impl':
                    plist.append(f"p{i}:impl{k}"); k += 1
                else:
                    plist.append(f"p{i}:{c}")
            params = ','.join(plist)
            out += f" | m name={m.name} recv={m.recv} async={int(m.is_async)} rpit={int(m.rpit)} default={int(m.default)} unmock={um} params={params} mgen={int(m.mgen)} flat=Flat_{m.name}"
        return out
    def macro_input(self):
        return f"item {self.ident}\nattr {self.attr()}\ntrait {self.source()}\nend\n"

def build_macrolib():
    lock = os.path.join(MH, 'Cargo.lock')
    if not os.path.exists(lock):
        import shutil; shutil.copy('/repo/Cargo.lock', lock)
    rc, out, err = engine.sh(['cargo', 'build', '--offline'], cwd=MH)
    return rc == 0, (out + err)[-6000:]

def filter_real(lines):
    """keep the facts the model speaks about"""
    out = []
    for l in lines:
        if l.startswith('mockfn '):
            m = re.match(r'^mockfn (\S+) inputs=(.*?) kind=.*? answer=(.*?) path=(\S+) default_impl=(\d)$', l)
            if m:
                out.append(f"mockfn {m.group(1)} inputs={m.group(2)} answer={m.group(3)} path={m.group(4)} default_impl={m.group(5)}")
            else:
                out.append(l)
        elif l.startswith(('mod ', 'struct ', 'impl ')):
            continue
        else:
            out.append(l)
    return out

def run_both(traits):
    mi = ''.join(t.macro_input() for t in traits)
    p = subprocess.run([MACROLIB], input=mi, capture_output=True, text=True, timeout=1200)
    if p.returncode != 0:
        raise RuntimeError(f"macrolib exited {p.returncode}: {p.stderr[-1500:]}")
    real = parse_items(p.stdout)
    si = '\n'.join(t.shape() for t in traits) + '\n'
    m = subprocess.run([DRIVER], input=si, capture_output=True, text=True, timeout=1200)
    model = parse_items(m.stdout)
    return real, model

def parse_items(text):
    out = {}
    cur = None
    for line in text.split('\n'):
        if line.startswith('item '):
            cur = line[5:].strip(); out[cur] = []
        elif line == 'end':
            cur = None
        elif cur is not None:
            out[cur].append(line)
    return out

def method_blocks(lines):
    """split fact lines into {(target, method): [facts]} plus mockfn lines"""
    blocks = {}
    key = None
    for l in lines:
        m = re.match(r'^ fn (\w+) target=(\w+)', l)
        if m:
            key = (m.group(2), m.group(1)); blocks[key] = [l]
        elif l.startswith('mockfn '):
            key = ('mockfn', l.split(' ')[1]); blocks[key] = [l]
        elif key is not None:
            blocks[key].append(l)
    return blocks
