"""Generic runtime correspondence check: scenarios -> real trace vs model trace, per-property projections."""
import glob, os, re, time, collections
from . import engine, run, scn, canon

def _state_counts(state_line):
    """reduce a state line to what properties speak about: per pattern count"""
    m = re.search(r'fns=(.*)$', state_line)
    if not m:
        return state_line
    fns = []
    for fn in m.group(1).split(' '):
        if not fn:
            continue
        head, _, pats = fn.partition(':[')
        hp = head.split(':')
        name = hp[0] + '::' + hp[2] if len(hp) > 2 else hp[0]
        counts = [p.split('/')[0] for p in pats.rstrip(']').split(';') if p]
        fns.append(f"{name}[{','.join(counts)}]")
    nxt = re.search(r'next=(\d+)', state_line)
    return f"counts next={nxt.group(1) if nxt else '?'} " + ' '.join(fns)

def proj_outcomes_and_counts(lines):
    """event outcomes + per-pattern counts + ordered index (what C01-C04, C07 determine)"""
    out = []
    for l in lines:
        if l.startswith('state '):
            if 'dead' in l.split(' ')[2:3]:
                out.append(l)
            else:
                out.append(_state_counts(l))
        else:
            out.append(l)
    return out

def proj_full(lines):
    return list(lines)

class RuntimeCheck:
    prop = 'C00'
    theorems = []
    design_ref = ''
    def profiles(self, tier):
        """-> list of (label, Profile, n_scenarios)"""
        raise NotImplementedError
    def exhaustive(self, tier):
        """-> iterable of (label, scenario_text) enumerating a finite family completely (optional)"""
        return []
    def spec_proj(self, lines):
        return proj_outcomes_and_counts(lines)
    def tie_proj(self, lines):
        return proj_full(lines)
    def nontrivial(self, name, text, real_lines):
        return True
    def rule(self):
        return ''
    def extra_assumptions(self):
        return []
    def known_findings(self):
        return []
    def judge(self, name, text, real_lines):
        """property oracle evaluated on the real trace alone (independent of the model);
        returns None if fine, else a one-line description"""
        return None
    def judge_pairs(self, order, texts, real):
        """relational oracle over several real traces; returns list of (name, description)"""
        return []

    # -------------------------------------------------------------------------------------
    def compare_text(self, text):
        """-> (order, mismatches: list of (name, kind, detail)) where kind in {'spec','tie'}"""
        order, real, model = run.traces(text)
        mism = []
        texts = scn.split_text(text)
        judged = set()
        for n in order:
            j = self.judge(n, texts.get(n, ''), real[n])
            if j:
                mism.append((n, 'spec', (j, 'property oracle on the real trace')))
                judged.add(n)
        for (n, desc) in self.judge_pairs(order, texts, real):
            if n not in judged:
                mism.append((n, 'spec', (desc, 'relational property oracle on real traces')))
                judged.add(n)
        for n in order:
            if n in judged:
                continue
            r, m = real[n], model[n]
            if self.tie_proj(r) != self.tie_proj(m):
                kind = 'spec' if self.spec_proj(r) != self.spec_proj(m) else 'tie'
                detail = first_diff(self.spec_proj(r) if kind == 'spec' else self.tie_proj(r),
                                    self.spec_proj(m) if kind == 'spec' else self.tie_proj(m))
                mism.append((n, kind, detail))
        return order, real, model, mism

    def fails(self, kind):
        def f(text):
            try:
                _, _, _, mism = self.compare_text(text)
            except Exception:
                return False
            return any(k == kind or (kind == 'tie' and k in ('tie', 'spec')) for _, k, _ in mism)
        return f

    def run(self, tier, seed, replay=None):
        rep = engine.Report(self.prop, tier, seed)
        rep.assumptions = ["every atomic/lock operation is a sequentially consistent atomic step",
                           "the universe of mocked traits in /verif/harness/src/universe.rs is representative of #[unimock] output for &self methods with one u8 argument (macro output itself is the subject of C05/C15/C16)"] + self.extra_assumptions()
        engine.lean_obligations(self.prop, self.theorems, rep, thorough=(tier == 'thorough'))
        self.explore(rep, tier, seed, replay)
        if not replay:
            self.extra(rep, tier, seed)
        return rep.finish()

    def extra(self, rep, tier, seed):
        pass

    def explore(self, rep, tier, seed, replay=None, merge=False):
        """run the runtime correspondence and add violations / coverage to `rep`"""
        from . import gen_runtime
        ok, log = engine.build_harness(['replay'])
        if not ok:
            path = engine.write_replay(self.prop, 'build', log + '\n', ["the correspondence harness no longer builds against /repo (hooks or API changed)"])
            rep.violation(path, "correspondence harness does not build against /repo", no_input=True)
            rep.coverage.update({'evaluations': 0, 'distinct_nontrivial': 0, 'rule': self.rule(), 'samples': []})
            return
        total = 0
        nontriv = set()
        samples = []
        hist = collections.Counter()
        mismatches = []   # (name, kind, detail, text)
        exhaustive_done = False
        batches = []
        if replay:
            batches.append(('replay', open(replay).read()))
        else:
            for f in sorted(glob.glob(os.path.join(engine.VERIF, 'corpus', self.prop, '*.txt'))):
                batches.append(('corpus:' + os.path.basename(f), open(f).read()))
            for label, text in self.exhaustive(tier):
                batches.append((label, text))
                exhaustive_done = True
            for k, (label, prof, n) in enumerate(self.profiles(tier)):
                batches.append((label, gen_runtime.gen_batch(seed * 1000003 + k, prof, n, prefix=label + '_')))
        for label, text in batches:
            texts = scn.split_text(text)
            try:
                order, real, model, mism = self.compare_text(text)
            except Exception as e:
                path = engine.write_replay(self.prop, 'toolerror', text[:20000], [f"batch {label}: tool error {e!r}"])
                rep.violation(path, f"correspondence run crashed on batch {label}: {e!r}"[:300], no_input=True)
                continue
            total += len(order)
            for n in order:
                for l in real[n]:
                    if not l.startswith('state '):
                        hist[event_class(l)] += 1
                if self.nontrivial(n, texts.get(n, ''), real[n]):
                    nontriv.add(hash(tuple(l for l in real[n] if not l.startswith('state '))) ^ hash(texts.get(n, '').split('\n', 1)[-1]))
                    if len(samples) < 3 and len(texts.get(n, '')) < 1500:
                        samples.append({'scenario': texts[n].strip().split('\n'), 'real_trace': [l for l in real[n] if not l.startswith('state ')]})
            for (n, kind, detail) in mism:
                mismatches.append((n, kind, detail, texts.get(n, '')))
        # ---------------------------------------------------------------- classification
        spec = [m for m in mismatches if m[1] == 'spec']
        tie = [m for m in mismatches if m[1] == 'tie']
        known = self.known_findings()
        reported = 0
        for (n, kind, detail, text) in spec[:3]:
            small = scn.shrink(text, self.fails('spec'))
            _, _, _, mm = self.compare_text(small)
            d = mm[0][2] if mm else detail
            sig = finding_signature(small, d)
            kf = next((k for k in known if k['match'](small, d)), None)
            if kf:
                rep.known.append(kf['text'])
                continue
            path = engine.write_replay(self.prop, 'spec', small, [
                f"property {self.prop} violated by the real code on this scenario (seed {seed}, tier {tier}, from {n})",
                f"real : {d[0]}", f"model: {d[1]}", "the model side is proved to satisfy the property's spec; the real code differs on the projection the property determines",
                f"replay: ./check {self.prop} --replay <this file>"])
            rep.violation(path, f"real code deviates from the property on scenario {n}: real `{d[0]}` vs required `{d[1]}`"[:400])
            reported += 1
        if not spec and tie:
            (n, kind, detail, text) = tie[0]
            small = scn.shrink(text, self.fails('tie'))
            path = engine.write_replay(self.prop, 'tie', small, [
                f"correspondence model<->code broken for {self.prop} (seed {seed}, tier {tier}, from {n}); no scenario was found on which the property's own projection differs",
                f"real : {detail[0]}", f"model: {detail[1]}",
                f"correspondence: runtime trace equality (vlib/rtcheck.py tie_proj) against Unimock.Driver over lean/Unimock/Model/*.lean"])
            rep.violation(path, f"model/code correspondence broken on {n} ({len(tie)} scenarios), property projection intact", no_input=True)
        cov = {
            'evaluations': total,
            'distinct_nontrivial': len(nontriv),
            'rule': self.rule(),
            'samples': samples,
            'traces_validated_against_impl': total,
            'disagreements_checked': len(mismatches),
            'exhaustive': exhaustive_done,
            'event_histogram': dict(hist.most_common()),
            'spec_mismatches': len(spec), 'tie_only_mismatches': len(tie),
            'explanation': "theorems checked by the Lean kernel (obligations/discharged); the model they are about is run side by side with the real crate on every scenario and compared event by event, state snapshot by state snapshot",
        }
        if merge:
            rep.coverage['runtime'] = {k: cov[k] for k in ('evaluations', 'distinct_nontrivial', 'event_histogram', 'spec_mismatches', 'tie_only_mismatches')}
            rep.coverage['evaluations'] = rep.coverage.get('evaluations', 0) + total
            rep.coverage['distinct_nontrivial'] = rep.coverage.get('distinct_nontrivial', 0) + len(nontriv)
            rep.coverage['traces_validated_against_impl'] = total
        else:
            rep.coverage.update(cov)

def event_class(l):
    toks = l.split(' ')
    if toks[0] == 'call':
        if toks[1] == 'mock-panic':
            return 'call mock-panic ' + toks[2]
        return 'call ' + toks[1]
    if toks[0] == 'teardown':
        return 'teardown ' + toks[1]
    if toks[0] == 'build-panic':
        return 'build-panic ' + toks[1]
    return toks[0] + ((' ' + toks[1]) if toks[0] == 'exit' and len(toks) > 1 else '')

def first_diff(a, b):
    for x, y in zip(a, b):
        if x != y:
            return (x, y)
    if len(a) != len(b):
        return (f"<{len(a)} lines>", f"<{len(b)} lines>")
    return ('', '')

def finding_signature(text, detail):
    return detail
