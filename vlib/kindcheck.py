"""Which OutputKind the real #[unimock] attribute assigns to a return type, against the Lean model
(Model/Codegen/OutputKind.lean: `determine`, `toKind`).

Types are generated over the grammar  n | &T | &'static T | &'s T | &'p T | &'u T | &mut T | Option<T> | Result<T,E> |
Vec<T> | Poll<T> | Box<T> | (T, U[, V]) ; all of them up to depth 2 and a seeded sample of depth 3..4.
The real macro is run as a library on a trait with one method per type; the `type OutputKind = …` it prints is compared
token for token with the model's rendering, and the model's reading of it as a run-time kind (`toKind`) is cross-checked
against the independent reading of c17.kind_sexpr.
"""
import os, re, subprocess
from . import engine, macrocheck as mc
from .scn import Rng

DRIVER = os.path.join(engine.LEAN, '.lake', 'build', 'bin', 'driver')

LTS = {'e': '', 's': "'static ", 'l': "'s ", 'p': "'p ", 'u': "'u "}

def rust(t):
    """model encoding -> Rust source"""
    k = t[0]
    if k == 'n':
        return 'Tok'
    if k == 'r':
        return '&' + LTS[t[1]] + ('mut ' if t[2] == 'm' else '') + rust(t[3])
    if k == 't':
        return '(' + ', '.join(rust(x) for x in t[1]) + ')'
    name = {'o': 'Option', 'x': 'Result', 'v': 'Vec', 'q': 'Poll', 'g': 'Box'}[k]
    return name + '<' + ', '.join(rust(x) for x in t[1]) + '>'

def enc(t):
    k = t[0]
    if k == 'n':
        return 'n'
    if k == 'r':
        return f"r{t[1]}{t[2]}({enc(t[3])})"
    if k == 'g':
        return 'gBox(' + ','.join(enc(x) for x in t[1]) + ')'
    return k + '(' + ','.join(enc(x) for x in t[1]) + ')'

def all_types(depth):
    """every type of nesting depth <= depth (depth 0 = Tok); references only with the elided lifetime below depth 1"""
    if depth == 0:
        return [('n',)]
    sub = all_types(depth - 1)
    out = [('n',)]
    for s in sub:
        for lt in 'eslpu':
            out.append(('r', lt, 'i', s))
        out.append(('r', 'e', 'm', s))
        for c in 'ovqg':
            out.append((c, [s]))
    small = sub if len(sub) <= 12 else sub[:12]
    for a in small:
        for b in small:
            out.append(('x', [a, b]))
            out.append(('t', [a, b]))
    return out

def random_type(rng, depth):
    if depth == 0 or rng.below(5) == 0:
        return ('n',)
    c = rng.below(10)
    if c < 3:
        return ('r', 'eeeslpu'[rng.below(7)], 'm' if rng.below(8) == 0 else 'i', random_type(rng, depth - 1))
    if c == 3:
        return ('o', [random_type(rng, depth - 1)])
    if c == 4:
        return ('v', [random_type(rng, depth - 1)])
    if c == 5:
        return ('q', [random_type(rng, depth - 1)])
    if c == 6:
        return ('g', [random_type(rng, depth - 1)])
    if c == 7:
        return ('x', [random_type(rng, depth - 1), random_type(rng, depth - 1)])
    n = 2 + rng.below(2)
    return ('t', [random_type(rng, depth - 1) for _ in range(n)])

def run(tier, seed):
    from .checks.c17 import kind_sexpr
    types = all_types(2)
    rng = Rng(seed * 7919 + 17)
    seen = set(enc(t) for t in types)
    for _ in range(1500 if tier == 'quick' else 20000):
        t = random_type(rng, 3 + rng.below(2))
        e = enc(t)
        if e not in seen:
            seen.add(e)
            types.append(t)
    res = {'types': len(types), 'mismatches': [], 'kind_mismatches': [], 'error': None, 'hist': {}, 'macro_rejected': 0}
    ok, log = mc.build_macrolib()
    if not ok:
        res['error'] = 'macro harness does not build: ' + log[-800:]
        return res
    # the macro is run on chunks of methods; a chunk the macro rejects is bisected down to single methods
    def run_chunk(idx):
        body = ' '.join(f"fn m{i}<'s, 'p>(&'s self, p: &'p Tok) -> {rust(types[i])};" for i in idx)
        inp = f"item k\nattr api=KMock\ntrait pub trait KT<'u> {{ {body} }}\nend\n"
        p = subprocess.run([mc.MACROLIB], input=inp, capture_output=True, text=True, timeout=600)
        got = {}
        for l in p.stdout.split('\n'):
            m = re.match(r'^mockfn KMock::m(\d+) inputs=.*? kind=(\S+) answer=', l)
            if m:
                got[int(m.group(1))] = m.group(2)
        return p.returncode, got, p.stdout[-400:] + p.stderr[-400:]
    real = {}
    work = [list(range(i, min(i + 200, len(types)))) for i in range(0, len(types), 200)]
    while work:
        idx = work.pop()
        rc, got, log = run_chunk(idx)
        if len(got) == len(idx):
            real.update(got)
        elif len(idx) == 1:
            real[idx[0]] = None
            res['macro_rejected'] += 1
        else:
            h = len(idx) // 2
            work.append(idx[:h]); work.append(idx[h:])
    inp = ''.join(f"kindcase {i} ty={enc(t)}\n" for i, t in enumerate(types))
    m = subprocess.run([DRIVER], input=inp, capture_output=True, text=True, timeout=600)
    model = mc.parse_items(m.stdout)
    for i, t in enumerate(types):
        r = real.get(i)
        mo = (model.get(str(i)) or ['?'])[0].split(' ')
        if r is None:
            continue
        if len(mo) != 3:
            res['mismatches'].append((rust(t), r, ' '.join(mo)))
            continue
        mkind = mo[1]
        top = re.match(r'^::unimock::output::(\w+)<', r)
        res['hist'][top.group(1) if top else '?'] = res['hist'].get(top.group(1) if top else '?', 0) + 1
        if mkind != r:
            res['mismatches'].append((rust(t), r, mkind))
            continue
        py = kind_sexpr(r)
        lean = mo[2]
        if lean != 'none' and py != lean:
            res['kind_mismatches'].append((rust(t), r, lean, py))
    return res

def report(rep, tier, seed, prop='C17'):
    r = run(tier, seed)
    rep.coverage['kind_assignment'] = {k: v for k, v in r.items() if k in ('types', 'hist', 'macro_rejected')}
    rep.coverage['kind_assignment']['rule'] = ("return types over n | &T (5 lifetime classes, &mut) | Option | Result | Vec | Poll | Box | tuples: all of depth <= 2 "
                                               "and a seeded sample of depth 3-4; real macro (library call) vs Model/Codegen/OutputKind.determine, token for token; "
                                               "toKind cross-checked against an independent reading of the real kind string")
    if r['error']:
        path = engine.write_replay(prop, 'kinds_build', r['error'] + '\n', ["the kind-assignment comparison could not run"])
        rep.violation(path, "macro harness does not build against /repo", no_input=True)
        return
    if r['mismatches']:
        body = ''.join(f"fn m<'s,'p>(&'s self, p: &'p Tok) -> {t};\n  real macro : {a}\n  Lean model : {b}\n" for t, a, b in r['mismatches'][:20])
        path = engine.write_replay(prop, 'kinds_tie', body, ["Model/Codegen/OutputKind.lean and the real attribute assign different output kinds to these return types",
                                                            "(the compiled composite cases did not show a value that comes back different)"])
        rep.violation(path, f"output-kind assignment of the macro differs from the model on {len(r['mismatches'])} return types, e.g. {r['mismatches'][0][0]}", no_input=True)
        return
    if r['kind_mismatches']:
        body = ''.join(f"{t}: real {a}; Lean toKind {b}; independent reading {c}\n" for t, a, b, c in r['kind_mismatches'][:20])
        path = engine.write_replay(prop, 'kinds_read', body, ["toKind (Lean) and the independent reading of the macro's kind string disagree"])
        rep.violation(path, "two readings of the macro's OutputKind disagree", no_input=True)
