"""Concurrency checks: all interleavings of concurrent calls on the real library under the controlled
scheduler, compared per schedule with the Lean interleaving model and judged by a model-free
linearizability oracle (real concurrent run must equal some real sequential run)."""
import os, re, subprocess, collections
from . import engine, canon, scn

SCHED = os.path.join(engine.HARNESS, 'target', 'debug', 'sched')
DRIVER = os.path.join(engine.LEAN, '.lake', 'build', 'bin', 'driver')

def par_scenario(name, mode, tree, threads, shared=False):
    out = [f"scenario {name}", f"build i=0 t=0 mode={mode}"] + scn.tree_lines(tree)
    out.append(f"par threads={len(threads)} shared={1 if shared else 0}")
    for k, calls in enumerate(threads):
        for (m, a) in calls:
            out.append(f"tcall k={k} m={m} a={a}")
    out.append('end')
    return '\n'.join(out) + '\n'

def canon_verdict(raw):
    if raw in ('ok', 'user'):
        return raw
    msg = canon.unesc(raw)
    lines = msg.split('\n')
    items = [canon.canon_error(canon.guess_kind(l), l) for l in lines if l != '']
    return ' | '.join(items)

def sort_verdict(v):
    items = v.split(' | ')
    if all(i.startswith('FailedVerification ') or i.startswith('MockNeverCalled ') for i in items):
        items = sorted(items, key=lambda i: i.split(' ')[1])
    return ' | '.join(items)

LINE_RE = re.compile(r'^(sched|seq) (\S*) (?:picks=(\S*) tags=(\S*) )?outs=(\S*) next=(\d+) counts=(.*?) reasons=(\S*) verdict=(.*)$')

def parse_line(l, real):
    m = LINE_RE.match(l)
    if not m:
        return None
    v = m.group(9)
    unfinished = v.endswith(' UNFINISHED')
    if unfinished:
        v = v[:-len(' UNFINISHED')]
    v = canon_verdict(v) if real else v
    v = canon.normalise('teardown errs 0 [' + v + ']')[len('teardown errs 0 ['):-1] if v not in ('ok', 'user') else v
    return {'kind': m.group(1), 'choices': m.group(2), 'picks': m.group(3), 'tags': m.group(4), 'outs': m.group(5),
            'next': int(m.group(6)), 'counts': m.group(7), 'reasons': m.group(8), 'verdict': sort_verdict(v), 'unfinished': unfinished}

def run_real(text, cap, nrandom, seed, stress=0, exe=None):
    env = dict(os.environ, SCHED_CAP=str(cap), SCHED_RANDOM=str(nrandom), VERIF_SEED=str(seed), SCHED_STRESS=str(stress))
    p = subprocess.run([exe or SCHED], input=text, capture_output=True, text=True, env=env, timeout=3000)
    if p.returncode != 0:
        raise RuntimeError(f"sched exited {p.returncode}: {p.stderr[-1500:]}")
    return canon.split_scenarios(p.stdout)

def run_model(text_with_schedules):
    p = subprocess.run([DRIVER], input=text_with_schedules, capture_output=True, text=True, timeout=3000)
    if p.returncode != 0:
        raise RuntimeError(f"driver exited {p.returncode}: {p.stderr[-1500:]}")
    return canon.split_scenarios(p.stdout)

def seq_key(r, with_outs=True):
    # the error log is ordered by the moment each error was pushed, which is not the order of the calls'
    # linearisation points; C10 speaks about the verdict, so lines are compared as a multiset
    return (r['outs'] if with_outs else '', r['next'], r['counts'], r['reasons'], ' | '.join(sorted(r['verdict'].split(' | '))))

def outs_multiset(r):
    return tuple(sorted(o for t in r['outs'].split('|') for o in t.split(',') if o))

class ParCheck:
    prop = 'C10'
    theorems = []
    def scenarios(self, tier, seed):
        raise NotImplementedError
    def caps(self, tier):
        return (3000, 100) if tier == 'quick' else (50000, 2000)
    def rule(self):
        return ''
    def judge(self, name, sched_res, seq_results):
        """model-free oracle; default: linearizability w.r.t. whole calls"""
        keys = set(seq_key(r) for r in seq_results)
        if seq_key(sched_res) not in keys:
            return "concurrent run equals no sequential run of the same calls (per-thread outcomes, counters, ordered index, recorded errors, verdict)"
        # the reference runs are produced by the same build: a rejected call must also show in the verdict (std builds)
        if any(o.startswith('err:') for t in sched_res['outs'].split('|') for o in t.split(',')) and sched_res['verdict'] == 'ok':
            return "a call was rejected with a mock-induced error, yet the verification after joining the threads passed"
        return None

    def run(self, tier, seed, replay=None):
        rep = engine.Report(self.prop, tier, seed)
        rep.assumptions = ["each instrumented operation (AtomicUsize method, lock acquisition, OnceCell::try_insert) is one sequentially consistent atomic step; weak-memory reorderings are outside the model",
                           "the controlled scheduler preempts only at cfg(unimock_verif) yield points, which sit immediately before every such operation"]
        engine.lean_obligations(self.prop, self.theorems, rep, thorough=(tier == 'thorough'))
        self.explore_into(rep, tier, seed, replay)
        self.extra(rep, tier, seed)
        return rep.finish()

    def explore_into(self, rep, tier, seed, replay=None, merge=False):
        """all schedules of this check's scenarios on the real crate, replayed on the interleaving model and judged; added to `rep`"""
        ok, log = engine.build_harness(['sched'])
        if not ok:
            path = engine.write_replay(self.prop, 'build', log + '\n', ["the scheduler harness no longer builds against /repo (hooks or API changed)"])
            rep.violation(path, "scheduler harness does not build against /repo", no_input=True)
            rep.coverage.update({'evaluations': 0, 'distinct_nontrivial': 0, 'rule': self.rule(), 'samples': []})
            return
        cap, nrandom = self.caps(tier)
        if replay:
            text = ''.join(l for l in open(replay) if not l.startswith('#') and not l.startswith('schedule '))
            scen = scn_split(text)
        else:
            scen = self.scenarios(tier, seed)
        text = ''.join(t for _, t in scen)
        try:
            real, order = run_real(text, cap, nrandom, seed)
        except Exception as e:
            path = engine.write_replay(self.prop, 'toolerror', text[:20000], [f"sched run failed: {e!r}"])
            rep.violation(path, f"scheduler run crashed: {e!r}"[:300], no_input=True)
            rep.coverage.update({'evaluations': 0, 'distinct_nontrivial': 0, 'rule': self.rule(), 'samples': []})
            return
        texts = dict(scen)
        # model input: scenario + schedules explored by the real run
        model_in = []
        parsed = {}
        for n in order:
            lines = real[n]
            rs = [parse_line(l, True) for l in lines if l.startswith(('sched ', 'seq '))]
            parsed[n] = [r for r in rs if r]
            body = texts[n].rstrip('\n').split('\n')
            body = body[:-1] + [f"schedule {r['choices']}" for r in parsed[n] if r['kind'] == 'sched'] + ['end']
            model_in.append('\n'.join(body) + '\n')
        model, _ = run_model(''.join(model_in))
        total = 0
        switched = 0
        exhaustive_all = True
        samples = []
        spec_bad = []
        tie_bad = []
        tagseqs = collections.Counter()
        for n in order:
            seqs = [r for r in parsed[n] if r['kind'] == 'seq']
            scheds = [r for r in parsed[n] if r['kind'] == 'sched']
            mrs = [parse_line(l, False) for l in model.get(n, []) if l.startswith('sched ')]
            if not any(l.startswith('explored') and 'exhaustive=true' in l for l in real[n]):
                exhaustive_all = False
            for i, r in enumerate(scheds):
                total += 1
                picks = r['picks'].split(',')
                if any(picks[j] != picks[j + 1] for j in range(len(picks) - 1)):
                    switched += 1
                tagseqs[r['tags']] += 1
                j = self.judge(n, r, seqs)
                if j:
                    spec_bad.append((n, r, j))
                    continue
                m = mrs[i] if i < len(mrs) else None
                if m is None or m['unfinished'] or any(r[k] != m[k] for k in ('picks', 'tags', 'outs', 'next', 'counts', 'reasons', 'verdict')):
                    d = next(((k, r[k], m[k]) for k in ('picks', 'tags', 'outs', 'next', 'counts', 'reasons', 'verdict') if m and r[k] != m[k]), ('model', 'missing/unfinished', ''))
                    tie_bad.append((n, r, d))
            if len(samples) < 3 and scheds:
                samples.append({'scenario': texts[n].strip().split('\n'), 'one_schedule': {k: scheds[len(scheds) // 2][k] for k in ('choices', 'picks', 'tags', 'outs', 'verdict')}, 'schedules_explored': len(scheds), 'sequential_runs': len(seqs)})
        for (n, r, j) in spec_bad[:2]:
            body = texts[n].rstrip('\n').split('\n')
            body = '\n'.join(body[:-1] + [f"schedule {r['choices']}", 'end']) + '\n'
            path = engine.write_replay(self.prop, 'spec', body, [
                f"property {self.prop} violated by the real code under this schedule (picks {r['picks']})",
                f"oracle: {j}", f"real outcome: outs={r['outs']} next={r['next']} counts={r['counts']} reasons={r['reasons']} verdict={r['verdict']}",
                f"replay: ./check {self.prop} --replay <this file> (the scheduler re-explores the scenario; the schedule above is among the explored ones)"])
            rep.violation(path, f"scenario {n}, schedule picks={r['picks']}: {j}; outs={r['outs']} counts={r['counts']}"[:400])
        if not spec_bad and tie_bad:
            (n, r, d) = tie_bad[0]
            body = texts[n].rstrip('\n').split('\n')
            body = '\n'.join(body[:-1] + [f"schedule {r['choices']}", 'end']) + '\n'
            path = engine.write_replay(self.prop, 'tie', body, [
                f"correspondence between the real atomic-step sequence and Unimock.Model.Interleave broken ({len(tie_bad)} schedules); every concurrent run still equals a sequential run",
                f"field {d[0]}: real `{d[1]}` vs model `{d[2]}`"])
            rep.violation(path, f"interleaving model/code correspondence broken on {n} (field {d[0]}: real `{d[1]}` vs model `{d[2]}`)"[:400], no_input=True)
        # stress
        stress_info = None
        if not replay:
            stress_info = self.stress(tier, seed, rep)
        if merge:
            rep.coverage['interleavings'] = {'schedules': total, 'with_context_switch': switched, 'scenarios': len(order), 'exhaustive': exhaustive_all}
            rep.coverage['evaluations'] = rep.coverage.get('evaluations', 0) + total
            rep.coverage['distinct_nontrivial'] = rep.coverage.get('distinct_nontrivial', 0) + switched
            return
        rep.coverage.update({
            'evaluations': total, 'distinct_nontrivial': switched,
            'rule': self.rule(), 'samples': samples, 'traces_validated_against_impl': total,
            'disagreements_checked': len(spec_bad) + len(tie_bad), 'exhaustive': exhaustive_all,
            'scenarios': len(order), 'distinct_tag_sequences': len(tagseqs), 'stress': stress_info,
            'explanation': "theorems about arbitrary interleavings of the runtime's atomic actions checked by the Lean kernel; every schedule explored on the real crate is replayed on the model and judged by a model-free linearizability oracle",
        })

    def extra(self, rep, tier, seed):
        pass

    def stress(self, tier, seed, rep):
        return None

def scn_split(text):
    d = scn.split_text(text)
    return list(d.items())
