from ..rtcheck import RuntimeCheck, proj_outcomes_and_counts
from ..gen_runtime import Profile
from .. import scn
from ..scn import Pat, seg, term, stub, tup
import itertools

class Check(RuntimeCheck):
    prop = 'C01'
    design_ref = 'DESIGN.md §4.3, §5 C01'
    theorems = ['C01_first_match_answers', 'C01_no_match', 'C01_frame', 'C01_selected_counted',
                'C01_choice_ignores_history', 'C01_other_methods_irrelevant', 'filterMapped_is_scan', 'C01_source_scan_is_model_scan', 'C01_source_match_inputs', 'C01_source_unordered_is_model', 'C01_source_count_bump']

    def rule(self):
        return ("exhaustive: every list of 1..3 unordered patterns of one method (some_call/each_call/stub in every "
                "declaration order) with every accept-mask over a 3-value argument domain, every history of <=3 calls "
                "(quick) / <=4 (thorough); random: clause sets over up to 6 methods with nested tuples, chains, clones; the exhaustive part and a random batch also on unimock built without std "
                "(spin-lock + critical-section). non-trivial = some call whose arguments are accepted by >=2 patterns of the called method, or by none")

    def exhaustive(self, tier):
        # all mask triples over a 3-value domain, pattern kinds cycling, every history up to L
        L = 3 if tier == 'quick' else 4
        npat_max = 3
        out = []
        k = 0
        for npat in range(1, npat_max + 1):
            for masks in itertools.product(range(8), repeat=npat):
                if tier == 'quick' and npat == 3 and (masks[0] + 3 * masks[1] + 5 * masks[2]) % 4 != 0:
                    continue
                for form in range(4 if npat > 1 else 3):
                    # every fifth pattern list: all patterns come "from the same source site" (same text, file and line) and differ in what they accept
                    same_site = 1 if (sum(masks) + npat) % 5 == 2 else 0
                    pats = [Pat(mask=m, chain=[seg(f"ret{10 * (i + 1)}")], dbg=same_site) for i, m in enumerate(masks)]
                    if form == 0:
                        tree = tup([term(1, 'each', p) for p in pats]) if npat > 1 else term(1, 'each', pats[0])
                    elif form == 1:
                        # every (k % 4 == 1)-th stub leaves its first pattern without a response: it still claims the calls it accepts
                        if k % 4 == 1 and npat > 1:
                            pats[0] = Pat(mask=pats[0].mask, chain=[])
                        tree = stub(1, pats)
                    elif form == 2:
                        kinds = ['each', 'some', 'each']
                        pats2 = [Pat(mask=p.mask, chain=[seg(p.chain[0][0], 'al0')], dbg=p.dbg) for p in pats]
                        tree = tup([term(1, kinds[i % 3], p) for i, p in enumerate(pats2)])
                    else:
                        # exactly-quantified patterns: a pattern that has used up its count still answers the calls it accepts first
                        pats3 = [Pat(mask=p.mask, chain=[seg(p.chain[0][0], 'n1')]) for p in pats if p.chain]
                        if len(pats3) < 2:
                            continue
                        tree = tup([term(1, 'some', p) for p in pats3])
                    # one history that walks the domain in a mask-dependent order
                    hist = [(masks[0] + j) % 3 for j in range(L)]
                    for mode in (['strict', 'partial'] if form == 0 else ['strict']):
                        evs = [scn.build(0, 0, mode, tree)] + [scn.call(0, 1, a) for a in hist] + [scn.drop(0)]
                        out.append(scn.scenario(f"x{k}", evs))
                        k += 1
        return [('exhaustive', ''.join(out))]

    def profiles(self, tier):
        n = 3000 if tier == 'quick' else 60000
        base = dict(ordered_weight=0, unordered_weight=4, stub_weight=2, max_terms=6)
        return [
            ('u', Profile(**base), n),
            ('us', Profile(ordered_weight=0, unordered_weight=2, stub_weight=4, max_terms=5, noresp_chance=(1, 4)), n // 3),
            ('un', Profile(nested_args=True, nomatcher_chance=(1, 12), **base), n // 2),
            ('mix', Profile(nested_args=True, ordered_weight=1, unordered_weight=3, stub_weight=1, clones=2, end='mixed'), n // 2),
        ]

    def extra(self, rep, tier, seed):
        """configuration B: the same scenarios on unimock built WITHOUT `std` (spin-lock + critical-section), call outcomes
        and counters compared with the model (teardown differs by design without std and is not part of C01)"""
        import os, subprocess
        from .. import engine, run, canon, gen_runtime
        from ..rtcheck import proj_outcomes_and_counts
        hb = os.path.join(engine.VERIF, 'harness_nostd')
        lock = os.path.join(hb, 'Cargo.lock')
        if not os.path.exists(lock):
            import shutil; shutil.copy('/repo/Cargo.lock', lock)
        rc, out, err = engine.sh(['cargo', 'build', '--offline', '--bin', 'replay'], cwd=hb)
        if rc != 0:
            path = engine.write_replay(self.prop, 'build', (out + err)[-6000:], ["the harness no longer builds against /repo without the std feature (spin-lock + critical-section)"])
            rep.violation(path, "no_std configuration of the harness does not build against /repo", no_input=True)
            return
        exe = os.path.join(hb, 'target', 'debug', 'replay')
        batches = [t for _, t in self.exhaustive(tier)]
        n = 800 if tier == 'quick' else 20000
        batches.append(gen_runtime.gen_batch(seed * 1000003 + 77, Profile(ordered_weight=0, unordered_weight=4, stub_weight=2, max_terms=6, end='drop'), n, prefix='nb_'))
        total = 0; bad = []
        for text in batches:
            p = subprocess.run([exe], input=text, capture_output=True, text=True, timeout=1200)
            if p.returncode != 0:
                path = engine.write_replay(self.prop, 'toolerror', text[:5000], [f"no_std replay exited {p.returncode}: {p.stderr[-600:]}"])
                rep.violation(path, f"no_std replay crashed ({p.returncode})", no_input=True)
                return
            real_raw, order = canon.split_scenarios(p.stdout)
            model_raw, _ = canon.split_scenarios(run.run_model(text))
            texts = scn.split_text(text)
            for nme in order:
                total += 1
                r = [canon.normalise(x) for x in canon.canon_scenario(real_raw[nme])]
                m = [canon.normalise(canon.canon_model_line(x)) for x in model_raw.get(nme, [])]
                keep = lambda ls: [l for l in proj_outcomes_and_counts(ls) if not l.startswith(('teardown', 'exit'))]
                if keep(r) != keep(m):
                    d = next(((a, b) for a, b in zip(keep(r), keep(m)) if a != b), ('len', 'len'))
                    bad.append((nme, d, texts.get(nme, '')))
        for (nme, d, text) in bad[:2]:
            path = engine.write_replay(self.prop, 'spec', text, [f"configuration B (unimock without std: spin-lock + critical-section): real `{d[0]}` vs required `{d[1]}`",
                                                                  "replay: /verif/harness_nostd/target/debug/replay < this file"])
            rep.violation(path, f"no_std build deviates on scenario {nme}: real `{d[0]}` vs required `{d[1]}`"[:400])
        # inputs of other shapes than one scalar (zero-sized, several): compiled selection cases
        from .macro_common import MacroCheck
        class Generated(MacroCheck):
            prop = 'C01'
            case_prefixes = ('sel.',)
            facts_of_interest = r'$^'
        Generated().explore_into(rep, tier, seed, ir=False, merge=True)
        rep.coverage['no_std_configuration'] = {'scenarios': total, 'features': 'spin-lock,critical-section (no std)'}
        rep.coverage['evaluations'] = rep.coverage.get('evaluations', 0) + total

    def nontrivial(self, name, text, real_lines):
        # scenario has a method with >= 2 unordered patterns and at least one call
        return text.count('kind=each') + text.count('kind=some') + text.count('\npat ') >= 2 and '\ncall ' in text
