from ..rtcheck import RuntimeCheck
from ..gen_runtime import Profile
from .. import scn, engine
from ..scn import Pat, seg, term, stub, tup, Rng, UNIT
import os, subprocess, sys

ORD = [0, 1, 4, 5]      # methods used for ordered leaves (a/b of both traits)

def leaf(k):
    """k-th ordered leaf: distinct (method, arg) so that the accepted call order *is* the flattening order"""
    return term(ORD[k % 4], 'next', Pat(mask=1 << (k // 4), chain=[seg(f"ret{k + 1}", '-')]))

def leaf_call(k):
    return scn.call(0, ORD[k % 4], k // 4)

def shapes(rng, nleaves, depth):
    """random nesting of leaves 0..n-1 (kept in order) into tuples of arity >= 2"""
    items = [leaf(k) for k in range(nleaves)]
    def nest(xs, d):
        if d == 0 or len(xs) < 2:
            return xs
        # split xs into 2..min(16,len) consecutive groups
        g = 2 + rng.below(min(16, len(xs)) - 1)
        cuts = sorted(rng.shuffle(list(range(1, len(xs))))[:g - 1])
        parts = [xs[a:b] for a, b in zip([0] + cuts, cuts + [len(xs)])]
        out = []
        for p in parts:
            if len(p) == 1:
                out.append(p[0])
            else:
                sub = nest(p, d - 1)
                out.append(tup(sub) if len(sub) >= 2 else sub[0])
        return out
    top = nest(items, depth)
    return tup(top) if len(top) != 1 else top[0]

class Check(RuntimeCheck):
    prop = 'C14'
    design_ref = 'DESIGN.md §4.2, §5 C14'
    theorems = ['C14_tuple_impls_in_order', 'generated_table_in_order', 'C14_deconstruct_flatten', 'C14_real_tuples_flatten',
                'push_spec', 'C14_assemble_error_iff', 'C14_new_mock_error_iff', 'C14_ordered_only_exact_counts',
                'C14_then_only_after_exact', 'run_inOrder_no_atLeast', 'run_then_position', 'C14_ordered_chain_is_exact', 'C14_source_push_sequence', 'C14_source_push', 'C14_source_typestate_step', 'C14_source_entry_points', 'C14_source_clause_structs']

    def rule(self):
        return ("translator: the table of tuple impls is regenerated from /repo/src/clause.rs and re-checked by `decide`; "
                "tie: real Rust tuples of every arity 2..16 (flat) and random nestings to depth 3 with up to 16 leaves, leaves "
                "= next_call terminals with distinct (method, argument) so the accepted call order is the flattening order, "
                "called in order and with one transposition; offending clause (ordered-after-unordered, unordered-after-ordered "
                "at every distance, empty stub) inserted at every position of flat and nested tuples => must panic at "
                "construction. non-trivial = tuple arity >= 2 or an offending clause present")

    def exhaustive(self, tier):
        rng = Rng(4242)
        out = []
        k = 0
        # (a) flat tuples of every arity, and nestings
        for n in range(1, 17):
            variants = [tup([leaf(j) for j in range(n)]) if n >= 2 else leaf(0)]
            for _ in range(3 if tier == 'quick' else 25):
                variants.append(shapes(rng.fork(), n, 3))
            for tree in variants:
                evs = [scn.build(0, 0, 'strict', tree)] + [leaf_call(j) for j in range(n)] + [scn.verify(0)]
                out.append(scn.scenario(f"a{k}", evs)); k += 1
                if n >= 2:
                    # one transposition: calls j and j+1 swapped must be rejected at j
                    j = rng.below(n - 1)
                    order = list(range(n)); order[j], order[j + 1] = order[j + 1], order[j]
                    evs = [scn.build(0, 0, 'strict', tree)] + [leaf_call(x) for x in order] + [scn.drop(0)]
                    out.append(scn.scenario(f"a{k}", evs)); k += 1
        # (b) offenders at every position / distance
        for n in range(1, 7 if tier == 'quick' else 12):
            for pos in range(n + 1):
                for kind in ['ord_after_un', 'un_after_ord', 'empty_stub']:
                    for first in range(pos if kind != 'empty_stub' else 1):
                        base = []
                        for j in range(n):
                            m = [1, 4, 5, 2, 3][j % 5]
                            base.append(term(m, 'each', Pat(mask=255, chain=[seg(f"ret{j}")])))
                        if kind == 'empty_stub':
                            off = stub(0, [])
                        else:
                            # method 0 registered first at position `first` with one mode, offender at `pos` with the other
                            m1, m2 = ('each', 'next') if kind == 'ord_after_un' else ('next', 'each')
                            base[first] = term(0, m1, Pat(mask=255, chain=[seg('ret90', 'n1' if m1 == 'next' else '-')]))
                            off = term(0, m2, Pat(mask=255, chain=[seg('ret91', 'n1' if m2 == 'next' else '-')]))
                        items = base[:pos] + [off] + base[pos:]
                        for nested in ([False, True] if len(items) >= 3 else [False]):
                            if nested:
                                cut = 1 + rng.below(len(items) - 1)
                                tree = tup([tup(items[:cut]) if cut >= 2 else items[0], tup(items[cut:]) if len(items) - cut >= 2 else items[cut]])
                            else:
                                tree = tup(items) if len(items) >= 2 else items[0]
                            evs = [scn.build(0, 0, 'strict', tree)]
                            out.append(scn.scenario(f"b{k}", evs)); k += 1
        return [('arity+offenders', ''.join(out))]

    def profiles(self, tier):
        n = 1500 if tier == 'quick' else 30000
        return [('m', Profile(max_terms=10, nest_chance=(2, 3), allow_mode_conflict=True, empty_stub_chance=(1, 6), max_calls=4), n)]

    def judge(self, name, text, real_lines):
        return None

    def extra(self, rep, tier, seed):
        # compile-time half: ordered => exact counts only, then() only after an exact count
        from .. import tscheck
        tscheck.report(self, rep, tier, 'C14')
        # "... or when a configured return cannot be produced in the current feature set": the feature set without any Mutex API
        from .. import nomutex
        nomutex.report(rep, 'C14')

    def nontrivial(self, name, text, real_lines):
        return 'tuple n=' in text

    def run(self, tier, seed, replay=None):
        # translator first: regenerate the tuple-impl table from the current source
        p = subprocess.run([sys.executable, os.path.join(engine.VERIF, 'tools', 'translate_tuples.py')], capture_output=True, text=True)
        self._translator = p.stdout.strip()
        if p.returncode != 0:
            rep = engine.Report(self.prop, tier, seed)
            path = engine.write_replay(self.prop, 'translator', p.stdout + p.stderr, ["translator tools/translate_tuples.py cannot interpret /repo/src/clause.rs any more"])
            rep.violation(path, "tuple-impl translator cannot interpret src/clause.rs", no_input=True)
            rep.coverage.update({'obligations': len(self.theorems), 'discharged': 0, 'checker_cmd': 'tools/translate_tuples.py', 'evaluations': 0, 'distinct_nontrivial': 0})
            # still run the behavioural tie to look for a failing input
        return super().run(tier, seed, replay)
