import os, re, subprocess
from .. import engine, macrocheck as mc

OUTPUTS = os.path.join(engine.HARNESS, 'target', 'debug', 'outputs')
DRIVER = os.path.join(engine.LEAN, '.lake', 'build', 'bin', 'driver')
TRAIT_FILE = os.path.join(engine.HARNESS, 'src', 'outputs_trait.rs')

def split_top(s):
    out, depth, cur = [], 0, ''
    for ch in s:
        if ch in '<([': depth += 1
        if ch in '>)]': depth -= 1
        if ch == ',' and depth == 0:
            out.append(cur); cur = ''
        else:
            cur += ch
    if cur:
        out.append(cur)
    return out

def kind_sexpr(k):
    """'::unimock::output::Deep<Option<::unimock::output::Shallow<Result<&'staticTok,Tok>>>>' -> 'dopt(shres)'"""
    k = k.replace('::unimock::output::', '')
    m = re.match(r'^(\w+)<(.*)>$', k)
    if not m:
        return '?' + k
    name, inner = m.group(1), m.group(2)
    if name == 'Owning': return 'own'
    if name == 'Lending': return 'lend'
    if name == 'StaticRef': return 'sref'
    if name == 'Shallow':
        if inner.startswith('Option<'): return 'shopt'
        if inner.startswith('Result<'): return 'shres'
        if inner.startswith('Vec<'): return 'shvec'
        return '?' + k
    if name == 'Deep':
        if inner.startswith('('):
            parts = split_top(inner[1:-1])
            return 'dtup[' + ','.join(kind_sexpr(p) for p in parts if p) + ']'
        m2 = re.match(r'^(\w+)<(.*)>$', inner)
        if m2:
            args = split_top(m2.group(2))
            if m2.group(1) == 'Option': return f"dopt({kind_sexpr(args[0])})"
            if m2.group(1) == 'Vec': return f"dvec({kind_sexpr(args[0])})"
            if m2.group(1) == 'Poll': return f"dpoll({kind_sexpr(args[0])})"
            if m2.group(1) == 'Result': return f"dres({kind_sexpr(args[0])},{kind_sexpr(args[1])})"
    return '?' + k

class Check:
    prop = 'C17'
    theorems = ['C17_roundtrip', 'C17_lent_list', 'C17_roundtrip_all', 'C17_roundtrip_zip', 'onceSpec_wrap', 'onceSpecList_cons',
                'C17_once', 'C17_once_all', 'C17_once_zip', 'C17_spent_stays_spent', 'C17_assigned_kind_fits',
                'C17_return_type_roundtrip', 'C17_return_type_once']

    def rule(self):
        return ("every method of harness/src/outputs_trait.rs (owned, &T, &'static T, Option<&T>, Result<&T,E>, Vec<&T>, "
                "Option<Result<&T,E>>, Vec<Result<&T,E>>, Vec<Option<&T>>, (&T,T), (&T,&T), (T,&T,T), Poll<Option<&T>>, owned "
                "composites incl. same-type twins Result<T,T>/(T,T)); the OutputKind each method gets is read from the REAL "
                "macro (library call on the same trait source); every variant and element counts 0..4, configured through the "
                "single-use path (some_call.returns), the repeatable paths each_call.returns, some_call.returns(..).n_times(2) and some_call.returns(..).at_least_times(1), "
                "called three times; observed S-expressions compared with the Lean Output model call by call; oracle: first "
                "observation equals the configured value. non-trivial = composite value with >= 2 leaves or a single-use case")

    def run(self, tier, seed, replay=None):
        rep = engine.Report(self.prop, tier, seed)
        rep.assumptions = ["which OutputKind a return type gets is modelled (Model/Codegen/OutputKind.lean) and compared token for token with the real macro on generated return types; types the macro or the trait system rejects are outside the property",
                           "equality of leaves is by value; 'borrowed leaves point into the mock' is guaranteed by the types (&'u T borrowed from &'u Unimock) and not re-checked at run time"]
        engine.lean_obligations(self.prop, self.theorems, rep, thorough=(tier == 'thorough'))
        self.explore(rep, only_paths=None)
        if not replay:
            from .. import kindcheck
            kindcheck.report(rep, tier, seed, self.prop)
            # the feature set without any Mutex API: what cannot be produced is refused at construction, everything else keeps its shape
            from .. import nomutex
            nomutex.report(rep, self.prop)
            # a composite single-use value requested by several threads still comes back whole to one of them (C12's leaf race)
            from .c12 import Check as C12
            c12 = C12(); c12.prop = self.prop
            c12.leaf_race(rep, tier)
            # a repeatable value whose Clone panicked once is reproduced again afterwards (no poisoned slot)
            exe = os.path.join(engine.HARNESS, 'target', 'debug', 'crashpoints')
            ok3, log3 = engine.build_harness(['crashpoints'])
            if ok3:
                for topo in ('clone-outside', 'clone-only'):
                    pc = subprocess.run([exe, 'clone-return', topo], capture_output=True, text=True, timeout=120)
                    if pc.returncode != 0 or ' ok ' not in pc.stdout:
                        rp = engine.write_replay(self.prop, 'spec', f"{exe} clone-return {topo}\n", [f"a repeatable return value is not reproduced after its Clone panicked once: {(pc.stdout + pc.stderr).strip()[-300:]}"])
                        rep.violation(rp, f"repeatable value not reproduced after a panicking Clone ({topo}): {(pc.stdout + pc.stderr).strip()[-200:]}")
        return rep.finish()

    def explore(self, rep, only_paths=None, merge=False, prop=None):
        prop = prop or self.prop
        ok, log = mc.build_macrolib()
        ok2, log2 = engine.build_harness(['outputs'])
        if not (ok and ok2):
            path = engine.write_replay(self.prop, 'build', (log if not ok else log2) + '\n', ["the outputs harness or macro harness no longer builds against /repo"])
            rep.violation(path, "outputs harness does not build against /repo", no_input=True)
            rep.coverage.update({'evaluations': 0, 'distinct_nontrivial': 0, 'rule': self.rule(), 'samples': []})
            return
        src = open(TRAIT_FILE).read()
        attr = re.search(r'#\[unimock\((.*?)\)\]', src).group(1)
        trait_src = ' '.join(src[src.index('pub trait'):].split())
        p = subprocess.run([mc.MACROLIB], input=f"item out\nattr {attr}\ntrait {trait_src}\nend\n", capture_output=True, text=True)
        kinds = {}
        for l in p.stdout.split('\n'):
            m = re.match(r'^mockfn OutMock::(\w+) inputs=.*? kind=(\S+) answer=', l)
            if m:
                kinds[m.group(1)] = kind_sexpr(m.group(2))
        # from the declared return types alone (no model, no macro): methods all of whose `Tok` leaves are borrowed
        all_borrowed = {}
        for mm in re.finditer(r'fn (\w+)(?:<[^>]*>)?\((?:&self|&\'s self)\) -> ([^;]+);', src):
            ty = mm.group(2)
            all_borrowed[mm.group(1)] = len(re.findall(r'\bTok\b', ty)) == len(re.findall(r"&(?:'\w+ )?Tok\b", ty))
        r = subprocess.run([OUTPUTS], capture_output=True, text=True, timeout=600)
        cases = []
        for l in r.stdout.split('\n'):
            m = re.match(r'^case (\w+) path=(\w+) val=(\S+) outs=(.*)$', l)
            if m and (only_paths is None or m.group(2) in only_paths):
                cases.append(m.groups())
        lines = []
        for i, (meth, path, val, outs) in enumerate(cases):
            once = 1 if path == 'once' else 0
            lines.append(f"outcase c{i} once={once} kind={kinds.get(meth, '?')} val={val} calls=3")
        mo = subprocess.run([DRIVER], input='\n'.join(lines) + '\n', capture_output=True, text=True)
        model = mc.parse_items(mo.stdout)
        spec_bad, tie_bad, samples = [], [], []
        nontriv = 0
        for i, (meth, path, val, outs) in enumerate(cases):
            got = outs.split(' ')
            exp = (model.get(f"c{i}", ['?'])[0]).split(' ')
            if got[0] != val:
                spec_bad.append((meth, path, val, outs, f"first observed value `{got[0]}` is not the configured `{val}`"))
            elif all_borrowed.get(meth) and any(g != val for g in got):
                spec_bad.append((meth, path, val, outs, f"every leaf of the declared return type of `{meth}` is borrowed from self, yet the value was not returned on every call: {outs}"))
            elif path != 'once' and any(g != val for g in got):
                spec_bad.append((meth, path, val, outs, f"a response configured for repeated use did not reproduce the value on every call: {outs}"))
            elif got != exp:
                # single-use path: the theorem C17_once fixes the second observation; a deviation is a violation of "single-use exactly when"
                (spec_bad if exp[0] not in ('ill-typed', 'parse-error', '?') else tie_bad).append((meth, path, val, outs, f"observed `{outs}` but the proved model gives `{' '.join(exp)}` for kind {kinds.get(meth)}"))
            if val.count('L') >= 2 or path == 'once':
                nontriv += 1
            if len(samples) < 4 and i % 17 == 3:
                samples.append({'method': meth, 'kind_from_real_macro': kinds.get(meth), 'path': path, 'configured': val, 'observed': outs})
        if r.returncode != 0:
            path_ = engine.write_replay(self.prop, 'toolerror', r.stderr[-2000:], ["outputs harness crashed"])
            rep.violation(path_, f"outputs harness crashed with status {r.returncode}", no_input=True)
        for (meth, path, val, outs, why) in spec_bad[:3]:
            body = f"method {meth} kind {kinds.get(meth)} path {path} configured {val}\nobserved {outs}\n"
            rp = engine.write_replay(prop, 'spec', body, [f"property {prop} violated by the real crate: {why}", f"replay: ./check {prop} --replay <this file> (re-runs harness/src/bin/outputs.rs)"])
            rep.violation(rp, f"{meth} [{path}] configured {val}: {why}"[:400])
        if not spec_bad and tie_bad:
            (meth, path, val, outs, why) = tie_bad[0]
            rp = engine.write_replay(self.prop, 'tie', f"method {meth} path {path} configured {val}\n", [f"Output model/code correspondence broken: {why}"])
            rep.violation(rp, f"output-kind correspondence broken on {meth}: {why}"[:300], no_input=True)
        if merge:
            rep.coverage['composite_cases'] = {'evaluations': len(cases), 'distinct_nontrivial': nontriv, 'kinds_from_real_macro': kinds}
            rep.coverage['evaluations'] = rep.coverage.get('evaluations', 0) + len(cases)
            rep.coverage['distinct_nontrivial'] = rep.coverage.get('distinct_nontrivial', 0) + nontriv
            return
        rep.coverage.update({'evaluations': len(cases), 'distinct_nontrivial': nontriv, 'rule': self.rule(), 'samples': samples,
                             'programs': len(kinds), 'kinds_from_real_macro': kinds, 'disagreements_checked': len(spec_bad) + len(tie_bad), 'exhaustive': True,
                             'explanation': 'structural-induction theorems about the Output model; every compiled case is replayed on the model with the kind the real macro chose'})
