from ..rtcheck import RuntimeCheck
from ..gen_runtime import Profile
from .. import scn
from ..scn import Pat, seg, term, stub, tup
import itertools, re

RESPS = ['ret', 'def', 'ans', 'pan', 'unm', 'dfl']

def resp_of(kind, serial):
    if kind == 'ret': return f"ret{serial}"
    if kind == 'ans': return f"ans{serial * 10}"
    if kind == 'pan': return f"pan{serial}"
    return kind

class Check(RuntimeCheck):
    prop = 'C02'
    design_ref = 'DESIGN.md §4.1, §5 C02'
    theorems = ['C02_starts_are_prefix_sums', 'C02_kth_response_lookup', 'C02_kth_response', 'C02_once_first',
                'C02_once_again', 'C02_respond_monotone', 'C02_single_use_iff', 'C02_history_kth_match', 'C02_source_quantify', 'C02_source_then', 'C02_source_apply_quant', 'C02_source_stored', 'C02_source_find_responder']

    def rule(self):
        return ("exhaustive: every quantifier chain with 1..3 segments (thorough: 4), counts 0..2 (thorough 0..3), last "
                "quantifier in {once, n_times, at_least_times, unquantified}, response kinds rotated over {returns, "
                "returns_default, answers_arc, panics, applies_unmocked, applies_default_impl}, as some_call / each_call / "
                "next_call / stub pattern, matched sum+2 times through the original and a clone; plus random scenarios; plus the single-use "
                "composite return cases (Option/Result/Vec/Poll/tuples with owned leaves) requested three times. "
                "non-trivial = chain with >=2 segments or a single-use response requested at least twice")

    def extra(self, rep, tier, seed):
        # a chain segment that applies the real function reaches the function registered for THAT method (positional unmock_with list)
        from .macro_common import MacroCheck
        class Generated(MacroCheck):
            prop = 'C02'
            case_prefixes = ('ref.unmock.after-static', 'ref.unmock.path', 'ref.unmock.listed')
            facts_of_interest = r'$^'
        Generated().explore_into(rep, tier, seed, ir=False, merge=True)
        # "a response configured without Clone is single-use" also for owned leaves inside composite return kinds:
        # the compiled single-use cases of C17's harness, judged against the proved Output model
        from .c17 import Check as C17
        C17().explore(rep, only_paths=None, merge=True, prop=self.prop)      # every configuration path: single-use and repeatable responses of composite return types
        # a repeatable response stays repeatable after its value's Clone panicked once (the k-th match still gets its response)
        import os, subprocess
        from .. import engine
        ok3, _ = engine.build_harness(['crashpoints'])
        if ok3:
            exe = os.path.join(engine.HARNESS, 'target', 'debug', 'crashpoints')
            for topo in ('clone-outside', 'clone-only'):
                pc = subprocess.run([exe, 'clone-return', topo], capture_output=True, text=True, timeout=120)
                if pc.returncode != 0 or ' ok ' not in pc.stdout:
                    rp = engine.write_replay(self.prop, 'spec', f"{exe} clone-return {topo}\n", [f"property C02 violated by the real code: a later match of a repeatable response does not receive it after the value's Clone panicked once (caught): {(pc.stdout + pc.stderr).strip()[-300:]}"])
                    rep.violation(rp, f"repeatable response lost after a panicking Clone ({topo}): {(pc.stdout + pc.stderr).strip()[-200:]}")
        # "counted over the original and all clones": the k-th match is well defined also when the matches come from
        # different threads — all schedules of two clones hitting one response chain
        from ..parcheck import ParCheck, par_scenario
        class Par(ParCheck):
            prop = 'C02'
            def scenarios(self, tier, seed):
                chain = term(1, 'each', Pat(mask=255, chain=[seg('ret1', 'n1'), seg('ret2', 'n2'), seg('ret3', '-')]))
                chain_o = term(0, 'next', Pat(mask=255, chain=[seg('ret1', 'n2'), seg('ret2', 'n1')]))
                fams = [('c2x2', chain, [[(1, 0), (1, 0)], [(1, 0), (1, 0)]]), ('c3x1', chain, [[(1, 0)], [(1, 0)], [(1, 0)]]),
                        ('o2x2', chain_o, [[(0, 0), (0, 0)], [(0, 0)]])]
                return [(n, par_scenario(n, 'strict', tree, threads, False)) for n, tree, threads in fams]
            def caps(self, tier):
                return (1500, 50) if tier == 'quick' else (50000, 2000)
            def judge(self, name, r, seqs):
                j = super().judge(name, r, seqs)
                if j:
                    return j
                got = sorted(o for t in r['outs'].split('|') for o in t.split(',') if o)
                want = {'c2x2': ['ret:1', 'ret:2', 'ret:2', 'ret:3'], 'c3x1': ['ret:1', 'ret:2', 'ret:2'], 'o2x2': ['ret:1', 'ret:1', 'ret:2']}[name]
                if got != sorted(want):
                    return f"the matches of the chain received {got}, the quantifier chain assigns {sorted(want)}"
                return None
        Par().explore_into(rep, tier, seed, merge=True)
        # the same on real threads, uninstrumented: 16 clones racing over one chain of 600 segments of 40 calls each and an open tail —
        # every segment's response is handed out exactly 40 times, whatever reads and writes the lookup does in between
        from ..parcheck import run_real
        from .. import engine
        reps = 900 if tier == 'quick' else 20000            # rounds of 16 threads x 2 calls on the SAME mock
        nseg = (reps * 32 * 3 // 4) // 40
        segs = [seg(f"ret{i}", 'n40') for i in range(1, nseg + 1)] + [seg(f"ret{nseg + 1}", '-')]
        text = par_scenario('stress', 'strict', term(1, 'each', Pat(mask=255, chain=segs)), [[(1, 0), (1, 0)]] * 16)
        try:
            real, _ = run_real(text, 0, 0, seed, stress=reps)
            line = next((l for l in real['stress'] if l.startswith('stress ')), '')
        except Exception as e:
            line = f"error {e}"
        m = re.search(r'calls=(\d+) hist=(\S*) ', line)
        if not m:
            path = engine.write_replay(self.prop, 'toolerror', text + '\n' + line, ["the stress run produced no summary line"])
            rep.violation(path, "chain stress run failed: " + line[:200], no_input=True)
        else:
            calls = int(m.group(1))
            hist = dict(x.rsplit('x', 1) for x in m.group(2).split(',') if x)
            bad = [f"ret:{i} x{hist.get(f'ret:{i}', 0)}" for i in range(1, nseg + 1) if int(hist.get(f'ret:{i}', 0)) != 40]
            tail = calls - 40 * nseg
            if bad or int(hist.get(f'ret:{nseg + 1}', 0)) != tail:
                path = engine.write_replay(self.prop, 'stress', text, [f"property C02 violated by the real code: {reps} rounds of 16 threads x 2 calls on clones of one mock whose pattern chains {nseg} segments of 40 calls and an open tail: every segment's response must be handed out exactly 40 times, the tail {tail} times", line[:600], f"replay: SCHED_STRESS={reps} /verif/harness/target/debug/sched < this file (uninstrumented real threads; repeat if the race does not show)"])
                rep.violation(path, f"concurrent matches of one chain did not receive the responses of positions 1..N: {', '.join(bad[:6])} (expected x40 each); tail x{hist.get(f'ret:{nseg + 1}', 0)} (expected x{tail})")
            rep.coverage['chain_stress_calls'] = calls

    def exhaustive(self, tier):
        maxseg = 3 if tier == 'quick' else 4
        maxc = 2 if tier == 'quick' else 3
        out = []
        k = 0
        for nseg in range(1, maxseg + 1):
            for counts in itertools.product(range(maxc + 1), repeat=nseg):
                for lastq in ['n', 'al', '-', 'once']:
                    for form in ['some', 'each', 'next', 'stub']:
                        if form == 'next' and lastq == 'al':
                            continue
                        for variant in range(2 if tier == 'quick' else 6):
                            chain = []
                            for j in range(nseg):
                                kind = RESPS[(j * 2 + variant) % len(RESPS)] if variant else 'ret'
                                if j < nseg - 1:
                                    q = f"n{counts[j]}"
                                else:
                                    q = {'n': f"n{counts[j]}", 'al': f"al{counts[j]}", '-': '-', 'once': 'once'}[lastq]
                                chain.append(seg(resp_of(kind, j + 1), q))
                            total = sum(counts[:-1]) + (counts[-1] if lastq in ('n', 'al') else 1 if lastq == 'once' else 0)
                            mid = 3
                            p = Pat(mask=255, chain=chain)
                            tree = stub(mid, [p]) if form == 'stub' else term(mid, form, p)
                            evs = [scn.build(0, 0, 'strict', tree), scn.clone(0, 1)]
                            for c in range(total + 2):
                                evs.append(scn.call(c % 2, mid, c % 4))
                            evs += [scn.drop(1), scn.drop(0)]
                            out.append(scn.scenario(f"x{k}", evs))
                            k += 1
        return [('exhaustive', ''.join(out))]

    def profiles(self, tier):
        n = 2000 if tier == 'quick' else 50000
        return [
            ('ch', Profile(max_segs=4, max_terms=3, max_calls=12, max_count=3, clones=2), n),
            ('chn', Profile(max_segs=4, max_terms=4, max_calls=14, nested_args=True, user_panic_answers=True, clones=1, end='mixed'), n),
        ]

    def nontrivial(self, name, text, real_lines):
        return ',' in text or sum(1 for l in real_lines if 'CannotReturnValueMoreThanOnce' in l and l.startswith('call')) > 0
