from ..parcheck import ParCheck, par_scenario, run_real, parse_line
from .. import scn, engine
from ..scn import Pat, seg, term, stub, tup, Rng
import re

class Check(ParCheck):
    prop = 'C10'
    theorems = ['patCount_applyAction', 'C10_positions_exact', 'nextOrdered_applyAction', 'C10_slots_exact',
                'C10_final_counts_schedule_independent', 'reasons_applyAction', 'C10_racing_reasons_all_kept',
                'C10_solo_thread_is_sequential', 'C10_assembled_mocks_have_distinct_ids', 'C10_atomic_call_is_call']

    def rule(self):
        return ("scenarios: 2-3 threads x 1-3 calls on shared unordered patterns with response chains, on ordered sequences and "
                "mixed, through clones or one shared &Unimock; ALL schedules at the granularity of every atomic operation / lock "
                "acquisition (DFS), seeded random schedules beyond the cap; non-trivial = schedule with at least one context "
                "switch; plus an uninstrumented 16-thread stress run judged by count conservation")

    def scenarios(self, tier, seed):
        rng = Rng(seed * 31337 + 5)
        out = []
        chainA = [seg('ret1', 'n1'), seg('ret2', 'n1'), seg('ret3', 'n1'), seg('ret4', '-')]
        # fixed families
        t_un = term(1, 'each', Pat(mask=255, chain=chainA))
        t_ord = tup([term(0, 'next', Pat(mask=1, chain=[seg('ret10', 'n2')])), term(4, 'next', Pat(mask=3, chain=[seg('ret20', 'n1'), seg('ret21', 'n1')]))])
        fams = [
            ('un2x2', t_un, [[(1, 0), (1, 0)], [(1, 0), (1, 0)]]),
            ('un3x1', t_un, [[(1, 0)], [(1, 0)], [(1, 0)]]),
            ('ord2x2', t_ord, [[(0, 0), (4, 0)], [(0, 0), (4, 1)]]),
            ('ord3x1', t_ord, [[(0, 0)], [(0, 0)], [(4, 0)]]),
            ('mix', tup([t_un, t_ord]), [[(1, 0), (0, 0)], [(0, 0), (1, 0)]]),
            ('err', tup([term(1, 'each', Pat(mask=1, chain=[seg('ret1', 'n1'), seg('pan2', '-')])), term(0, 'next', Pat(mask=1, chain=[seg('ret10', 'n1')]))]), [[(1, 0), (0, 0)], [(1, 0), (0, 1)], [(1, 1)]]),
        ]
        if tier == 'thorough':
            fams += [('un2x3', t_un, [[(1, 0)] * 3, [(1, 0)] * 3]), ('ord3x2', t_ord, [[(0, 0), (4, 0)], [(0, 0), (4, 1)], [(4, 0), (0, 0)]])]
        for name, tree, threads in fams:
            for shared in (False, True):
                out.append((f"{name}_{'s' if shared else 'c'}", par_scenario(f"{name}_{'s' if shared else 'c'}", 'strict', tree, threads, shared)))
        # random small scenarios
        nrand = 12 if tier == 'quick' else 80
        for k in range(nrand):
            r = rng.fork()
            terms = []
            meths = []
            for j in range(1 + r.below(3)):
                if r.chance(1, 2):
                    m = r.choice([1, 5])
                    ch = [seg(f"ret{j}1", f"n{r.below(3)}"), seg(f"ret{j}2", r.choice(['-', 'al1', 'n1']))]
                    terms.append(term(m, r.choice(['each', 'some']), Pat(mask=r.choice([255, 1, 3]), chain=ch)))
                else:
                    m = r.choice([0, 4])
                    terms.append(term(m, 'next', Pat(mask=r.choice([255, 1]), chain=[seg(f"ret{j}3", f"n{1 + r.below(2)}")])))
                meths.append(m)
            # keep modes consistent per method
            seen = {}
            ok = True
            for t in terms:
                mode = t[2] == 'next'
                if seen.setdefault(t[1], mode) != mode:
                    ok = False
            if not ok:
                continue
            nth = 2 + r.below(2)
            threads = [[(r.choice(meths), r.below(2)) for _ in range(1 + r.below(2 if nth == 3 else 3))] for _ in range(nth)]
            out.append((f"r{k}", par_scenario(f"r{k}", 'strict', tup(terms) if len(terms) > 1 else terms[0], threads, r.chance(1, 2))))
        return out

    def stress(self, tier, seed, rep):
        # N concurrent requests for one single-use composite value (one lock per owned leaf): exactly one gets position 1, whole —
        # all schedules of C12's leaf race, judged here too
        try:
            from .c12 import Check as C12
            c12 = C12(); c12.prop = self.prop
            c12.leaf_race(rep, tier)
        except Exception as e:
            path = engine.write_replay(self.prop, 'toolerror', repr(e), ["leaf-race exploration failed"])
            rep.violation(path, f"leaf-race exploration failed: {e!r}"[:300], no_input=True)
        reps = 2000 if tier == 'quick' else 60000
        tree = tup([term(1, 'each', Pat(mask=255, chain=[seg('ret1', 'n1000'), seg('ret2', '-')])), term(5, 'some', Pat(mask=255, chain=[seg('ret3', 'al1')]))])
        text = par_scenario('stress', 'strict', tree, [[(1, 0), (5, 0)]] * 16)
        real, order = run_real(text, 0, 0, seed, stress=reps)
        line = next((l for l in real['stress'] if l.startswith('stress ')), '')
        m = re.search(r'calls=(\d+) hist=(\S*) next=(\d+) counts=(.*?) reasons', line)
        info = {'line': line[:300]}
        if m:
            calls = int(m.group(1))
            counts = re.findall(r'\[(\d+)\]', m.group(4))
            hist = dict(x.rsplit('x', 1) for x in m.group(2).split(',') if x)
            ok = sum(int(c) for c in counts) == calls and int(hist.get('ret:1', 0)) == 1000 and int(hist.get('ret:2', 0)) == calls // 2 - 1000 and int(hist.get('ret:3', 0)) == calls // 2
            info.update({'calls': calls, 'ok': ok})
            if not ok:
                path = engine.write_replay(self.prop, 'stress', text, ["uninstrumented 16-thread stress: counts or response multiset not conserved", line[:500]])
                rep.violation(path, f"16-thread stress run lost or duplicated positions: {line[:200]}")
        # the same count-conservation run against unimock built WITHOUT std (spin-lock + critical-section): the counters are the same code
        import os
        hb = os.path.join(engine.VERIF, 'harness_nostd')
        if not os.path.exists(os.path.join(hb, 'Cargo.lock')):
            import shutil; shutil.copy('/repo/Cargo.lock', os.path.join(hb, 'Cargo.lock'))
        rc, o_, e_ = engine.sh(['cargo', 'build', '--offline', '--bin', 'sched'], cwd=hb)
        if rc != 0:
            path = engine.write_replay(self.prop, 'build', (o_ + e_)[-6000:], ["the scheduler harness no longer builds against /repo without the std feature"])
            rep.violation(path, "no_std configuration of the scheduler harness does not build against /repo", no_input=True)
        else:
            realn, _ = run_real(text, 0, 0, seed, stress=reps, exe=os.path.join(hb, 'target', 'debug', 'sched'))
            linen = next((l for l in realn['stress'] if l.startswith('stress ')), '')
            mn = re.search(r'calls=(\d+) hist=(\S*) next=(\d+) counts=(.*?) reasons', linen)
            info['nostd'] = linen[:200]
            if mn:
                callsn = int(mn.group(1))
                countsn = re.findall(r'\[(\d+)\]', mn.group(4))
                histn = dict(x.rsplit('x', 1) for x in mn.group(2).split(',') if x)
                okn = sum(int(c) for c in countsn) == callsn and int(histn.get('ret:1', 0)) == 1000 and int(histn.get('ret:2', 0)) == callsn // 2 - 1000 and int(histn.get('ret:3', 0)) == callsn // 2
                if not okn:
                    path = engine.write_replay(self.prop, 'stress', text, ["unimock built without std (spin-lock + critical-section), uninstrumented 16-thread stress: counts or response multiset not conserved", linen[:500], f"replay: SCHED_STRESS={reps} /verif/harness_nostd/target/debug/sched < this file"])
                    rep.violation(path, f"no_std build: 16-thread stress run lost or duplicated positions: {linen[:200]}")
        # the same through ONE shared &Unimock, each answer lending a value of its own via make_ref and reading it back
        tree2 = term(1, 'each', Pat(mask=255, chain=[seg('ans16', '-')]))
        text2 = par_scenario('stress', 'strict', tree2, [[(1, 0), (1, 1)]] * 16, True)
        real2, _ = run_real(text2, 0, 0, seed, stress=max(400, reps // 4))
        line2 = next((l for l in real2['stress'] if l.startswith('stress ')), '')
        m2 = re.search(r'calls=(\d+) hist=(\S*) ', line2)
        info['shared_lending'] = line2[:200]
        if m2:
            hist2 = dict(x.rsplit('x', 1) for x in m2.group(2).split(',') if x)
            calls2 = int(m2.group(1))
            if int(hist2.get('ret:-160', 0)) + int(hist2.get('ret:-161', 0)) != calls2:
                path = engine.write_replay(self.prop, 'stress', text2, ["uninstrumented 16-thread stress on one shared &Unimock: a call did not get its own response (each answer lends a unique value via make_ref and reads it back)", line2[:500]])
                rep.violation(path, f"16-thread stress on a shared &Unimock: a call was given another call's response: {line2[:200]}")
        return info
