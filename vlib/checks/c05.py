from .macro_common import MacroCheck

class Check(MacroCheck):
    prop = 'C05'
    theorems = ['C05_eval_params_in_order', 'C05_answer_args_in_order', 'C05_polonius_rebinding_is_identity',
                'C05_arm_patterns_keep_positions', 'C05_inputs_types_in_order', 'C05_impossible_only_where_documented',
                'C05_async_body_is_lazy', 'C05_delegator_forwards_in_order', 'C05_answer_fn_signature', 'C05_generic_mockfn']
    case_prefixes = ('ref.m', 'mut.m', 'own.m2', 'own.default.original', 'own.default.byvalue', 'rc.m2', 'arc.m2', 'pin.m2', 'async.a', 'async.f2', 'generic.', 'sel.zero')
    facts_of_interest = r'(eval |call answer|rebind|exit |arm |inputs=|asyncwrap|surrogate|polonius)'

    def rule(self):
        return ("bounded-exhaustive trait-shape family: receiver {&self, &mut self, self, Rc<Self>, Arc<Self>, Pin<&mut Self>} x "
                "parameter lists (all of arity 0..2 over {u32, &u32, &&u32, &mut u32, &mut T<'a>, &[u32]}, sampled arity 3..5) x "
                "{fn, async fn, -> impl Future} x {required, provided} x unmock {none, path, path(listed params)} x api {module, "
                "flattened, hidden}; each shape goes through the REAL generator (library call) and the Lean model; facts compared "
                "per method; plus compiled behavioural cases (distinct same-typed neighbours, &mut mutation, async laziness, "
                "generics). non-trivial = method with >= 2 parameters")
