import os, re, subprocess, sys
from .. import engine

MIRRORS = os.path.join(engine.HARNESS, 'target', 'debug', 'mirrors')
MIRRORS2 = os.path.join(engine.HARNESS, 'target', 'debug', 'mirrors2')

class Check:
    prop = 'C20'
    theorems = ['C20_mirror_tables_agree', 'scriptResponders_length', 'scriptResponders_get', 'scriptKeys_get', 'script_find',
                'script_call', 'C20_provided_over_mock_eq_struct', 'C20_mirror_names_agree']

    def rule(self):
        return ("translator: for each of the mirrored traits in src/mock/*.rs the (method, required|provided) table is "
                "regenerated together with the same table extracted from the upstream trait definition on disk (rust-src, cargo "
                "registry) and `decide` re-proves agreement; differential: random scripts (chunk sizes, short reads/writes, "
                "Interrupted, BrokenPipe, EOF, utf-8 / newline payloads) driven through upstream provided methods (write_all, "
                "write_vectored, read_exact, read_to_end, read_to_string, read_vectored, read_until, read_line, Seek::rewind / "
                "stream_position, all Hasher::write_*, DelayNs::delay_us/ms, OutputPin::set_state, StatefulOutputPin::toggle, "
                "format! via Display/Debug, tokio/futures poll_write_vectored / poll_read_vectored / is_write_vectored, "
                "I2c::read/write/write_read, SpiDevice::*, SetDutyCycle::*, Error::source) over a scripted Unimock and over a plain "
                "struct with the same script; results, buffers and the sequence of required-method arguments compared. "
                "non-trivial = script with >= 2 steps or an error step")

    def run(self, tier, seed, replay=None):
        rep = engine.Report(self.prop, tier, seed)
        rep.assumptions = ["upstream default bodies run for real on both sides of the differential run, so they cancel out",
                           "upstream sources for core/std come from the nightly toolchain's rust-src (the stable toolchain ships none); unstable and deprecated upstream methods are ignored"]
        p = subprocess.run([sys.executable, os.path.join(engine.VERIF, 'tools', 'translate_mirrors.py')], capture_output=True, text=True)
        translator_out = p.stdout.strip()
        if p.returncode != 0:
            path = engine.write_replay(self.prop, 'translator', p.stdout + p.stderr, ["tools/translate_mirrors.py cannot interpret src/mock/*.rs or locate an upstream trait"])
            rep.violation(path, "mirror-table translator failed: " + translator_out[-200:], no_input=True)
        ok_lean = engine.lean_obligations(self.prop, self.theorems, rep, thorough=(tier == 'thorough'))
        mism = [l for l in translator_out.split('\n') if 'MISMATCH' in l]
        if mism and not ok_lean:
            # the translator names the offending method: that is the failing input of the table theorem
            path = engine.write_replay(self.prop, 'table', '\n'.join(mism) + '\n', ["mirror declaration disagrees with the upstream trait (method, mirrored provided?, upstream provided?)"])
            rep.violation(path, "mirror table disagrees with upstream: " + mism[0].strip()[:300])
        ok, log = engine.build_harness(['mirrors', 'mirrors2'])
        total = 0; nontriv = 0; samples = []; bad = []
        if not ok:
            path = engine.write_replay(self.prop, 'build', log + '\n', ["the mirrors harness no longer compiles against /repo"])
            rep.violation(path, "mirrors harness does not compile against /repo", no_input=True)
        else:
            n = 300 if tier == 'quick' else 20000
            for binp, env in ((MIRRORS, dict(os.environ, VERIF_SEED=str(seed), MIRROR_CASES=str(n))), (MIRRORS2, dict(os.environ))):
                r = subprocess.run([binp], capture_output=True, text=True, env=env, timeout=3000)
                for line in r.stdout.split('\n'):
                    f = line.split('\t')
                    if len(f) != 3 or not f[0].startswith('case '):
                        continue
                    total += 1
                    m, pl = f[1][len('mock='):], f[2][len('plain='):]
                    if m.count(';') >= 1 or 'Err' in m:
                        nontriv += 1
                    if m != pl:
                        bad.append((f[0][5:], m, pl))
                    elif len(samples) < 4 and total % 397 == 1:
                        samples.append({'case': f[0][5:], 'observed_on_both': m[:300]})
                if r.returncode != 0:
                    path = engine.write_replay(self.prop, 'toolerror', r.stderr[-1500:], [f"{os.path.basename(binp)} crashed"])
                    rep.violation(path, f"{os.path.basename(binp)} crashed with status {r.returncode}", no_input=True)
        for (case, m, pl) in bad[:3]:
            path = engine.write_replay(self.prop, 'spec', f"case {case} (VERIF_SEED={seed})\nmock : {m}\nplain: {pl}\n", [
                f"bundled mock differs from a hand-written implementation with the same script in case {case}", "replay: ./check C20 --replay <this file> (re-runs harness/src/bin/mirrors*.rs with the same seed)"])
            rep.violation(path, f"case {case}: scripted Unimock `{m[:160]}` vs plain struct `{pl[:160]}`")
        rep.coverage.update({'evaluations': total, 'distinct_nontrivial': nontriv, 'rule': self.rule(), 'samples': samples, 'programs': total,
                             'translator': translator_out.split('\n')[0], 'disagreements_checked': len(bad),
                             'explanation': 'kernel-checked agreement of regenerated mirror tables; theorem that user code over a scripted mock equals user code over a script-replaying struct; differential runs through upstream provided methods'})
        return rep.finish()
