from ..rtcheck import RuntimeCheck
from ..gen_runtime import Profile
from .. import scn
from ..scn import Pat, seg, term, stub, tup
import itertools

def bound_of(chain):
    """(minimum, kind) of a chain of ret segments as the builder computes it for an unordered each_call"""
    total = 0
    for (r, q) in chain:
        if q == 'once': total += 1
        elif q.startswith('n'): total += int(q[1:])
        elif q.startswith('al'): total += int(q[2:])
    return total

CHAINS = [
    [('ret1', 'n2')], [('ret1', 'al1')], [('ret1', '-')], [('ret1', 'once')], [('ret1', 'n0')],
    [('ret1', 'n1'), ('ret2', '-')], [('ret1', 'n1'), ('ret2', 'n1')], [('ret1', 'n2'), ('ret2', 'al1')],
    [('ret1', 'n0'), ('ret2', '-')],
]

class Check(RuntimeCheck):
    prop = 'C03'
    design_ref = 'DESIGN.md §4.4, §5 C03'
    theorems = ['C03_verify_iff', 'C03_lines', 'C03_line_count', 'C03_quantifier_meaning',
                'C03_expectation_of_chain', 'C03_teardown_verdict', 'C03_counts_are_matches', 'C03_final_count_is_matches', 'C03_source_lower_bound', 'C03_source_verify_condition', 'C03_source_never_called']

    def extra(self, rep, tier, seed):
        # an original consumed by a by-value / Rc / Arc provided method still verifies: compiled delegation cases with met and unmet expectations
        from .macro_common import MacroCheck
        class Generated(MacroCheck):
            prop = 'C03'
            case_prefixes = ('own.default', 'rc.default.shared', 'arc.default.shared', 'generic.instances-modes')
            facts_of_interest = r'path='       # the Trait::method every failure line names (module, flattened and hidden api alike)
        Generated().explore_into(rep, tier, seed, ir=True, merge=True)
        # counts at the bound reached by calls made at the same time through clones: under every schedule the verdict is the sequential one
        from ..parcheck import ParCheck, par_scenario
        class Par(ParCheck):
            prop = 'C03'
            def scenarios(self, tier, seed):
                exact = term(1, 'each', Pat(mask=255, chain=[seg('ret1', 'n2')]))
                atleast = tup([term(1, 'some', Pat(mask=255, chain=[seg('ret1', 'al3')])), term(5, 'each', Pat(mask=255, chain=[seg('ret2', 'n1')]))])
                fams = [('v2x1', exact, [[(1, 0)], [(1, 0)]]), ('v3x1', exact, [[(1, 0)], [(1, 0)], [(1, 0)]]), ('va2', atleast, [[(1, 0), (1, 0)], [(1, 0), (5, 0)]])]
                return [(n, par_scenario(n, 'strict', tree, threads, False)) for n, tree, threads in fams]
            def caps(self, tier):
                return (800, 40) if tier == 'quick' else (30000, 1500)
        Par().explore_into(rep, tier, seed, merge=True)

    def run(self, tier, seed, replay=None):
        # re-translate the verification / slot-ownership functions of src/counter.rs and src/fn_mocker.rs first
        from .. import engine
        ok, msg = engine.run_translator('translate_counter')
        self._translator = msg
        return super().run(tier, seed, replay)

    def extra_assumptions(self):
        return ["tools/translate_counter.py: " + getattr(self, '_translator', 'not run') + " (an UNRECOGNISED function is tied by the correspondence run only)"]

    def rule(self):
        return ("exhaustive: 1..3 patterns (each accepting one distinct argument) over 1..2 methods, each with a chain from a "
                "fixed list covering exact / at-least / open / then-open quantifiers, every vector of match counts in "
                "{bound-1, bound, bound+1} per pattern (so every subset of violated expectations occurs), verified by drop, "
                "verify() and report(); plus random scenarios. non-trivial = verification ran with at least one expectation "
                "violated and at least one satisfied, or with all satisfied")

    def exhaustive(self, tier):
        out = []
        k = 0
        chains = CHAINS if tier == 'thorough' else CHAINS[:7]
        npats = [1, 2] if tier == 'quick' else [1, 2, 3]
        for n in npats:
            for combo in itertools.product(range(len(chains)), repeat=n):
                if tier == 'quick' and n == 2 and (combo[0] * 3 + combo[1]) % 3 != 0:
                    continue
                if n == 3 and (combo[0] + 2 * combo[1] + 3 * combo[2]) % 7 != 0:
                    continue
                bounds = [bound_of(chains[c]) for c in combo]
                for deltas in itertools.product([-1, 0, 1], repeat=n):
                    counts = [max(0, b + d) for b, d in zip(bounds, deltas)]
                    # patterns: i-th accepts only argument i; methods alternate 1, 5
                    terms = []
                    for i, c in enumerate(combo):
                        chain = [(r.replace('ret', f"ret{i + 1}"), q) for (r, q) in chains[c]]
                        terms.append(term([1, 5, 1][i], 'each', Pat(mask=1 << i, chain=chain, dbg=(i + 1) if i % 2 else 0)))
                    tree = tup(terms) if n > 1 else terms[0]
                    for end in (['verify', 'drop', 'report', 'nv-report'] if (k % 3 == 0 or tier == 'thorough') else [['verify', 'drop', 'report'][k % 3]]):
                        evs = [scn.build(0, 0, 'strict', tree)] + ([scn.noverify(0)] if end == 'nv-report' else [])
                        for i, cnt in enumerate(counts):
                            evs += [scn.call(0, [1, 5, 1][i], i) for _ in range(cnt)]
                        evs.append({'verify': scn.verify, 'drop': scn.drop, 'report': scn.report, 'nv-report': scn.report}[end](0))
                        out.append(scn.scenario(f"x{k}", evs))
                        k += 1
        # every tuple arity 2..16 is its own `Clause` impl: a flat tuple of n clauses on distinct (method, argument) pairs, verified
        # (a) with all but the last clause satisfied, (b) with nothing called, (c) unordered clauses with every second one unmet
        from .c14 import leaf, leaf_call, ORD
        for n in range(2, 17):
            tree = tup([leaf(j) for j in range(n)])
            for end in ('verify', 'drop'):
                evs = [scn.build(0, 0, 'strict', tree)] + [leaf_call(j) for j in range(n - 1)] + [{'verify': scn.verify, 'drop': scn.drop}[end](0)]
                out.append(scn.scenario(f"ar{n}last_{end}", evs))
            out.append(scn.scenario(f"ar{n}none", [scn.build(0, 0, 'strict', tree), scn.verify(0)]))
            utree = tup([term(ORD[j % 4], 'each', Pat(mask=1 << (j // 4), chain=[seg(f"ret{j + 1}", 'n1')])) for j in range(n)])
            evs = [scn.build(0, 0, 'strict', utree)] + [leaf_call(j) for j in range(n) if j % 2 == 0] + [scn.verify(0)]
            out.append(scn.scenario(f"ar{n}odd", evs))
        return [('exhaustive', ''.join(out))]

    def profiles(self, tier):
        n = 3000 if tier == 'quick' else 60000
        return [
            ('v', Profile(max_terms=5, max_calls=10, resp_weights=[('ret', 8), ('def', 1), ('ans', 2)], partial_chance=(0, 1), unmentioned_call_chance=(0, 1), end='mixed', clones=1), n),
            ('vo', Profile(max_terms=4, max_calls=10, ordered_weight=3, resp_weights=[('ret', 8), ('ans', 2)], end='mixed'), n // 2),
            # responses that hand the call on (default body / real function) on methods that have both: matches are counted all the same
            # answers that park a clone of the mock in the instance's own value chain: released before the clone count is read
            ('vp', Profile(max_terms=4, max_calls=8, resp_weights=[('ret', 3), ('ans', 6)], park_weight=6, partial_chance=(0, 1), unmentioned_call_chance=(0, 1), end='mixed'), n // 3),
            ('vd', Profile(methods=[3, 7], max_terms=4, max_calls=10, resp_weights=[('ret', 3), ('dfl', 4), ('unm', 3), ('ans', 1)], partial_chance=(1, 4), unmentioned_call_chance=(0, 1), end='mixed', clones=1), n // 2),
        ]

    def nontrivial(self, name, text, real_lines):
        return any(l.startswith('teardown ok') or l.startswith('teardown errs') or l.startswith('exit') for l in real_lines)
