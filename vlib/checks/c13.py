import os, subprocess, re
from .. import engine, canon
from ..scn import Rng

CHAIN = os.path.join(engine.HARNESS, 'target', 'debug', 'chain')
DRIVER = os.environ.get('VERIF_DRIVER') or os.path.join(engine.LEAN, '.lake', 'build', 'bin', 'driver')

def gen_seq(rng, name, via, nops, mut_chance):
    lines = [f"scenario {name}", f"via {via}"]
    serial = 1
    for _ in range(nops):
        if rng.chance(*mut_chance):
            lines.append(f"mut ty={rng.below(4)} s={serial}")
        else:
            lines.append(f"ref ty={rng.below(4)} s={serial}")
        serial += 1
    lines.append('end')
    return '\n'.join(lines) + '\n'

class Check:
    prop = 'C13'
    theorems = ['C13_push_returns_own', 'C13_push_preserves', 'C13_pushes_preserve', 'C13_drops_exactly_once',
                'C13_race_preserves_prefix', 'race_read_stable', 'C13_race_own_node', 'C13_race_failed_attempt', 'C13_source_helper_cell_reused']

    def rule(self):
        return ("sequential: random sequences of make_ref / make_mut (three payload types, drop-tracking, serial numbers), "
                "directly on ValueChain, through an original Unimock and through a clone (payloads incl. a zero-sized Drop type); values lent through the delegation helpers of &mut self / &self / Pin<&mut Self> provided methods (dropped only at teardown); instances with lent values dropped while their thread unwinds (values released exactly once); every retained reference is re-read "
                "after every further operation (serial + address distinctness) and the drop log is compared per operation "
                "with the Lean model; long chains (thousands of values); a chain of 5000 values released by one make_mut on a thread with a 48 KiB stack, in its own process (the release must not recurse per node); concurrent: 2-4 threads lending through one shared "
                "&ValueChain / &Unimock under the controlled scheduler (yield before every try_insert), ALL schedules up to the "
                "cap, each replayed on the Lean race model (chain order, attempts per thread) and judged by: each reference reads its own serial, earlier references intact, addresses distinct, nothing "
                "dropped before teardown, everything dropped exactly once at teardown. non-trivial = sequence with >= 2 "
                "references alive across a further operation, or a schedule set with > 1 schedule")

    def run(self, tier, seed, replay=None):
        rep = engine.Report(self.prop, tier, seed)
        rep.assumptions = ["memory safety proper (no dangling pointer) is guaranteed by #![forbid(unsafe_code)] + borrow checker + once_cell; the model proves the functional part (which node a reference denotes, what is dropped when)",
                           "OnceCell::try_insert is one atomic step"]
        engine.lean_obligations(self.prop, self.theorems, rep, thorough=(tier == 'thorough'))
        ok, log = engine.build_harness(['chain'])
        if not ok:
            path = engine.write_replay(self.prop, 'build', log + '\n', ["the value-chain harness no longer builds against /repo"])
            rep.violation(path, "value-chain harness does not build against /repo", no_input=True)
            rep.coverage.update({'evaluations': 0, 'distinct_nontrivial': 0, 'rule': self.rule(), 'samples': []})
            return rep.finish()
        rng = Rng(seed * 104729 + 3)
        texts = []
        # long chains released by one make_mut on a small-stack thread; each in its own process (a stack overflow aborts)
        deep_texts = []
        if replay:
            rt = ''.join(l for l in open(replay) if not l.startswith('#'))
            if '\ndeep ' in rt:
                deep_texts.append(rt)
            else:
                texts.append(rt)
        else:
            for via in ('chain', 'unimock'):
                for n in ([5000] if tier == "quick" else [5000, 20000]):
                    deep_texts.append(f"scenario deep_{via}_{n}\nvia {via}\ndeep n={n} stack=49152\nend\n")
        deep_done = 0
        for dt in deep_texts:
            dp = subprocess.run([CHAIN], input=dt, capture_output=True, text=True, timeout=3000)
            mm = re.search(r'deep n=(\d+) mut_serial=(\d+) dropped=(\d+)', dp.stdout)
            why = None
            if dp.returncode != 0:
                why = f"releasing a long chain aborts the process (exit status {dp.returncode}): {dp.stderr.strip()[-160:]}"
            elif not mm:
                why = f"unexpected output {dp.stdout[-200:]!r}"
            elif int(mm.group(3)) != int(mm.group(1)) + 1 or int(mm.group(2)) != int(mm.group(1)) + 1:
                why = f"{mm.group(1)} values lent + 1 through make_mut, but {mm.group(3)} dropped / make_mut read {mm.group(2)}"
            deep_done += 1
            if why:
                path = engine.write_replay(self.prop, 'spec', dt, [f"property C13 violated by the real code: {why}", "replay: ./check C13 --replay <this file> (make_ref n times, then one make_mut, on a thread with the given stack size)"])
                rep.violation(path, f"{dt.split()[1]}: {why}"[:400])
        rep.coverage['deep_chains'] = deep_done
        if replay and deep_texts:
            rep.coverage.update({'evaluations': deep_done, 'distinct_nontrivial': deep_done, 'rule': self.rule(), 'samples': []})
            return rep.finish()
        if not replay:
            n = 600 if tier == 'quick' else 8000
            for k in range(n):
                via = ['chain', 'unimock', 'clone'][k % 3]
                texts.append(gen_seq(rng.fork(), f"s{k}", via, 1 + rng.below(12), (1, 6)))
            for k, ln in enumerate([200, 2000] if tier == 'quick' else [500, 5000, 20000]):
                texts.append(gen_seq(rng.fork(), f"long{k}", ['chain', 'unimock'][k % 2], ln, (1, 400)))
            pars = [(2, 1, 0), (2, 2, 1), (3, 1, 2), (2, 3, 0)] if tier == 'quick' else [(2, 1, 0), (2, 2, 1), (3, 1, 2), (2, 3, 0), (3, 2, 1), (4, 1, 1), (2, 4, 2)]
            for k, (th, per, pre) in enumerate(pars):
                for via in ('chain', 'unimock'):
                    texts.append(f"scenario p{k}_{via}\nvia {via}\npar threads={th} per={per} pre={pre}\nend\n")
            for n in ([1, 2, 3, 7] if tier == 'quick' else [1, 2, 3, 7, 50, 400]):
                for end in (0, 1, 2, 3, 4, 5):
                    texts.append(f"scenario helper_{n}_{end}\nvia unimock\nhelper n={n} end={end}\nend\n")
            for end in (0, 1, 2, 3, 4):
                texts.append(f"scenario returnsdrop_{end}\nvia unimock\nreturnsdrop end={end}\nend\n")
            for n, cl in [(1, 0), (3, 0), (3, 1), (6, 1)]:
                texts.append(f"scenario unwinddrop_{n}_{cl}\nvia unimock\nunwinddrop n={n} clone={cl}\nend\n")
            rounds = 40 if tier == 'quick' else 600
            for via in ('chain', 'unimock'):
                texts.append(f"scenario stress_{via}\nvia {via}\nstress threads=8 per=150 rounds={rounds}\nend\n")
        text = ''.join(texts)
        cap = 3000 if tier == 'quick' else 200000
        p = subprocess.run([CHAIN], input=text, capture_output=True, text=True, env=dict(os.environ, SCHED_CAP=str(cap), CHAIN_TRACE='1'), timeout=3000)
        if p.returncode != 0:
            path = engine.write_replay(self.prop, 'toolerror', text[:5000], [f"chain harness exited {p.returncode}: {p.stderr[-800:]}"])
            rep.violation(path, f"value-chain run crashed (exit {p.returncode}): {p.stderr[-200:]}", no_input=True)
            rep.coverage.update({'evaluations': 0, 'distinct_nontrivial': 0, 'rule': self.rule(), 'samples': []})
            return rep.finish()
        real, order = canon.split_scenarios(p.stdout)
        race_rows = []      # (scenario, picks, order, attempts, othertags)
        for nme in order:
            keep = []
            for l in real[nme]:
                mm = re.match(r'rsched picks=(\S*) order=(\S*) attempts=(\S*) othertags=(\d+)$', l)
                if mm:
                    race_rows.append((nme,) + mm.groups())
                else:
                    keep.append(l)
            real[nme] = keep
        m = subprocess.run([DRIVER], input=text, capture_output=True, text=True, timeout=3000)
        model, _ = canon.split_scenarios(m.stdout)
        per_text = {}
        for t in texts:
            for nm, body in __import__('vlib.scn', fromlist=['split_text']).split_text(t).items():
                per_text[nm] = body
        total = 0; nontriv = 0; schedules = 0; samples = []
        spec_bad = []; tie_bad = []
        for n in order:
            r = real[n]
            crash = next((l for l in r if l.startswith('crash ')), None)
            if crash:
                total += 1
                spec_bad.append((n, f"lending panicked: {crash[6:200]}"))
                continue
            if any(l.startswith('unwinddrop ') for l in r):
                line = next(l for l in r if l.startswith('unwinddrop '))
                mm = re.match(r'unwinddrop n=(\d+) clone=(\w+) unwound=(\w+) dropped=(\d+)$', line)
                total += 1; nontriv += 1
                if not mm or mm.group(3) != 'true':
                    spec_bad.append((n, f"unexpected line {line}"))
                elif mm.group(4) != mm.group(1):
                    spec_bad.append((n, f"{mm.group(1)} values lent by an instance that was then dropped while its thread was unwinding, {mm.group(4)} dropped (every lent value is dropped exactly once)"))
                continue
            if any(l.startswith('returnsdrop ') for l in r):
                line = next(l for l in r if l.startswith('returnsdrop '))
                mm = re.match(r'returnsdrop end=(\d) reads=\(77, 77\) early=\[(.*)\] dropped_after_end=\[(.*)\]$', line)
                total += 1; nontriv += 1
                if not mm:
                    spec_bad.append((n, f"unexpected line {line}"))
                elif mm.group(2) or mm.group(3) != '77':
                    spec_bad.append((n, f"a value configured with returns() for a borrowed return must be dropped exactly once, when the instance ends ({['drop', 'verify()', 'report()', 'a failing verify()', 'a failing report()'][int(mm.group(1))]}): dropped before the end [{mm.group(2)}], after it [{mm.group(3)}]"))
                continue
            if any(l.startswith('helper ') for l in r):
                line = next(l for l in r if l.startswith('helper '))
                mm = re.match(r'helper n=(\d+) wrong=(\d+) early=\[(.*)\] dropped_at_teardown=(\d+)$', line)
                total += 1; nontriv += 1
                if not mm:
                    spec_bad.append((n, f"unparsable line {line}"))
                elif mm.group(3):
                    spec_bad.append((n, f"values lent through a default-method delegation helper were dropped while the mock was still alive and unverified: {mm.group(3)[:200]}"))
                elif mm.group(4) != mm.group(1) or mm.group(2) != '0':
                    spec_bad.append((n, f"{mm.group(1)} values lent through delegation helpers, {mm.group(4)} dropped at teardown, {mm.group(2)} wrong results"))
                continue
            if any(l.startswith('stress ') for l in r):
                line = next(l for l in r if l.startswith('stress '))
                mm = re.match(r'stress rounds=(\d+) verdict=(.*)$', line)
                total += int(mm.group(1))
                if mm.group(2) != 'ok':
                    spec_bad.append((n, '8 real threads lending through one shared reference: ' + mm.group(2)))
                continue
            if any(l.startswith('par ') for l in r):
                line = next(l for l in r if l.startswith('par '))
                mm = re.match(r'par schedules=(\d+) exhaustive=(\w+) verdict=(.*)$', line)
                schedules += int(mm.group(1)); total += int(mm.group(1))
                if int(mm.group(1)) > 1:
                    nontriv += int(mm.group(1))
                if mm.group(3) != 'ok':
                    spec_bad.append((n, mm.group(3)))
                continue
            total += 1
            # oracle on the real trace alone
            serials_alive = []
            bad = None
            for l in r:
                mm = re.match(r'(\w+) reads=(\S*) distinct=(\w+) drops=(\S*)$', l)
                if l.startswith('drop '):
                    continue
                if not mm:
                    bad = f"unparsable line {l}"; break
                op, reads, distinct, drops = mm.groups()
                if distinct != 'true':
                    bad = f"two live references share an address after `{op}`"; break
                if op == 'ref' and drops:
                    bad = f"values {drops} were dropped while lending (only make_mut / teardown may release)"; break
            if bad is None:
                # dropped exactly once: make_mut releases everything lent before it, teardown releases the rest
                alive = []
                oplines = [x for x in per_text[n].split('\n')[2:] if x.startswith(('ref ', 'mut '))]
                k = 0
                for l in r:
                    dm = re.search(r' drops=(\S*)$', l)
                    got_d = sorted(int(x) for x in dm.group(1).split(',') if x) if dm else []
                    if l.startswith('drop '):
                        if got_d != sorted(alive):
                            bad = f"teardown dropped {got_d} but the values still lent were {sorted(alive)}"
                        break
                    if k >= len(oplines):
                        break
                    sr = int(re.search(r's=(\d+)', oplines[k]).group(1)); k += 1
                    if l.startswith('mut '):
                        if got_d != sorted(alive):
                            bad = f"make_mut released {got_d} but the values lent before it were {sorted(alive)}"; break
                        alive = [sr]
                    else:
                        alive.append(sr)
            if bad is None:
                # every reference reads the serial it was created with: reads of a phase are increasing prefixes
                phase = []
                for l, opl in zip(r, [x for x in per_text[n].split('\n')[2:]]):
                    if l.startswith('ref '):
                        s = re.search(r's=(\d+)', opl).group(1)
                        phase.append(s)
                        got = re.match(r'ref reads=(\S*) ', l).group(1).split(',')
                        if got != phase:
                            bad = f"references read {got} but were created with serials {phase}"; break
                    elif l.startswith('mut '):
                        phase = []
            if bad:
                spec_bad.append((n, bad))
                continue
            if r != model.get(n, []):
                d = next(((a, b) for a, b in zip(r, model.get(n, [])) if a != b), ('len', 'len'))
                tie_bad.append((n, d))
            if sum(1 for l in r if l.startswith('ref ')) >= 2:
                nontriv += 1
            if len(samples) < 3 and len(r) < 12:
                samples.append({'scenario': per_text[n].strip().split('\n'), 'real_trace': r})
        # every explored schedule of the racing pushes is replayed on the Lean race model (Unimock.raceStep):
        # final chain order (= release order at teardown), try_insert attempts per thread, every reference on its own node
        race_bad = []
        if race_rows:
            from .. import macrocheck as mc
            pars = {}
            for nme in set(r[0] for r in race_rows):
                mm = re.search(r'par threads=(\d+) per=(\d+) pre=(\d+)', per_text.get(nme, ''))
                pars[nme] = mm.groups() if mm else None
            inp = ''.join(f"racecase {i} threads={pars[r[0]][0]} per={pars[r[0]][1]} pre={pars[r[0]][2]} picks={r[1]}\n" for i, r in enumerate(race_rows) if pars[r[0]])
            mo = mc.parse_items(subprocess.run([DRIVER], input=inp, capture_output=True, text=True, timeout=3000).stdout)
            for i, r in enumerate(race_rows):
                if not pars[r[0]]:
                    continue
                want = f"order={r[2]} attempts={r[3]} unfinished=0 stray=0 refs=true"
                got = (mo.get(str(i)) or ['?'])[0]
                if r[4] != '0' or got != want:
                    race_bad.append((r[0], r[1], f"real {want} othertags={r[4]}; model {got}"))
        if not spec_bad and race_bad:
            (n, picks, d) = race_bad[0]
            path = engine.write_replay(self.prop, 'tie', per_text[n] + f"# schedule picks={picks}\n# {d}\n", [f"racing pushes: real chain and Unimock.raceStep disagree on {len(race_bad)} schedules (the oracle found every reference intact)"])
            rep.violation(path, f"value-chain race model/code correspondence broken on {n} picks={picks}: {d}"[:400], no_input=True)
        rep.coverage['race_schedules_replayed_on_model'] = len(race_rows)
        for (n, why) in spec_bad[:2]:
            path = engine.write_replay(self.prop, 'spec', per_text[n], [f"property C13 violated by the real code: {why}", f"replay: ./check C13 --replay <this file>"])
            rep.violation(path, f"scenario {n}: {why}"[:400])
        if not spec_bad and tie_bad:
            n, d = tie_bad[0]
            path = engine.write_replay(self.prop, 'tie', per_text[n], [f"value-chain model/code correspondence broken ({len(tie_bad)} scenarios): real `{d[0]}` vs model `{d[1]}`"])
            rep.violation(path, f"value-chain correspondence broken on {n}: real `{d[0]}` vs model `{d[1]}`"[:300], no_input=True)
        rep.coverage.update({'evaluations': total, 'distinct_nontrivial': nontriv, 'rule': self.rule(), 'samples': samples,
                             'traces_validated_against_impl': total, 'schedules_explored': schedules,
                             'disagreements_checked': len(spec_bad) + len(tie_bad), 'exhaustive': False,
                             'explanation': 'Lean theorems on the chain model; sequential op lists compared with the model line by line; concurrent pushes judged by an oracle over all schedules'})
        return rep.finish()
