from ..rtcheck import RuntimeCheck
from ..gen_runtime import Profile
from .. import scn, run, engine, canon
from ..scn import Pat, seg, term, stub, tup
import subprocess, sys, os, concurrent.futures

def aborts(text):
    p = subprocess.run([run.REPLAY], input=text, capture_output=True, text=True, timeout=120)
    return p.returncode != 0, p.returncode, p.stderr[-400:]

class Check(RuntimeCheck):
    prop = 'C11'
    design_ref = 'DESIGN.md §4.4, §5 C11'
    theorems = ['C11_teardown_while_unwinding', 'C11_drop_while_unwinding', 'C11_scope_unwinds', 'C11_unwind_event',
                'C11_consume_panics_cleanly', 'C11_matcher_panic_leaves_state', 'C11_user_panic_log_untouched',
                'C11_lock_bodies_closed', 'C11_source_teardown_silent_when_unwinding', 'C11_source_drop_after_teardown', 'C11_source_marks_torn_down']

    def rule(self):
        return ("grid: crash point {plain user panic after a returning call, matcher, answer function, real function, default "
                "body, by-value provided method, every mock-induced error kind (no mock impl, no matching pattern, explicit "
                "panics(), exhausted single-use value, wrong order, wrong inputs, cannot unmock, no default impl, no matcher "
                "function)} x topology {original only, clone in the same scope, clone alive elsewhere, original behind "
                "Box / Rc / Arc, original moved into a by-value provided method, a second mock built (with an unmet expectation / with a live clone) and dropped by a fixture's Drop while the thread is already unwinding} x {creator thread, other thread} x {met, "
                "unmet expectations}; each scenario runs in the replay process (child of the check): an abort (SIGABRT) is "
                "detected by the wait status and bisected to the scenario; afterwards remaining instances are used and "
                "verified; plus crash points inside Debug of an argument (error rendering, mismatch report), Clone of a repeatable "
                "return value and PartialEq inside eq!, each x 5 topologies, one process per cell. non-trivial = every cell (each drops a mock while its thread is unwinding)")

    def grid(self, tier):
        out = []
        k = 0
        # (name, tree, (m, a) of the panicking call, prior calls)
        def T(*ts):
            return tup(list(ts)) if len(ts) > 1 else ts[0]
        crash = [
            ('after-call', T(term(1, 'each', Pat(mask=255, chain=[seg('ret1', 'n2')]))), (1, 0), []),
            ('matcher', T(term(1, 'each', Pat(mask=255, pmask=2, chain=[seg('ret1', 'n2')]))), (1, 1), [(1, 0)]),
            ('answer', T(term(1, 'each', Pat(mask=255, chain=[seg('ans19', 'n2')]))), (1, 0), []),
            ('realfn', T(term(0, 'each', Pat(mask=255, chain=[seg('unm', 'n2')]))), (0, 6), []),
            ('defaultbody', T(term(2, 'each', Pat(mask=255, chain=[seg('dfl', 'n2')]))), (2, 6), []),
            ('nested-mock-panic', T(term(0, 'each', Pat(mask=255, chain=[seg('unm', 'n2')]))), (0, 4), []),
            ('NoMockImplementation', T(term(1, 'each', Pat(mask=255, chain=[seg('ret1', 'n2')]))), (5, 0), []),
            ('NoMatchingCallPatterns', T(term(1, 'each', Pat(mask=1, chain=[seg('ret1', 'n2')]))), (1, 1), []),
            ('ExplicitPanic', T(term(1, 'each', Pat(mask=255, chain=[seg('pan1', 'n2')]))), (1, 0), []),
            ('CannotReturnTwice', T(term(1, 'some', Pat(mask=255, chain=[seg('ret1', '-')]))), (1, 0), [(1, 0)]),
            ('CallOrder', T(term(0, 'next', Pat(mask=255, chain=[seg('ret1', 'n1')])), term(1, 'next', Pat(mask=255, chain=[seg('ret2', 'n1')]))), (1, 0), []),
            ('InputsNotMatched', T(term(0, 'next', Pat(mask=1, chain=[seg('ret1', 'n2')]))), (0, 1), []),
            ('CannotUnmock', T(term(1, 'each', Pat(mask=255, chain=[seg('unm', 'n2')]))), (1, 0), []),
            ('NoDefaultImpl', T(term(1, 'each', Pat(mask=255, chain=[seg('dfl', 'n2')]))), (1, 0), []),
            ('NoMatcherFunction', T(term(1, 'each', Pat(mask=None, chain=[seg('ret1', 'n2')]))), (1, 0), []),
        ]
        topo = ['orig', 'clone-in-scope', 'clone-in-scope-first', 'clone-elsewhere', 'clone-errored-elsewhere', 'box', 'rc', 'arc', 'clone-only', 'fresh-unmet', 'fresh-clone']
        for (cname, tree, (m, a), prior) in crash:
            for tp in topo:
                for thr in (0, 1):
                    for met in (True, False):
                        evs = [scn.build(0, 0, 'strict', tree)]
                        if tp in ('clone-in-scope', 'clone-in-scope-first', 'clone-elsewhere', 'clone-errored-elsewhere', 'clone-only'):
                            evs.append(scn.clone(0, 1))
                        if tp == 'clone-errored-elsewhere':
                            evs.append(scn.call(1, 5, 0, t=1))      # unmentioned method without real fn: mock-induced error on a worker thread
                            evs.append(scn.drop(1, t=1))
                        for (pm, pa) in prior:
                            evs.append(scn.call(0, pm, pa))
                        if met:
                            evs.append(scn.call(0, m, 0) if cname in ('after-call',) else scn.call(0, 1 if m != 1 else 1, 0)) if cname == 'after-call' else None
                        evs = [e for e in evs if e]
                        wrap = {'box': 1, 'rc': 2, 'arc': 3}.get(tp, 0)
                        if tp == 'clone-in-scope':
                            evs.append([f"unwindcall i=0 t={thr} m={m} a={a} also=1 wrap=0"])
                        elif tp == 'clone-in-scope-first':
                            evs.append([f"unwindcall i=1 t={thr} m={m} a={a} also=0 wrap=0"])
                        elif tp == 'clone-only':
                            evs.append([f"unwindcall i=1 t={thr} m={m} a={a} also= wrap=0"])
                        else:
                            fresh = {'fresh-unmet': 1, 'fresh-clone': 2}.get(tp, 0)
                            evs.append([f"unwindcall i=0 t={thr} m={m} a={a} also= wrap={wrap} fresh={fresh}"])
                        # afterwards: whatever is left is used and verified
                        if tp == 'clone-elsewhere':
                            evs.append(scn.call(1, 1, 0)); evs.append(scn.drop(1))
                        if tp == 'clone-only':
                            evs.append(scn.call(0, 1, 0)); evs.append(scn.verify(0))
                        out.append(scn.scenario(f"g{k}_{cname}_{tp}_t{thr}_{'met' if met else 'unmet'}", evs)); k += 1
        # by-value provided method: normal return (verified at the drop), user panic, mock panic inside
        for a in (0, 6):
            for cfg in ('met', 'unmet', 'none', 'clone'):
                tree = {'met': term(8, 'each', Pat(mask=255, chain=[seg('ret5', 'n1')])), 'unmet': term(8, 'each', Pat(mask=255, chain=[seg('ret5', 'n2')])),
                        'none': scn.UNIT, 'clone': term(8, 'each', Pat(mask=255, chain=[seg('ret5', 'n1')]))}[cfg]
                for thr in (0, 1):
                    evs = [scn.build(0, 0, 'strict', tree)]
                    if cfg == 'clone':
                        evs.append(scn.clone(0, 1))
                    evs.append([f"consume i=0 t={thr} a={a}"])
                    if cfg == 'clone':
                        evs.append(scn.drop(1))
                    out.append(scn.scenario(f"v{k}_consume_a{a}_{cfg}_t{thr}", evs)); k += 1
        # user panic caught, mock stays usable
        for cname, tree, (m, a), prior in crash[1:6]:
            evs = [scn.build(0, 0, 'strict', tree)] + [scn.call(0, pm, pa) for pm, pa in prior] + [scn.call(0, m, a), scn.call(0, m, 0), scn.call(0, m, 0), scn.verify(0)]
            out.append(scn.scenario(f"u{k}_{cname}_usable", evs)); k += 1
        return out

    def exhaustive(self, tier):
        return [('grid', ''.join(self.grid(tier)))]

    def profiles(self, tier):
        n = 600 if tier == 'quick' else 20000
        return [('up', Profile(max_terms=4, max_calls=8, nested_args=True, user_panic_answers=True, pmask_chance=(1, 4), clones=2, threads=2, end='mixed'), n)]

    def compare_text(self, text):
        try:
            return super().compare_text(text)
        except run.ToolError as e:
            # the replay process died: find the scenarios that make it die (abort = panic while panicking)
            texts = scn.split_text(text)
            names = list(texts)
            bad = []
            with concurrent.futures.ThreadPoolExecutor(max_workers=16) as ex:
                for name, (ab, rc, err) in zip(names, ex.map(lambda n: aborts(texts[n]), names)):
                    if ab:
                        bad.append((name, rc, err))
            good_text = ''.join(texts[n] for n in names if n not in {b[0] for b in bad})
            order, real, model, mism = super().compare_text(good_text) if good_text else ([], {}, {}, [])
            for (name, rc, err) in bad:
                sig = 'SIGABRT' if rc == -6 else f"exit status {rc}"
                mism.append((name, 'spec', (f"process died with {sig} (a second panic while unwinding): {err.strip()[-160:]}", "the original panic is reported and the process exits normally")))
                order.append(name); real[name] = [f"abort {sig}"]; model[name] = []
            return order, real, model, mism

    def run(self, tier, seed, replay=None):
        # the table of `MutexIsh::locked` call sites is regenerated from /repo/src on every run (C11_lock_bodies_closed)
        ok, msg = engine.run_translator('translate_locks')
        self._translator = msg
        return super().run(tier, seed, replay)

    def extra_assumptions(self):
        return ["tools/translate_locks.py: " + getattr(self, '_translator', 'not run')]

    def extra(self, rep, tier, seed):
        """user code panicking where the mock calls into it less visibly (Debug of an argument while an error is rendered
        or a mismatch reported, Clone of a repeatable return value, PartialEq inside eq!) x topology; one process per cell"""
        ok, log = engine.build_harness(['crashpoints'])
        if not ok:
            path = engine.write_replay(self.prop, 'build', log + '\n', ["harness/src/bin/crashpoints.rs no longer builds against /repo"])
            rep.violation(path, "crash-point harness does not build against /repo", no_input=True)
            return
        exe = os.path.join(engine.HARNESS, 'target', 'debug', 'crashpoints')
        cells = [(c, t) for c in ('debug-nomatch', 'debug-nomock', 'debug-mismatch', 'clone-return', 'eq-matcher')
                 for t in ('orig', 'orig+clone', 'clone-first', 'clone-outside', 'clone-only')]
        # an explicit verify() in a fixture's Drop during the unwind; lent values released on a foreign, unwinding thread
        cells += [(c, t) for c in ('verify-in-drop', 'lent-foreign') for t in ('orig', 'clone-outside')]
        cells += [('noverify-recorded', t) for t in ('orig', 'clone-outside', 'self')]
        def one(cell):
            p = subprocess.run([exe, cell[0], cell[1]], capture_output=True, text=True, timeout=120)
            return cell, p.returncode, p.stdout.strip(), p.stderr.strip()[-200:]
        bad = []
        with concurrent.futures.ThreadPoolExecutor(max_workers=8) as ex:
            results = list(ex.map(one, cells))
        for (cell, rc, out, err) in results:
            if rc != 0:
                sig = 'SIGABRT' if rc == -6 else f"exit status {rc}"
                bad.append((cell, f"process died with {sig} (a second panic while unwinding): {err}"))
            elif ' ok ' not in out:
                bad.append((cell, out or 'no output'))
            elif 'teardown panicked' in out and cell[1] != 'clone-only':
                bad.append((cell, out))
        for (cell, why) in bad[:2]:
            path = engine.write_replay(self.prop, 'spec', f"{exe} {cell[0]} {cell[1]}\n", [f"property C11 violated by the real code in crash-point cell {cell[0]}/{cell[1]}: {why}",
                                                                                         "replay: run the command line below"])
            rep.violation(path, f"crash point {cell[0]} with topology {cell[1]}: {why}"[:400])
        rep.coverage['crash_points'] = {'cells': len(cells), 'failed': len(bad)}
        rep.coverage['evaluations'] = rep.coverage.get('evaluations', 0) + len(cells)
        rep.coverage['distinct_nontrivial'] = rep.coverage.get('distinct_nontrivial', 0) + len(cells)

    def nontrivial(self, name, text, real_lines):
        return 'unwindcall' in text or 'consume' in text or any(l.startswith('call user-panic') for l in real_lines)
