from .macro_common import MacroCheck
from ..rtcheck import RuntimeCheck
from ..gen_runtime import Profile
from .. import scn
from ..scn import Pat, seg, term, tup

class Runtime(RuntimeCheck):
    def rule(self):
        return ''
    def profiles(self, tier):
        n = 2500 if tier == 'quick' else 50000
        base = dict(methods=[0, 1, 2, 3, 6, 7], nested_args=True, max_terms=4, max_calls=8, partial_chance=(1, 2), unmentioned_call_chance=(1, 2),
                    resp_weights=[('ret', 5), ('dfl', 4), ('ans', 2), ('unm', 1)])
        return [('dd', Profile(**base), n), ('ddo', Profile(ordered_weight=3, clones=1, **base), n // 2)]
    def exhaustive(self, tier):
        # nested delegation: a default body calls a required method whose answer function calls another provided method on the
        # mock it is handed (helper of a helper); afterwards the original verifies / drops / reports without seeing a live clone
        out = []
        k = 0
        for base in (0, 4):
            a, b, c, d = base, base + 1, base + 2, base + 3
            tree = tup([term(a, 'each', Pat(mask=255, chain=[seg('ret5', '-')])), term(b, 'each', Pat(mask=255, chain=[seg(f"ans{10 * (k + 1) + 8}", '-')]))])
            for calls in ([(d, 7)], [(d, 7), (d, 7)], [(d, 7), (c, 0), (b, 1)], [(c, 7)]):
                for end in ('verify', 'drop', 'report'):
                    for route in (False, True):
                        evs = [scn.build(0, 0, 'strict', tree)]
                        if route:
                            evs.append(scn.clone(0, 1))
                        evs += [scn.call(1 if route and j % 2 else 0, m, x) for j, (m, x) in enumerate(calls)]
                        if route:
                            evs.append(scn.drop(1))
                        evs.append({'verify': scn.verify, 'drop': scn.drop, 'report': scn.report}[end](0))
                        out.append(scn.scenario(f"nest{k}", evs)); k += 1
        return [('nested-delegation', ''.join(out))]

    def nontrivial(self, name, text, real_lines):
        return any('dflt:' in l for l in real_lines)

class Check(MacroCheck):
    prop = 'C15'
    theorems = ['C15_delegate_arm_spec', 'C15_delegator_forwards', 'C15_helper_level_irrelevant', 'C15_runtime_delegate', 'C15_source_helper_cell']
    case_prefixes = ('ref.default', 'mut.default', 'own.m2+default', 'own.default', 'rc.default', 'arc.default', 'pin.m2+default')
    runtime = Runtime()
    facts_of_interest = r'(call delegate|arm CallDefaultImpl|call unimock|target=delegator)'

    def rule(self):
        return ("same shape family as C05 restricted in interest to provided methods and the DefaultImplDelegator forwarding impl "
                "(delegator constructor per receiver kind, arguments in order, await placement); compiled behavioural cases for all "
                "six receiver kinds: default body runs with the caller's arguments, required methods it calls are answered and "
                "counted by the same mock (interleaved with a direct call), result unchanged; by-value original consumed. "
                "non-trivial = provided method with >= 2 parameters")
