from .macro_common import MacroCheck
from ..rtcheck import RuntimeCheck
from ..gen_runtime import Profile
from .. import scn
from ..scn import Pat, seg, term, tup

class Runtime(RuntimeCheck):
    def rule(self):
        return ''
    def profiles(self, tier):
        n = 2500 if tier == 'quick' else 50000
        base = dict(methods=[0, 1, 2, 3, 6, 7], nested_args=True, max_terms=4, max_calls=8, partial_chance=(1, 2), unmentioned_call_chance=(1, 2),
                    resp_weights=[('ret', 5), ('dfl', 4), ('ans', 2), ('unm', 1)])
        return [('dd', Profile(**base), n), ('ddo', Profile(ordered_weight=3, clones=1, **base), n // 2)]
    def exhaustive(self, tier):
        # nested delegation: a default body calls a required method whose answer function calls another provided method on the
        # mock it is handed (helper of a helper); afterwards the original verifies / drops / reports without seeing a live clone
        out = []
        k = 0
        for base in (0, 4):
            a, b, c, d = base, base + 1, base + 2, base + 3
            tree = tup([term(a, 'each', Pat(mask=255, chain=[seg('ret5', '-')])), term(b, 'each', Pat(mask=255, chain=[seg(f"ans{10 * (k + 1) + 8}", '-')]))])
            for calls in ([(d, 7)], [(d, 7), (d, 7)], [(d, 7), (c, 0), (b, 1)], [(c, 7)]):
                for end in ('verify', 'drop', 'report'):
                    for route in (False, True):
                        evs = [scn.build(0, 0, 'strict', tree)]
                        if route:
                            evs.append(scn.clone(0, 1))
                        evs += [scn.call(1 if route and j % 2 else 0, m, x) for j, (m, x) in enumerate(calls)]
                        if route:
                            evs.append(scn.drop(1))
                        evs.append({'verify': scn.verify, 'drop': scn.drop, 'report': scn.report}[end](0))
                        out.append(scn.scenario(f"nest{k}", evs)); k += 1
        return [('nested-delegation', ''.join(out))]

    def nontrivial(self, name, text, real_lines):
        return any('dflt:' in l for l in real_lines)

class Check(MacroCheck):
    prop = 'C15'
    theorems = ['C15_delegate_arm_spec', 'C15_delegator_forwards', 'C15_helper_level_irrelevant', 'C15_runtime_delegate', 'C15_source_helper_cell']
    case_prefixes = ('ref.default', 'mut.default', 'own.m2+default', 'own.default', 'rc.default', 'arc.default', 'pin.m2+default')
    runtime = Runtime()
    facts_of_interest = r'(call delegate|arm CallDefaultImpl|call unimock|target=delegator)'

    def explore_into(self, rep, tier, seed, ir=True, merge=False):
        super().explore_into(rep, tier, seed, ir=ir, merge=merge)
        self.fmt_cases(rep)

    def fmt_cases(self, rep):
        """a default body that formats `self` (a mirrored `Display` / `Debug` supertrait) reaches the same mock: `{}` with its format
        options goes to DisplayMock::fmt, `{:?}` / `{:#?}` to DebugMock::fmt — compared with a plain struct (harness/src/bin/mirrors2.rs)"""
        import os, subprocess
        from .. import engine
        ok, log = engine.build_harness(['mirrors2'])
        if not ok:
            path = engine.write_replay(self.prop, 'build', log + '\n', ["harness/src/bin/mirrors2.rs no longer builds against /repo"])
            rep.violation(path, "mirrors2 harness does not build against /repo", no_input=True)
            return
        p = subprocess.run([os.path.join(engine.HARNESS, 'target', 'debug', 'mirrors2')], capture_output=True, text=True, timeout=300)
        rows = [l.split('\t') for l in p.stdout.split('\n') if l.startswith('case fmt.')]
        for f in rows:
            m, pl = f[1][len('mock='):], f[2][len('plain='):]
            if m != pl:
                path = engine.write_replay(self.prop, 'spec', '\t'.join(f) + '\n', [f"property C15 violated by the real code: the default body of a provided method formats self; over the mock it yields `{m[:200]}`, over a plain struct with the same Display / Debug `{pl[:200]}`", "replay: /verif/harness/target/debug/mirrors2 | grep fmt."])
                rep.violation(path, f"{f[0][5:]}: default body formatting self: mock `{m[:160]}` vs plain `{pl[:160]}`")
        if p.returncode != 0 or not rows:
            path = engine.write_replay(self.prop, 'toolerror', p.stderr[-1500:], ["mirrors2 harness crashed or printed no fmt cases"])
            rep.violation(path, "mirrors2 harness crashed", no_input=True)
        rep.coverage['fmt_cases'] = len(rows)

    def rule(self):
        return ("same shape family as C05 restricted in interest to provided methods and the DefaultImplDelegator forwarding impl "
                "(delegator constructor per receiver kind, arguments in order, await placement); compiled behavioural cases for all "
                "six receiver kinds: default body runs with the caller's arguments, required methods it calls are answered and "
                "counted by the same mock (interleaved with a direct call), result unchanged; by-value original consumed. "
                "non-trivial = provided method with >= 2 parameters")
