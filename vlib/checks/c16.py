from .macro_common import MacroCheck
from ..rtcheck import RuntimeCheck
from ..gen_runtime import Profile

class Runtime(RuntimeCheck):
    def rule(self):
        return ''
    def profiles(self, tier):
        n = 2500 if tier == 'quick' else 50000
        base = dict(methods=[0, 1, 3, 4, 7], nested_args=True, max_terms=4, max_calls=8, partial_chance=(2, 3), unmentioned_call_chance=(1, 2),
                    resp_weights=[('ret', 5), ('unm', 4), ('ans', 2), ('dfl', 1)])
        return [('uu', Profile(**base), n), ('uuo', Profile(ordered_weight=3, clones=1, **base), n // 2)]
    def nontrivial(self, name, text, real_lines):
        return any('real:' in l for l in real_lines)

class Check(MacroCheck):
    prop = 'C16'
    theorems = ['C16_unmock_arm_spec', 'C16_no_function_no_arm', 'C16_unmock_arm_missing_for_mut', 'C16_runtime_unmock', 'C16_source_dispatch', 'C16_source_eval_result_dispatch', 'C16_source_respond']
    case_prefixes = ('ref.unmock', 'mut.unmock', 'async.unmock', 'own.unmock', 'rc.unmock')
    runtime = Runtime()
    facts_of_interest = r'(call unmock|arm \S*Unmock|call report|arm any)'

    def rule(self):
        return ("same bounded-exhaustive shape family as C05 with unmock_with in its three forms {none / `_`, path, path(listed "
                "params in a shuffled order, possibly omitting some)} at every method position; the real generator's Unmock arm "
                "(callee path, argument expressions in order, awaited or not) is compared with the Lean model's; compiled "
                "behavioural cases: real function called once with (mock, args in order), listed-parameter form, async awaited, "
                "re-entrant call evaluated by the same mock, CannotUnmock naming the method when none is registered. "
                "non-trivial = method with a registered function and >= 2 parameters")
