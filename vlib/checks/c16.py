from .macro_common import MacroCheck
from ..rtcheck import RuntimeCheck
from ..gen_runtime import Profile

class Runtime(RuntimeCheck):
    def rule(self):
        return ''
    def profiles(self, tier):
        n = 2500 if tier == 'quick' else 50000
        base = dict(methods=[0, 1, 3, 4, 7], nested_args=True, max_terms=4, max_calls=8, partial_chance=(2, 3), unmentioned_call_chance=(1, 2),
                    resp_weights=[('ret', 5), ('unm', 4), ('ans', 2), ('dfl', 1)])
        return [('uu', Profile(**base), n), ('uuo', Profile(ordered_weight=3, clones=1, **base), n // 2)]
    def nontrivial(self, name, text, real_lines):
        return any('real:' in l for l in real_lines)

class Check(MacroCheck):
    prop = 'C16'
    theorems = ['C16_unmock_arm_spec', 'C16_no_function_no_arm', 'C16_unmock_arm_present_for_mut', 'C16_unmock_receiver', 'C16_runtime_unmock', 'C16_source_dispatch', 'C16_source_eval_result_dispatch', 'C16_source_respond']
    case_prefixes = ('ref.unmock', 'mut.unmock', 'pin.unmock', 'async.unmock', 'own.unmock', 'rc.unmock')
    runtime = Runtime()
    facts_of_interest = r'(call unmock|arm \S*Unmock|call report|arm any|path=)'      # path=: the method named by a cannot-unmock panic

    def explore_into(self, rep, tier, seed, ir=True, merge=False):
        super().explore_into(rep, tier, seed, ir=ir, merge=merge)
        self.nostd_cannot_unmock(rep)

    def nostd_cannot_unmock(self, rep):
        """unimock built WITHOUT std: a call that resolves to the real implementation of a method without a registered function, made in a
        frame that owns the original, must still end in an ordinary (catchable) panic naming the method — not in a process abort"""
        import os, subprocess
        from .. import engine, scn
        from ..scn import Pat, seg, term
        hb = os.path.join(engine.VERIF, 'harness_nostd')
        if not os.path.exists(os.path.join(hb, 'Cargo.lock')):
            import shutil; shutil.copy('/repo/Cargo.lock', os.path.join(hb, 'Cargo.lock'))
        rc, out, err = engine.sh(['cargo', 'build', '--offline', '--bin', 'replay'], cwd=hb)
        if rc != 0:
            path = engine.write_replay(self.prop, 'build', (out + err)[-6000:], ["the harness no longer builds against /repo without the std feature"])
            rep.violation(path, "no_std configuration of the harness does not build against /repo", no_input=True)
            return
        exe = os.path.join(hb, 'target', 'debug', 'replay')
        n = 0
        for name, mode, tree in (('explicit', 'strict', term(1, 'each', Pat(mask=255, chain=[seg('unm', 'al0')]))),
                                 ('fallthrough', 'partial', scn.UNIT),
                                 ('rejected', 'partial', term(1, 'each', Pat(mask=1, chain=[seg('ret1', 'al0')])))):
            for also in ('', '1'):
                evs = [scn.build(0, 0, mode, tree)] + ([scn.clone(0, 1)] if also else []) + [[f"unwindcall i=0 t=0 m=1 a=2 also={also} wrap=0 fresh=0"]]
                text = scn.scenario(f"cu_{name}{also}", evs)
                p = subprocess.run([exe], input=text, capture_output=True, text=True, timeout=120)
                n += 1
                line = next((l for l in p.stdout.split('\n') if l.startswith('unwound')), '')
                if p.returncode != 0 or 'U0::b cannot be unmocked' not in line:
                    why = (f"the process died with status {p.returncode} ({p.stderr.strip()[-120:]})" if p.returncode != 0 else f"the call ended as `{line[:160]}`")
                    path = engine.write_replay(self.prop, 'spec', text, [f"property C16 violated by the real code built without std (spin-lock + critical-section): a call resolving to the real implementation of U0::b, which has no registered function, made in a frame that owns the mock: {why}; required: an ordinary panic naming U0::b", "replay: /verif/harness_nostd/target/debug/replay < this file"])
                    rep.violation(path, f"no_std build, scenario cu_{name}{also}: {why}")
                    return
        rep.coverage['nostd_cannot_unmock_cases'] = n

    def rule(self):
        return ("same bounded-exhaustive shape family as C05 with unmock_with in its three forms {none / `_`, path, path(listed "
                "params in a shuffled order, possibly omitting some)} at every method position; the real generator's Unmock arm "
                "(callee path, argument expressions in order, awaited or not) is compared with the Lean model's; compiled "
                "behavioural cases: real function called once with (mock, args in order), listed-parameter form, async awaited, "
                "re-entrant call evaluated by the same mock, CannotUnmock naming the method when none is registered. "
                "non-trivial = method with a registered function and >= 2 parameters")
