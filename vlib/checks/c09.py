from ..rtcheck import RuntimeCheck
from ..gen_runtime import Profile
from .. import scn
from ..scn import Pat, seg, term, stub, tup, Rng

def lifecycle_scenarios(depth, tier):
    """DFS over lifecycle event sequences with alive-tracking"""
    out = []
    trees = {
        'met0': term(1, 'each', Pat(mask=255, chain=[seg('ret1', 'al0')])),     # fails only if never called
        'exact1': term(1, 'some', Pat(mask=255, chain=[seg('ret1', 'once')])),
        'park': term(1, 'each', Pat(mask=255, chain=[seg('ans17', 'al0')])),
    }
    k = [0]
    def rec(evs, alive, nxt, original_alive, d, treename):
        # finish: drop everything that is left (clones first), then the original
        if d == 0 or not alive:
            tail = []
            for j in sorted(alive, reverse=True):
                tail.append(scn.drop(j, 0))
            out.append(scn.scenario(f"l{k[0]}", [scn.build(0, 0, 'strict', trees[treename])] + evs + tail))
            k[0] += 1
            return
        options = []
        for i in sorted(alive):
            options.append(('drop', i, 0))
            if tier == 'thorough' or i == 0:
                options.append(('drop', i, 1))
            options.append(('call', i, 1))
            if i == 0 or tier == 'thorough':
                options.append(('callp', i, 2))      # provided method -> helper clone
                options.append(('verify', i, 0))
                options.append(('noverify', i, 0))
                options.append(('report', i, 0))
            if i != 0:
                options.append(('verify', i, 0))
                if tier != 'thorough':
                    options.append(('noverify', i, 0))      # also on a clone of an original whose verification was already disabled
            if len(alive) < 3:
                options.append(('clone', i, 0))
        options.append(('verify', 0, 1)) if 0 in alive else None
        for (op, i, x) in options:
            a2 = set(alive)
            if op == 'drop':
                a2.discard(i)
                rec(evs + [scn.drop(i, x)], a2, nxt, original_alive, d - 1, treename)
            elif op == 'call':
                rec(evs + [scn.call(i, 1, 0)], a2, nxt, original_alive, d - 1, treename)
            elif op == 'callp':
                rec(evs + [scn.call(i, 2, 0)], a2, nxt, original_alive, d - 1, treename)
            elif op == 'verify':
                a2.discard(i)
                rec(evs + [scn.verify(i, x)], a2, nxt, original_alive, d - 1, treename)
            elif op == 'report':
                a2.discard(i)
                rec(evs + [scn.report(i, x)], a2, nxt, original_alive, d - 1, treename)
            elif op == 'noverify':
                if i != 0:
                    a2.discard(i)
                rec(evs + [scn.noverify(i, x)], a2, nxt, original_alive, d - 1, treename)
            elif op == 'clone':
                a2.add(nxt)
                rec(evs + [scn.clone(i, nxt)], a2, nxt + 1, original_alive, d - 1, treename)
    for treename in trees:
        rec([], {0}, 1, True, depth, treename)
    return out

class Check(RuntimeCheck):
    prop = 'C09'
    design_ref = 'DESIGN.md §4.4, §5 C09'
    theorems = ['C09_clone_teardown_ok', 'C09_clone_drop_ok', 'C09_torn_down_drop_silent', 'C09_teardown_marks',
                'C09_no_verify_disables', 'C09_live_clone_panics', 'C09_other_thread_panics',
                'C09_verify_on_clone_panics', 'C09_report_matches_verify', 'C09_only_original_can_fail', 'C09_source_teardown_sequence', 'C09_source_teardown', 'C09_source_clone_silent', 'C09_source_live_clone_panics', 'C09_source_drop', 'C09_source_verify', 'C09_source_no_verify', 'C09_source_drop_impl', 'C09_source_verify_impl', 'C09_source_no_verify_impl', 'C09_source_initial_flags', 'C09_source_clone_inst']

    def extra(self, rep, tier, seed):
        # library-internal helper clones of default-method delegation (by-value, Rc/Arc, &mut, Pin receivers) must not make the original's verification see a live clone: the compiled delegation cases
        from .macro_common import MacroCheck
        class Generated(MacroCheck):
            prop = 'C09'
            case_prefixes = ('own.default', 'own.m2+default', 'rc.default.shared', 'arc.default.shared', 'ref.default', 'mut.default', 'pin.m2+default')
            facts_of_interest = r'$^'
        Generated().explore_into(rep, tier, seed, ir=False, merge=True)

    def rule(self):
        return ("exhaustive DFS over lifecycle event sequences of length <=3 (quick) / <=4 (thorough) over {clone of any live "
                "instance, drop on creator/other thread, call, call of a provided method (creates the helper clone), verify(), "
                "no_verify_in_drop(), report(), verify on another thread} with met/unmet expectations, followed by dropping "
                "whatever is left; plus random lifecycle-heavy scenarios. non-trivial = sequence containing a clone or a "
                "verify/report/no_verify event")

    def exhaustive(self, tier):
        depth = 3 if tier == 'quick' else 4
        return [('lifecycle-dfs', ''.join(lifecycle_scenarios(depth, tier)))]

    def profiles(self, tier):
        n = 2000 if tier == 'quick' else 40000
        return [('lc', Profile(max_terms=3, max_calls=6, park_weight=4, resp_weights=[('ret', 4), ('ans', 5), ('dfl', 1), ('unm', 1)], clones=3, threads=2, end='mixed', unmentioned_call_chance=(1, 3), methods=[0, 1, 2, 3]), n)]

    def judge(self, name, text, real_lines):
        # dropping / verifying a clone never reports verification errors: only events on instance 0 may
        evs = [l for l in text.split('\n') if l and not l.startswith(('scenario', 'end', 'tuple', 'term', 'stub', 'pat', 'unit'))]
        outs = [l for l in real_lines if not l.startswith('state ')]
        if len(evs) != len(outs):
            return None
        for e, o in zip(evs, outs):
            if e.startswith('drop ') and ' i=0 ' not in e + ' ' and o.startswith('teardown ') and o != 'teardown ok':
                return f"dropping a clone produced `{o}`"
        return None

    def nontrivial(self, name, text, real_lines):
        return any(x in text for x in ('\nclone ', '\nverify ', '\nreport ', '\nnoverify '))
