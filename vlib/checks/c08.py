from ..rtcheck import RuntimeCheck
from ..gen_runtime import Profile
from .. import scn
from ..scn import Pat, seg, term, stub, tup
import re

def errs_of(line):
    m = re.match(r'^(?:teardown errs \d+|exit [01]) \[(.*)\]$', line)
    if not m:
        return None
    return [x for x in m.group(1).split(' | ') if x]

class Check(RuntimeCheck):
    prop = 'C08'
    design_ref = 'DESIGN.md §4.4, §5 C08'
    theorems = ['evalCall_reasons', 'C08_call_logs', 'C08_method_call_logs', 'C08_user_panic_not_recorded',
                'C08_mock_panic_recorded', 'C08_teardown_forwards']

    def rule(self):
        return ("histories in which every mock-induced error kind occurs at varying positions, on the original or on clones, on "
                "the creator thread or on other threads (every panic is caught by the harness = swallowed), 1..n errors, mixed "
                "with user-code panics (answer fn, matcher, real fn, default body); the original is verified at the end on the "
                "creator thread. Oracle on the real trace alone: the final verification must fail and list every error that "
                "made a call panic; a history with only user panics must be judged by counts. non-trivial = at least one "
                "mock-induced panic before the final verification")

    def profiles(self, tier):
        n = 4000 if tier == 'quick' else 80000
        base = dict(max_terms=5, max_calls=10, nested_args=True, user_panic_answers=True, nomatcher_chance=(1, 10),
                    pmask_chance=(1, 8), resp_weights=[('ret', 5), ('ans', 3), ('pan', 2), ('unm', 2), ('dfl', 2), ('def', 1)],
                    unmentioned_call_chance=(1, 4), end='verify')
        return [
            ('e', Profile(clones=2, threads=3, **base), n),
            ('eo', Profile(clones=1, threads=2, ordered_weight=4, **base), n // 2),
        ]

    def judge(self, name, text, real_lines):
        induced = []
        for l in real_lines:
            if l.startswith('call mock-panic '):
                induced.append(re.sub(r' log=\[.*\]$', '', l[len('call mock-panic '):]))
            elif l.startswith('teardown ') and not l.startswith('teardown ok') or l.startswith('teardown ok'):
                pass
        # the last teardown/exit line is the verification of the original
        finals = [l for l in real_lines if l.startswith('teardown ') or l.startswith('exit ')]
        if not finals:
            return None
        last = finals[-1]
        if last.startswith('teardown clones-alive') or last.startswith('teardown wrong-thread'):
            return None
        if induced:
            if last.startswith('teardown ok') or last.startswith('exit 0'):
                return f"mock-induced panics {induced[:2]} happened but final verification passed"
            es = errs_of(last)
            if es is not None and last.startswith('teardown'):
                for e in induced:
                    if e not in es:
                        return f"final verification message lacks recorded error `{e}`"
        return None

    def nontrivial(self, name, text, real_lines):
        return any(l.startswith('call mock-panic') for l in real_lines)
