from ..rtcheck import RuntimeCheck
from ..gen_runtime import Profile
from .. import scn
from ..scn import Pat, seg, term, stub, tup
import re

def errs_of(line):
    m = re.match(r'^(?:teardown errs \d+|exit [01]) \[(.*)\]$', line)
    if not m:
        return None
    return [x for x in m.group(1).split(' | ') if x]

class Check(RuntimeCheck):
    prop = 'C08'
    design_ref = 'DESIGN.md §4.4, §5 C08'
    theorems = ['evalCall_reasons', 'C08_call_logs', 'C08_method_call_logs', 'C08_user_panic_not_recorded',
                'C08_mock_panic_recorded', 'C08_teardown_forwards', 'LogLe.refl', 'LogLe.trans', 'C08_step_log_append_only', 'C08_log_append_only', 'C08_source_error_path', 'C08_source_report_path', 'C08_source_teardown_forwards', 'C08_source_responder_errors_are_errors', 'C08_source_nostd_error_path', 'C08_source_nostd_clone_errors_reported']

    def par_errors(self, rep, tier, seed):
        """several threads hit mock-induced panics at the same time (every panic is swallowed at the thread boundary): under every
        schedule — each lock acquisition and atomic is a switch point — the original's verification lists every one of them"""
        from ..parcheck import ParCheck, par_scenario
        class Par(ParCheck):
            prop = 'C08'
            def scenarios(self, tier, seed):
                tree = tup([term(1, 'each', Pat(mask=1, chain=[seg('ret1', 'al0')])), term(0, 'next', Pat(mask=1, chain=[seg('ret2', 'n1')]))])
                fams = [('e2', tree, [[(1, 1)], [(1, 2)]]),                      # two rejected calls, different arguments
                        ('e3', tree, [[(1, 1)], [(1, 2)], [(5, 0)]]),            # ... and a call to an unmentioned method
                        ('e2o', tree, [[(0, 1)], [(1, 2), (1, 0)]])]             # an ordered call with wrong arguments next to a rejected and an accepted one
                return [(n, par_scenario(n, 'strict', t, threads, False)) for n, t, threads in fams]
            def caps(self, tier):
                return (1500, 60) if tier == 'quick' else (40000, 2000)
            def judge(self, name, r, seqs):
                j = super().judge(name, r, seqs)
                if j:
                    return j
                nerr = sum(1 for t in r['outs'].split('|') for o in t.split(',') if o and not o.startswith('ret'))
                nrec = len([x for x in re.split(r'[,|]', r['reasons']) if x.strip()]) if r['reasons'] not in ('', '-', '[]') else 0
                if nrec < nerr:
                    return f"{nerr} calls panicked but only {nrec} errors were recorded: {r['reasons']}"
                return None
        Par().explore_into(rep, tier, seed, merge=True)

    def nostd_clones(self, rep, tier, seed):
        """configuration B (unimock built WITHOUT std: spin-lock + critical-section): errors induced through clones — swallowed — must
        still fail the original's verification with their text; the original itself never panics in these histories (without std a
        swallowed panic on the original deliberately disables its verification). Oracle on the real trace alone."""
        import os, subprocess
        from .. import engine
        hb = os.path.join(engine.VERIF, 'harness_nostd')
        lock = os.path.join(hb, 'Cargo.lock')
        if not os.path.exists(lock):
            import shutil; shutil.copy('/repo/Cargo.lock', lock)
        rc, out, err = engine.sh(['cargo', 'build', '--offline', '--bin', 'replay'], cwd=hb)
        if rc != 0:
            path = engine.write_replay(self.prop, 'build', (out + err)[-6000:], ["the harness no longer builds against /repo without the std feature (spin-lock + critical-section)"])
            rep.violation(path, "no_std configuration of the harness does not build against /repo", no_input=True)
            return
        exe = os.path.join(hb, 'target', 'debug', 'replay')
        rng = scn.Rng(seed * 7 + 5)
        n = 150 if tier == 'quick' else 4000
        out_text = []
        for k in range(n):
            tree = tup([term(1, 'each', Pat(mask=1, chain=[seg('ret1', 'al0')])), term(5, 'each', Pat(mask=255, chain=[seg('pan', 'al0')] if k % 3 == 0 else [seg('ret2', 'al0')]))])
            evs = [scn.build(0, 0, 'strict', tree), scn.clone(0, 1)]
            nclones = 1 + rng.below(2)
            if nclones == 2:
                evs.append(scn.clone(1, 2))
            for _ in range(1 + rng.below(3)):
                c = 1 + rng.below(nclones)
                kind = rng.below(3)
                evs.append(scn.call(c, 1, 1 + rng.below(3)) if kind == 0 else (scn.call(c, 2, 0) if kind == 1 else scn.call(c, 5, 0)))     # rejected arguments / unmentioned method / explicit panic (or a fine call)
                if rng.chance(1, 2):
                    evs.append(scn.call(0, 1, 0))        # the original only ever makes accepted calls
            for c in range(nclones, 0, -1):
                evs.append(scn.drop(c))
            evs.append(scn.verify(0) if k % 2 else scn.drop(0))
            out_text.append(scn.scenario(f"nc{k}", evs))
        text = ''.join(out_text)
        p = subprocess.run([exe], input=text, capture_output=True, text=True, timeout=1200)
        if p.returncode != 0:
            path = engine.write_replay(self.prop, 'toolerror', text[:5000], [f"no_std replay exited {p.returncode}: {p.stderr[-600:]}"])
            rep.violation(path, f"no_std replay crashed ({p.returncode})", no_input=True)
            return
        from .. import canon
        real_raw, order = canon.split_scenarios(p.stdout)
        texts = scn.split_text(text)
        nerr = 0; shown = 0
        for nme in order:
            lines = real_raw[nme]
            induced = [l.split('\t')[2] for l in lines if l.startswith('call\tpanic\t') and len(l.split('\t')) > 2]
            final = next((l for l in reversed(lines) if l.startswith('teardown')), '')
            nerr += len(induced)
            missing = [m for m in induced if m.split('\\n')[0] not in final]
            if induced and (missing or not final.startswith('teardown\tpanic')) and shown < 2:
                shown += 1
                path = engine.write_replay(self.prop, 'spec', texts.get(nme, ''), [f"property C08 violated by the real code built without std (spin-lock + critical-section): {len(induced)} errors were induced through clones and swallowed, the original made only accepted calls, yet its final verification says `{final[:200]}`; missing: {missing[:2]}",
                                                                                    "replay: /verif/harness_nostd/target/debug/replay < this file"])
                rep.violation(path, f"no_std build, scenario {nme}: errors induced through clones are not reported by the original's verification: `{final[:160]}`")
        rep.coverage['nostd_clone_error_histories'] = len(order)
        rep.coverage['nostd_clone_errors'] = nerr
        rep.coverage['evaluations'] = rep.coverage.get('evaluations', 0) + len(order)

    def extra(self, rep, tier, seed):
        """swallowed mock-induced panics whose message is unusual to render (long non-ASCII Debug text, empty / multi-line
        panics() message, emoji) must be remembered all the same: harness/src/bin/messages.rs `post` lines"""
        import os, subprocess
        from .. import engine
        self.par_errors(rep, tier, seed)
        self.nostd_clones(rep, tier, seed)
        ok, log = engine.build_harness(['messages'])
        if not ok:
            path = engine.write_replay(self.prop, 'build', log + '\n', ["harness/src/bin/messages.rs no longer builds against /repo"])
            rep.violation(path, "messages harness does not build against /repo", no_input=True)
            return
        p = subprocess.run([os.path.join(engine.HARNESS, 'target', 'debug', 'messages')], capture_output=True, text=True, timeout=300)
        rows = [l.split('\t') for l in p.stdout.split('\n') if l.startswith('post\t')]
        bad = [r for r in rows if len(r) < 5 or r[2] != 'remembered']
        if p.returncode != 0 or not rows:
            path = engine.write_replay(self.prop, 'toolerror', p.stderr[-2000:], ["messages harness crashed or printed no post lines"])
            rep.violation(path, f"messages harness failed (exit {p.returncode})", no_input=True)
        for r in bad[:2]:
            path = engine.write_replay(self.prop, 'spec', '\t'.join(r) + '\n', [f"property C08 violated by the real code: the mock-induced panic of case {r[1]} was swallowed and verifying the original afterwards does not fail with its text",
                                                                                f"induced : {r[3] if len(r) > 3 else ''}", f"verified: {r[4] if len(r) > 4 else ''}", "replay: /verif/harness/target/debug/messages | grep ^post"])
            rep.violation(path, f"swallowed error of case {r[1]} not remembered: induced `{(r[3] if len(r) > 3 else '')[:120]}`, verification said `{(r[4] if len(r) > 4 else '')[:120]}`")
        rep.coverage['post_verify_cases'] = len(rows)
        rep.coverage['evaluations'] = rep.coverage.get('evaluations', 0) + len(rows)
        # exhausted single-use leaves of composite returns (Option / Result / Vec / Poll / tuples): each such panic is mock-induced and remembered
        ok, log = engine.build_harness(['outputs'])
        if not ok:
            path = engine.write_replay(self.prop, 'build', log + '\n', ["harness/src/bin/outputs.rs no longer builds against /repo"])
            rep.violation(path, "outputs harness does not build against /repo", no_input=True)
            return
        p = subprocess.run([os.path.join(engine.HARNESS, 'target', 'debug', 'outputs')], capture_output=True, text=True, timeout=300)
        recs = [re.match(r'^rec (\w+) path=(\w+) val=(\S+) panics=(\d+) named=(\d+) remembered=(\d+) first=(.*)$', l) for l in p.stdout.split('\n') if l.startswith('rec ')]
        if p.returncode != 0 or not recs or not all(recs):
            path = engine.write_replay(self.prop, 'toolerror', p.stderr[-2000:], ["outputs harness crashed or printed no rec lines"])
            rep.violation(path, f"outputs harness failed (exit {p.returncode})", no_input=True)
            return
        shown = 0
        for m in recs:
            if int(m.group(4)) != int(m.group(6)) and shown < 2:
                shown += 1
                path = engine.write_replay(self.prop, 'spec', m.group(0) + '\n', [f"property C08 violated by the real code: method {m.group(1)} configured through path `{m.group(2)}` with value {m.group(3)} and called three times panicked {m.group(4)} times, but verifying the original afterwards reported the text of only {m.group(6)} of those panics",
                                                                                f"first panic: {m.group(7)}", "replay: /verif/harness/target/debug/outputs | grep ^rec"])
                rep.violation(path, f"exhausted single-use return of {m.group(1)} ({m.group(3)}, path {m.group(2)}): {m.group(4)} panics, {m.group(6)} remembered by verification; first panic `{m.group(7)[:120]}`")
        rep.coverage['composite_exhaustion_cases'] = sum(1 for m in recs if int(m.group(4)) > 0)
        rep.coverage['evaluations'] += len(recs)

    def rule(self):
        return ("histories in which every mock-induced error kind occurs at varying positions, on the original or on clones, on "
                "the creator thread or on other threads (every panic is caught by the harness = swallowed), 1..n errors, mixed "
                "with user-code panics (answer fn, matcher, real fn, default body); the original is verified at the end on the "
                "creator thread. Oracle on the real trace alone: the final verification must fail and list every error that "
                "made a call panic; a history with only user panics must be judged by counts. non-trivial = at least one "
                "mock-induced panic before the final verification")

    def profiles(self, tier):
        n = 4000 if tier == 'quick' else 80000
        base = dict(max_terms=5, max_calls=10, nested_args=True, user_panic_answers=True, nomatcher_chance=(1, 10),
                    pmask_chance=(1, 8), resp_weights=[('ret', 5), ('ans', 3), ('pan', 2), ('unm', 2), ('dfl', 2), ('def', 1)],
                    unmentioned_call_chance=(1, 4), end='verify')
        return [
            ('e', Profile(clones=2, threads=3, **base), n),
            ('eo', Profile(clones=1, threads=2, ordered_weight=4, **base), n // 2),
        ]

    def judge(self, name, text, real_lines):
        induced = []
        for l in real_lines:
            if l.startswith('call mock-panic '):
                induced.append(re.sub(r' log=\[.*\]$', '', l[len('call mock-panic '):]))
            elif l.startswith('teardown ') and not l.startswith('teardown ok') or l.startswith('teardown ok'):
                pass
        # the last teardown/exit line is the verification of the original
        finals = [l for l in real_lines if l.startswith('teardown ') or l.startswith('exit ')]
        if not finals:
            return None
        last = finals[-1]
        if last.startswith('teardown clones-alive') or last.startswith('teardown wrong-thread'):
            return None
        if induced:
            if last.startswith('teardown ok') or last.startswith('exit 0'):
                return f"mock-induced panics {induced[:2]} happened but final verification passed"
            es = errs_of(last)
            if es is not None and last.startswith('teardown'):
                for e in induced:
                    if e not in es:
                        return f"final verification message lacks recorded error `{e}`"
        return None

    def nontrivial(self, name, text, real_lines):
        return any(l.startswith('call mock-panic') for l in real_lines)
