from ..rtcheck import RuntimeCheck
from ..gen_runtime import Profile
from .. import scn
from ..scn import Pat, seg, term, stub, tup
import re

def errs_of(line):
    m = re.match(r'^(?:teardown errs \d+|exit [01]) \[(.*)\]$', line)
    if not m:
        return None
    return [x for x in m.group(1).split(' | ') if x]

class Check(RuntimeCheck):
    prop = 'C08'
    design_ref = 'DESIGN.md §4.4, §5 C08'
    theorems = ['evalCall_reasons', 'C08_call_logs', 'C08_method_call_logs', 'C08_user_panic_not_recorded',
                'C08_mock_panic_recorded', 'C08_teardown_forwards', 'LogLe.refl', 'LogLe.trans', 'C08_step_log_append_only', 'C08_log_append_only', 'C08_source_error_path', 'C08_source_report_path', 'C08_source_teardown_forwards', 'C08_source_responder_errors_are_errors']

    def extra(self, rep, tier, seed):
        """swallowed mock-induced panics whose message is unusual to render (long non-ASCII Debug text, empty / multi-line
        panics() message, emoji) must be remembered all the same: harness/src/bin/messages.rs `post` lines"""
        import os, subprocess
        from .. import engine
        ok, log = engine.build_harness(['messages'])
        if not ok:
            path = engine.write_replay(self.prop, 'build', log + '\n', ["harness/src/bin/messages.rs no longer builds against /repo"])
            rep.violation(path, "messages harness does not build against /repo", no_input=True)
            return
        p = subprocess.run([os.path.join(engine.HARNESS, 'target', 'debug', 'messages')], capture_output=True, text=True, timeout=300)
        rows = [l.split('\t') for l in p.stdout.split('\n') if l.startswith('post\t')]
        bad = [r for r in rows if len(r) < 5 or r[2] != 'remembered']
        if p.returncode != 0 or not rows:
            path = engine.write_replay(self.prop, 'toolerror', p.stderr[-2000:], ["messages harness crashed or printed no post lines"])
            rep.violation(path, f"messages harness failed (exit {p.returncode})", no_input=True)
        for r in bad[:2]:
            path = engine.write_replay(self.prop, 'spec', '\t'.join(r) + '\n', [f"property C08 violated by the real code: the mock-induced panic of case {r[1]} was swallowed and verifying the original afterwards does not fail with its text",
                                                                                f"induced : {r[3] if len(r) > 3 else ''}", f"verified: {r[4] if len(r) > 4 else ''}", "replay: /verif/harness/target/debug/messages | grep ^post"])
            rep.violation(path, f"swallowed error of case {r[1]} not remembered: induced `{(r[3] if len(r) > 3 else '')[:120]}`, verification said `{(r[4] if len(r) > 4 else '')[:120]}`")
        rep.coverage['post_verify_cases'] = len(rows)
        rep.coverage['evaluations'] = rep.coverage.get('evaluations', 0) + len(rows)
        # exhausted single-use leaves of composite returns (Option / Result / Vec / Poll / tuples): each such panic is mock-induced and remembered
        ok, log = engine.build_harness(['outputs'])
        if not ok:
            path = engine.write_replay(self.prop, 'build', log + '\n', ["harness/src/bin/outputs.rs no longer builds against /repo"])
            rep.violation(path, "outputs harness does not build against /repo", no_input=True)
            return
        p = subprocess.run([os.path.join(engine.HARNESS, 'target', 'debug', 'outputs')], capture_output=True, text=True, timeout=300)
        recs = [re.match(r'^rec (\w+) path=(\w+) val=(\S+) panics=(\d+) named=(\d+) remembered=(\d+) first=(.*)$', l) for l in p.stdout.split('\n') if l.startswith('rec ')]
        if p.returncode != 0 or not recs or not all(recs):
            path = engine.write_replay(self.prop, 'toolerror', p.stderr[-2000:], ["outputs harness crashed or printed no rec lines"])
            rep.violation(path, f"outputs harness failed (exit {p.returncode})", no_input=True)
            return
        shown = 0
        for m in recs:
            if int(m.group(4)) != int(m.group(6)) and shown < 2:
                shown += 1
                path = engine.write_replay(self.prop, 'spec', m.group(0) + '\n', [f"property C08 violated by the real code: method {m.group(1)} configured through path `{m.group(2)}` with value {m.group(3)} and called three times panicked {m.group(4)} times, but verifying the original afterwards reported the text of only {m.group(6)} of those panics",
                                                                                f"first panic: {m.group(7)}", "replay: /verif/harness/target/debug/outputs | grep ^rec"])
                rep.violation(path, f"exhausted single-use return of {m.group(1)} ({m.group(3)}, path {m.group(2)}): {m.group(4)} panics, {m.group(6)} remembered by verification; first panic `{m.group(7)[:120]}`")
        rep.coverage['composite_exhaustion_cases'] = sum(1 for m in recs if int(m.group(4)) > 0)
        rep.coverage['evaluations'] += len(recs)

    def rule(self):
        return ("histories in which every mock-induced error kind occurs at varying positions, on the original or on clones, on "
                "the creator thread or on other threads (every panic is caught by the harness = swallowed), 1..n errors, mixed "
                "with user-code panics (answer fn, matcher, real fn, default body); the original is verified at the end on the "
                "creator thread. Oracle on the real trace alone: the final verification must fail and list every error that "
                "made a call panic; a history with only user panics must be judged by counts. non-trivial = at least one "
                "mock-induced panic before the final verification")

    def profiles(self, tier):
        n = 4000 if tier == 'quick' else 80000
        base = dict(max_terms=5, max_calls=10, nested_args=True, user_panic_answers=True, nomatcher_chance=(1, 10),
                    pmask_chance=(1, 8), resp_weights=[('ret', 5), ('ans', 3), ('pan', 2), ('unm', 2), ('dfl', 2), ('def', 1)],
                    unmentioned_call_chance=(1, 4), end='verify')
        return [
            ('e', Profile(clones=2, threads=3, **base), n),
            ('eo', Profile(clones=1, threads=2, ordered_weight=4, **base), n // 2),
        ]

    def judge(self, name, text, real_lines):
        induced = []
        for l in real_lines:
            if l.startswith('call mock-panic '):
                induced.append(re.sub(r' log=\[.*\]$', '', l[len('call mock-panic '):]))
            elif l.startswith('teardown ') and not l.startswith('teardown ok') or l.startswith('teardown ok'):
                pass
        # the last teardown/exit line is the verification of the original
        finals = [l for l in real_lines if l.startswith('teardown ') or l.startswith('exit ')]
        if not finals:
            return None
        last = finals[-1]
        if last.startswith('teardown clones-alive') or last.startswith('teardown wrong-thread'):
            return None
        if induced:
            if last.startswith('teardown ok') or last.startswith('exit 0'):
                return f"mock-induced panics {induced[:2]} happened but final verification passed"
            es = errs_of(last)
            if es is not None and last.startswith('teardown'):
                for e in induced:
                    if e not in es:
                        return f"final verification message lacks recorded error `{e}`"
        return None

    def nontrivial(self, name, text, real_lines):
        return any(l.startswith('call mock-panic') for l in real_lines)
