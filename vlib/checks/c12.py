from ..parcheck import ParCheck, par_scenario, seq_key
from .. import scn, engine
from ..scn import Pat, seg, term, stub, tup, Rng

class Check(ParCheck):
    prop = 'C12'
    theorems = ['slotTaken_applyAction', 'C12_single_use_linear', 'C12_at_most_one_delivery', 'C12_multi_use_intact',
                'C12_typestate_value_level', 'C12_composite_single_use', 'C12_nonclone_quantified_once_only', 'run_nonclone',
                'C12_composite_race_at_most_one', 'C12_composite_race_no_loss', 'C12_nonclone_segment_is_single_use', 'C12_source_clone_bounds', 'C12_source_nonclone_refused']

    def rule(self):
        return ("scenarios: a single-use response (some_call/next_call .returns(v) unquantified or .once(), also as the first "
                "segment of a chain) requested 0..N times by 1-4 threads through clones or a shared &Unimock, mixed with "
                "repeatable responses; ALL schedules at the granularity of the slot lock and the counters; oracle: the "
                "concurrent run equals a sequential run and at most one caller receives the single-use value; non-trivial = "
                "schedule with a context switch between two requests for the same slot")

    def scenarios(self, tier, seed):
        out = []
        once_un = term(1, 'some', Pat(mask=255, chain=[seg('ret7', '-')]))
        once_chain = term(1, 'some', Pat(mask=255, chain=[seg('ret7', 'once'), seg('ret8', '-')]))
        once_ord = tup([term(0, 'next', Pat(mask=255, chain=[seg('ret9', '-')])), term(1, 'each', Pat(mask=255, chain=[seg('ret1')]))])
        multi = term(1, 'some', Pat(mask=255, chain=[seg('ret7', 'n2')]))
        fams = [
            ('once2', once_un, [[(1, 0)], [(1, 0)]]),
            ('once3', once_un, [[(1, 0)], [(1, 0)], [(1, 0)]]),
            ('once2x2', once_un, [[(1, 0), (1, 0)], [(1, 0), (1, 0)]]),
            ('oncechain', once_chain, [[(1, 0), (1, 0)], [(1, 0)]]),
            ('onceord', once_ord, [[(0, 0), (1, 0)], [(0, 0)]]),
            ('multi', multi, [[(1, 0), (1, 0)], [(1, 0)]]),
            ('once1', once_un, [[(1, 0)], [(5, 0)]]),
            # a value configured for repeated use with the count one is still cloned per call: a surplus call is answered (and reported at teardown), not refused
            ('multin1', term(1, 'some', Pat(mask=255, chain=[seg('ret7', 'n1')])), [[(1, 0), (1, 0)]]),
            ('multin1x2', term(1, 'some', Pat(mask=255, chain=[seg('ret7', 'n1')])), [[(1, 0)], [(1, 0)]]),
            # a later pattern of the same method that would also accept the call does not take over once the single-use value is gone
            ('once2ov', tup([once_un, term(1, 'some', Pat(mask=255, chain=[seg('ret8', 'al0')]))]), [[(1, 0)], [(1, 0)]]),
            ('once2ovseq', tup([once_un, term(1, 'each', Pat(mask=255, chain=[seg('ret8', 'al0')]))]), [[(1, 0), (1, 0), (1, 0)]]),
            ('multial', term(1, 'some', Pat(mask=255, chain=[seg('ret7', 'al1')])), [[(1, 0), (1, 0)], [(1, 0)]]),
            ('multieach', term(1, 'each', Pat(mask=255, chain=[seg('ret7', 'once'), seg('ret8', 'al0')])), [[(1, 0), (1, 0)], [(1, 0)]]),
        ]
        if tier == 'thorough':
            fams += [('once4', once_un, [[(1, 0)]] * 4), ('once3x2', once_un, [[(1, 0), (1, 0)]] * 3)]
        for name, tree, threads in fams:
            for shared in (False, True):
                nm = f"{name}_{'s' if shared else 'c'}"
                out.append((nm, par_scenario(nm, 'strict', tree, threads, shared)))
        # partial mocks on a method that has a real implementation: an exhausted single-use value still panics, it does not
        # fall through to the real function
        once_un0 = term(0, 'some', Pat(mask=255, chain=[seg('ret7', '-')]))
        once_ord0 = term(0, 'next', Pat(mask=255, chain=[seg('ret9', 'once')]))
        for name, tree, threads in [('oncepart2', once_un0, [[(0, 0)], [(0, 0)]]), ('oncepart1x2', once_un0, [[(0, 0), (0, 0)]]), ('oncepartord', once_ord0, [[(0, 0)], [(0, 0)]])]:
            nm = f"{name}_c"
            out.append((nm, par_scenario(nm, 'partial', tree, threads, False)))
        return out

    def stored_value_dropped_once(self, rep):
        """the value stored in the mock is dropped exactly once overall — also when the instance ends through verify() / report(), passing or failing"""
        import os, re, subprocess
        ok, log = engine.build_harness(['chain'])
        if not ok:
            path = engine.write_replay(self.prop, 'build', log + '\n', ["harness/src/bin/chain.rs no longer builds against /repo"])
            rep.violation(path, "chain harness does not build against /repo", no_input=True)
            return
        text = ''.join(f"scenario returnsdrop_{e}\nvia unimock\nreturnsdrop end={e}\nend\n" for e in range(5))
        p = subprocess.run([os.path.join(engine.HARNESS, 'target', 'debug', 'chain')], input=text, capture_output=True, text=True, timeout=300)
        rows = [re.match(r'returnsdrop end=(\d) reads=\(77, 77\) early=\[(.*)\] dropped_after_end=\[(.*)\]$', l) for l in p.stdout.split('\n') if l.startswith('returnsdrop ')]
        if p.returncode != 0 or len(rows) != 5 or not all(rows):
            path = engine.write_replay(self.prop, 'toolerror', p.stdout[-1500:] + p.stderr[-1500:], ["chain harness crashed or printed unexpected returnsdrop lines"])
            rep.violation(path, "chain harness failed on the returnsdrop scenarios", no_input=True)
            return
        ends = ['drop', 'verify()', 'report()', 'a failing verify()', 'a failing report()']
        for m in rows:
            if m.group(2) or m.group(3) != '77':
                e = int(m.group(1))
                path = engine.write_replay(self.prop, 'spec', f"scenario returnsdrop_{e}\nvia unimock\nreturnsdrop end={e}\nend\n", [f"property C12 violated by the real code: a value stored by returns() must be dropped exactly once overall; the instance ended through {ends[e]}: dropped before the end [{m.group(2)}], after it [{m.group(3)}]", "replay: /verif/harness/target/debug/chain < this file"])
                rep.violation(path, f"stored value not dropped exactly once when the instance ends through {ends[e]}: before [{m.group(2)}], after [{m.group(3)}]")
        rep.coverage['stored_value_drop_cases'] = len(rows)

    def extra(self, rep, tier, seed):
        # owned leaves inside Option / Result / tuple / Vec / Poll composites: the compiled cases of C17's harness,
        # single-use and repeatable paths, compared with the Output model (theorem C17_once, imported by Props/C12)
        from .c17 import Check as C17
        C17().explore(rep, only_paths=None, merge=True, prop=self.prop)
        self.leaf_race(rep, tier)
        self.stored_value_dropped_once(rep)
        # compile-time half: the builder refuses to quantify a non-Clone value for more than one use
        from .. import tscheck
        tscheck.report(self, rep, tier, 'C12')

    def leaf_race(self, rep, tier):
        """threads racing for ONE composite single-use value (owned leaves in separate locked slots): all schedules,
        judged by a model-free oracle and replayed on Model/LeafRace (theorems C12_composite_race_*)"""
        import os, re, subprocess
        from .. import macrocheck as mc
        ok, log = engine.build_harness(['leafrace'])
        if not ok:
            path = engine.write_replay(self.prop, 'build', log + '\n', ["harness/src/bin/leafrace.rs no longer builds against /repo"])
            rep.violation(path, "leaf-race harness does not build against /repo", no_input=True)
            return
        fams = [('tup2', 2), ('tup2', 3), ('tup3', 2), ('vecres', 2), ('optres', 2), ('optres', 3)]
        if tier == 'thorough':
            fams += [('tup3', 3), ('vecres', 3), ('tup2', 4)]
        expect = {'tup2': 'got:1.2.3', 'tup3': 'got:1.2.3.4', 'vecres': 'got:1.2.3', 'optres': 'got:1'}
        text = ''.join(f"race lr_{k}_{t} kind={k} threads={t}\n" for k, t in fams)
        exe = os.path.join(engine.HARNESS, 'target', 'debug', 'leafrace')
        p = subprocess.run([exe], input=text, capture_output=True, text=True, timeout=3000,
                           env=dict(os.environ, SCHED_CAP=str(4000 if tier == 'quick' else 100000)))
        if p.returncode != 0:
            path = engine.write_replay(self.prop, 'toolerror', text, [f"leafrace exited {p.returncode}: {p.stderr[-600:]}"])
            rep.violation(path, f"leaf-race run crashed (exit {p.returncode})", no_input=True)
            return
        cur = None; rows = []
        for l in p.stdout.split('\n'):
            if l.startswith('scenario '):
                cur = l.split()[1]
            m = re.match(r'sched picks=(\S*) tags=(\S*) outs=(\S*) leaves=(\d+) dropped_before_teardown=(\d+) dropped_total=(\d+)$', l)
            if m:
                rows.append((cur,) + m.groups())
        inp = ''.join(f"leafrace {i} leaves={r[4]} threads={r[0].split('_')[2]} picks={r[1]}\n" for i, r in enumerate(rows))
        mo = mc.parse_items(subprocess.run([os.path.join(engine.LEAN, '.lake', 'build', 'bin', 'driver')], input=inp, capture_output=True, text=True).stdout)
        spec_bad, tie_bad, switched = [], [], 0
        for i, (name, picks, tags, outs, leaves, before, total) in enumerate(rows):
            kind = name.split('_')[1]
            o = outs.split('|')
            got = [x for x in o if x.startswith('got:')]
            why = None
            if len(got) != 1:
                why = f"{len(got)} callers received the single-use value (outcomes {outs})"
            elif got[0] != expect[kind]:
                why = f"the receiver observed {got[0]} instead of {expect[kind]}"
            elif any(x != 'err:CannotReturnValueMoreThanOnce' for x in o if not x.startswith('got:')):
                why = f"a losing request did not panic with CannotReturnValueMoreThanOnce: {outs}"
            elif total != leaves:
                why = f"{leaves} owned leaves constructed but {total} dropped overall"
            pk = picks.split(',')
            if any(pk[j] != pk[j + 1] for j in range(len(pk) - 1)):
                switched += 1
            if why:
                spec_bad.append((name, picks, why, outs)); continue
            m = (mo.get(str(i)) or ['?'])[0]
            mm = re.match(r'tags=(\S*) outs=(\S*) stray=(\d+)$', m)
            real_o = '|'.join('got' if x.startswith('got:') else 'err' for x in o)
            if not mm or mm.group(1) != tags or mm.group(2) != real_o or mm.group(3) != '0':
                tie_bad.append((name, picks, f"real tags={tags} outs={real_o}; model {m}"))
        for (name, picks, why, outs) in spec_bad[:2]:
            kind, t = name.split('_')[1], name.split('_')[2]
            path = engine.write_replay(self.prop, 'spec', f"race {name} kind={kind} threads={t}\n# schedule picks={picks}\n", [
                f"property {self.prop} violated by the real code under schedule picks={picks}: {why}",
                "replay: SCHED_CAP=100000 /verif/harness/target/debug/leafrace < this file (the schedule is among the explored ones)"])
            rep.violation(path, f"{name} schedule picks={picks}: {why}"[:400])
        if not spec_bad and tie_bad:
            (name, picks, d) = tie_bad[0]
            path = engine.write_replay(self.prop, 'tie', f"race {name}\n# schedule picks={picks}\n# {d}\n", ["Model/LeafRace and the real leaf accesses disagree; every schedule still delivered the value to exactly one caller"])
            rep.violation(path, f"leaf-race model/code correspondence broken on {name} picks={picks}: {d}"[:400], no_input=True)
        rep.coverage['leaf_race'] = {'schedules': len(rows), 'with_context_switch': switched, 'families': [f"{k}x{t}" for k, t in fams]}
        rep.coverage['evaluations'] = rep.coverage.get('evaluations', 0) + len(rows)
        rep.coverage['distinct_nontrivial'] = rep.coverage.get('distinct_nontrivial', 0) + switched

    def judge(self, name, r, seqs):
        j = super().judge(name, r, seqs)
        if j:
            return j
        if name.startswith('once') and not name.startswith('oncechain'):
            n7 = sum(1 for t in r['outs'].split('|') for o in t.split(',') if o in ('ret:7', 'ret:9'))
            if n7 > 1:
                return f"single-use value handed to {n7} callers"
        flat = [o for t in r['outs'].split('|') for o in t.split(',') if o]
        if name.startswith(('oncepart2', 'oncepart1x2', 'once2_', 'once3_', 'once4_', 'once2x2', 'once3x2', 'once2ov')):   # (ordered patterns reject the extra call as out of order instead)
            others = [o for o in flat if o not in ('ret:7', 'ret:9')]
            if any(not o.startswith('err:CannotReturnValueMoreThanOnce') for o in others) or len(others) != len(flat) - 1:
                return f"a single-use value must go to exactly one request and every other request must panic (CannotReturnValueMoreThanOnce): {flat}"
        if name.startswith('oncechain') and sorted(flat) != sorted(['ret:7'] + ['ret:8'] * (len(flat) - 1)):
            return f"a single-use value at the head of a response chain (returns(v).once().then()..) must go to exactly one request, the tail to the others: {flat}"
        if name.startswith('multin1') and any(o != 'ret:7' for o in flat):
            return f"a value configured for repeated use (returns(v).n_times(1)) was not cloned for every caller: {flat}"
        if name.startswith('multial') and any(o != 'ret:7' for o in flat):
            return f"a value configured for repeated use (returns(v).at_least_times(1)) was not handed to every caller: {flat}"
        if name.startswith('multieach') and sorted(flat) != sorted(['ret:7'] + ['ret:8'] * (len(flat) - 1)):
            return f"repeatable responses were not cloned per call: {flat}"
        if name.startswith('multi_') and sorted(flat)[:2] != ['ret:7', 'ret:7']:
            return f"n_times(2) value not handed out twice: {flat}"
        return None
