from ..parcheck import ParCheck, par_scenario, seq_key
from .. import scn, engine
from ..scn import Pat, seg, term, stub, tup, Rng

class Check(ParCheck):
    prop = 'C12'
    theorems = ['slotTaken_applyAction', 'C12_single_use_linear', 'C12_at_most_one_delivery', 'C12_multi_use_intact',
                'C12_typestate_value_level', 'C12_composite_single_use', 'C12_nonclone_quantified_once_only', 'run_nonclone']

    def rule(self):
        return ("scenarios: a single-use response (some_call/next_call .returns(v) unquantified or .once(), also as the first "
                "segment of a chain) requested 0..N times by 1-4 threads through clones or a shared &Unimock, mixed with "
                "repeatable responses; ALL schedules at the granularity of the slot lock and the counters; oracle: the "
                "concurrent run equals a sequential run and at most one caller receives the single-use value; non-trivial = "
                "schedule with a context switch between two requests for the same slot")

    def scenarios(self, tier, seed):
        out = []
        once_un = term(1, 'some', Pat(mask=255, chain=[seg('ret7', '-')]))
        once_chain = term(1, 'some', Pat(mask=255, chain=[seg('ret7', 'once'), seg('ret8', '-')]))
        once_ord = tup([term(0, 'next', Pat(mask=255, chain=[seg('ret9', '-')])), term(1, 'each', Pat(mask=255, chain=[seg('ret1')]))])
        multi = term(1, 'some', Pat(mask=255, chain=[seg('ret7', 'n2')]))
        fams = [
            ('once2', once_un, [[(1, 0)], [(1, 0)]]),
            ('once3', once_un, [[(1, 0)], [(1, 0)], [(1, 0)]]),
            ('once2x2', once_un, [[(1, 0), (1, 0)], [(1, 0), (1, 0)]]),
            ('oncechain', once_chain, [[(1, 0), (1, 0)], [(1, 0)]]),
            ('onceord', once_ord, [[(0, 0), (1, 0)], [(0, 0)]]),
            ('multi', multi, [[(1, 0), (1, 0)], [(1, 0)]]),
            ('once1', once_un, [[(1, 0)], [(5, 0)]]),
            ('multial', term(1, 'some', Pat(mask=255, chain=[seg('ret7', 'al1')])), [[(1, 0), (1, 0)], [(1, 0)]]),
            ('multieach', term(1, 'each', Pat(mask=255, chain=[seg('ret7', 'once'), seg('ret8', 'al0')])), [[(1, 0), (1, 0)], [(1, 0)]]),
        ]
        if tier == 'thorough':
            fams += [('once4', once_un, [[(1, 0)]] * 4), ('once3x2', once_un, [[(1, 0), (1, 0)]] * 3)]
        for name, tree, threads in fams:
            for shared in (False, True):
                nm = f"{name}_{'s' if shared else 'c'}"
                out.append((nm, par_scenario(nm, 'strict', tree, threads, shared)))
        return out

    def extra(self, rep, tier, seed):
        # owned leaves inside Option / Result / tuple / Vec / Poll composites: the compiled cases of C17's harness,
        # single-use and repeatable paths, compared with the Output model (theorem C17_once, imported by Props/C12)
        from .c17 import Check as C17
        C17().explore(rep, only_paths=None, merge=True, prop=self.prop)
        # compile-time half: the builder refuses to quantify a non-Clone value for more than one use
        from .. import tscheck
        tscheck.report(self, rep, tier, 'C12')

    def judge(self, name, r, seqs):
        j = super().judge(name, r, seqs)
        if j:
            return j
        if name.startswith('once') and not name.startswith('oncechain'):
            n7 = sum(1 for t in r['outs'].split('|') for o in t.split(',') if o in ('ret:7', 'ret:9'))
            if n7 > 1:
                return f"single-use value handed to {n7} callers"
        flat = [o for t in r['outs'].split('|') for o in t.split(',') if o]
        if name.startswith('multial') and any(o != 'ret:7' for o in flat):
            return f"a value configured for repeated use (returns(v).at_least_times(1)) was not handed to every caller: {flat}"
        if name.startswith('multieach') and sorted(flat) != sorted(['ret:7'] + ['ret:8'] * (len(flat) - 1)):
            return f"repeatable responses were not cloned per call: {flat}"
        if name.startswith('multi_') and sorted(flat)[:2] != ['ret:7', 'ret:7']:
            return f"n_times(2) value not handed out twice: {flat}"
        return None
