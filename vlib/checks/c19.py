import os, re, subprocess
from .. import engine, gen_matching as gm, macrocheck as mc
from .macro_common import MacroCheck
from ..rtcheck import RuntimeCheck
from ..gen_runtime import Profile
from .c06 import run_cases

MESSAGES = os.path.join(engine.HARNESS, 'target', 'debug', 'messages')
DRIVER = os.path.join(engine.LEAN, '.lake', 'build', 'bin', 'driver')

class Runtime(RuntimeCheck):
    """runtime scenarios with debug locations on most patterns, zero-count ordered patterns and every error kind:
    the canonical error form carries the pattern reference (`@line` / `#index`) and the method path"""
    def rule(self):
        return ''
    def profiles(self, tier):
        n = 2500 if tier == 'quick' else 50000
        base = dict(dbg_chance=(3, 4), max_terms=5, max_calls=8, nomatcher_chance=(1, 12), nested_args=True,
                    resp_weights=[('ret', 5), ('pan', 3), ('unm', 1), ('dfl', 1), ('ans', 1)], end='verify')
        return [('nm', Profile(ordered_weight=4, unordered_weight=2, max_count=2, **base), n), ('nmu', Profile(ordered_weight=0, **base), n // 2)]
    def nontrivial(self, name, text, real_lines):
        return any('pat=@' in l for l in real_lines if not l.startswith('state'))

class Check(MacroCheck):
    prop = 'C19'
    theorems = ['C19_call_rendering', 'C19_error_names_call', 'C19_error_names_path', 'C19_error_names_pattern', 'C19_pattern_rendering',
                'diagPositions_mem', 'C19_diagnostics_positions', 'C19_debug_inputs_positions', 'C19_source_ncalls', 'C19_mirrored_traits_keep_their_names']
    case_prefixes = ('generic.where-clause', 'ref.m2.named-lifetime-mut.rendering')
    facts_of_interest = r'(debug |path=)'
    runtime = Runtime()

    def rule(self):
        return ("(1) every mock-induced error kind provoked on methods of arity 0..3 with u8 / &str / &u8 / &&u8 / &mut u8 / slices / "
                "Vec / non-Debug / generic parameters: the first line of the real message is compared verbatim with the Lean Render "
                "model applied to the structured facts (trait, method, Debug renderings, pattern source, file, line!() of the "
                "matching! invocation, call order, counts); (2) guard-free single-alternative generated matching! inputs: the "
                "argument positions listed in the real mismatch report are compared with the model's diagnostics positions for every "
                "rejected tuple of the domain; (3) debug_inputs expressions of the shape family (IR facts) ; (4) runtime scenarios "
                "whose canonical errors carry pattern references. non-trivial = message naming a pattern, or a rejected tuple with "
                ">= 1 reported position")

    def run(self, tier, seed, replay=None):
        # parts (3) and (4) through the generic macro check, then (1) and (2) added to the same report
        engine.run_translator('translate_counter')      # Display for NCalls, re-translated from src/counter.rs
        self._extra_done = False
        orig_finish = engine.Report.finish
        check = self
        def finish_hook(rep_self, level='proof'):
            if not check._extra_done:
                check._extra_done = True
                check.messages_part(rep_self)
                check.diag_part(rep_self, tier, seed)
            return orig_finish(rep_self, level)
        engine.Report.finish = finish_hook
        try:
            return super().run(tier, seed, replay)
        finally:
            engine.Report.finish = orig_finish

    def messages_part(self, rep):
        ok, log = engine.build_harness(['messages'])
        if not ok:
            path = engine.write_replay(self.prop, 'build', log + '\n', ["harness/src/bin/messages.rs no longer compiles against /repo"])
            rep.violation(path, "messages harness does not compile", no_input=True); return
        p = subprocess.run([MESSAGES], capture_output=True, text=True, timeout=300)
        rows = [l.split('\t') for l in p.stdout.split('\n') if l.startswith('msg\t')]
        inp = ''.join('msgcase\t' + '\t'.join(r[1:12]) + '\n' for r in rows)
        mo = subprocess.run([DRIVER], input=inp, capture_output=True, text=True)
        model = mc.parse_items(mo.stdout)
        n = 0
        wording = []
        for r in rows:
            n += 1
            real = r[12] if len(r) > 12 else ''
            exp = (model.get(r[1]) or ['?'])[0]
            if real.rstrip() != exp.rstrip():
                facts = f"kind={r[2]} {r[3]}::{r[4]} args={r[5].replace(chr(31), ', ').replace(chr(30), '<no Debug>')} pattern={r[6]}:{r[7]} {r[8]}:{r[9]}"
                # what the property itself demands of the text (the rest of the wording is the tie, not the property)
                path_txt = f"{r[3]}::{r[4]}"
                args = [('?' if a == chr(30) else a) for a in r[5].split(chr(31))] if r[5] != '' else []
                call_txt = f"{path_txt}({', '.join(args)})"
                missing = []
                if path_txt not in real:
                    missing.append(f"the call is not named as {path_txt}")
                if r[2] not in ('CannotUnmock', 'NoDefaultImpl', 'FailedVerification', 'MockNeverCalled') and call_txt not in real:
                    missing.append(f"the call is not rendered as {call_txt}")
                if r[6] == 'debug' and (r[7] not in real or f"{r[8]}:{r[9]}" not in real):
                    missing.append(f"the pattern is not named by its source text `{r[7]}` and {r[8]}:{r[9]}")
                if missing:
                    path = engine.write_replay(self.prop, 'msg', f"{facts}\nreal : {real}\nmodel: {exp}\n", [f"message case {r[1]} of harness/src/bin/messages.rs: " + '; '.join(missing)])
                    rep.violation(path, f"message case {r[1]}: real `{real[:150]}` vs required `{exp[:150]}`")
                else:
                    wording.append((r[1], facts, real, exp))
        if wording:
            (cid, facts, real, exp) = wording[0]
            path = engine.write_replay(self.prop, 'msg_tie', f"{facts}\nreal : {real}\nmodel: {exp}\n", [f"Render model/code correspondence broken on {len(wording)} message cases: the wording differs, while call, arguments and pattern are still named as C19 demands"])
            rep.violation(path, f"message wording differs from the Render model (case {cid}); call / arguments / pattern still named", no_input=True)
        if p.returncode != 0 or not rows:
            path = engine.write_replay(self.prop, 'toolerror', p.stderr[-1500:], ["messages harness crashed"])
            rep.violation(path, "messages harness crashed", no_input=True)
        rep.coverage['message_cases'] = n
        # exhausted single-use leaves of composite returns: the panic names the call as Trait::method()
        ok, log = engine.build_harness(['outputs', 'mirrors'])
        if not ok:
            path = engine.write_replay(self.prop, 'build', log + '\n', ["harness/src/bin/outputs.rs / mirrors.rs no longer compile against /repo"])
            rep.violation(path, "outputs / mirrors harness does not compile", no_input=True); return
        po = subprocess.run([os.path.join(engine.HARNESS, 'target', 'debug', 'outputs')], capture_output=True, text=True, timeout=300)
        recs = [re.match(r'^rec (\w+) path=(\w+) val=(\S+) panics=(\d+) named=(\d+) remembered=(\d+) first=(.*)$', l) for l in po.stdout.split('\n') if l.startswith('rec ')]
        shown = 0
        for m in [m for m in recs if m]:
            if int(m.group(4)) != int(m.group(5)) and shown < 2:
                shown += 1
                path = engine.write_replay(self.prop, 'msg', m.group(0) + '\n', [f"property C19 violated by the real code: method OutT::{m.group(1)} configured through path `{m.group(2)}` with value {m.group(3)}: {m.group(4)} mock-induced panics, of which {m.group(5)} name the call as OutT::{m.group(1)}()",
                                                                               f"first panic: {m.group(7)}", "replay: /verif/harness/target/debug/outputs | grep ^rec"])
                rep.violation(path, f"panic about OutT::{m.group(1)} (exhausted single-use return {m.group(3)}) does not name the call: `{m.group(7)[:160]}`")
        if po.returncode != 0 or not recs:
            path = engine.write_replay(self.prop, 'toolerror', po.stderr[-1500:], ["outputs harness crashed"])
            rep.violation(path, "outputs harness crashed", no_input=True)
        # bundled mocks: an unmocked required method of a mirrored trait is named by the upstream trait's name
        pm = subprocess.run([os.path.join(engine.HARNESS, 'target', 'debug', 'mirrors')], capture_output=True, text=True, timeout=300, env=dict(os.environ, MIRROR_CASES='0'))
        names = [l.split('\t') for l in pm.stdout.split('\n') if l.startswith('case name.')]
        for f in names:
            got, want = f[1][len('mock='):], f[2][len('plain='):]
            if got != want:
                path = engine.write_replay(self.prop, 'msg', '\t'.join(f) + '\n', [f"property C19 violated by the real code: calling the unmocked required method {want} of a bundled mock on Unimock::new(()) panics with a message that names the call `{got}`", "replay: MIRROR_CASES=0 /verif/harness/target/debug/mirrors | grep name."])
                rep.violation(path, f"bundled mock: the panic about {want} names it `{got}`")
        if pm.returncode != 0 or not names:
            path = engine.write_replay(self.prop, 'toolerror', pm.stderr[-1500:], ["mirrors harness crashed or printed no name cases"])
            rep.violation(path, "mirrors harness crashed", no_input=True)
        n += len(names) + len(recs)
        rep.coverage['bundled_mock_name_cases'] = len(names)
        rep.coverage['evaluations'] = rep.coverage.get('evaluations', 0) + n
        rep.coverage['distinct_nontrivial'] = rep.coverage.get('distinct_nontrivial', 0) + sum(1 for r in rows if r[6] in ('debug', 'index'))

    def diag_part(self, rep, tier, seed):
        n = 120 if tier == 'quick' else 1200
        cases = [c for c in gm.gen_cases(seed + 7, n * 3) if c.guard is None and len(c.alts) == 1][:n]
        ok, real, model, log = run_cases(cases)
        if not ok:
            path = engine.write_replay(self.prop, 'build', log + '\n', ["generated matching! sample does not compile"])
            rep.violation(path, "generated matching! sample does not compile", no_input=True); return
        tuples = 0; reported = 0
        by_id = {c.ident: c for c in cases}
        # model-free oracle first: the reported positions are the positions whose sub-pattern rustc itself rejects (all argument types, the irregular-PartialEq type included)
        from .c06 import NPOS
        for k, (un, ordd, nat, diag) in real.items():
            nps = NPOS.get(k, '').split(';'); rd = diag.split(';')
            for i, (a, b) in enumerate(zip(rd, nps)):
                if b == 'x' or i >= len(nat) or nat[i] == '1' or a == '-':
                    continue
                if a != b:
                    text = gm.macro_text(by_id[k])
                    path = engine.write_replay(self.prop, 'diag', f"matching!({text})\n", [
                        f"property C19 violated by the real code: mismatch report of the guard-free single-alternative matching!({text}) on rejected domain tuple #{i} (method {by_id[k].method}): it lists positions [{a}], while the sub-patterns rejecting the actual values (rustc's own match / == / != per position) are [{b}]"])
                    rep.violation(path, f"matching!({text}), tuple #{i}: mismatch report lists positions [{a}], sub-patterns rejecting (by rustc) are [{b}]"[:400])
                    return
        for k, (un, ordd, nat, diag) in real.items():
            if k not in model:
                continue
            md = model[k][3].split(';'); rd = diag.split(';')
            for i, (a, b) in enumerate(zip(rd, md)):
                if nat[i] == '1':
                    continue
                tuples += 1
                if a:
                    reported += 1
                if a != b:
                    text = gm.macro_text(by_id[k])
                    path = engine.write_replay(self.prop, 'diag', f"matching!({text})\n{gm.lean_line(by_id[k])}\n", [
                        f"mismatch report of matching!({text}) on rejected domain tuple #{i}: real positions [{a}] vs positions whose sub-pattern rejects [{b}]"])
                    rep.violation(path, f"matching!({text}), tuple #{i}: mismatch report lists positions [{a}], sub-patterns rejecting are [{b}]"[:400])
                    return
        rep.coverage['diagnostics_tuples'] = tuples
        rep.coverage['evaluations'] = rep.coverage.get('evaluations', 0) + tuples
        rep.coverage['distinct_nontrivial'] = rep.coverage.get('distinct_nontrivial', 0) + reported
