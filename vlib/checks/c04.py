from ..rtcheck import RuntimeCheck
from ..gen_runtime import Profile
from .. import scn
from ..scn import Pat, seg, term, stub, tup, Rng
import itertools

class Check(RuntimeCheck):
    prop = 'C04'
    design_ref = 'DESIGN.md §4.3, §5 C04'
    theorems = ['C04_ordered_call_bumps', 'C04_accepts', 'C04_wrong_method', 'C04_wrong_inputs',
                'C04_unordered_no_slot', 'C04_unmentioned_no_slot', 'C04_assembled_ranges',
                'C04_accepted_call_refines', 'C04_unordered_keeps_invariant', 'ranges_of_setPat', 'modeOf_setPat', 'C04_source_slot_test', 'C04_source_slot_allocation', 'C04_source_new_pattern', 'C04_source_ordered_steps', 'C04_source_bump', 'C04_source_ordered_is_model', 'C04_source_find', 'expGo_is_findSome', 'C04_source_expected']

    def run(self, tier, seed, replay=None):
        # re-translate the verification / slot-ownership functions of src/counter.rs and src/fn_mocker.rs first
        from .. import engine
        ok, msg = engine.run_translator('translate_counter')
        self._translator = msg
        return super().run(tier, seed, replay)

    def extra(self, rep, tier, seed):
        # an in-order call is accepted through ANY alternative of its slot's matching! pattern (diagnostics collection must not decide)
        from .macro_common import MacroCheck
        class Generated(MacroCheck):
            prop = 'C04'
            case_prefixes = ('ord.',)
            facts_of_interest = r'$^'
        Generated().explore_into(rep, tier, seed, ir=False, merge=True)

    def extra_assumptions(self):
        return ["tools/translate_counter.py: " + getattr(self, '_translator', 'not run') + " (an UNRECOGNISED function is tied by the correspondence run only)"]

    def rule(self):
        return ("prefix-tree enumeration: ordered clause sequences (2..4 next_call clauses over methods a/b of two traits, "
                "exact counts 0..2, one with a response chain inside its slot range), interleaved with unordered clauses of "
                "other methods; for every accepted prefix of the expected global sequence, every possible next call "
                "(each ordered method x matching / non-matching argument, and an unordered call) is tried; plus random "
                "ordered-heavy scenarios. non-trivial = history reaches a slot of a clause with count >= 2 or deviates")

    def exhaustive(self, tier):
        rng = Rng(12345)
        out = []
        k = 0
        nsets = 60 if tier == 'quick' else 600
        ord_methods = [0, 1, 4]
        for s in range(nsets):
            nclauses = 2 + rng.below(3 if tier == 'quick' else 4)
            clauses = []   # (mid, arg, count)
            terms = []
            for c in range(nclauses):
                mid = rng.choice(ord_methods)
                arg = rng.below(3)
                cnt = rng.below(3)
                if c == 1 and cnt == 2:
                    chain = [seg(f"ret{c}1", 'once'), seg(f"ret{c}2", 'once')]
                elif cnt == 1 and rng.chance(1, 2):
                    chain = [seg(f"ret{c}1", '-')]
                else:
                    chain = [seg(f"ret{c}1", f"n{cnt}")]
                clauses.append((mid, arg, cnt))
                terms.append(term(mid, 'next', Pat(mask=1 << arg, chain=chain, dbg=(c + 1) if rng.chance(1, 2) else 0)))
                if rng.chance(1, 3):
                    terms.append(term(rng.choice([2, 5]), 'each', Pat(mask=255, chain=[seg('ret900', '-')])))
            tree = tup(terms)
            expected = []
            for (mid, arg, cnt) in clauses:
                expected += [(mid, arg)] * cnt
            cands = [(m, a) for m in ord_methods for a in (0, 1, 2)] + [(2, 0)]
            for L in range(len(expected) + 1):
                for (m, a) in cands:
                    if L < len(expected) and (m, a) == expected[L] and L + 1 <= len(expected):
                        continue   # covered as part of the longer prefixes
                    evs = [scn.build(0, 0, 'strict', tree)]
                    for j, (pm, pa) in enumerate(expected[:L]):
                        evs.append(scn.call(0, pm, pa))
                        if j % 2 == 1:
                            evs.append(scn.call(0, 2, 0))     # unordered call in between
                    evs.append(scn.call(0, m, a))
                    evs.append(scn.verify(0))
                    out.append(scn.scenario(f"x{k}", evs))
                    k += 1
            # the full deviation-free history
            evs = [scn.build(0, 0, 'strict', tree)] + [scn.call(0, pm, pa) for (pm, pa) in expected] + [scn.verify(0)]
            out.append(scn.scenario(f"x{k}", evs)); k += 1
        # the declared global sequence of a flat tuple of n ordered clauses, for every tuple arity 2..16 (each arity is its
        # own `Clause` impl): called in declaration order, and with the last two calls transposed
        from .c14 import leaf, leaf_call
        for n in range(2, 17):
            tree = tup([leaf(j) for j in range(n)])
            evs = [scn.build(0, 0, 'strict', tree)] + [leaf_call(j) for j in range(n)] + [scn.verify(0)]
            out.append(scn.scenario(f"ar{n}", evs))
            order = list(range(n)); order[n - 2], order[n - 1] = order[n - 1], order[n - 2]
            evs = [scn.build(0, 0, 'strict', tree)] + [leaf_call(j) for j in order] + [scn.drop(0)]
            out.append(scn.scenario(f"ar{n}t", evs))
        return [('prefix-tree', ''.join(out))]

    def profiles(self, tier):
        n = 3000 if tier == 'quick' else 60000
        return [
            ('o', Profile(max_terms=6, max_calls=10, ordered_weight=5, unordered_weight=1, stub_weight=1, methods=[0, 1, 4, 5], arg_domain=2, clones=1), n),
            ('on', Profile(max_terms=6, max_calls=12, ordered_weight=4, unordered_weight=2, nested_args=True, arg_domain=3, end='mixed'), n // 2),
        ]

    def nontrivial(self, name, text, real_lines):
        return 'kind=next' in text and any(l.startswith('call') for l in real_lines)
