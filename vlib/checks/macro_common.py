"""Shared parts of the macro-level checks C05 / C15 / C16 / C19: shape family, IR tie, behavioural cases."""
import os, re, subprocess, itertools, json, difflib
from .. import engine, macrocheck as mc
from ..scn import Rng

CLASSES = ['own', 'ref', 'refref', 'mut', 'imp', 'slice', 'mutdyn', 'impl', 'mutst', 'mutgu']
GENERIC_CLASSES = ['gt', 'gu']     # substituted for some `own` parameters below (they need the trait / method to declare T / U)
RECVS = ['ref', 'mut', 'own', 'rc', 'arc', 'pin', 'tref', 'tmut']
SHAPES = os.path.join(engine.HARNESS, 'target', 'debug', 'shapes')

def param_lists(tier, rng):
    out = [[]] + [[c] for c in CLASSES] + [[a, b] for a in CLASSES for b in CLASSES]
    n3 = 40 if tier == 'quick' else 216
    triples = [list(t) for t in itertools.product(CLASSES, repeat=3)]
    out += rng.shuffle(triples)[:n3]
    n4 = 20 if tier == 'quick' else 300
    for _ in range(n4):
        out.append([rng.choice(CLASSES) for _ in range(4 + rng.below(2))])
    return out

def shape_family(tier, seed):
    rng = Rng(seed * 9176 + 77)
    plists = param_lists(tier, rng)
    methods = []
    k = 0
    for recv in RECVS:
        for params in plists:
            for flavour in ('plain', 'async', 'rpit'):
                for default in (False, True):
                    for um in ('none', 'path', 'listed'):
                        if tier == 'quick' and len(params) >= 2 and rng.below(4) != 0:
                            continue
                        if um == 'listed':
                            args = ['self'] + [f"p{i}" for i in range(len(params))]
                            args = rng.shuffle(args)[: max(1, len(args) - rng.below(2))]
                            unmock = ('listed', f"real_{k}", args)
                        elif um == 'path':
                            unmock = ('path', f"crate::real_{k}")
                        else:
                            unmock = ('none',)
                        methods.append(mc.Method(f"m{k}", recv, params, is_async=(flavour == 'async'), rpit=(flavour == 'rpit'), default=default, unmock=unmock))
                        k += 1
    methods = rng.shuffle(methods)
    # generic methods: every 6th method gets a method-level type parameter in place of an owned parameter, every 5th a
    # parameter of the trait's type parameter (which makes its whole trait generic)
    for j, m in enumerate(methods):
        owned = [i for i, c in enumerate(m.params) if c == 'own']
        if owned and j % 3 == 0:
            m.params[owned[0]] = 'gu'; m.mgen = True
        if len(owned) > (1 if j % 3 == 0 else 0) and j % 5 == 0:
            m.params[owned[-1]] = 'gt'
    # provided functions without a receiver are skipped by the macro but still occupy an index
    nstat = len(methods) // 10
    for j in range(nstat):
        methods.insert(rng.below(len(methods)), mc.Method(f"s{j}", 'static', [], default=True))
    traits = []
    i = 0
    t = 0
    while i < len(methods):
        n = 1 + rng.below(4)
        api = [('mod', f"T{t}Mock"), ('flat',), ('hidden',)][t % 3]
        traits.append(mc.Trait(f"t{t}", f"T{t}", api, methods[i:i + n]))
        i += n; t += 1
    return traits

class MacroCheck:
    prop = 'C05'
    theorems = []
    case_prefixes = ()          # behavioural cases (shapes bin) relevant to this property
    facts_of_interest = None    # regex on fact lines this property speaks about (spec projection); None = all
    runtime = None              # optional RuntimeCheck whose scenarios are explored as part of this check

    def rule(self):
        return ''

    def known_findings(self):
        path = os.path.join(engine.VERIF, 'known_findings.jsonl')
        out = []
        if os.path.exists(path):
            for l in open(path):
                l = l.strip()
                if l and not l.startswith('#') and not l.startswith('fixed:'):
                    e = json.loads(l)
                    if e.get('property') == self.prop and e.get('status', 'open') == 'open':
                        out.append(e)
        return out

    def run(self, tier, seed, replay=None):
        rep = engine.Report(self.prop, tier, seed)
        rep.assumptions = ["rustc's semantics of the emitted tokens is trusted beyond the executed behavioural cases",
                           "IR facts are extracted from the real generator's output by /verif/macroharness/src/ir.rs (syn visitor)"]
        engine.lean_obligations(self.prop, self.theorems, rep, thorough=(tier == 'thorough'))
        self.explore_into(rep, tier, seed)
        return rep.finish()

    def explore_into(self, rep, tier, seed, ir=True, merge=False):
        """IR tie with the real generator (unless ir=False) + compiled behavioural cases, added to `rep`"""
        ok, log = mc.build_macrolib() if ir else (True, '')
        total = 0; nontriv = 0; samples = []
        spec_bad = []; tie_bad = []
        if not ok:
            path = engine.write_replay(self.prop, 'build', log + '\n', ["the macro harness (real generator included by path) no longer builds"])
            rep.violation(path, "macro harness does not build against /repo/unimock_macros", no_input=True)
        elif ir:
            traits = shape_family(tier, seed)
            real, model = mc.run_both(traits)
            for t in traits:
                r = mc.filter_real(real.get(t.ident, ['<missing>']))
                m = model.get(t.ident, [])
                rb, mb = mc.method_blocks(r), mc.method_blocks(m)
                for key in sorted(set(rb) | set(mb), key=str):
                    total += 1
                    a, b = rb.get(key, ['<absent>']), mb.get(key, ['<absent>'])
                    if key[0] != 'mockfn' and any(' args=p0,p1' in x or 'params=(p0,p1' in x for x in a):
                        nontriv += 1
                    if a != b:
                        d = next(((x, y) for x, y in itertools.zip_longest(a, b, fillvalue='<none>') if x != y))
                        interesting = self.facts_of_interest is None or re.search(self.facts_of_interest, d[0] + '\n' + d[1])
                        if not interesting:
                            # the first differing line may be incidental: any fact the property speaks about that is present on
                            # one side only makes the difference a spec difference
                            only_real = [x for x in a if x not in b and re.search(self.facts_of_interest, x)]
                            only_model = [y for y in b if y not in a and re.search(self.facts_of_interest, y)]
                            if only_real or only_model:
                                d = ((only_real or ['<absent>'])[0], (only_model or ['<absent>'])[0])
                                interesting = True
                        (spec_bad if interesting else tie_bad).append((t, key, d))
                if len(samples) < 2:
                    samples.append({'attr': t.attr(), 'trait': t.source(), 'facts': r[:14]})
        for (t, key, d) in spec_bad[:2]:
            body = t.macro_input() + '# ' + t.shape() + '\n'
            path = engine.write_replay(self.prop, 'spec', body, [
                f"the real #[unimock] generator deviates from the proved code-generation model on {key}", f"real : {d[0].strip()}", f"model: {d[1].strip()}",
                "the model's IR is proved to forward arguments / call the registered functions as the property demands; the differing fact is one the property speaks about",
                f"replay: ./check {self.prop} --replay <this file>  (feeds the trait below to the real generator)"])
            rep.violation(path, f"generated code for {t.ident}.{key[1]} differs from the proved model: real `{d[0].strip()}` vs model `{d[1].strip()}`"[:400])
        if not spec_bad and tie_bad:
            (t, key, d) = tie_bad[0]
            path = engine.write_replay(self.prop, 'tie', t.macro_input(), [f"IR correspondence broken on {key} ({len(tie_bad)} blocks) outside the facts {self.prop} speaks about", f"real : {d[0].strip()}", f"model: {d[1].strip()}"])
            rep.violation(path, f"code-generation model/macro correspondence broken on {t.ident}.{key[1]} (facts outside this property): real `{d[0].strip()}`"[:300], no_input=True)
        # behavioural cases
        cases_run = 0
        ok2, log2 = engine.build_harness(['shapes'])
        if not ok2:
            path = engine.write_replay(self.prop, 'build', log2 + '\n', ["the behavioural sample (harness/src/bin/shapes.rs) no longer compiles against /repo"])
            rep.violation(path, "behavioural sample of generated impls does not compile", no_input=True)
        else:
            p = subprocess.run([SHAPES], capture_output=True, text=True, timeout=600)
            known = self.known_findings()
            for line in p.stdout.split('\n'):
                m = re.match(r'^case (\S+) (ok|FAIL)(.*)$', line)
                if not m or not m.group(1).startswith(self.case_prefixes):
                    continue
                cases_run += 1
                if m.group(2) == 'FAIL':
                    kf = next((k for k in known if k.get('case') == m.group(1)), None)
                    if kf:
                        rep.known.append(f"{kf['id']}: {kf['what']}")
                        continue
                    path = engine.write_replay(self.prop, 'case', f"case {m.group(1)}\n", [f"behavioural case {m.group(1)} of harness/src/bin/shapes.rs fails on the real crate:{m.group(3)}", f"replay: ./check {self.prop} --replay <this file> (re-runs the compiled sample)"])
                    rep.violation(path, f"generated impl misbehaves in case {m.group(1)}:{m.group(3)}"[:400])
            if p.returncode != 0:
                path = engine.write_replay(self.prop, 'case', p.stderr[-2000:], ["behavioural sample crashed"])
                rep.violation(path, f"behavioural sample crashed with status {p.returncode}")
        if self.runtime is not None:
            rt = self.runtime
            rt.prop = self.prop
            rt.explore(rep, tier, seed, None, merge=True)
        if merge:
            rep.coverage['generated_impls'] = {'ir_blocks_compared': total, 'behavioural_cases': cases_run}
            rep.coverage['evaluations'] = rep.coverage.get('evaluations', 0) + total + cases_run
            rep.coverage['distinct_nontrivial'] = rep.coverage.get('distinct_nontrivial', 0) + nontriv + cases_run
            return
        rep.coverage.update({'evaluations': rep.coverage.get('evaluations', 0) + total + cases_run, 'distinct_nontrivial': rep.coverage.get('distinct_nontrivial', 0) + nontriv, 'rule': self.rule(), 'samples': samples,
                             'programs': total, 'behavioural_cases': cases_run, 'disagreements_checked': len(spec_bad) + len(tie_bad),
                             'explanation': 'theorems about the Lean code-generation model; the model is compared fact by fact with what the real generator (run as a library) emits for every shape of the family; a compiled sample validates the facts\' meaning'})
