from ..rtcheck import RuntimeCheck
from ..gen_runtime import Profile, gen_pat
from .. import scn, gen_runtime
from ..scn import Pat, seg, term, stub, tup, Rng
import re

TREE_PREFIXES = ('scenario', 'end', 'tuple', 'term', 'stub', 'pat', 'unit')

def event_outcomes(text, real_lines):
    evs = [l for l in text.split('\n') if l and not l.startswith(TREE_PREFIXES)]
    outs = [l for l in real_lines if not l.startswith('state ')]
    return list(zip(evs, outs)) if len(evs) == len(outs) else None

def normalise_verdict(o):
    # pattern indexes/locations do not move (per-method order is kept), so lines compare verbatim
    return o

class Check(RuntimeCheck):
    prop = 'C18'
    design_ref = 'DESIGN.md §4.2, §5 C18'
    theorems = ['C18_routing_irrelevant', 'C18_mocks_independent', 'C18_lifecycle_events_keep_shared',
                'C18_methods_distinct', 'setShared_other', 'setInst_mocks', 'C18_assemble_layout_invariant',
                'C18_eval_respects_equiv', 'C18_history_respects_equiv', 'setPat_equiv', 'assembleList_append']

    def extra(self, rep, tier, seed):
        # routing through the original must behave like routing through a clone also for by-value / Rc / Arc receivers of provided methods; generic instances are distinct methods: compiled cases
        from .macro_common import MacroCheck
        class Generated(MacroCheck):
            prop = 'C18'
            case_prefixes = ('own.default', 'own.m2', 'rc.default.shared', 'arc.default.shared', 'ref.default', 'mut.default', 'generic.instances')
            facts_of_interest = r'$^'
        Generated().explore_into(rep, tier, seed, ir=False, merge=True)
        # "clones share everything" also when the routes are taken at the same time: every schedule of two / three clones on other
        # threads must end in a verdict and a multiset of answers that some sequential routing of the same calls produces
        from ..parcheck import ParCheck, par_scenario
        class Par(ParCheck):
            prop = 'C18'
            def scenarios(self, tier, seed):
                exact = term(1, 'each', Pat(mask=255, chain=[seg('ret1', 'n2'), seg('ret2', 'n2')]))
                ordered = term(0, 'next', Pat(mask=255, chain=[seg('ret1', 'n1'), seg('ret2', 'n2')]))
                fams = [('r2x2', exact, [[(1, 0), (1, 0)], [(1, 0), (1, 0)]]), ('r3x1o', ordered, [[(0, 0)], [(0, 0)], [(0, 0)]])]
                return [(n, par_scenario(n, 'strict', tree, threads, False)) for n, tree, threads in fams]
            def caps(self, tier):
                return (800, 40) if tier == 'quick' else (30000, 1500)
        Par().explore_into(rep, tier, seed, merge=True)

    def rule(self):
        return ("relational families: each base scenario (random clause set over up to 6 methods, ordered and unordered, with a "
                "history) is re-run (a) with its clauses interleaved differently across methods (per-method order and the order "
                "of ordered clauses kept), (b) with every call re-routed to a random live instance among original + 2 clones, "
                "(c) interleaved with a second, independent mock built from other clauses and driven by its own history; the "
                "oracle compares the REAL runs pairwise (per-call outcomes and final verdict) and each run is also compared "
                "with the model. non-trivial = base scenario with >=2 methods mentioned and >=1 call")

    def gen_family(self, rng, k, prof):
        # terminals as chains
        nterm = 2 + rng.below(5)
        mode_of = {}
        chains = {}
        serial = 0
        for _ in range(nterm):
            m = rng.choice(prof.methods)
            ordered = mode_of.setdefault(m, rng.chance(1, 3))
            key = 'ORD' if ordered else m
            kind = 'next' if ordered else rng.choice(['some', 'each'])
            chains.setdefault(key, []).append(term(m, kind, gen_pat(rng, prof, kind, serial, ordered)))
            serial += 1
        def interleave():
            pools = {k2: list(v) for k2, v in chains.items()}
            out = []
            while any(pools.values()):
                k2 = rng.choice([x for x in pools if pools[x]])
                out.append(pools[k2].pop(0))
            return out
        base_terms = interleave()
        perm_terms = interleave()
        mentioned = sorted(mode_of)
        ncalls = 1 + rng.below(8)
        calls = [(rng.choice(mentioned) if rng.chance(7, 8) else rng.below(8), rng.below(4)) for _ in range(ncalls)]
        # one family in four: the original is configured with no_verify_in_drop() right away (clones made later inherit that) and verified explicitly
        nv = rng.chance(1, 4)
        end = 'verify' if nv else rng.choice(['verify', 'drop'])
        endev = {'verify': scn.verify, 'drop': scn.drop}[end](0)
        mode = 'partial' if rng.chance(1, 4) else 'strict'
        def mk(name, terms, route=False, second=False):
            evs = [scn.build(0, 0, mode, tup(terms))]
            if nv:
                evs.append(scn.noverify(0))
            insts = [0]
            if route:
                evs += [scn.clone(0, 1), scn.clone(1, 2)]
                insts = [0, 1, 2]
            if second:
                other = tup([term(rng.choice(prof.methods), 'each', Pat(mask=rng.below(16), chain=[seg('ret77')])),
                             term(5, 'next', Pat(mask=255, chain=[seg('ret78', 'n2')]))])
                evs.append(scn.build(10, 0, 'strict', other))
            for (m, a) in calls:
                if second and rng.chance(1, 2):
                    evs.append(scn.call(10, rng.choice([5, rng.choice(prof.methods)]), rng.below(4)))
                evs.append(scn.call(rng.choice(insts), m, a))
            for j in insts[1:]:
                evs.append(scn.drop(j))
            evs.append(endev)
            if second:
                evs.append(scn.drop(10))
            return scn.scenario(name, evs)
        return [mk(f"p{k}_base", base_terms), mk(f"p{k}_perm", perm_terms), mk(f"p{k}_route", base_terms, route=True),
                mk(f"p{k}_two", base_terms, second=True)]

    def exhaustive(self, tier):
        return []

    def profiles(self, tier):
        return []

    def run(self, tier, seed, replay=None):
        # generate the relational families as one extra batch through `exhaustive`
        n = 1200 if tier == 'quick' else 25000
        prof = Profile(methods=[0, 1, 2, 3, 4, 5], max_segs=2, max_count=2, arg_domain=4, dbg_chance=(0, 1), park_weight=3)
        rng = Rng(seed * 7919 + 11)
        fams = []
        for k in range(n):
            fams += self.gen_family(rng.fork(), k, prof)
        text = ''.join(fams)
        self.exhaustive = lambda t: [('families', text)]
        rnd = 1500 if tier == 'quick' else 30000
        self.profiles = lambda t: [('r', Profile(clones=2, threads=1, max_terms=6, end='mixed', park_weight=2), rnd)]
        return super().run(tier, seed, replay)

    def primary(self, text, real_lines):
        """outcomes of calls on mock 0 (instances < 10) and the final verdict of instance 0"""
        eo = event_outcomes(text, real_lines)
        if eo is None:
            return None
        out = []
        for e, o in eo:
            m = re.search(r'\bi=(\d+)\b', e)
            inst = int(m.group(1)) if m else -1
            if e.startswith('call ') and inst < 10:
                out.append(re.sub(r'^call ', '', o))
            elif (e.startswith('verify ') or e.startswith('drop ')) and inst == 0:
                out.append('final ' + o)
        return out

    def judge_pairs(self, order, texts, real):
        bad = []
        for n in order:
            if not n.endswith('_base'):
                continue
            stem = n[:-len('_base')]
            base = self.primary(texts[n], real[n])
            for suffix in ('_perm', '_route', '_two'):
                o = stem + suffix
                if o in real:
                    other = self.primary(texts[o], real[o])
                    if base is not None and other is not None and base != other:
                        d = next(((x, y) for x, y in zip(base, other) if x != y), (f"{len(base)} outcomes", f"{len(other)} outcomes"))
                        bad.append((o, f"{suffix[1:]} variant differs from base run on the real code: `{d[1]}` vs base `{d[0]}`"))
        return bad

    def fails(self, kind):
        # pairs cannot be shrunk independently: keep the family together by not shrinking spec failures of pairs
        base = super().fails(kind)
        return base

    def nontrivial(self, name, text, real_lines):
        return text.count('\nterm ') >= 2 and '\ncall ' in text
