import os, re, subprocess
from .. import engine, gen_matching as gm, macrocheck as mc

MATCHERS = os.path.join(engine.HARNESS, 'target', 'debug', 'matchers')
DRIVER = os.path.join(engine.LEAN, '.lake', 'build', 'bin', 'driver')
GEN_FILE = os.path.join(engine.HARNESS, 'src', 'gen_matching_cases.rs')

NPOS = {}      # case id -> positions whose sub-pattern rejects, per domain tuple, by rustc itself (`x` where not applicable)

def run_cases(cases):
    """write the generated source, build, run; -> (ok, real dict, model dict, log)"""
    src = gm.rust_file(cases)
    old = open(GEN_FILE).read() if os.path.exists(GEN_FILE) else ''
    if old != src:
        open(GEN_FILE, 'w').write(src)
    ok, log = engine.build_harness(['matchers'])
    if not ok:
        return False, {}, {}, log
    p = subprocess.run([MATCHERS], capture_output=True, text=True, timeout=900)
    real = {}
    for l in p.stdout.split('\n'):
        m = re.match(r'case (\w+) un=(\S*) ord=(\S*) native=(\S*) diag=(\S*) npos=(\S*)$', l.strip())
        if m:
            real[m.group(1)] = m.groups()[1:5]
            NPOS[m.group(1)] = m.group(6)
    mo = subprocess.run([DRIVER], input='\n'.join(gm.lean_line(c) for c in cases) + '\n', capture_output=True, text=True, timeout=900)
    model = {}
    for k, lines in mc.parse_items(mo.stdout).items():
        mm = re.match(r'un=(\S*) ord=(\S*) spec=(\S*) diag=(.*)$', lines[0]) if lines else None
        if mm:
            model[k] = mm.groups()
    return True, real, model, p.stderr[-1000:]

def rejected_invocations(log):
    """rustc errors located inside a `matching!(..)` invocation of the generated file -> [(case ident, source line, first error line)]"""
    try:
        src = open(GEN_FILE).read().split('\n')
    except OSError:
        return []
    out, seen = [], set()
    errs = re.split(r'\n(?=error)', log)
    for e in errs:
        m = re.search(r'gen_matching_cases\.rs:(\d+):(\d+)', e)
        if not m or not e.startswith('error'):
            continue
        ln = int(m.group(1)) - 1
        if not (0 <= ln < len(src)) or 'matching!(' not in src[ln]:
            continue
        col = int(m.group(2))
        if col < src[ln].index('matching!('):
            continue
        k = ln
        while k >= 0 and not src[k].startswith('fn case_'):
            k -= 1
        if k < 0:
            continue
        ident = re.match(r'fn case_(\w+)\(', src[k]).group(1)
        if ident not in seen:
            seen.add(ident)
            out.append((ident, src[ln], e.split('\n')[0]))
    return out

class Check:
    prop = 'C06'
    theorems = ['evalArms_success_prefix', 'evalArms_tail_rejects', 'C06_matching_equiv_match', 'C06_diagnostics_do_not_decide', 'C06_empty_accepts_all']

    def n_cases(self, tier):
        return 150 if tier == 'quick' else 1500

    def rule(self):
        return ("generated matching! inputs over methods (u8,u8), (Option<u8>,u8), (&str,String), (&[u8],Vec<u8>), (u8): literals, "
                "ranges, wildcards, bindings, @-bindings, or-patterns, Some/None, string literals (through AsRef<str>), slice "
                "patterns with rest (through AsRef<[T]>), eq!/ne! operands, one to three top-level alternatives, guards over "
                "bindings incl. || / && mixes; each is compiled as a real matching! invocation AND as the hand-expanded native "
                "match; every argument tuple of the finite domain is evaluated through an unordered clause (diagnostics off) and an "
                "ordered clause (diagnostics on); oracle: both equal the native match; tie: both equal the Lean model's accept bits. "
                "non-trivial = case with a guard, an eq!/ne! operand, >= 2 alternatives or a slice/str pattern")

    def run(self, tier, seed, replay=None):
        rep = engine.Report(self.prop, tier, seed)
        rep.assumptions = ["rustc's own `match` is the independent oracle for pattern semantics; the Lean pattern semantics is validated against it on every case",
                           "patterns outside the generated grammar (struct/enum patterns other than Option, const patterns, macros other than eq!/ne!) are not covered",
                           "up to three generated top-level alternatives (four in fixed cases)"]
        engine.lean_obligations(self.prop, self.theorems, rep, thorough=(tier == 'thorough'))
        cases = gm.gen_cases(seed, self.n_cases(tier))
        ok, real, model, log = run_cases(cases)
        if not ok:
            bad = rejected_invocations(log)
            for (ident, line, err) in bad[:2]:
                text = gm.macro_text(next(c for c in cases if c.ident == ident))
                path = engine.write_replay(self.prop, 'spec', f"matching!({text})\n{line.strip()}\n{err}\n", [
                    f"property C06 violated by the real code: rustc rejects the invocation matching!({text}) although the equivalent native `match` on the same arguments compiles (it is part of the same generated function and draws no error)",
                    "replay: the invocation above, in a crate depending on /repo; generated by vlib/gen_matching.py case " + ident])
                rep.violation(path, f"matching!({text}) does not compile ({err[:120]}) while the equivalent match does")
            if not bad:
                path = engine.write_replay(self.prop, 'build', log + '\n', ["the generated matching! sample no longer compiles against /repo"])
                rep.violation(path, "generated matching! sample does not compile", no_input=True)
            rep.coverage.update({'evaluations': 0, 'distinct_nontrivial': 0, 'rule': self.rule(), 'samples': []})
            return rep.finish()
        spec_bad, tie_bad, samples = [], [], []
        nontriv = 0; tuples = 0
        by_id = {c.ident: c for c in cases}
        for k, (un, ordd, nat, diag) in real.items():
            c = by_id[k]
            tuples += len(nat)
            text = gm.macro_text(c)
            if c.guard or len(c.alts) > 1 or any(e[0] != 'P' for a in c.alts for e in a) or c.types in ('ss', 'll'):
                nontriv += 1
            if un != nat or ordd != nat:
                i = next(j for j in range(len(nat)) if un[j] != nat[j] or ordd[j] != nat[j])
                spec_bad.append((c, f"matching!({text}) on argument tuple #{i} of the domain: unordered={un[i]} ordered={ordd[i]} native match={nat[i]}"))
            elif k in model and (model[k][0] != un or model[k][1] != ordd):
                tie_bad.append((c, f"matching!({text}): model accept bits {model[k][0]} vs real {un}"))
            if len(samples) < 4 and len(real) and (hash(k) % 37 == 0 or k == 'f0'):
                samples.append({'matching': text, 'method': c.method, 'accept_bits_over_domain': nat})
        if len(real) != len(cases):
            path = engine.write_replay(self.prop, 'toolerror', log, ["the matchers harness did not report every case"])
            rep.violation(path, f"matchers harness reported {len(real)} of {len(cases)} cases", no_input=True)
        for (c, why) in spec_bad[:3]:
            body = f"matching!({gm.macro_text(c)})\nmethod {c.method}\nnative arms:\n" + '\n'.join(gm.native_arms(c)) + f"\n{gm.lean_line(c)}\n"
            path = engine.write_replay(self.prop, 'spec', body, [f"property C06 violated by the real macro: {why}", "replay: ./check C06 --replay <this file> (regenerates and runs the compiled sample)"])
            rep.violation(path, why[:400])
        if not spec_bad and tie_bad:
            (c, why) = tie_bad[0]
            path = engine.write_replay(self.prop, 'tie', gm.lean_line(c) + '\n', [f"matching! model/code correspondence broken: {why}"])
            rep.violation(path, f"matching! correspondence broken: {why}"[:300], no_input=True)
        rep.coverage.update({'evaluations': tuples * 2, 'distinct_nontrivial': nontriv, 'rule': self.rule(), 'samples': samples, 'programs': len(cases),
                             'disagreements_checked': len(spec_bad) + len(tie_bad),
                             'explanation': 'theorem over the matching! generation model for all inputs; compiled real invocations compared with native match and with the model on every tuple of the domain, diagnostics on and off'})
        return rep.finish()
