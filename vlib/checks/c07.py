from ..rtcheck import RuntimeCheck
from ..gen_runtime import Profile
from .. import scn
from ..scn import Pat, seg, term, stub, tup
import itertools, re

class Check(RuntimeCheck):
    prop = 'C07'
    design_ref = 'DESIGN.md §4.3, §5 C07'
    theorems = ['C07_unmentioned', 'C07_unmatched', 'C07_never_fabricates', 'C07_continuations', 'respond_ret_mem', 'C07_source_no_mocker_tree', 'C07_source_no_match_tree', 'C07_source_unmentioned', 'C07_source_all_reject']

    def extra(self, rep, tier, seed):
        # which continuation arms (#[unimock] output) a fall-through can reach: compared with the code-generation model for the whole shape family, plus the compiled fall-through cases
        from .macro_common import MacroCheck
        class Generated(MacroCheck):
            prop = 'C07'
            case_prefixes = ('ref.default', 'mut.default', 'own.default', 'own.m2+default', 'pin.m2+default', 'ref.unmock', 'async.unmock')      # incl. ref.default.unmentioned.debug-not-rendered, ref.unmock.fallthrough.debug-not-rendered, ref.default.hidden-api
            facts_of_interest = r'(arm Unmock|arm CallDefaultImpl|call unmock|call default|arm any|default_impl|partial)'
        Generated().explore_into(rep, tier, seed, ir=True, merge=True)

    def rule(self):
        return ("exhaustive decision table: {strict, partial} x every universe method (default body / unmock fn / both / "
                "neither) x {unmentioned, mentioned-unmatched, matched} x {unordered, ordered} x argument (incl. arguments "
                "whose real/default body calls back into the mock) at positions 0..2 of a history; plus random scenarios with "
                "many unmentioned calls. non-trivial = a call that no pattern answers")

    def exhaustive(self, tier):
        out = []
        k = 0
        args = [0, 1, 4, 7] if tier == 'quick' else list(range(8))
        for mode in ['strict', 'partial']:
            for m in range(8 if tier == 'thorough' else 4):
                for cfg in ['none', 'each', 'some', 'next', 'stub', 'other']:
                    if cfg == 'none':
                        tree = scn.UNIT
                    elif cfg == 'other':
                        tree = term((m + 1) % 4, 'each', Pat(mask=255, chain=[seg('ret5')]))
                    elif cfg == 'stub':
                        tree = stub(m, [Pat(mask=1, chain=[seg('ret7')]), Pat(mask=2, chain=[seg('unm')])])
                    else:
                        q = 'n2' if cfg == 'next' else '-'
                        tree = term(m, cfg, Pat(mask=1, chain=[seg('ret7', q)]))
                    for a in args:
                        for pos in range(3):
                            evs = [scn.build(0, 0, mode, tree)]
                            evs += [scn.call(0, m, 0) for _ in range(pos)]
                            evs.append(scn.call(0, m, a))
                            evs.append(scn.call(0, m, 0))
                            # every fourth history ends through Termination::report: a partial-by-default method no clause mentions falls through to the real verdict, in strict and partial mocks alike
                            evs.append(scn.report(0) if k % 4 == 3 else scn.drop(0))
                            out.append(scn.scenario(f"x{k}", evs))
                            k += 1
        return [('table', ''.join(out))]

    def profiles(self, tier):
        n = 3000 if tier == 'quick' else 60000
        return [
            ('f', Profile(max_terms=3, max_calls=8, partial_chance=(1, 2), unmentioned_call_chance=(1, 2), nested_args=True, methods=[0, 1, 2, 3, 4, 5, 6, 7]), n),
            ('fo', Profile(max_terms=4, max_calls=8, partial_chance=(1, 2), unmentioned_call_chance=(1, 3), ordered_weight=3, nested_args=True, user_panic_answers=True), n // 2),
        ]

    def judge(self, name, text, real_lines):
        # the mock never fabricates a value: every returned value is a configured ret id, 0 (returns_default),
        # or composed from real (2000+), default (3000+) and answer (negative) results
        rets = set(int(x) for x in re.findall(r'ret(-?\d+)/', text))
        for l in real_lines:
            m = re.match(r'^call ret (-?\d+) log=\[(.*)\]$', l)
            if m and m.group(2) == '':
                v = int(m.group(1))
                if v != 0 and v not in rets:
                    return f"call returned {v}, which no returns() configured and no user code produced"
        return None

    def nontrivial(self, name, text, real_lines):
        return any(('NoMockImplementation' in l or 'NoMatchingCallPatterns' in l or 'real:' in l or 'dflt:' in l) for l in real_lines if l.startswith('call'))
