"""Scenario construction and emission (line protocol, see PROTOCOL.md)."""

class Rng:
    """SplitMix64: every random choice of a run derives from one seed"""
    def __init__(self, seed):
        self.s = seed & 0xFFFFFFFFFFFFFFFF
    def next(self):
        self.s = (self.s + 0x9E3779B97F4A7C15) & 0xFFFFFFFFFFFFFFFF
        z = self.s
        z = ((z ^ (z >> 30)) * 0xBF58476D1CE4E5B9) & 0xFFFFFFFFFFFFFFFF
        z = ((z ^ (z >> 27)) * 0x94D049BB133111EB) & 0xFFFFFFFFFFFFFFFF
        return z ^ (z >> 31)
    def below(self, n):
        return self.next() % n if n > 0 else 0
    def chance(self, num, den):
        return self.below(den) < num
    def choice(self, xs):
        return xs[self.below(len(xs))]
    def weighted(self, pairs):
        tot = sum(w for _, w in pairs)
        r = self.below(tot)
        for x, w in pairs:
            if r < w:
                return x
            r -= w
        return pairs[-1][0]
    def shuffle(self, xs):
        xs = list(xs)
        for i in range(len(xs) - 1, 0, -1):
            j = self.below(i + 1)
            xs[i], xs[j] = xs[j], xs[i]
        return xs
    def fork(self):
        return Rng(self.next())

def seg(resp, quant='-'):
    return (resp, quant)

class Pat:
    def __init__(self, mask=255, chain=(), pmask=0, dbg=0):
        self.mask, self.chain, self.pmask, self.dbg = mask, list(chain), pmask, dbg
    def fields(self):
        m = 'none' if self.mask is None else str(self.mask)
        ch = ','.join(f"{r}/{q}" for r, q in self.chain)
        return f"mask={m} pmask={self.pmask} dbg={self.dbg} chain={ch}"

def term(m, kind, pat):
    return ('term', m, kind, pat)
def stub(m, pats):
    return ('stub', m, list(pats))
def tup(children):
    return ('tuple', list(children))
UNIT = ('unit',)

def tree_lines(t):
    if t[0] == 'unit':
        return ['unit']
    if t[0] == 'term':
        _, m, kind, pat = t
        return [f"term m={m} kind={kind} {pat.fields()}"]
    if t[0] == 'stub':
        _, m, pats = t
        return [f"stub m={m} n={len(pats)}"] + [f"pat {p.fields()}" for p in pats]
    if t[0] == 'tuple':
        out = [f"tuple n={len(t[1])}"]
        for c in t[1]:
            out += tree_lines(c)
        return out
    raise ValueError(t)

def terminals(t):
    """flatten to the list of (m, kind, pat) in the order they reach the sink"""
    if t[0] == 'unit':
        return []
    if t[0] == 'term':
        return [(t[1], t[2], t[3])]
    if t[0] == 'stub':
        return [(t[1], 'stub', p) for p in t[2]]
    out = []
    for c in t[1]:
        out += terminals(c)
    return out

def build(i, t, mode, tree):
    return [f"build i={i} t={t} mode={mode}"] + tree_lines(tree)
def call(i, m, a, t=0):
    return [f"call i={i} t={t} m={m} a={a}"]
def clone(i, j, t=0):
    return [f"clone i={i} j={j} t={t}"]
def drop(i, t=0, unwind=False):
    return [f"drop i={i} t={t}" + (" unwind=1" if unwind else "")]
def verify(i, t=0):
    return [f"verify i={i} t={t}"]
def noverify(i, t=0):
    return [f"noverify i={i} t={t}"]
def report(i, t=0):
    return [f"report i={i} t={t}"]

def scenario(name, event_lines):
    """event_lines: list of lists of lines"""
    out = [f"scenario {name}"]
    for ev in event_lines:
        out += ev
    out.append("end")
    return '\n'.join(out) + '\n'
