"""Scenario construction and emission (line protocol, see PROTOCOL.md)."""

class Rng:
    """SplitMix64: every random choice of a run derives from one seed"""
    def __init__(self, seed):
        self.s = seed & 0xFFFFFFFFFFFFFFFF
    def next(self):
        self.s = (self.s + 0x9E3779B97F4A7C15) & 0xFFFFFFFFFFFFFFFF
        z = self.s
        z = ((z ^ (z >> 30)) * 0xBF58476D1CE4E5B9) & 0xFFFFFFFFFFFFFFFF
        z = ((z ^ (z >> 27)) * 0x94D049BB133111EB) & 0xFFFFFFFFFFFFFFFF
        return z ^ (z >> 31)
    def below(self, n):
        return self.next() % n if n > 0 else 0
    def chance(self, num, den):
        return self.below(den) < num
    def choice(self, xs):
        return xs[self.below(len(xs))]
    def weighted(self, pairs):
        tot = sum(w for _, w in pairs)
        r = self.below(tot)
        for x, w in pairs:
            if r < w:
                return x
            r -= w
        return pairs[-1][0]
    def shuffle(self, xs):
        xs = list(xs)
        for i in range(len(xs) - 1, 0, -1):
            j = self.below(i + 1)
            xs[i], xs[j] = xs[j], xs[i]
        return xs
    def fork(self):
        return Rng(self.next())

def seg(resp, quant='-'):
    return (resp, quant)

class Pat:
    def __init__(self, mask=255, chain=(), pmask=0, dbg=0):
        self.mask, self.chain, self.pmask, self.dbg = mask, list(chain), pmask, dbg
    def fields(self):
        m = 'none' if self.mask is None else str(self.mask)
        ch = ','.join(f"{r}/{q}" for r, q in self.chain)
        return f"mask={m} pmask={self.pmask} dbg={self.dbg} chain={ch}"

def term(m, kind, pat):
    return ('term', m, kind, pat)
def stub(m, pats):
    return ('stub', m, list(pats))
def tup(children):
    return ('tuple', list(children))
UNIT = ('unit',)

def tree_lines(t):
    if t[0] == 'unit':
        return ['unit']
    if t[0] == 'term':
        _, m, kind, pat = t
        return [f"term m={m} kind={kind} {pat.fields()}"]
    if t[0] == 'stub':
        _, m, pats = t
        return [f"stub m={m} n={len(pats)}"] + [f"pat {p.fields()}" for p in pats]
    if t[0] == 'tuple':
        out = [f"tuple n={len(t[1])}"]
        for c in t[1]:
            out += tree_lines(c)
        return out
    raise ValueError(t)

def terminals(t):
    """flatten to the list of (m, kind, pat) in the order they reach the sink"""
    if t[0] == 'unit':
        return []
    if t[0] == 'term':
        return [(t[1], t[2], t[3])]
    if t[0] == 'stub':
        return [(t[1], 'stub', p) for p in t[2]]
    out = []
    for c in t[1]:
        out += terminals(c)
    return out

def build(i, t, mode, tree):
    return [f"build i={i} t={t} mode={mode}"] + tree_lines(tree)
def call(i, m, a, t=0):
    return [f"call i={i} t={t} m={m} a={a}"]
def clone(i, j, t=0):
    return [f"clone i={i} j={j} t={t}"]
def drop(i, t=0, unwind=False):
    return [f"drop i={i} t={t}" + (" unwind=1" if unwind else "")]
def verify(i, t=0):
    return [f"verify i={i} t={t}"]
def noverify(i, t=0):
    return [f"noverify i={i} t={t}"]
def report(i, t=0):
    return [f"report i={i} t={t}"]

def scenario(name, event_lines):
    """event_lines: list of lists of lines"""
    out = [f"scenario {name}"]
    for ev in event_lines:
        out += ev
    out.append("end")
    return '\n'.join(out) + '\n'

# ---------------------------------------------------------------------------------------------
# parsing back (for the shrinker and the replay mode)

def _kv(toks, key, default=None):
    for t in toks:
        if t.startswith(key + '='):
            return t[len(key) + 1:]
    return default

def _parse_pat(toks):
    mask = _kv(toks, 'mask', 'none')
    chain = []
    for s in (_kv(toks, 'chain', '') or '').split(','):
        if s:
            r, q = s.split('/')
            chain.append((r, q))
    return Pat(mask=None if mask == 'none' else int(mask), chain=chain,
               pmask=int(_kv(toks, 'pmask', '0')), dbg=int(_kv(toks, 'dbg', '0')))

def _parse_tree(lines, pos):
    toks = lines[pos].split()
    pos += 1
    if toks[0] == 'unit':
        return UNIT, pos
    if toks[0] == 'term':
        return term(int(_kv(toks, 'm')), _kv(toks, 'kind'), _parse_pat(toks)), pos
    if toks[0] == 'stub':
        n = int(_kv(toks, 'n'))
        pats = [_parse_pat(lines[pos + k].split()) for k in range(n)]
        return stub(int(_kv(toks, 'm')), pats), pos + n
    if toks[0] == 'tuple':
        n = int(_kv(toks, 'n'))
        cs = []
        for _ in range(n):
            c, pos = _parse_tree(lines, pos)
            cs.append(c)
        return tup(cs), pos
    raise ValueError(lines[pos - 1])

def parse_scenario(text):
    """-> (name, events) where events are ('build', header_line, tree) or ('ev', line)"""
    lines = [l for l in text.split('\n') if l.strip() and not l.startswith('#')]
    name = lines[0][len('scenario '):].strip()
    pos = 1
    events = []
    while pos < len(lines) and lines[pos].strip() != 'end':
        toks = lines[pos].split()
        if toks[0] == 'build':
            tree, npos = _parse_tree(lines, pos + 1)
            events.append(('build', lines[pos], tree))
            pos = npos
        else:
            events.append(('ev', lines[pos]))
            pos += 1
    return name, events

def emit_scenario(name, events):
    out = [f"scenario {name}"]
    for e in events:
        if e[0] == 'build':
            out.append(e[1])
            out += tree_lines(e[2])
        else:
            out.append(e[1])
    out.append('end')
    return '\n'.join(out) + '\n'

def split_text(text):
    """scenario text -> dict name -> text of that scenario"""
    out = {}
    cur = None
    name = None
    for line in text.split('\n'):
        if line.startswith('scenario '):
            name = line[len('scenario '):].strip()
            cur = [line]
        elif cur is not None:
            cur.append(line)
            if line.strip() == 'end':
                out[name] = '\n'.join(cur) + '\n'
                cur = None
    return out

def _tree_variants(t):
    """smaller variants of a clause tree"""
    if t[0] == 'tuple':
        cs = t[1]
        for i in range(len(cs)):
            yield tup(cs[:i] + cs[i + 1:])
        for i, c in enumerate(cs):
            if c[0] == 'tuple':
                yield tup(cs[:i] + c[1] + cs[i + 1:])
            for v in _tree_variants(c):
                yield tup(cs[:i] + [v] + cs[i + 1:])
        if len(cs) == 1:
            yield cs[0]
    elif t[0] == 'stub':
        _, m, pats = t
        for i in range(len(pats)):
            if len(pats) > 1:
                yield stub(m, pats[:i] + pats[i + 1:])
        for i, p in enumerate(pats):
            for v in _pat_variants(p):
                yield stub(m, pats[:i] + [v] + pats[i + 1:])
    elif t[0] == 'term':
        _, m, kind, p = t
        for v in _pat_variants(p):
            yield term(m, kind, v)

def _pat_variants(p):
    if len(p.chain) > 1:
        yield Pat(p.mask, p.chain[:-1], p.pmask, p.dbg)
    if p.dbg:
        yield Pat(p.mask, p.chain, p.pmask, 0)
    if p.pmask:
        yield Pat(p.mask, p.chain, 0, p.dbg)

def shrink(text, still_fails, max_steps=400):
    """greedy delta debugging on events and clause trees"""
    name, events = parse_scenario(text)
    steps = 0
    changed = True
    while changed and steps < max_steps:
        changed = False
        # drop events, last first
        for i in range(len(events) - 1, -1, -1):
            if events[i][0] == 'build' and sum(1 for e in events if e[0] == 'build') == 1:
                continue
            cand = events[:i] + events[i + 1:]
            steps += 1
            if still_fails(emit_scenario(name, cand)):
                events = cand
                changed = True
                break
        if changed:
            continue
        for i, e in enumerate(events):
            if e[0] != 'build':
                continue
            for v in _tree_variants(e[2]):
                cand = events[:i] + [('build', e[1], v)] + events[i + 1:]
                steps += 1
                if still_fails(emit_scenario(name, cand)):
                    events = cand
                    changed = True
                    break
            if changed:
                break
    return emit_scenario(name, events)
