"""Shared machinery of all checks: build, Lean obligations + axiom audit, reporting, evidence."""
import json, os, re, subprocess, sys, time, hashlib

VERIF = os.path.dirname(os.path.dirname(os.path.abspath(__file__)))
LEAN = os.path.join(VERIF, 'lean')
HARNESS = os.path.join(VERIF, 'harness')
WORK = os.path.join(VERIF, 'work')
REPLAYS = os.path.join(VERIF, 'replays')
EVIDENCE = os.environ.get('VERIF_EVIDENCE_DIR') or os.path.join(VERIF, 'evidence')
ALLOWED_AXIOMS = {'propext', 'Classical.choice', 'Quot.sound'}
FORBIDDEN = re.compile(r'\b(sorry|admit|native_decide|bv_decide|implemented_by|unsafe)\b|^\s*axiom\s|maxHeartbeats\s+0')

TRUSTED_BASE = [
    "Lean 4.33.0 kernel (and, for the model executable, the Lean compiler)",
    "hand-written Lean models of the Rust code, tied to /repo only by the correspondence run of this check",
    "modelled, not verified: std binary_search_by (rustc 1.95), Mutex/AtomicUsize as atomic SC steps, Arc::strong_count, "
    "thread::panicking, BTreeMap<TypeId,_> lookup, TypeId injectivity, Box<dyn Any> downcasts",
    "the Rust harness (/verif/harness), the Python generators/canonicaliser/comparator, the cfg(unimock_verif) hooks",
]

class Report:
    def __init__(self, prop, tier, seed):
        self.prop, self.tier, self.seed = prop, tier, seed
        self.t0 = time.time()
        self.violations = []        # (replay_path, no_input_found: bool, summary)
        self.known = []
        self.coverage = {}
        self.assumptions = []
        self.notes = []

    def violation(self, replay_path, summary, no_input=False):
        self.violations.append((replay_path, no_input, summary))

    def finish(self, level='proof'):
        os.makedirs(EVIDENCE, exist_ok=True)
        cov = dict(self.coverage)
        cov.setdefault('trusted_base', TRUSTED_BASE)
        ev = {
            'property_id': self.prop,
            'tier': self.tier,
            'seed': self.seed,
            'level': level,
            'coverage': cov,
            'assumptions': self.assumptions,
            'wall_s': round(time.time() - self.t0, 2),
            'violations': len(self.violations),
        }
        if self.notes:
            ev['notes'] = self.notes
        with open(os.path.join(EVIDENCE, f"{self.prop}.json"), 'w') as f:
            json.dump(ev, f, indent=1, sort_keys=True)
        for k in self.known:
            print(f"KNOWN-FINDING: property={self.prop} {k}")
        with_input = [v for v in self.violations if not v[1]]
        shown = self.violations
        if with_input:
            # a concrete failing input was found: it is the replay; broken obligations are listed as comments
            for path, no_input, summary in self.violations:
                if no_input:
                    print(f"# also: {summary} (see {path})")
            shown = with_input
        for path, no_input, summary in shown:
            tail = ' no-failing-input-found' if no_input else ''
            print(f"# {summary}")
            print(f"VIOLATION property={self.prop} replay={path}{tail}")
        sys.stdout.flush()
        return 1 if self.violations else 0

def write_replay(prop, name, body, header):
    os.makedirs(REPLAYS, exist_ok=True)
    h = hashlib.sha1(body.encode()).hexdigest()[:10]
    path = os.path.join(REPLAYS, f"{prop}_{name}_{h}.txt")
    with open(path, 'w') as f:
        for line in header:
            f.write(f"# {line}\n")
        f.write(body)
    return path

# ---------------------------------------------------------------------------------------------
# building

def sh(cmd, cwd=None, timeout=3600, env=None):
    e = dict(os.environ)
    e['CARGO_NET_OFFLINE'] = 'true'
    if env:
        e.update(env)
    p = subprocess.run(cmd, cwd=cwd, capture_output=True, text=True, timeout=timeout, env=e, shell=isinstance(cmd, str))
    return p.returncode, p.stdout, p.stderr

_built = {}

def build_harness(bins=None):
    """(re)build the harness against /repo's current working tree; returns (ok, log)"""
    lock_src = '/repo/Cargo.lock'
    lock_dst = os.path.join(HARNESS, 'Cargo.lock')
    try:
        if not os.path.exists(lock_dst):
            import shutil; shutil.copy(lock_src, lock_dst)
    except Exception:
        pass
    cmd = ['cargo', 'build', '--offline']
    if bins:
        for b in bins:
            cmd += ['--bin', b]
    rc, out, err = sh(cmd, cwd=HARNESS)
    if rc == 0:
        return True, (out + err)[-6000:]
    # keep the error diagnostics (the warnings of a failed build would push them out of the retained tail)
    blocks = re.split(r'\n(?=(?:error|warning)\b)', out + err)
    errors = [b for b in blocks if b.startswith('error')]
    return False, ('\n'.join(errors) if errors else out + err)[-60000:]

def build_lean(targets):
    rc, out, err = sh(['lake', 'build'] + list(targets), cwd=LEAN)
    return rc == 0, (out + err)[-6000:]

def theorem_names(prop_file):
    """fully qualified names (without the leading `Unimock.`) of the theorems declared in a Props file"""
    src = open(prop_file).read()
    # drop block comments and line comments
    src_nc = re.sub(r'/-.*?-/', '', src, flags=re.S)
    src_nc = re.sub(r'--.*', '', src_nc)
    names = []
    stack = []
    for line in src_nc.split('\n'):
        m = re.match(r'^namespace\s+(\S+)', line)
        if m:
            stack.append(m.group(1)); continue
        m = re.match(r'^end\s+(\S+)', line)
        if m and stack and stack[-1] == m.group(1):
            stack.pop(); continue
        m = re.match(r"^theorem\s+([A-Za-z0-9_\.?!']+)", line)
        if m:
            full = '.'.join(stack + [m.group(1)])
            names.append(full[len('Unimock.'):] if full.startswith('Unimock.') else full)
    return names, src_nc

def lean_sources_for(module_file):
    """all project files transitively imported by module_file"""
    seen, todo = set(), [module_file]
    while todo:
        f = todo.pop()
        if f in seen or not os.path.exists(f):
            continue
        seen.add(f)
        for m in re.findall(r'^import\s+(Unimock[\w\.]*)', open(f).read(), flags=re.M):
            todo.append(os.path.join(LEAN, m.replace('.', '/') + '.lean'))
    return sorted(seen)

GEN_TRANSLATORS = {'TupleImpls': 'translate_tuples', 'LockSites': 'translate_locks', 'Mirrors': 'translate_mirrors',
                   'Counter': 'translate_counter', 'Control': 'translate_control', 'Builder': 'translate_control', 'Typestate': 'translate_typestate', 'ScanSkel': 'translate_scan'}

def lean_obligations(prop, expected, report, thorough=False):
    """Build Unimock.Props.<prop>, audit axioms of every expected theorem, grep forbidden constructs.
    Returns True iff every obligation is discharged."""
    module = f"Unimock.Props.{prop}"
    prop_file = os.path.join(LEAN, 'Unimock', 'Props', f"{prop}.lean")
    # every Generated/*.lean file the theorems depend on is re-translated from /repo's current source first
    for f in lean_sources_for(prop_file):
        t = GEN_TRANSLATORS.get(os.path.basename(f)[:-5]) if os.sep + 'Generated' + os.sep in f else None
        if t:
            tok, msg = run_translator(t)
            note = f"tools/{t}.py (re-run from /repo before the build): " + (msg.split('\n')[-1] if msg else 'no output')
            if hasattr(report, 'assumptions') and note not in report.assumptions:
                report.assumptions.append(note)
    ok, log = build_lean([module])
    names, _ = theorem_names(prop_file) if os.path.exists(prop_file) else ([], '')
    problems = []
    if not ok:
        problems.append(f"lake build {module} failed:\n{log[-3000:]}")
    missing = [t for t in expected if not any(n == t or n.endswith('.' + t) for n in names)]
    if missing:
        problems.append(f"expected theorems missing from Props/{prop}.lean: {missing}")
    # forbidden constructs in all sources the module depends on
    for f in lean_sources_for(prop_file):
        _, nc = theorem_names(f)
        for ln in nc.split('\n'):
            if FORBIDDEN.search(ln):
                problems.append(f"forbidden construct in {os.path.relpath(f, LEAN)}: {ln.strip()[:120]}")
    axioms_seen = set()
    discharged = 0
    if ok:
        os.makedirs(WORK, exist_ok=True)
        audit = os.path.join(WORK, f"audit_{prop}.lean")
        with open(audit, 'w') as f:
            f.write(f"import {module}\n")
            for t in names:
                f.write(f"#print axioms Unimock.{t}\n")
        rc, out, err = sh(['lake', 'env', 'lean', audit], cwd=LEAN)
        text = out + err
        if rc != 0:
            problems.append(f"axiom audit failed: {text[-2000:]}")
        per = {}
        for m in re.finditer(r"'Unimock\.([\w\.?!']+)' (does not depend on any axioms|depends on axioms: \[([^\]]*)\])", text):
            ax = set(a.strip() for a in (m.group(3) or '').split(',') if a.strip())
            per[m.group(1)] = ax
        for t in names:
            if t not in per:
                problems.append(f"no axiom report for {t}")
                continue
            bad = per[t] - ALLOWED_AXIOMS
            axioms_seen |= per[t]
            if bad:
                problems.append(f"theorem {t} depends on disallowed axioms {sorted(bad)}")
            else:
                discharged += 1
        if thorough:
            rc, out, err = sh(['lake', 'env', 'leanchecker', module], cwd=LEAN, timeout=1800)
            if rc != 0:
                problems.append(f"leanchecker {module} failed: {(out+err)[-1500:]}")
            report.coverage['leanchecker'] = 'ok' if rc == 0 else 'failed'
    report.coverage['obligations'] = len(names)
    report.coverage['discharged'] = discharged if not problems else min(discharged, max(0, len(names) - 1))
    report.coverage['theorems'] = names
    report.coverage['axioms_seen'] = sorted(axioms_seen)
    report.coverage['checker_cmd'] = f"cd {LEAN} && lake build {module} && lake env lean work/audit_{prop}.lean (#print axioms per theorem)" + (f" && lake env leanchecker {module}" if thorough else '')
    if problems:
        body = '\n'.join(problems) + '\n'
        path = write_replay(prop, 'proof', body, [f"property {prop}: Lean obligations of Unimock.Props.{prop} no longer check", "the theorems / audit items below failed"])
        report.violation(path, f"proof obligations of Unimock.Props.{prop} do not check", no_input=True)
        return False
    return True


def run_translator(name):
    """run tools/<name>.py (regenerates a Generated/*.lean file from /repo); returns (ok, one-line report)"""
    import subprocess, sys
    p = subprocess.run([sys.executable, os.path.join(VERIF, 'tools', name + '.py')], capture_output=True, text=True)
    return p.returncode == 0, (p.stdout + p.stderr).strip()[-600:]
