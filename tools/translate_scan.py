#!/usr/bin/env python3
"""Translator: the pattern-selection core of the runtime -> lean/Unimock/Generated/ScanSkel.lean

Reads from /repo/src (current working tree):
  * call_pattern.rs `CallPattern::match_inputs` — the arms of its match on (matcher present?, reporter given?);
  * eval.rs   `Eval::match_call_pattern` — the `InAnyOrder` iterator chain (receiver, adaptor sequence, the three arms of
              the `filter_map` closure, whether diagnostics are collected while scanning, which index `map_err` reports)
              and the `InOrder` block as a statement list;
  * fn_mocker.rs `FnMocker::find_call_pattern_for_call_order` — how the first owning pattern is looked up (three spellings known);
  * counter.rs `CallCounter::fetch_add`, call_pattern.rs `CallPattern::next_responder` — the match counter's bump and which value selects the responder;
  * state.rs  `SharedState::bump_ordered_call_index` — the atomic operation, its increment and ordering;
              `SharedState::find_ordered_expected_call_pattern_debug` — which pattern an out-of-order call was expected to hit.
The vocabulary and its interpreters are in `Model/ScanSkel.lean`; `Props/C01.lean` and `Props/C04.lean` prove the
interpreted skeletons equal to the hand-written model's `scan` / ordered branch (so a source change that alters the
selection rule breaks a theorem; the check then searches for a failing input through the correspondence run).

Recognition is by whitespace-free text. Anything not recognised becomes `.unknown` / `.other` / a `false` flag, which makes
the agreement theorems fail (never silent agreement). Code under `#[cfg(unimock_verif)]` is skipped."""
import os, re, sys
ROOT = sys.argv[1] if len(sys.argv) > 1 else '/repo/src'
OUT = os.environ.get('VERIF_SCAN_OUT') or os.path.join(os.path.dirname(os.path.dirname(os.path.abspath(__file__))), 'lean', 'Unimock', 'Generated', 'ScanSkel.lean')
_TMP = f'.{os.getpid()}.tmp'


def _finalise(tmp, out):
    new = open(tmp).read()
    old = open(out).read() if os.path.exists(out) else None
    if new != old:
        os.replace(tmp, out)
    else:
        os.remove(tmp)


def strip(s):
    s = re.sub(r'//[^\n]*', '', s)
    s = re.sub(r'/\*.*?\*/', '', s, flags=re.S)
    # drop statements / items guarded by cfg(unimock_verif)
    s = re.sub(r'#\[cfg\(unimock_verif\)\]\s*[^;{]*;', '', s)
    return s


def fn_body(src, name):
    m = re.search(r'fn\s+' + re.escape(name) + r'\b[^{;]*\{', src)
    if not m:
        return None
    i = m.end(); depth = 1
    while i < len(src) and depth:
        depth += {'{': 1, '}': -1}.get(src[i], 0); i += 1
    return src[m.end():i - 1]


def balanced(s, i, open_='{', close='}'):
    """s[i] == open_; returns index just after the matching close"""
    depth = 0
    while i < len(s):
        if s[i] == open_: depth += 1
        elif s[i] == close:
            depth -= 1
            if depth == 0:
                return i + 1
        i += 1
    return len(s)


def split_top(s, sep=','):
    """split on `sep` at nesting depth 0 of (), [], {}, <> is NOT tracked (generic commas don't occur here)"""
    out, depth, cur = [], 0, ''
    for ch in s:
        if ch in '([{': depth += 1
        elif ch in ')]}': depth -= 1
        if ch == sep and depth == 0:
            out.append(cur); cur = ''
        else:
            cur += ch
    if cur.strip():
        out.append(cur)
    return out


def match_arms(s):
    """arms of a whitespace-free `match` body: [(pattern, body)]; a block body needs no trailing comma"""
    out, i = [], 0
    while i < len(s):
        depth, j = 0, i
        while j < len(s) and not (depth == 0 and s.startswith('=>', j)):
            if s[j] in '([{': depth += 1
            elif s[j] in ')]}': depth -= 1
            j += 1
        if j >= len(s):
            break
        pat = s[i:j]; j += 2
        if j < len(s) and s[j] == '{':
            k = balanced(s, j)
            body = s[j:k]
        else:
            depth, k = 0, j
            while k < len(s) and not (depth == 0 and s[k] == ','):
                if s[k] in '([{': depth += 1
                elif s[k] in ')]}': depth -= 1
                k += 1
            body = s[j:k]
        out.append((pat.strip(','), body))
        i = k + 1 if k < len(s) and s[k] == ',' else k
    return out


def method_chain(expr):
    """`recv.a(..).b(..)` -> (recv, [(name, args)])  on whitespace-free text"""
    i = 0; recv = ''
    # receiver: up to the first `.ident(`
    m = re.search(r'\.([a-z_]+)\(', expr)
    if not m:
        return expr, []
    # the receiver may itself contain dots (fn_mocker.call_patterns): take everything before the first call
    recv = expr[:m.start()]
    calls = []; i = m.start()
    while i < len(expr):
        m = re.match(r'\.([a-z_]+)\(', expr[i:])
        if not m:
            m2 = re.match(r'\.([a-z_0-9]+)', expr[i:])
            if m2:   # a field access inside the chain
                calls.append(('.' + m2.group(1), '')); i += m2.end(); continue
            if expr[i:].strip(' ?;') == '':
                break
            calls.append(('??' + expr[i:i + 20], '')); break
        j = balanced(expr, i + m.end() - 1, '(', ')')
        calls.append((m.group(1), expr[i + m.end():j - 1])); i = j
    return recv, calls


ADAPT = {'iter': 'iter', 'enumerate': 'enumerate', 'filter_map': 'filterMap', 'next': 'next', 'transpose': 'transpose',
         'map_err': 'mapErr', 'rev': 'rev', 'last': 'last', 'skip': 'skip'}


def classify_arm(body):
    b = body.strip().rstrip(',')
    if b == 'None':
        return '.none_'
    if re.fullmatch(r'Some\(Ok\(\(PatIndex\(pat_index\),call_pattern\)\)\)', b):
        return '.someOk'
    if re.fullmatch(r'Some\(Err\(\(PatIndex\(pat_index\),err\)\)\)', b):
        return '.someErr'
    return '.unknown'


FOR_RX = re.compile(r'\{for\((\w+),call_pattern\)in(fn_mocker\.call_patterns)\.iter\(\)\.enumerate\(\)\{(?:letpat_index=PatIndex\(\1\);)?match(.*?)\{(.*)\}\}(.*)\}$', re.S)


def classify_loop_arm(body, idx):
    b = body.strip().rstrip(',')
    if b.startswith('{') and b.endswith('}'):
        b = b[1:-1].rstrip(';')
    if b == 'continue':
        return '.none_'
    if b in ('returnOk(Some((pat_index,call_pattern)))', f'returnOk(Some((PatIndex({idx}),call_pattern)))'):
        return '.someOk'
    if b in ('returnErr(self.map_pattern_error(err,fn_mocker,pat_index))', f'returnErr(self.map_pattern_error(err,fn_mocker,PatIndex({idx})))'):
        return '.someErr'
    return '.unknown'


def any_order_loop(arm_text):
    """the same selection written as a `for` loop with `continue` / early `return` and a trailing `Ok(None)`"""
    m = FOR_RX.match(arm_text)
    if not m:
        return None
    idx, recv, scrut, arms, tail = m.groups()
    on = {'false': '.unknown', 'true': '.unknown', 'err': '.unknown'}
    for arm in split_top(arms):
        if '=>' not in arm:
            continue
        pat, body = arm.split('=>', 1)
        key = {'Ok(false)': 'false', 'Ok(true)': 'true', 'Err(err)': 'err'}.get(pat.strip())
        if key:
            on[key] = classify_loop_arm(body, idx)
    adaptors = ['.iter', '.enumerate', '.forReturn' if tail == 'Ok(None)' else '.other']
    return True, adaptors, scrut == 'match_inputs(call_pattern,None)', on, on['err'] == '.someErr'


def any_order(arm_text):
    """arm_text: whitespace-free text of the InAnyOrder arm's expression"""
    recv, calls = method_chain(arm_text)
    over = recv == 'fn_mocker.call_patterns'
    adaptors = ['.' + ADAPT.get(n, 'other') for n, _ in calls]
    rep_none = False; on = {'false': '.unknown', 'true': '.unknown', 'err': '.unknown'}
    own_idx = False
    for n, args in calls:
        args = args.rstrip(',')
        if n == 'filter_map':
            m = re.match(r'\|\(pat_index,call_pattern\)\|match(.*?)\{(.*)\}$', args)
            if m:
                scrut = m.group(1)
                rep_none = scrut == 'match_inputs(call_pattern,None)'
                for arm in split_top(m.group(2)):
                    if '=>' not in arm:
                        continue
                    pat, body = arm.split('=>', 1)
                    key = {'Ok(false)': 'false', 'Ok(true)': 'true', 'Err(err)': 'err'}.get(pat.strip())
                    if key:
                        on[key] = classify_arm(body)
        if n == 'map_err':
            own_idx = args == '|(pat_index,err)|self.map_pattern_error(err,fn_mocker,pat_index)'
    return over, adaptors, rep_none, on, own_idx


ATOM = {'fetch_add': '.fetchAdd', 'fetch_sub': '.fetchSub', 'swap': '.swap', 'load': '.load', 'store': '.store'}

OSTMTS = [
    (r'letordered_call_index=self\.shared_state\.bump_ordered_call_index\(\)$', '.bump'),
    (r'let\(pat_index,pattern\)=fn_mocker\.find_call_pattern_for_call_order\(ordered_call_index\)\.ok_or_else\(\|\|MockError::CallOrderNotMatchedForMockFn\{.*\}\)\?$', '.findOrErrCallOrder'),
    (r'letmutmismatch_reporter=MismatchReporter::new_enabled\(\)$', '.newReporter'),
    (r'if!match_inputs\(pattern,Some\(&mutmismatch_reporter\)\)\.map_err\(\|err\|self\.map_pattern_error\(err,fn_mocker,pat_index\)\)\?\{.*returnErr\(MockError::InputsNotMatchedInCallOrder\{.*actual_call_order:error::CallOrder\(ordered_call_index\),.*\}\)$', '.matchOrErrInputs'),
    (r'Ok\(Some\(\(pat_index,pattern\)\)\)$', '.okSome'),
]


def classify_stmt(st):
    """by the runtime function a statement calls and the error it can raise (layout of the error struct is not looked at)"""
    for rx, name in OSTMTS:
        if re.match(rx, st, flags=re.S):
            return name
    has = lambda x: x in st
    if has('bump_ordered_call_index()') and st.startswith('let') and not has('find_call_pattern_for_call_order'):
        return '.bump'
    if has('find_call_pattern_for_call_order(ordered_call_index)') and has('CallOrderNotMatchedForMockFn') and not has('match_inputs('):
        return '.findOrErrCallOrder'
    if has('MismatchReporter::new_enabled()') and not has('match_inputs('):
        return '.newReporter'
    if st.startswith('if!match_inputs(pattern,Some(&mut') and has('InputsNotMatchedInCallOrder') and has('returnErr(') and has('map_pattern_error(err,fn_mocker,pat_index)'):
        return '.matchOrErrInputs'
    return '.unknown'


def statements(block):
    """top-level statements of a whitespace-free block: split on `;` at depth 0, keeping `if … { … }` whole"""
    out, depth, cur = [], 0, ''
    i = 0
    while i < len(block):
        ch = block[i]
        if ch in '([{': depth += 1
        elif ch in ')]}': depth -= 1
        cur += ch
        if depth == 0 and (ch == ';' or (ch == '}' and cur.lstrip().startswith('if'))):
            out.append(cur.rstrip(';')); cur = ''
        i += 1
    if cur.strip():
        out.append(cur)
    return [s for s in out if s]


def in_order(block):
    steps = []
    for st in statements(block):
        st2 = st.rstrip(';')
        if st2.endswith(';}'):
            st2 = st2[:-2]
        elif st2.endswith('}') and st2.startswith('if'):
            st2 = st2[:-1].rstrip(';')
        steps.append(classify_stmt(st2))
    return steps


def match_inputs_arms(cp):
    """arms of `CallPattern::match_inputs`; returns (recognised, [(matcher, reporter, res)])"""
    body = fn_body(cp, 'match_inputs')
    if body is None:
        return False, []
    flat = re.sub(r'\s+', '', body)
    m = re.match(r'match\(&self\.input_matcher\.dyn_matching_fn,mismatch_reporter\)\{(.*)\}$', flat, flags=re.S)
    if not m:
        return False, []
    out = []
    for pat, b in match_arms(m.group(1)):
        pm = re.fullmatch(r'\((Some\(DynMatchingFn\((\w+)\)\)|None|_),(Some\((\w+)\)|None|_)\)', pat.strip())
        if not pm:
            out.append(('none', 'none', '.unknown')); continue
        matcher = {'None': 'some false', '_': 'none'}.get(pm.group(1), 'some true')
        reporter = {'None': 'some false', '_': 'none'}.get(pm.group(3), 'some true')
        f, rep = pm.group(2) or 'f', pm.group(4) or 'reporter'
        b = b.strip().rstrip(',')
        if b.startswith('{') and b.endswith('}'):
            b = b[1:-1]
        call = r'Ok\(\(downcast_box::<MatchingFn<F>>\(' + re.escape(f) + r'\)\?\.0\)\(inputs,'
        if re.fullmatch(call + re.escape(rep) + r',?\),?\)', b) and reporter == 'some true':
            res = '.callGiven'
        elif re.fullmatch(call + r'&mutMismatchReporter::new_disabled\(\),?\),?\)', b):
            res = '.callDisabled'
        elif b == 'Err(PatternError::NoMatcherFunction)':
            res = '.errNoMatcher'
        else:
            res = '.unknown'
        out.append((matcher, reporter, res))
    return True, out


def find_skel(fm):
    """`FnMocker::find_call_pattern_for_call_order`: (recognised, over, adaptors, ownIndex). The ownership test itself is
    translated by tools/translate_counter.py (`Generated.ownsSrc`)."""
    body = fn_body(fm, 'find_call_pattern_for_call_order')
    if body is None:
        return False, True, [], True
    flat = re.sub(r'\s+', '', body)
    m = re.fullmatch(r'for\((\w+),(\w+)\)in(self\.call_patterns)\.iter\(\)\.enumerate\(\)\{if.*\{returnSome\(\(PatIndex\(\1\),\2\)\);?\}\}None', flat, flags=re.S)
    if m:
        return True, True, ['.iter', '.enumerate', '.forReturn'], True
    m = re.fullmatch(r'let(\w+)=(self\.call_patterns)\.iter\(\)\.position\(.*\)\?;Some\(\(PatIndex\(\1\),&self\.call_patterns\[\1\]\)\)', flat, flags=re.S)
    if m:
        return True, True, ['.iter', '.position', '.index'], True
    if flat.startswith('self.call_patterns.') or re.match(r'self\.\w+\.iter\(\)', flat):
        recv, calls = method_chain(flat)
        names = {'iter': 'iter', 'enumerate': 'enumerate', 'find': 'find', 'map': 'map', 'rev': 'rev', 'last': 'last', 'skip': 'skip', 'position': 'position'}
        adaptors = ['.' + names.get(n, 'other') for n, _ in calls]
        own = any(n == 'map' and re.fullmatch(r'\|\((\w+),(\w+)\)\|\(PatIndex\(\1\),\2\)', a.rstrip(',')) for n, a in calls)
        return True, recv == 'self.call_patterns', adaptors, own
    return False, True, [], True


def expected_skel(stt):
    """`SharedState::find_ordered_expected_call_pattern_debug`: (recognised, over, shape, skips, usesFind, yields)"""
    body = fn_body(stt, 'find_ordered_expected_call_pattern_debug')
    if body is None:
        return False, True, '.findMap', True, True, True
    flat = re.sub(r'\s+', '', body)
    skip_rx = r'iffn_mocker\.pattern_match_mode!=PatternMatchMode::InOrder\{%s;?\}'
    m = re.fullmatch(r'(self\.fn_mockers\.values\(\))\.find_map\(\|fn_mocker\|\{(.*)\}\)', flat, flags=re.S)
    if m:
        inner = m.group(2)
        skips = re.match(skip_rx % 'returnNone', inner) is not None
        uses = re.search(r'let\((\w+),_\)=fn_mocker\.find_call_pattern_for_call_order\(ordered_call_index\)\?;', inner)
        yields = bool(uses) and inner.endswith(f'Some(fn_mocker.debug_pattern({uses.group(1)}))')
        return True, True, '.findMap', skips, bool(uses), yields
    m = re.fullmatch(r'forfn_mockerin(self\.fn_mockers\.values\(\))\{(.*)\}None', flat, flags=re.S)
    if m:
        inner = m.group(2)
        skips = re.match(skip_rx % 'continue', inner) is not None
        uses = re.search(r'ifletSome\(\((\w+),_\)\)=fn_mocker\.find_call_pattern_for_call_order\(ordered_call_index\)\{returnSome\(fn_mocker\.debug_pattern\(\1\)\);?\}', inner)
        return True, True, '.forLoop', skips, bool(uses), bool(uses)
    m = re.fullmatch(r'(self\.fn_mockers\.values\(\))\.filter\(\|fn_mocker\|(.*?)\)\.find_map\(\|fn_mocker\|\{?(.*?)\}?\)', flat, flags=re.S)
    if m:
        skips = m.group(2) == 'fn_mocker.pattern_match_mode==PatternMatchMode::InOrder'
        uses = re.fullmatch(r'fn_mocker\.find_call_pattern_for_call_order\(ordered_call_index\)\.map\(\|\((\w+),_\)\|fn_mocker\.debug_pattern\(\1\)\)', m.group(3))
        return True, True, '.filterFindMap', skips, bool(uses), bool(uses)
    return False, True, '.findMap', True, True, True


def main():
    notes = []
    ev = strip(open(os.path.join(ROOT, 'eval.rs')).read())
    stt = strip(open(os.path.join(ROOT, 'state.rs')).read())
    body = fn_body(ev, 'match_call_pattern')
    over, adaptors, rep_none, on, own_idx = False, [], False, {'false': '.unknown', 'true': '.unknown', 'err': '.unknown'}, False
    osteps = ['.unknown']
    rec_any = rec_ord = False
    if body is not None:
        flat = re.sub(r'\s+', '', body)
        m = re.match(r'matchfn_mocker\.pattern_match_mode\{(.*)\}$', flat, flags=re.S)
        if m:
            arms = m.group(1)
            ia = arms.find('PatternMatchMode::InAnyOrder=>'); io = arms.find('PatternMatchMode::InOrder=>')
            if ia >= 0 and io > ia:
                a_text = arms[ia + len('PatternMatchMode::InAnyOrder=>'):io].rstrip(',')
                loop = any_order_loop(a_text)
                if loop:
                    over, adaptors, rep_none, on, own_idx = loop
                    rec_any = True
                elif a_text.startswith('fn_mocker.call_patterns.') and not a_text.startswith('{'):
                    over, adaptors, rep_none, on, own_idx = any_order(a_text)
                    rec_any = True
                else:
                    notes.append('UNRECOGNISED shape of the InAnyOrder arm (neither an iterator chain on fn_mocker.call_patterns nor a for-loop over it): the skeleton falls back to the model\'s own, C01_source_scan_is_model_scan is vacuous, the tie is the correspondence run alone')
                o_text = arms[io + len('PatternMatchMode::InOrder=>'):]
                if o_text.startswith('{'):
                    j = balanced(o_text, 0)
                    rest = o_text[j:].strip(',')
                    if rest == '':
                        osteps = in_order(o_text[1:j - 1]); rec_ord = True
            else:
                notes.append('arms of match_call_pattern not found in the expected order')
        else:
            notes.append('match_call_pattern is no longer one `match fn_mocker.pattern_match_mode`')
    else:
        notes.append('fn match_call_pattern not found')
    # bump
    bb = fn_body(stt, 'bump_ordered_call_index')
    op, delta, seq = 'unknown', 0, False
    if bb is not None:
        fb = re.sub(r'\s+', '', bb)
        m = re.fullmatch(r'self\.next_ordered_call_index\.([a-z_]+)\((\d+),(?:(?:core|std)::sync::atomic::|atomic::)?Ordering::(\w+)\)', fb)
        if m:
            op, delta, seq = m.group(1), int(m.group(2)), m.group(3) == 'SeqCst'
        else:
            notes.append('bump_ordered_call_index body not recognised: ' + fb[:80])
    if not rec_any:
        over, adaptors, rep_none, own_idx = True, ['.iter', '.enumerate', '.filterMap', '.next', '.transpose', '.mapErr'], True, True
        on = {'false': '.none_', 'true': '.someOk', 'err': '.someErr'}
    if not rec_ord:
        osteps = ['.bump', '.findOrErrCallOrder', '.newReporter', '.matchOrErrInputs', '.okSome']
        notes.append('UNRECOGNISED shape of the InOrder arm (not one block): fallback to the model\'s own statement list, C04_source_ordered_* vacuous, tie = correspondence run')
    cp_path = os.path.join(ROOT, 'call_pattern.rs')
    rec_mi, mi = match_inputs_arms(strip(open(cp_path).read())) if os.path.exists(cp_path) else (False, [])
    if not rec_mi:
        mi = [('some true', 'some true', '.callGiven'), ('some true', 'some false', '.callDisabled'), ('some false', 'none', '.errNoMatcher')]
        notes.append('UNRECOGNISED shape of CallPattern::match_inputs: fallback to the model\'s own arms, C01_source_match_inputs vacuous, tie = correspondence run')
    fm_path = os.path.join(ROOT, 'fn_mocker.rs')
    rec_find, f_over, f_adapt, f_own = find_skel(strip(open(fm_path).read())) if os.path.exists(fm_path) else (False, True, [], True)
    if not rec_find:
        f_over, f_adapt, f_own = True, ['.iter', '.enumerate', '.find', '.map'], True
        notes.append('UNRECOGNISED shape of FnMocker::find_call_pattern_for_call_order: fallback, C04_source_find vacuous, tie = correspondence run')
    # CallCounter::fetch_add and CallPattern::next_responder
    cnt_path = os.path.join(ROOT, 'counter.rs')
    c_op, c_delta, c_seq, rec_cnt = 'unknown', 0, False, False
    if os.path.exists(cnt_path):
        cb = fn_body(strip(open(cnt_path).read()), 'fetch_add')
        if cb is not None:
            m = re.fullmatch(r'self\.actual_count\.([a-z_]+)\((\d+),(?:(?:core|std)::sync::atomic::|atomic::)?Ordering::(\w+)\)', re.sub(r'\s+', '', cb))
            if m:
                c_op, c_delta, c_seq, rec_cnt = m.group(1), int(m.group(2)), m.group(3) == 'SeqCst', True
    if not rec_cnt:
        c_op, c_delta, c_seq = 'fetch_add', 1, True
        notes.append('UNRECOGNISED shape of CallCounter::fetch_add: fallback, C01_source_count_bump vacuous for it')
    nr = fn_body(strip(open(cp_path).read()), 'next_responder') if os.path.exists(cp_path) else None
    nr_flat = re.sub(r'\s+', '', nr) if nr is not None else ''
    rec_nr = nr_flat.startswith('find_responder_by_call_index(')
    nr_old = nr_flat == 'find_responder_by_call_index(&self.responders,self.call_counter.fetch_add())'
    if not rec_nr:
        nr_old = True
        notes.append('UNRECOGNISED shape of CallPattern::next_responder: fallback')
    rec_exp, e_over, e_shape, e_skips, e_uses, e_yields = expected_skel(stt)
    if not rec_exp:
        notes.append('UNRECOGNISED shape of SharedState::find_ordered_expected_call_pattern_debug: fallback, C04_source_expected vacuous')
    b = lambda x: 'true' if x else 'false'
    lines = [
        'import Unimock.Model.ScanSkel',
        '/-! GENERATED by tools/translate_scan.py from /repo/src/{eval,state}.rs — do not edit. -/',
        'namespace Unimock.Generated',
        'open Unimock.ScanSkel',
        f'def recognised_anyOrder : Bool := {b(rec_any)}',
        f'def recognised_inOrder : Bool := {b(rec_ord)}',
        '/-- `match_call_pattern`, `PatternMatchMode::InAnyOrder` arm -/',
        'def anySkel : AnySkel :=',
        f'  {{ overCallPatterns := {b(over)}, adaptors := [{", ".join(adaptors)}], reporterNone := {b(rep_none)},',
        f'    onFalse := {on["false"]}, onTrue := {on["true"]}, onErr := {on["err"]}, errMapsOwnIndex := {b(own_idx)} }}',
        '/-- `match_call_pattern`, `PatternMatchMode::InOrder` arm, statement by statement -/',
        f'def orderedSteps : List OStep := [{", ".join(osteps)}]',
        '/-- `SharedState::bump_ordered_call_index` -/',
        f'def bumpSkel : BumpSkel := {{ op := {ATOM.get(op, ".other")}, delta := {delta}, seqCst := {b(seq)} }}',
        f'def recognised_matchInputs : Bool := {b(rec_mi)}',
        '/-- `CallPattern::match_inputs`: the arms of its `match (&self.input_matcher.dyn_matching_fn, mismatch_reporter)` -/',
        'def matchInputsArms : List MIArm := [' + ', '.join(f'⟨{a}, {r}, {x}⟩' for a, r, x in mi) + ']',
        f'def recognised_countBump : Bool := {b(rec_cnt)}',
        f'def recognised_nextResponder : Bool := {b(rec_nr)}',
        '/-- `CallCounter::fetch_add` (the per-pattern match counter) -/',
        f'def countBumpSkel : BumpSkel := {{ op := {ATOM.get(c_op, ".other")}, delta := {c_delta}, seqCst := {b(c_seq)} }}',
        '/-- `CallPattern::next_responder` looks the responder up by the value `fetch_add` RETURNS (the count before this call) -/',
        f'def nextResponderByOldCount : Bool := {b(nr_old)}',
        f'def recognised_expected : Bool := {b(rec_exp)}',
        '/-- `SharedState::find_ordered_expected_call_pattern_debug` -/',
        f'def expectedSkel : ExpSkel := {{ overMockers := {b(e_over)}, shape := {e_shape}, skipsUnordered := {b(e_skips)}, usesFind := {b(e_uses)}, yieldsFound := {b(e_yields)} }}',
        f'def recognised_find : Bool := {b(rec_find)}',
        '/-- `FnMocker::find_call_pattern_for_call_order` (its ownership test is `Generated.ownsSrc`, translate_counter.py) -/',
        f'def findSkel : FindSkel := {{ overCallPatterns := {b(f_over)}, adaptors := [{", ".join(f_adapt)}], ownIndex := {b(f_own)} }}',
        'end Unimock.Generated', '']
    tmp = OUT + _TMP
    open(tmp, 'w').write('\n'.join(lines))
    _finalise(tmp, OUT)
    print(f"translate_scan: anyOrder adaptors={[a[1:] for a in adaptors]} arms={on} reporterNone={rep_none} ownIdx={own_idx}; "
          f"ordered={[s[1:] for s in osteps]}; bump={op}+{delta} seqcst={seq}; match_inputs arms={[x[1:] for _, _, x in mi]}; find={[a[1:] for a in f_adapt]}" + ('; notes: ' + '; '.join(notes) if notes else ''))


if __name__ == '__main__':
    main()
