#!/usr/bin/env python3
"""print the markdown table of DESIGN.md §11.4 from /verif/seeded/*/meta.json"""
import json, glob, os
rows = []
for d in sorted(glob.glob('/verif/seeded/*')):
    mp = os.path.join(d, 'meta.json')
    if not os.path.exists(mp):
        continue
    m = json.load(open(mp))
    what = ' '.join(str(m.get('summary', '')).split())[:110]
    rows.append(f"| {os.path.basename(d)} | {what} | {','.join(m.get('detected_by', []))} | {m.get('detection_note', '')} |")
print("| seeded change | what it changes | caught by | how |\n|---|---|---|---|")
print('\n'.join(rows))
