#!/usr/bin/env python3
"""Translator: the *signatures* of the clause builder (src/build.rs), the marker kinds (src/property.rs) and the entry
points `next_call` / `some_call` / `each_call` / `Each::call` (src/lib.rs, src/build.rs)
-> lean/Unimock/Generated/Typestate.lean

Per (builder struct, method): which struct the method returns, with which repetition marker, and which of the three bounds
that make the type-state restrictive its `where` clause carries — `T: IntoReturn<..>` (the value must be `Clone`; every value
satisfies `IntoReturnOnce`), `O: Ordering<Kind = InAnyOrder>`, `R: Repetition<Kind = Exact>`. Plus `type Kind = ..` of each
marker impl, which structs implement `Clause`, and for each entry point the struct / ordering marker it returns and the
run-time `PatternMatchMode` it passes along. `Props/C14.lean` proves the transition function interpreted from this table
equal to the hand-written `Typestate.step` on every (state, call) pair; `Props/C12.lean` reads the non-`Clone` restriction
off it. (That rustc enforces exactly these bounds is checked separately by the generated `cargo check` programs.)

Unrecognised shape -> the table falls back to the model's own and `recognised_typestate` is false (reported in evidence)."""
import os, re, sys
sys.path.insert(0, os.path.dirname(os.path.abspath(__file__)))
from translate_control import strip_comments, close, ws, Unrecognised

ROOT = sys.argv[1] if len(sys.argv) > 1 else '/repo/src'
OUT = os.environ.get('VERIF_TYPESTATE_OUT') or os.path.join(os.path.dirname(os.path.dirname(os.path.abspath(__file__))), 'lean', 'Unimock', 'Generated', 'Typestate.lean')

STRUCTS = {'DefineResponse': 0, 'DefineMultipleResponses': 1, 'QuantifyReturnValue': 2, 'Quantify': 3, 'QuantifiedResponse': 4}
METHODS = {'returns': 0, 'answers': 1, 'once': 2, 'n_times': 3, 'at_least_times': 4, 'then': 5}     # `answers` stands for the responder family shared by both Define* structs


def inherent_impls(src, struct):
    """bodies of `impl<..> Struct<..> [where ..] { .. }` (not trait impls); macro-generated ones through `$typename`"""
    out = []
    for m in re.finditer(r'\bimpl\s*<[^{]*?>\s*(\$typename|' + struct + r')\s*<[^{;]*?\{', src):
        head = src[m.start():m.end()]
        if re.search(r'\bfor\b', head):
            continue
        if m.group(1) == '$typename':
            # the macro is instantiated for both Define* structs
            if struct not in ('DefineResponse', 'DefineMultipleResponses') or not re.search(r'define_response_common_impl!\(' + struct + r'\)', src):
                continue
        i = m.end() - 1
        # the header's own generics and where clause bind every method of the block: they are handed on with the body
        out.append((ws(head[len('impl'):-1]), src[i + 1:close(src, i) - 1]))
    return out


def method_sig(block, name):
    """(return type text, where-clause text incl. the impl header's bounds) of `pub fn name` in an impl block"""
    header, body = block
    m = re.search(r'pub\s+fn\s+' + name + r'\b', body)
    if not m:
        return None
    # signature runs to the `{` that opens the fn body: the first `{` at paren/angle depth 0 … simply: up to the first `{`
    j = body.index('{', m.end())
    sig = body[m.end():j]
    k = sig.find('->')
    if k < 0:
        raise Unrecognised(f'{name}: no return type')
    rest = sig[k + 2:]
    w = re.search(r'\bwhere\b', rest)
    # the method's own generics (`fn returns<T: ..>`) count as bounds too
    own = ws(sig[:k])
    return (ws(rest[:w.start()] if w else rest), ','.join(x for x in (header, own, ws(rest[w.end():]) if w else '') if x))


def parse_sig(struct, name, ret, where):
    m = re.fullmatch(r"(\w+)<'\w+,F,(?:T,)?(\w+)(?:,(\w+))?>", ret)
    if not m or m.group(1) not in STRUCTS:
        raise Unrecognised(f'{struct}::{name}: return type `{ret}`')
    res, omark, rmark = m.group(1), m.group(2), m.group(3)
    if omark != 'O':
        raise Unrecognised(f'{struct}::{name}: ordering marker `{omark}` is not passed through')
    rep = {'Exact': 'some .exact', 'AtLeast': 'some .atLeast', None: 'none', 'R': 'none'}.get(rmark)
    if rep is None:
        raise Unrecognised(f'{struct}::{name}: repetition marker `{rmark}`')
    need_clone = bool(re.search(r'(^|[,<])T:IntoReturn<', where))
    once_ok = bool(re.search(r'(^|[,<])T:IntoReturnOnce<', where))
    if name == 'returns' and not (need_clone or once_ok):
        raise Unrecognised(f'{struct}::returns: bound on T')
    need_any = bool(re.search(r'(^|[,<+])(O:|Copy\+)?Ordering<Kind=InAnyOrder>', where))
    if re.search(r'Ordering<Kind=InOrder>', where):
        raise Unrecognised(f'{struct}::{name}: bound Kind = InOrder')
    need_exact = bool(re.search(r'(^|[,<])R:Repetition<Kind=Exact>', where))
    if re.search(r'Repetition<Kind=AtLeast>', where):
        raise Unrecognised(f'{struct}::{name}: bound Kind = AtLeast')
    if len(re.findall(r'Kind=', where)) != int(need_any) + int(need_exact):
        raise Unrecognised(f'{struct}::{name}: a `Kind = ..` bound of another form')
    b = lambda x: 'true' if x else 'false'
    return f'(({STRUCTS[struct]}, {METHODS[name]}), ⟨{b(need_clone)}, {b(need_any)}, {b(need_exact)}, {STRUCTS[res]}, {rep}⟩)'


def table(build, prop, lib):
    rows = []
    for struct in STRUCTS:
        bodies = inherent_impls(build, struct)
        if not bodies:
            raise Unrecognised(f'no inherent impl of {struct}')
        for name in METHODS:
            sigs = [s for s in (method_sig(b, name) for b in bodies) if s]
            if len(sigs) > 1:
                raise Unrecognised(f'{struct}::{name} defined twice')
            if sigs:
                rows.append(parse_sig(struct, name, *sigs[0]))
    kinds = {}
    for tr, marker, kind in re.findall(r'impl\s+(Ordering|Repetition)\s+for\s+(\w+)\s*\{\s*type\s+Kind\s*=\s*(\w+)\s*;\s*\}', prop):
        kinds[(tr, marker)] = marker if kind == 'Self' else kind
    need = [('Ordering', 'InOrder'), ('Ordering', 'InAnyOrder'), ('Repetition', 'Exact'), ('Repetition', 'AtLeast')]
    if sorted(kinds) != sorted(need):
        raise Unrecognised(f'marker impls {sorted(kinds)}')
    O = {'InOrder': '.inOrder', 'InAnyOrder': '.anyOrder'}
    R = {'Exact': '.exact', 'AtLeast': '.atLeast'}
    if any(kinds[('Ordering', k)] not in O for k in O) or any(kinds[('Repetition', k)] not in R for k in R):
        raise Unrecognised('marker kind outside the marker set')
    clause = sorted(STRUCTS[s] for s in STRUCTS if re.search(r'impl\s*<[^{]*?>\s*Clause\s+for\s+' + s + r'\s*<', build))
    entries = []
    for fn, tag in (('next_call', '.nextCall'), ('some_call', '.someCall'), ('each_call', '.eachCall')):
        m0 = re.search(r'fn\s+' + fn + r'\s*\(', lib)
        if not m0:
            raise Unrecognised(f'entry point {fn}')
        pe = close(lib, m0.end() - 1, '(', ')')
        m = re.match(r'\s*->\s*build::(\w+)<\'static,\s*Self,\s*property::(\w+)>\s*\{', lib[pe:])
        if not m or m.group(1) not in STRUCTS or m.group(2) not in O:
            raise Unrecognised(f'entry point {fn}')
        i = pe + m.end() - 1
        body = ws(lib[i + 1:close(lib, i) - 1])
        mm = re.search(r'fn_mocker::PatternMatchMode::(\w+),property::(\w+)', body)
        if not mm or mm.group(1) not in O or mm.group(2) != m.group(2):
            raise Unrecognised(f'entry point {fn}: body')
        entries.append(f'({tag}, {STRUCTS[m.group(1)]}, {O[m.group(2)]}, {O[mm.group(1)]})')
    m0 = re.search(r"pub\s+fn\s+call<'e>\s*\(", build)
    if not m0:
        raise Unrecognised('Each::call')
    pe = close(build, m0.end() - 1, '(', ')')
    m = re.match(r"\s*->\s*(\w+)<'e,\s*F,\s*(\w+)>\s*\{", build[pe:])
    if not m or m.group(1) not in STRUCTS or m.group(2) not in O:
        raise Unrecognised('Each::call')
    i = pe + m.end() - 1
    body = ws(build[i + 1:close(build, i) - 1])
    mm = re.search(r'DynCallPatternBuilder::new\(PatternMatchMode::(\w+),', body)
    if not mm or mm.group(1) not in O:
        raise Unrecognised('Each::call: body')
    entries.append(f'(.stubCall, {STRUCTS[m.group(1)]}, {O[m.group(2)]}, {O[mm.group(1)]})')
    return {
        'rows': '[' + ',\n   '.join(rows) + ']',
        'ordKind': [(O[k], O[kinds[('Ordering', k)]]) for k in O],
        'repKind': [(R[k], R[kinds[('Repetition', k)]]) for k in R],
        'clause': '[' + ', '.join(str(c) for c in clause) + ']',
        'entries': '[' + ', '.join(entries) + ']',
    }


FALLBACK = {
    'rows': '''[((0, 0), ⟨false, false, false, 2, none⟩),
   ((0, 1), ⟨false, false, false, 3, none⟩),
   ((1, 0), ⟨true, false, false, 3, none⟩),
   ((1, 1), ⟨false, false, false, 3, none⟩),
   ((2, 2), ⟨false, false, false, 4, some .exact⟩),
   ((2, 3), ⟨true, false, false, 4, some .exact⟩),
   ((2, 4), ⟨true, true, false, 4, some .atLeast⟩),
   ((3, 2), ⟨false, false, false, 4, some .exact⟩),
   ((3, 3), ⟨false, false, false, 4, some .exact⟩),
   ((3, 4), ⟨false, true, false, 4, some .atLeast⟩),
   ((4, 5), ⟨false, false, true, 1, none⟩)]''',
    'ordKind': [('.inOrder', '.inOrder'), ('.anyOrder', '.anyOrder')],
    'repKind': [('.exact', '.exact'), ('.atLeast', '.atLeast')],
    'clause': '[2, 3, 4]',
    'entries': '[(.nextCall, 0, .inOrder, .inOrder), (.someCall, 0, .anyOrder, .anyOrder), (.eachCall, 1, .anyOrder, .anyOrder), (.stubCall, 1, .anyOrder, .anyOrder)]',
}


def main():
    try:
        T = table(strip_comments(open(os.path.join(ROOT, 'build.rs')).read()), strip_comments(open(os.path.join(ROOT, 'property.rs')).read()),
                  strip_comments(open(os.path.join(ROOT, 'lib.rs')).read()))
        ok, note = True, ''
    except (Unrecognised, ValueError, IndexError, KeyError) as e:
        T, ok, note = FALLBACK, False, str(e)
    L = ['import Unimock.Model.Typestate',
         '/-! GENERATED by tools/translate_typestate.py from /repo/src/{build,property,lib}.rs — do not edit. -/',
         'namespace Unimock.Generated',
         'open Unimock.Typestate',
         f'def recognised_typestate : Bool := {"true" if ok else "false"}',
         '/-- ((builder struct, method), ⟨needs `T: IntoReturn` (Clone), needs `O: Ordering<Kind = InAnyOrder>`, needs `R: Repetition<Kind = Exact>`,',
         '    struct returned, repetition marker of the result⟩); structs: 0 DefineResponse, 1 DefineMultipleResponses, 2 QuantifyReturnValue, 3 Quantify,',
         '    4 QuantifiedResponse; methods: 0 returns, 1 answers (and the other responders), 2 once, 3 n_times, 4 at_least_times, 5 then -/',
         f'def sigTable : List ((Nat × Nat) × Sig) :=\n  {T["rows"]}',
         '/-- `type Kind = ..` of `impl Ordering for ..` / `impl Repetition for ..` (src/property.rs) -/',
         'def ordKind : Ord → Ord'] + [f'  | {a} => {b}' for a, b in T['ordKind']] + \
        ['def repKind : Rep → Rep'] + [f'  | {a} => {b}' for a, b in T['repKind']] + \
        ['/-- structs that implement `Clause` -/', f'def clauseStructs : List Nat := {T["clause"]}',
         '/-- entry points: (entry, struct returned, ordering marker, run-time PatternMatchMode passed along) -/',
         f'def entryTable : List (Entry × Nat × Ord × Ord) := {T["entries"]}',
         'end Unimock.Generated']
    text = '\n'.join(L) + '\n'
    old = open(OUT).read() if os.path.exists(OUT) else None
    if old != text:
        tmp = OUT + f'.{os.getpid()}.tmp'
        open(tmp, 'w').write(text)
        os.replace(tmp, OUT)
    if note:
        print('unrecognised typestate:', note)
    print(f'translated typestate={"true" if ok else "false"}')


if __name__ == '__main__':
    main()
