#!/bin/bash
# every behaviour-preserving refactoring against every quick check: nothing may alarm
cd /verif
for f in $(ls /verif/refactors/${REFACTOR_GLOB:-*}.patch.diff); do
  r=$(basename $f .patch.diff)
  cd /repo
  if ! git diff --quiet; then echo "repo dirty"; exit 2; fi
  git apply "$f" || { echo "$r does-not-apply"; continue; }
  cd /verif
  res=""
  for i in 01 02 03 04 05 06 07 08 09 10 11 12 13 14 15 16 17 18 19 20; do
    out=$(VERIF_EVIDENCE_DIR=/tmp/wt/evidence timeout 1200 ./check C$i 2>&1 | grep -E "^VIOLATION|Traceback" | head -2)
    if [ -n "$out" ]; then
      nf=$(echo "$out" | grep -c "no-failing-input-found")
      res="$res C$i($([ "$nf" -gt 0 ] && echo tie || echo SPEC))"
      echo "$out" | head -1 | cut -c1-200 >> /tmp/wt/$r.alarms
      grep -h "^# " replays/* 2>/dev/null | tail -0
    fi
  done
  echo "$r:${res:- clean}"
  git -C /repo reset -q --hard HEAD; git -C /repo clean -qfd -e target
done
(cd /verif && python3 tools/translate_tuples.py >/dev/null; python3 tools/translate_locks.py >/dev/null; python3 tools/translate_mirrors.py >/dev/null; python3 tools/translate_counter.py >/dev/null; python3 tools/translate_control.py >/dev/null; python3 tools/translate_typestate.py >/dev/null; python3 tools/translate_scan.py >/dev/null)
