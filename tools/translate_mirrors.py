#!/usr/bin/env python3
"""Translator: mirrored trait declarations in /repo/src/mock/*.rs and the upstream trait definitions
they mirror  ->  lean/Unimock/Generated/Mirrors.lean

For every `#[unimock(.. mirror=<path>)] pub trait T { .. }` the methods and whether each is declared
required (`;`) or provided (`{}`) are extracted; the upstream definition of the same trait is located
on disk (rust-src of the nightly toolchain for core/std, the cargo registry for tokio, futures-io,
embedded-hal) and its methods are extracted the same way. Output: one row per mirrored trait with
(mirrored methods, upstream methods); method = (name hash id, provided?)."""
import glob, os, re, sys

REPO_MOCK = '/repo/src/mock'
OUT = os.path.join(os.path.dirname(os.path.dirname(os.path.abspath(__file__))), 'lean', 'Unimock', 'Generated', 'Mirrors.lean')
import os as _os
_TMP = f'.{_os.getpid()}.tmp'
def _finalise(tmp, out):
    """replace `out` atomically, and only when the content changed"""
    import os
    new = open(tmp).read()
    old = open(out).read() if os.path.exists(out) else None
    if new != old:
        os.replace(tmp, out)
    else:
        os.remove(tmp)

RUST_SRC = glob.glob('/root/.rustup/toolchains/nightly-*/lib/rustlib/src/rust/library')
RUST_SRC = sorted(RUST_SRC)[-1] if RUST_SRC else ''
REG = glob.glob(os.path.expanduser('~/.cargo/registry/src/*'))
REG = REG[0] if REG else ''

def newest(pattern):
    c = sorted(glob.glob(os.path.join(REG, pattern)))
    return c[-1] if c else ''

UPSTREAM_FILES = {
    'core::fmt::Display': ('core/src/fmt/mod.rs', 'Display'), 'core::fmt::Debug': ('core/src/fmt/mod.rs', 'Debug'),
    'core::hash::Hasher': ('core/src/hash/mod.rs', 'Hasher'),
    'std::error::Error': ('core/src/error.rs', 'Error'),
    'std::io::BufRead': ('std/src/io/mod.rs', 'BufRead'), 'std::io::Read': ('std/src/io/mod.rs', 'Read'),
    'std::io::Seek': ('std/src/io/mod.rs', 'Seek'), 'std::io::Write': ('std/src/io/mod.rs', 'Write'),
}

def strip_comments(s):
    s = re.sub(r'/\*.*?\*/', '', s, flags=re.S)
    return re.sub(r'//.*', '', s)

def trait_body(src, name):
    m = re.search(r'\b(?:pub\s+)?(?:unsafe\s+)?trait\s+' + re.escape(name) + r'\b[^{;]*\{', src)
    if not m:
        return None
    i = m.end(); depth = 1
    while i < len(src) and depth:
        depth += {'{': 1, '}': -1}.get(src[i], 0); i += 1
    return src[m.end():i - 1]

def methods_of(body):
    """[(name, provided, attrs)] for fns at depth 0 of a trait body"""
    out = []
    depth = 0; i = 0; last_item_start = 0
    n = len(body)
    while i < n:
        c = body[i]
        if c == '{':
            depth += 1
        elif c == '}':
            depth -= 1
            if depth == 0:
                last_item_start = i + 1
        elif c == ';' and depth == 0:
            last_item_start = i + 1
        elif depth == 0 and body.startswith('fn ', i) and (i == 0 or not (body[i - 1].isalnum() or body[i - 1] == '_')):
            m = re.match(r'fn\s+(\w+)', body[i:])
            name = m.group(1)
            attrs = body[last_item_start:i]
            # scan to the end of the signature: first `;` or `{` at paren/angle depth 0
            j = i; pd = 0
            while j < n:
                ch = body[j]
                if ch in '([': pd += 1
                elif ch in ')]': pd -= 1
                elif ch == ';' and pd == 0:
                    out.append((name, False, attrs)); break
                elif ch == '{' and pd == 0:
                    out.append((name, True, attrs)); break
                j += 1
            i = j
            continue
        i += 1
    return out

def upstream_methods(path):
    if path in UPSTREAM_FILES:
        rel, name = UPSTREAM_FILES[path]
        f = os.path.join(RUST_SRC, rel)
    else:
        segs = path.split('::')
        name = segs[-1]
        crate = segs[0]
        if crate in ('tokio_1', 'AsyncBufRead', 'AsyncRead', 'AsyncSeek', 'AsyncWrite'):
            f = None
        else:
            f = None
        # embedded-hal paths are fully qualified; tokio / futures ones are bare idents imported by `use`
        if crate == 'embedded_hal_1':
            f = os.path.join(newest('embedded-hal-1.*'), 'src', segs[1] + '.rs')
    if not f or not os.path.exists(f):
        return None
    body = trait_body(strip_comments(open(f).read()), name)
    return methods_of(body) if body is not None else None

def bare_upstream(modfile, name):
    """tokio / futures-io traits are mirrored by bare name; find them in the crate sources"""
    if 'tokio' in modfile:
        cands = glob.glob(os.path.join(newest('tokio-1.*'), 'src', 'io', '*.rs'))
    else:
        cands = glob.glob(os.path.join(newest('futures-io-0.3.*'), 'src', '*.rs'))
    for f in cands:
        src = strip_comments(open(f).read())
        body = trait_body(src, name)
        if body is not None and 'fn poll_' in body or (body is not None and 'fn start_seek' in body):
            return methods_of(body)
    return None

def stable_filter(ms):
    """drop upstream methods that are unstable or deprecated (they cannot / need not be mirrored)"""
    out = []
    for name, prov, attrs in ms:
        if '#[unstable' in attrs or 'deprecated' in attrs or 'rustc_deprecated' in attrs:
            continue
        out.append((name, prov))
    return out

rows = []
problems = []
for f in sorted(glob.glob(os.path.join(REPO_MOCK, '*.rs'))):
    src = strip_comments(open(f).read())
    for m in re.finditer(r'#\[unimock\(([^\]]*?)\)\]\s*pub\s+trait\s+(\w+)', src):
        attr, tname = m.group(1), m.group(2)
        mm = re.search(r'mirror\s*=\s*([\w:]+)', attr)
        if not mm:
            continue
        mirror = mm.group(1)
        body = trait_body(src[m.start():], tname)
        mine = [(n, p) for n, p, _ in methods_of(body)]
        up = upstream_methods(mirror)
        if up is None and '::' not in mirror:
            up = bare_upstream(os.path.basename(f), mirror)
        if up is None:
            problems.append(f"upstream definition of {mirror} not found")
            continue
        rows.append((os.path.basename(f), tname, mirror, mine, stable_filter(up)))

names = sorted({n for r in rows for n, _ in r[3]} | {n for r in rows for n, _ in r[4]})
nid = {n: i for i, n in enumerate(names)}
with open(OUT + _TMP, 'w') as fh:
    fh.write('/-! GENERATED by /verif/tools/translate_mirrors.py from /repo/src/mock/*.rs and the upstream sources on disk — do not edit. -/\n')
    fh.write('namespace Unimock.Generated\n\n')
    fh.write('/-- method names (index = id used below) -/\ndef methodNames : List String :=\n  [' + ', '.join(f'"{n}"' for n in names) + ']\n\n')
    fh.write('/-- per mirrored trait: (methods declared by the mirror, stable non-deprecated methods of the upstream trait); method = (name id, provided?) -/\n')
    fh.write('def mirrors : List (List (Nat × Bool) × List (Nat × Bool)) :=\n  [\n')
    lines = []
    for (f, t, mirror, mine, up) in rows:
        fmt = lambda ms: '[' + ', '.join(f"({nid[n]}, {'true' if p else 'false'})" for n, p in ms) + ']'
        lines.append(f"   -- {f}: {t} mirrors {mirror}\n   ({fmt(mine)}, {fmt(up)})")
    fh.write(',\n'.join(lines) + '\n  ]\n\n')
    tnames = sorted({t for (_, t, _, _, _) in rows} | {mirror.split('::')[-1] for (_, _, mirror, _, _) in rows})
    tid = {n: i for i, n in enumerate(tnames)}
    fh.write('/-- trait names (index = id used below) -/\ndef traitNames : List String :=\n  [' + ', '.join(f'"{n}"' for n in tnames) + ']\n\n')
    fh.write('/-- per mirrored trait: (name the mirror block declares — the one diagnostics print —, last segment of the `mirror=` path) -/\n')
    fh.write('def mirrorNamePairs : List (Nat × Nat) :=\n  [' + ', '.join(f"({tid[t]}, {tid[mirror.split('::')[-1]]})" for (_, t, mirror, _, _) in rows) + ']\n\nend Unimock.Generated\n')
_finalise(OUT + _TMP, OUT)
print(f"translated {len(rows)} mirrored traits; problems: {problems}")
for (f, t, mirror, mine, up) in rows:
    md, ud = dict(mine), dict(up)
    bad = [n for n in md if n not in ud or ud[n] != md[n]] + [n for n in ud if not ud[n] and n not in md]
    if bad:
        print('  MISMATCH', f, t, mirror, bad, [(n, md.get(n), ud.get(n)) for n in bad])
    if t != mirror.split('::')[-1]:
        print('  NAME-MISMATCH', f, f'the block mirroring {mirror} declares `trait {t}`: diagnostics will print {t}::<method>')
sys.exit(3 if problems else 0)
