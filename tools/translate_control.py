#!/usr/bin/env python3
"""Translator: control skeletons of /repo/src/teardown.rs, /repo/src/lib.rs and /repo/src/eval.rs
-> lean/Unimock/Generated/Control.lean (vocabulary and interpreters: lean/Unimock/Model/Gates.lean)

Translated (std configuration: statements under `#[cfg(not(feature = "std"))]` and `#[cfg(unimock_verif)]` are skipped):
  * the statement sequence of `teardown::teardown` (flag assignment, the two drops, every early return / panic gate in
    source order with the constant of the strong-count comparison, the verification tail),
  * `impl Drop for Unimock`, `Unimock::verify`, `Unimock::no_verify_in_drop` (gate sequences),
  * the three lifecycle flags in the struct literals of `Unimock::from_assembler` and `Clone for Unimock`,
  * the "no mocker for this function" and "no pattern matched" decision trees of `DynCtx::eval_dyn`,
  * the `DynResponder` / `EvalResult` dispatch of `eval::eval` (which variant leads to which `Eval` / `MockError`).
`Props/C07.lean`, `C09.lean`, `C11.lean`, `C15.lean`, `C16.lean` prove the interpreted skeletons equal to the model's functions on
every observation.

If a function no longer has a shape this translator understands, the corresponding `recognised…` flag is false and the
definition falls back to the model's own skeleton (the agreement theorem is then vacuous for that function and the
evidence says so): the model stays tied to the code by the correspondence run alone."""
import os, re, sys
ROOT = sys.argv[1] if len(sys.argv) > 1 else '/repo/src'
OUT = os.environ.get('VERIF_CONTROL_OUT') or os.path.join(os.path.dirname(os.path.dirname(os.path.abspath(__file__))), 'lean', 'Unimock', 'Generated', 'Control.lean')


class Unrecognised(Exception):
    pass


def strip_comments(s):
    s = re.sub(r'//[^\n]*', '', s)
    return re.sub(r'/\*.*?\*/', '', s, flags=re.S)


def close(src, i, op='{', cl='}'):
    """index just after the bracket closing the one at src[i]"""
    depth = 0
    instr = False
    j = i
    while j < len(src):
        c = src[j]
        if instr:
            if c == '\\':
                j += 1
            elif c == '"':
                instr = False
        elif c == '"':
            instr = True
        elif c == op:
            depth += 1
        elif c == cl:
            depth -= 1
            if depth == 0:
                return j + 1
        j += 1
    raise Unrecognised('unbalanced')


def fn_body(src, header_re):
    m = re.search(header_re, src)
    if not m:
        raise Unrecognised(f'`{header_re}` not found')
    i = src.index('{', m.end() - 1)
    return src[i + 1:close(src, i) - 1]


def statements(body):
    """top-level statements of a block, attributes attached: [(attrs, text)]"""
    out = []
    i = 0
    n = len(body)
    while i < n:
        while i < n and body[i].isspace():
            i += 1
        if i >= n:
            break
        attrs = []
        while body.startswith('#[', i):
            j = close(body, i + 1, '[', ']')
            attrs.append(re.sub(r'\s+', '', body[i:j]))
            i = j
            while i < n and body[i].isspace():
                i += 1
        start = i
        blocklike = re.match(r'(if|for|match|while|loop|unsafe)\b|\{', body[i:]) is not None
        depth_p = 0
        instr = False
        while i < n:
            c = body[i]
            if instr:
                if c == '\\':
                    i += 1
                elif c == '"':
                    instr = False
            elif c == '"':
                instr = True
            elif c in '([':
                depth_p += 1
            elif c in ')]':
                depth_p -= 1
            elif c == '{':
                i = close(body, i) - 1
                if blocklike and depth_p == 0:
                    # block-like statement ends here unless followed by `else`
                    k = i + 1
                    while k < n and body[k].isspace():
                        k += 1
                    if body.startswith('else', k):
                        i = k + 3
                    else:
                        i += 1
                        break
            elif c == ';' and depth_p == 0:
                i += 1
                break
            i += 1
        text = body[start:i].strip()
        if text:
            out.append((attrs, text))
    return out


NOSTD = [False]      # which configuration `live` keeps: std (default) or no_std


def live(stmts):
    """drop statements compiled out in the selected configuration (std by default; hooks always off)"""
    out = []
    off, on = ('#[cfg(feature="std")]', '#[cfg(not(feature="std"))]') if NOSTD[0] else ('#[cfg(not(feature="std"))]', '#[cfg(feature="std")]')
    for attrs, t in stmts:
        if any(a in (off, '#[cfg(unimock_verif)]') for a in attrs):
            continue
        other = [a for a in attrs if a not in (on, '#[track_caller]', '#[inline]', '#[inline(never)]')]
        if other:
            raise Unrecognised(f'attribute {other}')
        out.append(t)
    return out


def ws(s):
    return re.sub(r'\s+', '', s)


# ------------------------------------------------------------------ teardown
def teardown_steps(src):
    body = fn_body(src, r'fn\s+teardown\s*\(')
    steps = []
    binds = {}
    saw_loop = False

    def walk(stmts):
        nonlocal saw_loop
        for t in stmts:
            w = ws(t).rstrip(';')
            m = re.fullmatch(r'let(?:mut)?(\w+)=(.*)', w)
            if w == 'unimock.torn_down=true':
                steps.append('.setTornDown')
            elif w in ('drop(unimock.default_impl_delegator_cell.take())', 'unimock.default_impl_delegator_cell.take()',
                       'let_=unimock.default_impl_delegator_cell.take()'):
                steps.append('.dropHelper')
            elif w in ('drop(core::mem::take(&mutunimock.value_chain))', 'core::mem::take(&mutunimock.value_chain)',
                       'let_=core::mem::take(&mutunimock.value_chain)', 'unimock.value_chain=Default::default()'):
                steps.append('.dropChain')
            elif w.startswith('{') and w.endswith('}'):
                inner = t.strip()
                walk(live(statements(inner[1:close(inner, 0) - 1])))
            elif m and not w.startswith('let_='):
                if m.group(2) == 'Arc::strong_count(&unimock.shared_state)':
                    steps.append('.sampleStrong')      # the count is read HERE; the comparison further down uses this reading
                binds[m.group(1)] = m.group(2)
            elif w.startswith('for'):
                if re.fullmatch(r'for(?:\(_,(\w+)\)inunimock\.shared_state\.fn_mockers\.iter\(\)|(\w+)inunimock\.shared_state\.fn_mockers\.values\(\))\{(?:\1|\2)\.verify\(&mut(\w+)\);?\}', w) and \
                        binds.get(re.fullmatch(r'.*verify\(&mut(\w+)\);?\}', w).group(1)) == 'Vec::new()':
                    saw_loop = True
                else:
                    raise Unrecognised(f'loop `{t[:60]}`')
            elif saw_loop and re.fullmatch(r'if!(\w+)\.is_empty\(\)\{returnErr\(\1\);?\}', w) and binds.get(re.fullmatch(r'if!(\w+)\..*', w).group(1)) == 'Vec::new()':
                pending_tail.append(True)
            elif pending_tail and w == 'Ok(())':
                steps.append('.verify')
            elif w.startswith('if'):
                steps.append(gate(t))
            else:
                raise Unrecognised(f'statement `{t[:60]}`')

    pending_tail = []

    def subst(c):
        for k, v in binds.items():
            c = re.sub(r'\b' + k + r'\b', v, c)
        return c

    def gate(t):
        i = t.index('{')
        cond = subst(ws(t[2:i]))
        j = close(t, i)
        then = ws(t[i + 1:j - 1])
        rest = t[j:].strip()
        if rest:
            # the tail: if errors.is_empty() { Ok(()) } else { Err(errors) }
            mm = re.fullmatch(r'(\w+)\.is_empty\(\)', ws(t[2:i]))
            if mm and saw_loop and then == 'Ok(())' and ws(rest) == 'else{Err(%s)}' % mm.group(1):
                return '.verify'
            raise Unrecognised(f'if/else `{t[:60]}`')
        ret_ok = then in ('returnOk(());', 'returnOk(())')
        pan = then.startswith('panic!(')
        if cond == '!unimock.original_instance' and ret_ok:
            return '.retOkIfNotOriginal'
        if cond == 'std::thread::panicking()' and ret_ok:
            return '.retOkIfPanicking'
        if cond == 'unimock.panicked.locked(|panicked|*panicked)' and ret_ok:
            return '.retOkIfPanicking'          # without std: this instance's own `panicked` flag stands in for thread::panicking()
        mm = re.fullmatch(r'Arc::strong_count\(&unimock\.shared_state\)(>=|>)(\d+)', cond)
        if mm and pan and 'cannotverifycalls' in then:
            k = int(mm.group(2)) - (1 if mm.group(1) == '>=' else 0)
            if k < 0:
                raise Unrecognised('strong-count bound')
            return f'.panicIfStrongGt {k}'
        if cond in ('std::thread::current().id()!=unimock.shared_state.original_thread',
                    'unimock.shared_state.original_thread!=std::thread::current().id()') and pan and 'differentthread' in then:
            return '.panicIfOtherThread'
        mm = re.fullmatch(r'!unimock\.shared_state\.clone_panic_reasons\(\)\.is_empty\(\)', cond)
        if mm:
            r = re.fullmatch(r'returnErr\((.*)\);?', then)
            if r and subst(r.group(1)) == 'unimock.shared_state.clone_panic_reasons()':
                return '.errIfReasons'
        raise Unrecognised(f'gate `{t[:70]}`')

    walk(live(statements(body)))
    return steps


# ------------------------------------------------------------------ Drop / verify / no_verify_in_drop
def dsteps(body, selfname='self'):
    out = []
    for t in live(statements(body)):
        w = ws(t).rstrip(';')
        if w == 'ifself.torn_down{return;}':
            out.append('.retIfTornDown')
        elif re.fullmatch(r'ifself\.verify_in_drop\{teardown::teardown_panic\((&mut)?self\);?\}', w):
            out.append('.teardownIfVerifyInDrop')
        elif re.fullmatch(r'if!self\.torn_down&&self\.verify_in_drop\{teardown::teardown_panic\((&mut)?self\);?\}', w):
            out += ['.retIfTornDown', '.teardownIfVerifyInDrop']
        elif re.fullmatch(r'if!self\.original_instance\{panic!\(.*\);?\}', w) or re.fullmatch(r'assert!\(self\.original_instance,".*"\)', w):
            out.append('.panicIfNotOriginal')
        elif re.fullmatch(r'teardown::teardown_panic\(&mutself\)', w):
            out.append('.teardown')
        elif w == 'self.verify_in_drop=false':
            out.append('.clearVerifyInDrop')
        elif w == 'self':
            pass
        else:
            raise Unrecognised(f'statement `{t[:60]}`')
    return out


def flags_of_literal(text, what):
    out = {}
    for f in ('original_instance', 'torn_down', 'verify_in_drop'):
        m = re.search(r'\b' + f + r'\s*:\s*([^,}]+)', text)
        if not m:
            raise Unrecognised(f'{what}: field {f}')
        v = ws(m.group(1))
        if v in ('true', 'false'):
            out[f] = v
        elif re.fullmatch(r'self\.(original_instance|torn_down|verify_in_drop)', v):
            out[f] = 'src.' + {'original_instance': 'original', 'torn_down': 'tornDown', 'verify_in_drop': 'verifyInDrop'}[v[5:]]
        elif re.fullmatch(r'!self\.(original_instance|torn_down|verify_in_drop)', v):
            out[f] = '!src.' + {'original_instance': 'original', 'torn_down': 'tornDown', 'verify_in_drop': 'verifyInDrop'}[v[6:]]
        else:
            raise Unrecognised(f'{what}: {f}: {v}')
    return out


# ------------------------------------------------------------------ eval_dyn trees
LEAVES = [('EvalResult::CallDefaultImpl', '.callDefault'), ('EvalResult::Unmock', '.unmock'),
          ('MockError::NoMockImplementation', '.errNoMockImplementation'),
          ('MockError::NoMatchingCallPatterns', '.errNoMatchingCallPatterns')]


def tree(expr):
    e = expr.strip().rstrip(',').strip()
    if e.startswith('return'):
        e = e[6:].strip().rstrip(';').strip()
    if e.startswith('if'):
        i = e.index('{')
        cond = ws(e[2:i])
        j = close(e, i)
        then = e[i + 1:j - 1]
        rest = e[j:].strip()
        if not rest.startswith('else'):
            raise Unrecognised('if without else in a decision tree')
        rest = rest[4:].strip()
        if rest.startswith('{'):
            rest = rest[1:close(rest, 0) - 1]
        neg = cond.startswith('!')
        cond = cond.lstrip('!')
        a, b = tree(then), tree(rest)
        if neg:
            a, b = b, a
        if cond == 'self.info.has_default_impl':
            return f'(.ifDefault {a} {b})'
        if cond == 'self.info.partial_by_default':
            return f'(.ifPartial {a} {b})'
        raise Unrecognised(f'condition `{cond}`')
    if e.startswith('match'):
        i = e.index('{')
        if ws(e[5:i]) != 'self.shared_state.fallback_mode':
            raise Unrecognised(f'match on `{e[5:i].strip()}`')
        arms = match_arms(e[i + 1:close(e, i) - 1])
        d = {}
        for pat, body in arms:
            p = ws(pat)
            if p in ('FallbackMode::Error', 'FallbackMode::Unmock'):
                d[p[14:]] = tree(body)
            elif p == '_':
                d['_'] = tree(body)
            else:
                raise Unrecognised(f'arm `{pat}`')
        er = d.get('Error', d.get('_'))
        un = d.get('Unmock', d.get('_'))
        if er is None or un is None:
            raise Unrecognised('fallback match is not exhaustive')
        return f'(.onFallback {er} {un})'
    if e.startswith('{'):
        e = e[1:close(e, 0) - 1]
    hits = [l for k, l in LEAVES if k in e]
    if len(hits) != 1:
        raise Unrecognised(f'leaf `{ws(e)[:60]}`')
    return f'(.leaf {hits[0]})'


def match_arms(body):
    """[(pattern, body)] of the arms of a match block's inside"""
    arms = []
    i = 0
    n = len(body)
    while i < n:
        while i < n and (body[i].isspace() or body[i] == ','):
            i += 1
        if i >= n:
            break
        j = body.index('=>', i)
        pat = body[i:j].strip()
        k = j + 2
        while k < n and body[k].isspace():
            k += 1
        if body[k] == '{':
            e = close(body, k)
            arms.append((pat, body[k:e]))
            i = e
        else:
            depth = 0
            e = k
            instr = False
            while e < n:
                c = body[e]
                if instr:
                    if c == '\\':
                        e += 1
                    elif c == '"':
                        instr = False
                elif c == '"':
                    instr = True
                elif c in '([{':
                    depth += 1
                elif c in ')]}':
                    depth -= 1
                elif c == ',' and depth == 0:
                    break
                e += 1
            arms.append((pat, body[k:e]))
            i = e + 1
    return arms


def eval_dyn_trees(src):
    body = fn_body(src, r'fn\s+eval_dyn\s*\(')
    # tree 1: the `None` arm of the lookup of the fn mocker
    m = re.search(r'match\s+self\s*\.\s*shared_state\s*\.\s*fn_mockers\s*\.\s*get\s*\([^)]*\)\s*\{', body)
    if not m:
        raise Unrecognised('fn_mockers lookup')
    i = m.end() - 1
    arms = match_arms(body[i + 1:close(body, i) - 1])
    none = [b for p, b in arms if ws(p) == 'None']
    if len(none) != 1:
        raise Unrecognised('lookup arms')
    b = none[0].strip()
    if b.startswith('{'):
        b = b[1:close(b, 0) - 1]
    t1 = tree(b)
    # tree 2: the `None` arm of the match on match_call_pattern
    m = re.search(r'match\s+self\s*\.\s*match_call_pattern\s*\([^)]*\)\s*\?\s*\{', body)
    if not m:
        raise Unrecognised('match_call_pattern match')
    i = m.end() - 1
    arms = match_arms(body[i + 1:close(body, i) - 1])
    none = [b for p, b in arms if ws(p) == 'None']
    if len(none) != 1:
        raise Unrecognised('match_call_pattern arms')
    t2 = tree(none[0])
    return t1, t2


DISP = [(('Eval::Return(', 'CannotReturnValueMoreThanOnce'), '.returnOrCannotReturnTwice'),
        (('Continuation::Answer(',), '.contAnswer'), (('MockError::ExplicitPanic',), '.errExplicitPanic'),
        (('Continuation::Unmock',), '.contUnmock'), (('Continuation::CallDefaultImpl',), '.contDefault')]


def classify_arm(b):
    hits = [l for ks, l in DISP if all(k in b for k in ks)]
    # an arm mentioning two different continuations / errors is not a plain dispatch
    kinds = [l for ks, l in DISP if any(k in b for k in ks)]
    if len(hits) != 1 or len(set(kinds)) != 1:
        return '.unknown'
    return hits[0]


def dispatch(src):
    body = fn_body(src, r'pub\(crate\)\s+fn\s+eval\s*<')
    m = re.search(r'match\s+dyn_ctx\s*\.\s*eval_dyn\s*\(', body)
    if not m:
        raise Unrecognised('eval: match on eval_dyn')
    i = body.index('{', close(body, m.end() - 1, '(', ')'))
    outer = match_arms(body[i + 1:close(body, i) - 1])
    res = {}
    for pat, b in outer:
        p = ws(pat)
        if p.startswith('EvalResult::Responder('):
            var = p[len('EvalResult::Responder('):-1]
            mm = re.match(r'\s*match\s+' + var + r'\s*\.\s*dyn_responder\s*\{', b)
            if not mm:
                raise Unrecognised('eval: responder match')
            j = mm.end() - 1
            for ip, ib in match_arms(b[j + 1:close(b, j) - 1]):
                q = re.match(r'DynResponder::(\w+)', ws(ip))
                if not q:
                    raise Unrecognised(f'eval: arm `{ip}`')
                res[q.group(1)] = classify_arm(ib)
        elif p == 'EvalResult::Unmock':
            res['@Unmock'] = classify_arm(b)
        elif p == 'EvalResult::CallDefaultImpl':
            res['@CallDefaultImpl'] = classify_arm(b)
        else:
            raise Unrecognised(f'eval: outer arm `{pat}`')
    need = ['Return', 'Answer', 'Panic', 'Unmock', 'ApplyDefaultImpl', '@Unmock', '@CallDefaultImpl']
    if sorted(res) != sorted(need):
        raise Unrecognised(f'eval: arms {sorted(res)}')
    return res


# ------------------------------------------------------------------ the error path: handle_error / induce_panic / Continuation::report / private::eval
def induce_steps(lib):
    body = fn_body(lib, r'fn\s+induce_panic\s*\(&self,\s*error:\s*error::MockError\)\s*->\s*!')
    out = []
    msgvar = None
    for t in live(statements(body)):
        w = ws(t).rstrip(';')
        m = re.fullmatch(r'let(\w+)=(?:alloc::)?format!\("\{error\}"\)', w) or re.fullmatch(r'let(\w+)=error\.to_string\(\)', w)
        if m:
            msgvar = m.group(1)
            out.append('.formatMsg')
        elif re.fullmatch(r'self\.shared_state\.panic_reasons\.locked\((?:move)?\|(\w+)\|\{?\1\.push\(error(?:\.clone\(\))?\);?\}?\)', w):
            out.append('.record')
        elif re.fullmatch(r'\{?self\.panicked\.locked\(\|(\w+)\|\{?\*\1=true;?\}?\);?\}?', w):
            out.append('.setOwnFlag')           # no_std only: the flag of THIS instance
        elif msgvar and w in (f'panic!("{{{msgvar}}}")', f'panic!("{{}}",{msgvar})'):
            out.append('.panicMsg')
        elif w in ('panic!("{error}")', 'panic!("{}",error)'):
            out += ['.formatMsg', '.panicMsg']
        elif w.startswith('panic!('):
            out.append('.panicOther')
        else:
            raise Unrecognised(f'induce_panic: `{t[:60]}`')
    return '[' + ', '.join(out) + ']'


def error_path(lib, private):
    R = {}
    R['induce'] = induce_steps(lib)
    he = fn_body(lib, r'fn\s+handle_error<T>\s*\(')
    st = live(statements(he))
    if len(st) != 1 or not ws(st[0]).startswith('matchresult{'):
        raise Unrecognised('handle_error: shape')
    inner = st[0][st[0].index('{') + 1:close(st[0], st[0].index('{')) - 1]
    arms = {ws(p): ws(b).rstrip(',') for p, b in match_arms(inner)}
    okv = re.fullmatch(r'Ok\((\w+)\)', next((p for p in arms if p.startswith('Ok(')), ''))
    errv = re.fullmatch(r'Err\((\w+)\)', next((p for p in arms if p.startswith('Err(')), ''))
    if len(arms) != 2 or not okv or not errv or arms[f'Ok({okv.group(1)})'] != okv.group(1):
        raise Unrecognised('handle_error: arms')
    R['handle'] = 'true' if arms[f'Err({errv.group(1)})'] == f'self.induce_panic({errv.group(1)})' else 'false'
    pe = ws(fn_body(private, r"pub\s+fn\s+eval<'u,\s*'i,\s*F>\s*\("))
    R['evalHandles'] = 'true' if pe.rstrip(';') == 'unimock.handle_error(eval::eval(unimock,inputs))' else 'false'
    rp = live(statements(fn_body(private, r'pub\s+fn\s+report\s*\(self,\s*unimock:\s*&Unimock\)\s*->\s*!')))
    if len(rp) != 2 or not ws(rp[0]).startswith('leterror=matchself{'):
        raise Unrecognised('Continuation::report: shape')
    t0 = rp[0]
    i = t0.index('{')
    kinds = {'Answer': '.other', 'Unmock': '.other', 'CallDefaultImpl': '.other'}
    for pat, b in match_arms(t0[i + 1:close(t0, i) - 1]):
        m = re.fullmatch(r'Self::(\w+)(\(\.\.\))?', ws(pat))
        e = re.fullmatch(r'error::MockError::(\w+)\{info:F::info\(\)\}', ws(b).rstrip(','))
        if not m or m.group(1) not in kinds:
            raise Unrecognised(f'Continuation::report: arm `{pat}`')
        kinds[m.group(1)] = {'NotAnswered': '.notAnswered', 'CannotUnmock': '.cannotUnmock', 'NoDefaultImpl': '.noDefaultImpl'}.get(e.group(1) if e else '', '.other')
    R['report'] = kinds
    R['reportInduces'] = 'true' if ws(rp[1]).rstrip(';') == 'unimock.induce_panic(error)' else 'false'
    return R


# ------------------------------------------------------------------ the helper cell behind default-method delegation (AsRef / AsMut<DefaultImplDelegator>)
def cell_use(lib):
    out = {}
    init = r'\.default_impl_delegator_cell\.get_or_init\(\|\|(?:alloc::)?Box::new\(DefaultImplDelegator::__from_unimock\(self\.clone\(\)\)\)\)'
    r = ws(fn_body(lib, r'fn\s+as_ref\s*\(&self\)\s*->\s*&DefaultImplDelegator'))
    m = re.fullmatch(r'let(\w+)=self' + init + r';\1\.as_ref\(\)', r) or re.fullmatch(r'self' + init + r'\.as_ref\(\)', r)
    out['ref'] = '.getOrInitClone' if m else '.other'
    mu = ws(fn_body(lib, r'fn\s+as_mut\s*\(&mut\s+self\)\s*->\s*&mut\s+DefaultImplDelegator'))
    m = re.fullmatch(r'self' + init + r';self\.default_impl_delegator_cell\.get_mut\(\)\.unwrap\(\)', mu)
    out['mut'] = '.getOrInitClone' if m else '.other'
    if out['ref'] == '.other' and out['mut'] == '.other':
        raise Unrecognised('as_ref / as_mut')
    return out


# ------------------------------------------------------------------ Sink::push of the assembler: what is checked, and when
def push_steps(asm):
    body = fn_body(asm, r'fn\s+push\s*\(&mut\s+self,\s*info:\s*MockFnInfo,\s*mut\s+builder:\s*DynCallPatternBuilder\)')
    steps = []
    occupied = vacant = None
    for t in live(statements(body)):
        w = ws(t).rstrip(';')
        if re.fullmatch(r'ifletSome\((\w+)\)=builder\.responder_error\.take\(\)\{returnErr\(.*\);?\}', w):
            steps.append('.errIfOutputError')
        elif re.fullmatch(r'let\w+=builder\.pattern_match_mode', w) or re.fullmatch(r'let\w+=info\.type_id', w):
            continue
        elif re.fullmatch(r'let(\w+)=self\.new_call_pattern\(builder\)', w):
            steps.append('.newPattern')
        elif w.startswith('matchself.fn_mockers.entry('):
            i = t.index('{')
            for pat, b in match_arms(t[i + 1:close(t, i) - 1]):
                pw, bw = ws(pat), ws(b)
                if pw.startswith('Entry::Occupied('):
                    m = re.fullmatch(r'\{if(\w+)\.get\(\)\.pattern_match_mode!=pattern_match_mode\{returnErr\(format!\(.*\),?\);?\}\1\.get_mut\(\)\.call_patterns\.push\(call_pattern\);?\}', bw)
                    occupied = ['.errIfModeDiffers', '.appendPattern'] if m else None
                    if not m:
                        raise Unrecognised('push: occupied arm')
                elif pw.startswith('Entry::Vacant('):
                    m = re.fullmatch(r'\{(\w+)\.insert\(FnMocker\{info,pattern_match_mode,call_patterns:vec!\[call_pattern\],?\}\);?\}', bw)
                    if not m:
                        raise Unrecognised('push: vacant arm')
                    vacant = ['.insertMocker']
                else:
                    raise Unrecognised(f'push: arm `{pat}`')
            steps.append('.onEntry')
        elif w == 'Ok(())':
            steps.append('.ok')
        else:
            raise Unrecognised(f'push: `{t[:60]}`')
    if occupied is None or vacant is None:
        raise Unrecognised('push: entry match')
    return {'steps': '[' + ', '.join(steps) + ']', 'occupied': '[' + ', '.join(occupied) + ']', 'vacant': '[' + ', '.join(vacant) + ']'}


# ------------------------------------------------------------------ MockAssembler::new_call_pattern: ordered slot allocation
def slot_alloc(src):
    body = fn_body(src, r'fn\s+new_call_pattern\s*\(')
    env = {'lo': '0', 'hi': '0', 'cur': 'cur'}
    rname = None
    nvar = None

    def expr(e):
        e = ws(e)
        toks = re.findall(r'self\.current_call_index|\w+\.start|\w+\.end|\w+\.0|\d+|[+()]', e)
        if ''.join(toks) != e:
            raise Unrecognised(f'expression `{e}`')
        out = []
        for t in toks:
            if t == 'self.current_call_index':
                out.append(f'({env["cur"]})')
            elif t == f'{rname}.start':
                out.append(f'({env["lo"]})')
            elif t == f'{rname}.end':
                out.append(f'({env["hi"]})')
            elif nvar and t == f'{nvar}.0':
                out.append('n')
            elif t in '+()' or t.isdigit():
                out.append(t)
            else:
                raise Unrecognised(f'operand `{t}`')
        return ' '.join(out)

    def run_block(stmts):
        nonlocal nvar
        for t in stmts:
            w = ws(t).rstrip(';')
            m = re.fullmatch(r'let(\w+)=builder\.count_expectation\.exact_calls\(\)\.expect\(.*\)', w)
            if m:
                nvar = m.group(1)
                continue
            m = re.fullmatch(r'(\w+)\.(start|end)=(.*)', w)
            if m and m.group(1) == rname:
                env['lo' if m.group(2) == 'start' else 'hi'] = expr(m.group(3))
                continue
            m = re.fullmatch(r'self\.current_call_index=(.*)', w)
            if m:
                env['cur'] = expr(m.group(1))
                continue
            m = re.fullmatch(r'self\.current_call_index\+=(.*)', w)
            if m:
                env['cur'] = f'({env["cur"]}) + ({expr(m.group(1))})'
                continue
            raise Unrecognised(f'statement `{t[:60]}`')

    cond = None
    saw_struct = False
    for t in live(statements(body)):
        w = ws(t).rstrip(';')
        m = re.fullmatch(r'letmut(\w+)(:[\w:<>]+)?=Default::default\(\)', w)
        if m and rname is None:
            rname = m.group(1)
            continue
        if w.startswith('if') and cond is None and rname:
            i = t.index('{')
            parts = ws(t[2:i]).split('&&')
            cs = []
            for c in parts:
                if c in ('builder.pattern_match_mode==PatternMatchMode::InOrder', 'PatternMatchMode::InOrder==builder.pattern_match_mode'):
                    cs.append('ordered')
                elif c in ('builder.pattern_match_mode!=PatternMatchMode::InAnyOrder',):
                    cs.append('ordered')
                else:
                    mm = re.fullmatch(r'letSome\((\w+)\)=builder\.count_expectation\.exact_calls\(\)', c)
                    if mm:
                        nvar = mm.group(1)
                        cs.append('isExact')
                    else:
                        raise Unrecognised(f'condition `{c}`')
            j = close(t, i)
            if t[j:].strip():
                raise Unrecognised('else branch in new_call_pattern')
            run_block(live(statements(t[i + 1:j - 1])))
            cond = ' && '.join(cs)
            continue
        if w.startswith('CallPattern{') and rname:
            inner = w[len('CallPattern{'):-1]
            if re.search(r'(^|,)' + rname + r'(,|$)', inner) and rname == 'ordered_call_index_range' or re.search(r'ordered_call_index_range:' + rname + r'(,|$)', inner):
                saw_struct = True
                continue
        raise Unrecognised(f'statement `{t[:60]}`')
    if cond is None or not saw_struct:
        raise Unrecognised('shape of new_call_pattern')
    return f'if {cond} then ({env["lo"]}, {env["hi"]}, {env["cur"]}) else (0, 0, cur)'


# ------------------------------------------------------------------ src/build.rs: what each quantifier method does to the pattern builder
EXACTNESS = {'Exact': '.exact', 'AtLeast': '.atLeast', 'AtLeastPlusOne': '.atLeastPlusOne'}


def impl_block(src, header_re):
    m = re.search(header_re, src)
    if not m:
        raise Unrecognised(f'`{header_re}` not found')
    i = src.index('{', m.end() - 1)
    # skip a where clause: the block opens at the first `{` at angle/paren depth 0 after the header
    return src[i + 1:close(src, i) - 1]


def quantify_call(body):
    calls = re.findall(r'\.quantify\(([^,()]+),(?:counter::)?Exactness::(\w+)\)', ws(body))
    if len(calls) != 1:
        raise Unrecognised(f'{len(calls)} quantify calls')
    arg, ex = calls[0]
    if ex not in EXACTNESS:
        raise Unrecognised(f'exactness {ex}')
    if arg.isdigit():
        t = f'some {arg}'
    elif arg == 'times':
        t = 'none'
    else:
        raise Unrecognised(f'quantify argument `{arg}`')
    return t, EXACTNESS[ex]


def conversion(body):
    w = ws(body)
    once, multi = w.count('.into_return_once()'), w.count('.into_return()')
    if once + multi != 1:
        raise Unrecognised('conversion of the return value')
    return 'true' if once else 'false'


def arith(e, names):
    """`a + b`, literals, `x.max(k)`, `x.min(k)` over the given names -> Lean"""
    e = ws(e)
    toks = re.findall(r'[A-Za-z_][\w\.]*?(?=\.max\(|\.min\(|[+()]|$)|\.max\(\d+\)|\.min\(\d+\)|\d+|[+()]', e)
    if ''.join(toks) != e:
        raise Unrecognised(f'expression `{e}`')
    out = ''
    for t in toks:
        if t in names:
            out += f'({names[t]})'
        elif t.startswith('.max('):
            out = f'(Nat.max ({out}) {t[5:-1]})'
        elif t.startswith('.min('):
            out = f'(Nat.min ({out}) {t[5:-1]})'
        elif t.isdigit() or t in '+()':
            out += f' {t} '
        else:
            raise Unrecognised(f'operand `{t}`')
    return out


def builder_table(build_src, counter_src):
    T = {}
    qrv = impl_block(build_src, r"impl<'p,\s*F,\s*T,\s*O>\s*QuantifyReturnValue<'p,\s*F,\s*T,\s*O>")
    for name, key in (('once', 'qrvOnce'), ('n_times', 'qrvNTimes'), ('at_least_times', 'qrvAtLeast')):
        b = fn_body(qrv, r'pub\s+fn\s+' + name + r'\s*\(')
        t, ex = quantify_call(b)
        T[key] = f'({conversion(b)}, {t}, {ex})'
    c = ws(fn_body(impl_block(build_src, r"impl<F,\s*T,\s*O>\s*Clause\s+for\s+QuantifyReturnValue<"), r'fn\s+deconstruct\s*\('))
    if c.rstrip(';') != 'self.once().deconstruct(sink)':
        raise Unrecognised('Clause for QuantifyReturnValue')
    T['qrvClauseViaOnce'] = 'true'
    d = fn_body(impl_block(build_src, r"impl<F,\s*T,\s*O>\s*Drop\s+for\s+QuantifyReturnValue<"), r'fn\s+drop\s*\(')
    if not re.fullmatch(r'ifletSome\((\w+)\)=self\.return_value\.take\(\)\{self\.wrapper\.push_returner_result\(\1\.into_return(_once)?\(\)\.map\(\|r\|r\.into_returner\(\)\)\);?\}', ws(d)):
        raise Unrecognised('Drop for QuantifyReturnValue')
    T['qrvDropSingleUse'] = conversion(d)
    q = impl_block(build_src, r"impl<'p,\s*F,\s*O>\s*Quantify<'p,\s*F,\s*O>")
    for name, key in (('once', 'qOnce'), ('n_times', 'qNTimes'), ('at_least_times', 'qAtLeast')):
        t, ex = quantify_call(fn_body(q, r'pub\s+fn\s+' + name + r'\s*\('))
        T[key] = f'({t}, {ex})'
    qc = fn_body(impl_block(build_src, r"impl<F,\s*O>\s*Clause\s+for\s+Quantify<"), r'fn\s+deconstruct\s*\(')
    st = live(statements(qc))
    if len(st) != 2 or not ws(st[1]).startswith('sink.push(F::info(),self.wrapper.into_owned())'):
        raise Unrecognised('Clause for Quantify')
    m = re.fullmatch(r'if(.*?)\{(.*)\}', ws(st[0]))
    if not m:
        raise Unrecognised('Clause for Quantify: guard')
    t, ex = quantify_call(m.group(2))
    if t == 'none':
        raise Unrecognised('Clause for Quantify: count')
    if m.group(1) == 'self.wrapper.inner().pattern_match_mode==PatternMatchMode::InOrder':
        T['qClauseOrdered'], T['qClauseUnordered'] = f'some ({t[5:]}, {ex})', 'none'
    elif m.group(1) == 'self.wrapper.inner().pattern_match_mode==PatternMatchMode::InAnyOrder':
        T['qClauseOrdered'], T['qClauseUnordered'] = 'none', f'some ({t[5:]}, {ex})'
    else:
        raise Unrecognised(f'Clause for Quantify: condition `{m.group(1)}`')
    th = ws(fn_body(impl_block(build_src, r"impl<'p,\s*F,\s*O,\s*R>\s*QuantifiedResponse<'p,\s*F,\s*O,\s*R>"), r'pub\s+fn\s+then\s*\('))
    m = re.match(r'self\.wrapper\.inner_mut\(\)\.count_expectation\.add_to_minimum\((\d+),(?:counter::)?Exactness::(\w+)\);DefineMultipleResponses\{', th)
    if not m or m.group(2) not in EXACTNESS:
        raise Unrecognised('QuantifiedResponse::then')
    T['thenAdd'] = f'({m.group(1)}, {EXACTNESS[m.group(2)]})'
    # DynBuilderWrapper::quantify and CallCountExpectation::add_to_minimum
    qb = live(statements(fn_body(build_src, r'pub\s+fn\s+quantify\s*\(&mut\s+self,\s*times:\s*usize,\s*exactness:\s*counter::Exactness\)')))
    delta = idx = None
    for t in qb:
        w = ws(t).rstrip(';')
        if w == 'letbuilder=self.inner_mut()':
            continue
        m = re.fullmatch(r'builder\.count_expectation\.add_to_minimum\((.*),exactness\)', w)
        if m and delta is None:
            delta = arith(m.group(1), {'times': 'times'})
            continue
        m = re.fullmatch(r'builder\.current_response_index\+=(.*)', w)
        if m and idx is None:
            idx = arith(m.group(1), {'times': 'times'})
            continue
        raise Unrecognised(f'quantify: `{t[:60]}`')
    if delta is None or idx is None:
        raise Unrecognised('quantify: shape')
    am = live(statements(fn_body(counter_src, r'pub\s+fn\s+add_to_minimum\s*\(&mut\s+self,\s*delta:\s*usize,\s*exactness:\s*Exactness\)')))
    newmin = None
    sets = False
    for t in am:
        w = ws(t).rstrip(';')
        m = re.fullmatch(r'self\.minimum\+=(.*)', w)
        if m and newmin is None:
            newmin = f'min + ({arith(m.group(1), {"delta": "delta"})})'
            continue
        m = re.fullmatch(r'self\.minimum=(.*)', w)
        if m and newmin is None:
            newmin = arith(m.group(1), {'delta': 'delta', 'self.minimum': 'min'})
            continue
        if w == 'self.exactness=exactness':
            sets = True
            continue
        raise Unrecognised(f'add_to_minimum: `{t[:60]}`')
    if newmin is None or not sets:
        raise Unrecognised('add_to_minimum: shape')
    T['addToMinimum'] = newmin
    T['quantifyDelta'] = delta
    T['quantifyIdx'] = f'idx + ({idx})'
    return T


def find_responder(cp_src):
    body = fn_body(cp_src, r'fn\s+find_responder_by_call_index\s*\(')
    st = live(statements(body))
    if len(st) != 3:
        raise Unrecognised('find_responder_by_call_index: shape')
    if ws(st[0]) != 'ifresponders.is_empty(){returnNone;}':
        raise Unrecognised('find_responder_by_call_index: empty check')
    m = re.fullmatch(r'let(\w+)=responders\.binary_search_by\(\|(\w+)\|\2\.response_index\.cmp\(&call_index\)\);', ws(st[1]))
    if not m:
        raise Unrecognised('find_responder_by_call_index: search')
    rv = m.group(1)
    m = re.fullmatch(r'Some\(match' + rv + r'\{(.*)\}\)', ws(st[2]))
    if not m:
        raise Unrecognised('find_responder_by_call_index: result')
    offs = {}
    for pat, b in match_arms(st[2][st[2].index('{') + 1:st[2].rindex('}')]):
        pm = re.fullmatch(r'(Ok|Err)\((\w+)\)', ws(pat))
        bm = re.fullmatch(r'&responders\[(\w+)(?:([-+])(\d+))?\]\.responder', ws(b).rstrip(','))
        if not pm or not bm or bm.group(1) != pm.group(2):
            raise Unrecognised(f'find_responder_by_call_index: arm `{pat}`')
        k = int(bm.group(3) or 0)
        offs[pm.group(1)] = f'i + {k}' if bm.group(2) == '+' else (f'i - {k}' if k else 'i')
    if sorted(offs) != ['Err', 'Ok']:
        raise Unrecognised('find_responder_by_call_index: arms')
    return f'if keys.size = 0 then none else\n  match binarySearch keys k with\n  | (true, i) => some ({offs["Ok"]})\n  | (false, i) => some ({offs["Err"]})'


BUILDER_FALLBACK = {
    'qrvOnce': '(true, some 1, .exact)', 'qrvNTimes': '(false, none, .exact)', 'qrvAtLeast': '(false, none, .atLeast)',
    'qrvClauseViaOnce': 'true', 'qrvDropSingleUse': 'true',
    'qOnce': '(some 1, .exact)', 'qNTimes': '(none, .exact)', 'qAtLeast': '(none, .atLeast)',
    'qClauseOrdered': 'some (1, .exact)', 'qClauseUnordered': 'none', 'thenAdd': '(0, .atLeastPlusOne)',
    'findResponder': 'findKey keys k',
    'addToMinimum': 'min + ((delta))', 'quantifyDelta': '(times)', 'quantifyIdx': 'idx + ((times))',
}


def emit_builder(root):
    out = os.environ.get('VERIF_BUILDER_OUT') or os.path.join(os.path.dirname(OUT), 'Builder.lean')
    try:
        T = builder_table(strip_comments(open(os.path.join(root, 'build.rs')).read()), strip_comments(open(os.path.join(root, 'counter.rs')).read()))
        ok, note = True, ''
        try:
            T['findResponder'] = find_responder(strip_comments(open(os.path.join(root, 'call_pattern.rs')).read()))
            fr_ok = True
        except (Unrecognised, ValueError, IndexError) as e:
            T['findResponder'], fr_ok, note = BUILDER_FALLBACK['findResponder'], False, str(e)
    except (Unrecognised, ValueError, IndexError) as e:
        T, ok, note, fr_ok = dict(BUILDER_FALLBACK), False, str(e), False
    L = ['import Unimock.Model.Core',
         '/-! GENERATED by tools/translate_control.py from /repo/src/build.rs and /repo/src/counter.rs — do not edit. -/',
         'namespace Unimock.Generated',
         f'def recognised_builder : Bool := {"true" if ok else "false"}',
         '/-- `QuantifyReturnValue::{once, n_times, at_least_times}`: (value stored through the single-use conversion?, count given to `quantify` (`none` = the',
         '    method\'s argument), exactness given to `quantify`) -/']
    for k in ('qrvOnce', 'qrvNTimes', 'qrvAtLeast'):
        L.append(f'def {k} : Bool × Option Nat × Exactness := {T[k]}')
    L.append('/-- `Clause for QuantifyReturnValue` goes through `once()`; its `Drop` (a value never quantified) stores through the single-use conversion -/')
    L.append(f'def qrvClauseViaOnce : Bool := {T["qrvClauseViaOnce"]}')
    L.append(f'def qrvDropSingleUse : Bool := {T["qrvDropSingleUse"]}')
    L.append('/-- `Quantify::{once, n_times, at_least_times}` -/')
    for k in ('qOnce', 'qNTimes', 'qAtLeast'):
        L.append(f'def {k} : Option Nat × Exactness := {T[k]}')
    L.append('/-- `Clause for Quantify`: the implicit quantification of an unquantified response used as a clause, per match mode -/')
    L.append(f'def qClauseOrdered : Option (Nat × Exactness) := {T["qClauseOrdered"]}')
    L.append(f'def qClauseUnordered : Option (Nat × Exactness) := {T["qClauseUnordered"]}')
    L.append('/-- `QuantifiedResponse::then` -/')
    L.append(f'def thenAdd : Nat × Exactness := {T["thenAdd"]}')
    L.append('/-- `CallCountExpectation::add_to_minimum` (it also overwrites the exactness); `DynBuilderWrapper::quantify`: the delta it passes on and the new response index -/')
    L.append(f'def addToMinimum (min delta : Nat) : Nat := {T["addToMinimum"]}')
    L.append(f'def quantifyDelta (times : Nat) : Nat := {T["quantifyDelta"]}')
    L.append(f'def quantifyIdx (idx times : Nat) : Nat := {T["quantifyIdx"]}')
    L.append(f'def recognised_find_responder : Bool := {"true" if fr_ok else "false"}')
    L.append('/-- `find_responder_by_call_index` over the responders\' start indexes: the index selected (`binarySearch` is the model of std\'s `binary_search_by`) -/')
    L.append(f'def findResponderSrc (keys : Array Nat) (k : Nat) : Option Nat :=\n  {T["findResponder"]}')
    L.append('end Unimock.Generated')
    text = '\n'.join(L) + '\n'
    old = open(out).read() if os.path.exists(out) else None
    if old != text:
        tmp = out + f'.{os.getpid()}.tmp'
        open(tmp, 'w').write(text)
        os.replace(tmp, out)
    if note:
        print('unrecognised builder:', note)
    return ok


# ------------------------------------------------------------------ emit
FALLBACK = {
    'teardown': '[.setTornDown, .dropHelper, .dropChain, .retOkIfNotOriginal, .retOkIfPanicking, .sampleStrong, .panicIfStrongGt 1, .panicIfOtherThread, .errIfReasons, .verify]',
    'teardown_nostd': '[.setTornDown, .dropHelper, .dropChain, .retOkIfNotOriginal, .retOkIfPanicking, .sampleStrong, .panicIfStrongGt 1, .errIfReasons, .verify]',
    'induce_nostd': '[.setOwnFlag, .formatMsg, .record, .panicMsg]',
    'drop': '[.retIfTornDown, .teardownIfVerifyInDrop]',
    'verify': '[.panicIfNotOriginal, .teardown]',
    'noverify': '[.panicIfNotOriginal, .clearVerifyInDrop]',
    'new': {'original_instance': 'true', 'torn_down': 'false', 'verify_in_drop': 'true'},
    'clone': {'original_instance': 'false', 'torn_down': 'false', 'verify_in_drop': 'src.verifyInDrop'},
    'errpath': {'induce': '[.formatMsg, .record, .panicMsg]', 'handle': 'true', 'evalHandles': 'true', 'reportInduces': 'true',
                'report': {'Answer': '.notAnswered', 'Unmock': '.cannotUnmock', 'CallDefaultImpl': '.noDefaultImpl'}},
    'cell': {'ref': '.getOrInitClone', 'mut': '.getOrInitClone'},
    'push': {'steps': '[.errIfOutputError, .newPattern, .onEntry, .ok]', 'occupied': '[.errIfModeDiffers, .appendPattern]', 'vacant': '[.insertMocker]'},
    'slots': 'if ordered then (cur, cur + n, cur + n) else (0, 0, cur)',
    'nomocker': '(.ifDefault (.leaf .callDefault) (.ifPartial (.leaf .unmock) (.onFallback (.leaf .errNoMockImplementation) (.leaf .unmock))))',
    'nomatch': '(.onFallback (.leaf .errNoMatchingCallPatterns) (.leaf .unmock))',
    'dispatch': {'Return': '.returnOrCannotReturnTwice', 'Answer': '.contAnswer', 'Panic': '.errExplicitPanic', 'Unmock': '.contUnmock',
                 'ApplyDefaultImpl': '.contDefault', '@Unmock': '.contUnmock', '@CallDefaultImpl': '.contDefault'},
}


def main():
    td = strip_comments(open(os.path.join(ROOT, 'teardown.rs')).read())
    lib = strip_comments(open(os.path.join(ROOT, 'lib.rs')).read())
    ev = strip_comments(open(os.path.join(ROOT, 'eval.rs')).read())
    got = {}
    notes = []

    def attempt(key, f):
        try:
            got[key] = (f(), True)
        except (Unrecognised, ValueError, IndexError) as e:
            got[key] = (FALLBACK[key], False)
            notes.append(f'{key}: {e}')

    attempt('teardown', lambda: '[' + ', '.join(teardown_steps(td)) + ']')
    def nostd(f):
        NOSTD[0] = True
        try:
            return f()
        finally:
            NOSTD[0] = False
    attempt('teardown_nostd', lambda: nostd(lambda: '[' + ', '.join(teardown_steps(td)) + ']'))
    attempt('induce_nostd', lambda: nostd(lambda: induce_steps(lib)))
    attempt('drop', lambda: '[' + ', '.join(dsteps(fn_body(lib, r'impl\s+Drop\s+for\s+Unimock\s*\{\s*fn\s+drop\s*\(&mut\s+self\)\s*\{'))) + ']')
    attempt('verify', lambda: '[' + ', '.join(dsteps(fn_body(lib, r'pub\s+fn\s+verify\s*\(mut\s+self\)\s*\{'))) + ']')
    attempt('noverify', lambda: '[' + ', '.join(dsteps(fn_body(lib, r'pub\s+fn\s+no_verify_in_drop\s*\(mut\s+self\)\s*->\s*Self\s*\{'))) + ']')

    def new_lit():
        b = fn_body(lib, r'fn\s+from_assembler\s*\(')
        i = b.index('Self {') if 'Self {' in b else b.index('Self{')
        j = b.index('{', i)
        return flags_of_literal(b[j:close(b, j)], 'from_assembler')

    def clone_lit():
        b = fn_body(lib, r'impl\s+Clone\s+for\s+Unimock\s*\{\s*fn\s+clone\s*\(&self\)\s*->\s*Unimock\s*\{')
        m = re.search(r'Unimock\s*\{', b)
        j = m.end() - 1
        return flags_of_literal(b[j:close(b, j)], 'clone')

    attempt('new', new_lit)
    attempt('clone', clone_lit)
    try:
        t1, t2 = eval_dyn_trees(ev)
        got['nomocker'], got['nomatch'] = (t1, True), (t2, True)
    except (Unrecognised, ValueError, IndexError) as e:
        got['nomocker'], got['nomatch'] = (FALLBACK['nomocker'], False), (FALLBACK['nomatch'], False)
        notes.append(f'eval_dyn: {e}')
    attempt('dispatch', lambda: dispatch(ev))
    priv = strip_comments(open(os.path.join(ROOT, 'private.rs')).read())
    attempt('errpath', lambda: error_path(lib, priv))
    asm = strip_comments(open(os.path.join(ROOT, 'assemble.rs')).read())
    attempt('slots', lambda: slot_alloc(asm))
    attempt('push', lambda: push_steps(asm))
    attempt('cell', lambda: cell_use(lib))

    def b(x):
        return 'true' if x else 'false'

    nf, cf, dp = got['new'][0], got['clone'][0], got['dispatch'][0]
    L = []
    L.append('import Unimock.Model.Gates')
    L.append('/-! GENERATED by tools/translate_control.py from /repo/src/{teardown,lib,eval}.rs — do not edit. -/')
    L.append('namespace Unimock.Generated')
    L.append('open Unimock.Gates')
    for k in ('teardown', 'drop', 'verify', 'noverify', 'new', 'clone', 'nomocker', 'nomatch', 'dispatch', 'slots', 'errpath', 'push', 'cell', 'teardown_nostd', 'induce_nostd'):
        L.append(f'def recognised_{k} : Bool := {b(got[k][1])}')
    L.append(f'def teardownSteps : List Step := {got["teardown"][0]}')
    L.append('/-- the same two functions as compiled WITHOUT the std feature (`panicking` then reads: this instance\'s own `panicked` flag) -/')
    L.append(f'def teardownStepsNoStd : List Step := {got["teardown_nostd"][0]}')
    L.append(f'def inducePanicStepsNoStd : List EStep := {got["induce_nostd"][0]}')
    L.append(f'def dropSteps : List DStep := {got["drop"][0]}')
    L.append(f'def verifySteps : List DStep := {got["verify"][0]}')
    L.append(f'def noVerifySteps : List DStep := {got["noverify"][0]}')
    if any('src.' in v for v in nf.values()):
        nf = FALLBACK['new']
        L[[i for i, l in enumerate(L) if l.startswith('def recognised_new')][0]] = 'def recognised_new : Bool := false'
        notes.append('new: field copied from self in a constructor')
    L.append(f'def newFlags : IFlags := ⟨{nf["original_instance"]}, {nf["torn_down"]}, {nf["verify_in_drop"]}⟩')
    L.append(f'def cloneFlags (src : IFlags) : IFlags := ⟨{cf["original_instance"]}, {cf["torn_down"]}, {cf["verify_in_drop"]}⟩')
    L.append(f'def noMockerTree : Tree := {got["nomocker"][0]}')
    L.append(f'def noMatchTree : Tree := {got["nomatch"][0]}')
    L.append('def dispatch : RVariant → Disp')
    for v, k in (('ret', 'Return'), ('answer', 'Answer'), ('panic', 'Panic'), ('unmock', 'Unmock'), ('applyDefaultImpl', 'ApplyDefaultImpl')):
        L.append(f'  | .{v} => {dp[k]}')
    L.append(f'def dispatchEvalUnmock : Disp := {dp["@Unmock"]}')
    L.append(f'def dispatchEvalCallDefault : Disp := {dp["@CallDefaultImpl"]}')
    ep = got['errpath'][0]
    L.append('/-- the error path: `Unimock::induce_panic` (statement list), `handle_error` sends `Err` there, `private::eval` wraps `eval::eval` in')
    L.append('    `handle_error`, `Continuation::report` maps the unhandled continuation to its error and sends it there too -/')
    L.append(f'def inducePanicSteps : List EStep := {ep["induce"]}')
    L.append(f'def handleErrorInduces : Bool := {ep["handle"]}')
    L.append(f'def evalHandlesError : Bool := {ep["evalHandles"]}')
    L.append(f'def reportInduces : Bool := {ep["reportInduces"]}')
    L.append('def reportError : RCont → EKind')
    for v, k in (('answer', 'Answer'), ('unmock', 'Unmock'), ('callDefault', 'CallDefaultImpl')):
        L.append(f'  | .{v} => {ep["report"][k]}')
    L.append('/-- `impl AsRef / AsMut<DefaultImplDelegator> for Unimock`: how the helper cell is used -/')
    L.append(f'def delegatorCellRef : CellUse := {got["cell"][0]["ref"]}')
    L.append(f'def delegatorCellMut : CellUse := {got["cell"][0]["mut"]}')
    L.append('/-- `impl Sink for MockAssembler`: `push` as a statement list, and the two arms of its `Entry` match -/')
    L.append(f'def pushSteps : List PStep := {got["push"][0]["steps"]}')
    L.append(f'def pushOccupied : List PStep := {got["push"][0]["occupied"]}')
    L.append(f'def pushVacant : List PStep := {got["push"][0]["vacant"]}')
    L.append('/-- `MockAssembler::new_call_pattern`: (range.start, range.end, current_call_index afterwards) from whether the pattern is')
    L.append('    ordered, whether its count expectation is exact (always so for ordered ones: type-state), the index so far, the exact count -/')
    L.append(f'def slotAlloc (ordered isExact : Bool) (cur n : Nat) : Nat × Nat × Nat :=\n  {got["slots"][0]}')
    L.append('end Unimock.Generated')
    text = '\n'.join(L) + '\n'
    old = open(OUT).read() if os.path.exists(OUT) else None
    if old != text:
        os.makedirs(os.path.dirname(OUT), exist_ok=True)
        tmp = OUT + f'.{os.getpid()}.tmp'
        open(tmp, 'w').write(text)
        os.replace(tmp, OUT)
    bok = emit_builder(ROOT)
    for n in notes:
        print('unrecognised', n)
    print('translated', f'builder={b(bok)}', ' '.join(f'{k}={b(v[1])}' for k, v in got.items()))


if __name__ == '__main__':
    main()
