#!/usr/bin/env python3
"""Regenerate MANIFEST.json from the table below (run from /verif)."""
import json, os
HERE = os.path.dirname(os.path.dirname(os.path.abspath(__file__)))
props = [json.loads(l) for l in open(os.path.join(HERE, 'properties.jsonl'))]

MACRO_NOTE = 'Trusted: Lean 4.33 kernel; axioms propext/Classical.choice/Quot.sound only; the hand-written Lean model of the code generator is tied to /repo by running the REAL generator (sources included by path into /verif/macroharness) on every shape of a bounded-exhaustive family and comparing extracted facts; the syn-based fact extractor, the meaning rustc gives to the emitted tokens (validated by the compiled behavioural cases in harness/src/bin/shapes.rs) and the harness are trusted.'
RUNTIME_NOTE = ("Trusted: Lean 4.33 kernel (+ compiler for the model executable); axioms propext/Classical.choice/Quot.sound only; "
                "the hand-written model is tied to /repo by the correspondence run (real crate vs model, every event and every state "
                "snapshot compared); std binary_search_by, atomics (SC), Arc::strong_count, thread::panicking, BTreeMap/TypeId are modelled, not verified; "
                "harness, generators, canonicaliser and the cfg(unimock_verif) hooks are trusted.")

CLAIMED = {
 'C01': dict(text="Theorems (all states, all pattern lists, all arguments): first accepting pattern answers, rejecting patterns and other methods are never counted and never influence the choice. Tie: exhaustive small pattern lists x masks x histories plus random scenarios executed on the real crate and on the model, outcomes and full state snapshots compared after every event.",
             ref="DESIGN.md §4.3, §5 C01", technique="Lean 4 proof over runtime model + differential correspondence (state-level) with the real crate"),
 'C02': dict(text="Theorems: responders start at prefix sums of the segment counts; the modelled std binary search returns the greatest start <= call index (duplicates included); hence the k-th match gets r_i for the first i with n1+..+ni >= k and r_last beyond; single-use slot yields once then errors, never refills. Tie: exhaustive chains (segments, counts, quantifier kinds, response kinds, clause forms) matched past their end through original and clone.",
             ref="DESIGN.md §4.1, §5 C02", technique="Lean 4 proof (induction on fuel for the binary search, on the chain for the builder) + differential correspondence"),
 'C03': dict(text="Theorems: verification is silent iff every expectation is met and every mentioned method was matched; error list = one line per violated pattern (naming it) plus one per never-called method; closed form of the expectation a quantifier chain produces; teardown forwards to verification. Tie: boundary count vectors (bound-1, bound, bound+1 for every pattern) verified by drop/verify()/report().",
             ref="DESIGN.md §4.4, §5 C03", technique="Lean 4 proof + differential correspondence on boundary count vectors"),
 'C04': dict(text="Theorems (every state): an ordered call always consumes one global slot number; it is accepted iff the slot is owned by a pattern of the called method whose matcher accepts, and is then answered by that pattern at its count; otherwise CallOrderNotMatched / InputsNotMatched and nothing counted; unordered and unmentioned calls leave the ordered index and all other methods' patterns untouched. Tie: prefix-tree enumeration (every accepted prefix x every next call).",
             ref="DESIGN.md §4.3, §5 C04", technique="Lean 4 proof + differential correspondence over prefix trees of ordered histories"),
 'C07': dict(text="Theorems: total resolution of calls without an applicable pattern (unmentioned: default body, else real implementation if partial / partial-by-default, else NoMockImplementation; mentioned-unmatched unordered: NoMatchingCallPatterns or real implementation), state untouched in all those cases; every value handed back by eval was configured by a returns responder of the called method (never fabricated); continuation arms of the generated body. Tie: the full decision table {strict,partial} x method attributes x {unmentioned, unmatched, matched} x {unordered, ordered} x arguments x positions.",
             ref="DESIGN.md §4.3, §5 C07", technique="Lean 4 proof (case analysis of evalCall/callMethod) + exhaustive decision-table correspondence"),
 'C08': dict(text="Theorems: eval appends exactly its own error to the shared log; by mutual induction over the fuel of callMethod/runProg (arbitrary user-code interaction trees): the log after a method call = log before ++ [the mock error it panicked with], nothing for returns and user-code panics; teardown of the original forwards a non-empty log verbatim. Tie: histories with every error kind on originals/clones/other threads, all panics swallowed; independent oracle on the real trace: final verification lists every induced error.",
             ref="DESIGN.md §4.4, §5 C08", technique="Lean 4 proof (mutual induction over interaction trees) + differential correspondence + trace oracle"),
 'C09': dict(text="Theorems about the lifecycle machine (every world): clones never verify nor panic; torn-down instances never verify again; no_verify_in_drop disables; live clone => 'clones alive' panic; foreign thread => panic; verify()/no_verify on a clone panic; report() = exit code of the verify verdict. Tie: exhaustive DFS over lifecycle event sequences (clone, drop on either thread, calls, provided-method calls creating helper clones, answers parking a clone via make_ref, verify, report, no_verify) plus random.",
             ref="DESIGN.md §4.4, §5 C09", technique="Lean 4 proof over lifecycle state machine + exhaustive event-sequence correspondence"),
 'C18': dict(text="Theorems: a call routed through any live instance of the same mock has the same outcome and leaves the same shared states; a call on one mock leaves every other mock untouched; lifecycle events never touch shared state; a method's answer reads only its own table entry (distinct TypeIds never mix). Tie: relational families (clauses re-interleaved across methods, calls re-routed over clones, a second independent mock interleaved) compared real-vs-real and real-vs-model. Partial: invariance of assembly under clause permutation is validated by the tie, not yet proved.",
             ref="DESIGN.md §4.2, §5 C18", technique="Lean 4 proof + relational (metamorphic) correspondence on the real crate"),
 'C14': dict(text="Translator + theorems: the table of tuple Clause impls is regenerated from src/clause.rs and `decide` re-proves that arities are exactly 2..16 and every impl deconstructs fields 0..n-1 in order; for any such table, deconstructing a clause tree of any shape/arity/depth equals listing its terminals left to right (induction on tree size); assembly fails iff some terminal offends (unproducible return, empty stub, mode different from the one first registered for its method at any distance), with the first offender's error, proved via an invariant relating the assembler's table to the accepted prefix. Tie: real Rust tuples of every arity 2..16 and random nestings, offenders at every position. Partial: the compile-time half (ordered => exact counts, then() after exact) is not yet covered by this check.",
             ref="DESIGN.md §4.2, §5 C14", technique="source-to-Lean translator for the tuple-impl table + Lean 4 proof (decide over table, induction over clause trees, assembler invariant) + correspondence with real tuples"),
 'C10': dict(text="Theorems quantify over EVERY list of atomic actions (any threads, any schedule): the positions handed to the matches of a pattern are c, c+1, .., c+N-1 in execution order and the counter ends at c+N (no lost or duplicated match); ordered slot numbers likewise; final counters and ordered index are invariant under any permutation of the actions (= any other interleaving), hence the verdict equals the sequential one; every racing error push is kept. Tie: real OS threads under a controlled scheduler that preempts before every instrumented atomic operation / lock acquisition; ALL schedules (DFS) of small scenarios replayed on the Lean interleaving model (picks, tag sequence, outcomes, counters, log, verdict) and judged by a model-free linearizability oracle (real concurrent run = some real sequential run); plus 16-thread uninstrumented stress.",
             ref="DESIGN.md §4.5, §5 C10", technique="Lean 4 proof over arbitrary action interleavings + exhaustive schedule exploration of the real crate (controlled scheduler) + linearizability oracle",
             note=RUNTIME_NOTE + " Partial with respect to weak memory: the scheduler and the model are sequentially consistent; SeqCst->Relaxed changes are invisible to them."),
 'C12': dict(text="Theorems (every list of atomic actions): requests for one single-use slot are answered true exactly for the first request on a full slot and false for all others; delivered <= 1 and delivered = 1 iff the slot ends empty; repeatable responders are never modified; only returns(v)[.once()] on some_call/next_call stores a single-use slot and such a segment advances by at most 1. Tie: all schedules of 1-4 threads racing for single-use and repeatable values (linearizability + at-most-one-delivery + every-caller-served oracles). Partial: owned leaves inside composites and the compile-time refusal are covered by C17's harness once built; not yet part of this check.",
             ref="DESIGN.md §4.5, §4.6, §5 C12", technique="Lean 4 proof over arbitrary action interleavings + exhaustive schedule exploration + oracles"),
 'C13': dict(text="Theorems on the value-chain model: a new reference reads its own value; every earlier reference keeps its node and value under any number of further pushes; push drops nothing, push_mut releases exactly the earlier values once, Drop releases the rest once; for racing try_insert loops under ANY schedule the chain only grows at the end (earlier nodes untouched) and a successful pusher's reference denotes a node holding its own value forever after. Tie: random make_ref/make_mut sequences on ValueChain, original and clone compared line by line with the model (reads of all retained references after every op, drop log); all schedules of 2-4 threads lending through a shared reference (yield before every try_insert) and an 8-thread uninstrumented stress, judged by an oracle.",
             ref="DESIGN.md §4.6, §5 C13", technique="Lean 4 proof (induction over pushes and over schedules) + differential correspondence + schedule exploration/stress with oracle",
             note=RUNTIME_NOTE + " Memory safety proper is trusted to forbid(unsafe_code), the borrow checker and once_cell."),
 'C11': dict(text="Theorems (every world): teardown and Drop on an unwinding thread return ok for originals and clones alike, whatever the expectations, log, live clones and creator thread; dropping a whole scope while unwinding never panics; a panicking call inside a scope owning mocks, and a panicking by-value provided method, unwind cleanly; a panicking matcher leaves the state untouched and deeper user panics leave the log untouched; translator-regenerated table of MutexIsh::locked closures contains only closed bodies (no user code under a lock). Tie: crash-point x topology x thread x met/unmet grid executed in a child process, abort detected by wait status and bisected; traces compared with the model. Partial: panics inside argument Debug rendering and return-value Clone are not in the grid yet.",
             ref="DESIGN.md §4.4, §5 C11", technique="Lean 4 proof over lifecycle machine + lock-site translator + fault-injection grid in child processes with abort detection"),
 'C05': dict(text="Theorems about the code-generation model for EVERY shape (any receiver, any parameter list, async / impl Future, provided or not, any unmock and api form): the tuple handed to the matcher is the parameters in declaration order (Impossible marker exactly at &mut T<'a> positions), the answer function gets the receiver and the original bindings in order, the polonius scope is left and re-entered with identical name tuples, arm patterns keep positions, MockFn::Inputs lists the types in order, impl-Future bodies are wholly inside async move. Tie: real generator run as a library on ~3.4k methods (quick) and compared fact by fact; compiled cases check order with same-typed neighbours, &mut mutation, result, async laziness / once per await, generic instantiations.",
             ref="DESIGN.md §4.7, §5 C05", technique="Lean 4 proof over a code-generation model + IR correspondence with the real macro run as a library + compiled behavioural oracle", note=MACRO_NOTE),
 'C15': dict(text="Theorems: the CallDefaultImpl arm exists iff the method is provided and calls the trait's own body on a delegator built per receiver kind with the arguments in order; the delegator's required methods forward in order; by mutual induction over callMethod/runProg, the helper level at which a call is made never influences shared state, user-code log or outcome (calls from inside a default body are evaluated exactly like direct calls); evaluation's CallDefaultImpl runs exactly the default body on the same state. Tie: IR correspondence on all provided-method shapes, compiled cases for all six receiver kinds, runtime scenarios with default bodies calling required methods interleaved with direct calls. KNOWN FINDINGS: sole-owner Rc<Self>/Arc<Self> receivers (see known_findings.jsonl).",
             ref="DESIGN.md §4.7, §5 C15", technique="Lean 4 proof (codegen model + mutual induction over interaction trees) + IR correspondence + runtime differential correspondence", note=MACRO_NOTE),
 'C16': dict(text="Theorems: for &self / self / Rc / Arc receivers the Unmock arm calls the registered path with (self, params in order) or exactly the listed expressions, awaited iff async; without a registered function there is no arm and the runtime panics CannotUnmock naming the method and logs it; the real function runs once on the same shared state. The full statement fails for &mut self / Pin<&mut Self> receivers: C16_unmock_arm_missing_for_mut proves the model (= the code) has no arm there — KNOWN FINDING, reproduced by the compiled case mut.unmock.path. Tie: IR correspondence incl. shuffled/partial listed parameter lists and skipped receiver-less methods shifting positions; runtime scenarios with partial mocks and applies_unmocked incl. re-entrant real functions.",
             ref="DESIGN.md §4.7, §5 C16", technique="Lean 4 proof (codegen model + runtime model) + IR correspondence + runtime differential correspondence", note=MACRO_NOTE),
}

checks = []
for p in props:
    pid = p['id']
    if pid not in CLAIMED:
        continue
    c = CLAIMED[pid]
    checks.append({
        'property_id': pid,
        'quick_cmd': f"./check {pid} --tier quick",
        'thorough_cmd': f"./check {pid} --tier thorough",
        'evidence_file': f"/verif/evidence/{pid}.json",
        'replay_cmd_template': f"./check {pid} --replay {{path}}",
        'engine': 'lean-codegen-model' if pid in ('C05', 'C15', 'C16', 'C06', 'C17', 'C19') else 'lean-runtime-model',
        'level_claimed': {'category': 'proof', 'text': c['text'], 'design_ref': c['ref']},
        'level_note': c.get('note', RUNTIME_NOTE),
        'technique': c['technique'],
    })

m = {
 'version': 1,
 'setup_cmd': './setup.sh',
 'hooks': {
   'guard': '--cfg unimock_verif',
   'enable': "rustflags = [\"--cfg\", \"unimock_verif\"] in /verif/harness/.cargo/config.toml (the harness depends on /repo by path)",
   'baseline_off_cmd': 'cd /repo && cargo test --workspace --no-fail-fast --offline',
   'source_commits': [l.strip() for l in open(os.path.join(HERE, 'hooks_commits.txt')) if l.strip()],
   'add_only': True,
 },
 'engines': [
   {'name': 'lean-runtime-model', 'path': '/verif/lean', 'serves_properties': sorted(CLAIMED),
    'kind_free_text': 'Lean 4 model of the unimock runtime (builder, assembly, evaluation, verification, lifecycle) with property theorems in lean/Unimock/Props; executable driver compared with the real crate by /verif/harness (Rust) through a line protocol'},
   {'name': 'lean-codegen-model', 'path': '/verif/lean/Unimock/Model/Codegen', 'serves_properties': [p for p in sorted(CLAIMED) if p in ('C05', 'C15', 'C16', 'C06', 'C17', 'C19')],
    'kind_free_text': 'Lean 4 model of what the proc macros generate; compared with the real generators run as a library (/verif/macroharness) on generated inputs'},
 ],
 'checks': checks,
 'not_applicable': [{'property_id': p['id'], 'reason': 'not claimed yet: check under construction (see DESIGN.md §9 build order); no technique switch intended'} for p in props if p['id'] not in CLAIMED],
 'notes': 'One entry point: ./check <ID> --tier quick|thorough [--replay file]. VERIF_SEED seeds every generator.',
}
json.dump(m, open(os.path.join(HERE, 'MANIFEST.json'), 'w'), indent=1)
print('claimed', sorted(CLAIMED))
