#!/usr/bin/env python3
"""Translator: the small pure functions of /repo/src/counter.rs and /repo/src/fn_mocker.rs that decide
verification and slot ownership -> lean/Unimock/Generated/Counter.lean

Translated (Rust subset: `match` on an `Exactness` value with or-patterns and `_`, `if <cond> { push error }`,
integer arithmetic and comparisons, `&&`/`||`, tuple-struct wrappers `NCalls(..)` / `.0` erased):
  CallCountExpectation::lower_bound, CallCountExpectation::exact_calls, the error condition of CallCounter::verify per
  exactness, the never-called condition of FnMocker::verify, the slot-ownership test of
  FnMocker::find_call_pattern_for_call_order, and the three cases of `impl Display for NCalls`.
`Props/C03.lean` / `Props/C04.lean` prove the translated definitions equal to the hand-written model's.

If a function no longer has a shape this translator understands, the corresponding `recognised…` flag is false and the
definition falls back to the model's own (the agreement theorem is then vacuous for that function and the evidence says
so): the model stays tied to the code by the correspondence run alone."""
import os, re, sys
ROOT = sys.argv[1] if len(sys.argv) > 1 else '/repo/src'
OUT = os.environ.get('VERIF_COUNTER_OUT') or os.path.join(os.path.dirname(os.path.dirname(os.path.abspath(__file__))), 'lean', 'Unimock', 'Generated', 'Counter.lean')
import os as _os
_TMP = f'.{_os.getpid()}.tmp'
def _finalise(tmp, out):
    """replace `out` atomically, and only when the content changed"""
    import os
    new = open(tmp).read()
    old = open(out).read() if os.path.exists(out) else None
    if new != old:
        os.replace(tmp, out)
    else:
        os.remove(tmp)


class Unrecognised(Exception):
    pass

def strip_comments(s):
    return re.sub(r'//[^\n]*', '', s)

def fn_body(src, name):
    m = re.search(r'fn\s+' + re.escape(name) + r'\b[^{;]*\{', src)
    if not m:
        raise Unrecognised(f"fn {name} not found")
    i = m.end(); depth = 1
    while i < len(src) and depth:
        depth += {'{': 1, '}': -1}.get(src[i], 0); i += 1
    return src[m.end():i - 1]

def block_after(src, start):
    """text of the `{...}` block starting at or after index `start`"""
    i = src.index('{', start); j = i + 1; depth = 1
    while j < len(src) and depth:
        depth += {'{': 1, '}': -1}.get(src[j], 0); j += 1
    return src[i + 1:j - 1], j

# ------------------------------------------------------------------ expressions
TOK = re.compile(r'\s*(\d+|[A-Za-z_][A-Za-z_0-9]*(?:\.[A-Za-z_0-9]+)*|<=|>=|==|!=|&&|\|\||[-+<>()])')

def tokens(s):
    out = []; i = 0
    s = s.strip()
    while i < len(s):
        m = TOK.match(s, i)
        if not m:
            raise Unrecognised(f"cannot tokenise `{s[i:i+30]}`")
        out.append(m.group(1)); i = m.end()
    return out

class Parser:
    def __init__(self, toks, names):
        self.t, self.i, self.names = toks, 0, names
    def peek(self):
        return self.t[self.i] if self.i < len(self.t) else None
    def eat(self):
        x = self.peek(); self.i += 1; return x
    def parse(self):
        e = self.or_()
        if self.peek() is not None:
            raise Unrecognised(f"trailing tokens {self.t[self.i:]}")
        return e
    def or_(self):
        e = self.and_()
        while self.peek() == '||':
            self.eat(); e = f"({e} || {self.and_()})"
        return e
    def and_(self):
        e = self.cmp()
        while self.peek() == '&&':
            self.eat(); e = f"({e} && {self.cmp()})"
        return e
    def cmp(self):
        a = self.sum()
        op = self.peek()
        if op in ('<', '<=', '>', '>=', '==', '!='):
            self.eat(); b = self.sum()
            lean = {'<': '<', '<=': '≤', '>': '>', '>=': '≥', '==': '=', '!=': '≠'}[op]
            return f"decide ({a} {lean} {b})"
        return a
    def sum(self):
        e = self.atom()
        while self.peek() in ('+', '-'):
            op = self.eat(); e = f"({e} {op} {self.atom()})"
        return e
    def atom(self):
        t = self.eat()
        if t is None:
            raise Unrecognised("unexpected end of expression")
        if t == '(':
            e = self.or_()
            if self.eat() != ')':
                raise Unrecognised("missing )")
            return e
        if t.isdigit():
            return t
        if t == 'NCalls':           # tuple-struct wrapper: erased
            if self.eat() != '(':
                raise Unrecognised("NCalls without (")
            e = self.or_()
            if self.eat() != ')':
                raise Unrecognised("missing ) after NCalls(")
            return e
        if t in self.names:
            return self.names[t]
        raise Unrecognised(f"unknown name `{t}`")

def expr(s, names):
    return Parser(tokens(s), names).parse()

# ------------------------------------------------------------------ match over Exactness
VARIANTS = {'Exact': 'exact', 'AtLeast': 'atLeast', 'AtLeastPlusOne': 'atLeastPlusOne'}

def match_arms(body, scrutinee_re):
    """-> dict variant -> arm text, for `match <scrutinee> { pats => arm, ... }` (or-patterns and `_` supported)"""
    m = re.search(r'match\s+' + scrutinee_re + r'\s*\{', body)
    if not m:
        raise Unrecognised("match on exactness not found")
    inner, _ = block_after(body, m.end() - 1)
    arms = {}
    i = 0
    while i < len(inner):
        m2 = re.compile(r'\s*((?:Exactness::\w+|_)(?:\s*\|\s*Exactness::\w+)*)\s*=>\s*').match(inner, i)
        if not m2:
            if inner[i:].strip() in ('', ','):
                break
            raise Unrecognised(f"cannot read match arm at `{inner[i:i+40].strip()}`")
        pats = [p.strip() for p in m2.group(1).split('|')]
        j = m2.end()
        if inner[j] == '{':
            arm, j = block_after(inner, j)
        else:
            depth = 0; k = j
            while k < len(inner) and not (inner[k] == ',' and depth == 0):
                depth += {'(': 1, ')': -1, '{': 1, '}': -1}.get(inner[k], 0); k += 1
            arm = inner[j:k]; j = k
        while j < len(inner) and inner[j] in ', \n\t':
            j += 1
        for p in pats:
            if p == '_':
                for v in VARIANTS:
                    arms.setdefault(v, arm)
            else:
                v = p.split('::')[1]
                if v not in VARIANTS:
                    raise Unrecognised(f"unknown Exactness variant {v}")
                arms.setdefault(v, arm)
        i = j
    if set(arms) != set(VARIANTS):
        raise Unrecognised(f"match does not cover {sorted(set(VARIANTS) - set(arms))}")
    return arms

def lean_match(arms, f):
    return '\n'.join(f"  | .{VARIANTS[v]} => {f(arms[v])}" for v in VARIANTS)

def main():
    notes = []
    counter = strip_comments(open(os.path.join(ROOT, 'counter.rs')).read())
    mocker = strip_comments(open(os.path.join(ROOT, 'fn_mocker.rs')).read())
    out = ["import Unimock.Model.Core", "import Unimock.Model.Render",
           "/-! GENERATED by /verif/tools/translate_counter.py from /repo/src/counter.rs and /repo/src/fn_mocker.rs — do not edit. -/",
           "namespace Unimock.Generated", ""]
    flags = {}
    # ---- lower_bound
    try:
        arms = match_arms(fn_body(counter, 'lower_bound'), r'self\.exactness')
        body = lean_match(arms, lambda a: expr(a, {'self.minimum': 'min'}))
        out += ["/-- `CallCountExpectation::lower_bound` -/", "def lowerBoundSrc (min : Nat) : Exactness → Nat", body, ""]
        flags['lowerBound'] = True
    except Unrecognised as e:
        notes.append(f"lower_bound: {e}")
        out += ["def lowerBoundSrc (min : Nat) (ex : Exactness) : Nat := lowerBound min ex", ""]
        flags['lowerBound'] = False
    # ---- exact_calls
    try:
        arms = match_arms(fn_body(counter, 'exact_calls'), r'self\.exactness')
        def opt(a):
            a = a.strip()
            if a == 'None':
                return 'none'
            m = re.match(r'^Some\((.*)\)$', a, re.S)
            if not m:
                raise Unrecognised(f"exact_calls arm `{a}`")
            return f"some ({expr(m.group(1), {'self.minimum': 'min'})})"
        out += ["/-- `CallCountExpectation::exact_calls` -/", "def exactCallsSrc (min : Nat) : Exactness → Option Nat", lean_match(arms, opt), ""]
        flags['exactCalls'] = True
    except Unrecognised as e:
        notes.append(f"exact_calls: {e}")
        out += ["def exactCallsSrc (min : Nat) (ex : Exactness) : Option Nat := match ex with | .exact => some min | _ => none", ""]
        flags['exactCalls'] = False
    # ---- CallCounter::verify: the condition under which an error is pushed
    try:
        arms = match_arms(fn_body(counter, 'verify'), r'self\.expectation\.exactness')
        def cond(a):
            m = re.match(r'^\s*if\s+(.*?)\s*\{', a, re.S)
            if not m or 'errors.push' not in a:
                raise Unrecognised(f"verify arm is not `if <cond> {{ … errors.push … }}`")
            if re.search(r'\}\s*else', a):
                raise Unrecognised("verify arm has an else branch")
            return expr(m.group(1), {'actual_calls.0': 'actual', 'lower_bound.0': 'lb'})
        out += ["/-- `CallCounter::verify`: `true` = a `FailedVerification` error is pushed for this pattern -/",
                "def verifyFailsSrc (actual lb : Nat) : Exactness → Bool", lean_match(arms, cond), ""]
        flags['verifyFails'] = True
    except Unrecognised as e:
        notes.append(f"verify: {e}")
        out += ["def verifyFailsSrc (actual lb : Nat) (ex : Exactness) : Bool := match ex with | .exact => decide (actual ≠ lb) | _ => decide (actual < lb)", ""]
        flags['verifyFails'] = False
    # ---- FnMocker::verify: never-called condition
    try:
        b = fn_body(mocker, 'verify')
        m = re.search(r'if\s+(.*?)\s*\{\s*errors\.push\(\s*(?:\w+::)*MockError::MockNeverCalled', b, re.S)
        if not m:
            raise Unrecognised("`if <cond> { errors.push(MockNeverCalled …` not found")
        if not re.search(r'total_calls\s*\+=\s*pattern\s*\.\s*call_counter\s*\.\s*verify', re.sub(r'\s+', ' ', b)):
            raise Unrecognised("total_calls is not the sum of the patterns' counts")
        out += ["/-- `FnMocker::verify`: `true` = `MockNeverCalled` is pushed (total = sum of the patterns' counts) -/",
                f"def neverCalledSrc (total : Nat) : Bool := {expr(m.group(1), {'total_calls': 'total'})}", ""]
        flags['neverCalled'] = True
    except Unrecognised as e:
        notes.append(f"FnMocker::verify: {e}")
        out += ["def neverCalledSrc (total : Nat) : Bool := decide (total = 0)", ""]
        flags['neverCalled'] = False
    # ---- slot ownership
    try:
        b = fn_body(mocker, 'find_call_pattern_for_call_order')
        m = re.search(r'\.find\(\s*\|\(_,\s*pattern\)\|\s*\{(.*?)\}\s*\)', b, re.S)
        if not m or '.enumerate()' not in b or '.iter()' not in b:
            raise Unrecognised("`.iter().enumerate().find(|(_, pattern)| { … })` not found")
        e = expr(m.group(1), {'pattern.ordered_call_index_range.start': 'lo', 'pattern.ordered_call_index_range.end': 'hi', 'ordered_call_index': 'idx'})
        out += ["/-- `FnMocker::find_call_pattern_for_call_order`: the first pattern (in declaration order) satisfying this test -/",
                f"def ownsSrc (lo hi idx : Nat) : Bool := {e}", ""]
        flags['owns'] = True
    except Unrecognised as e:
        notes.append(f"find_call_pattern_for_call_order: {e}")
        out += ["def ownsSrc (lo hi idx : Nat) : Bool := decide (lo ≤ idx ∧ idx < hi)", ""]
        flags['owns'] = False
    # ---- NCalls Display
    try:
        m = re.search(r'impl\s+Display\s+for\s+NCalls\s*\{', counter)
        if not m:
            raise Unrecognised("impl Display for NCalls not found")
        blk, _ = block_after(counter, m.end() - 1)
        arms = re.findall(r'(\w+)\s*=>\s*write!\(f,\s*"([^"]*)"\)', blk)
        if len(arms) != 3 or arms[0][0] != '0' or arms[1][0] != '1' or '{' + arms[2][0] + '}' not in arms[2][1]:
            raise Unrecognised(f"unexpected arms {arms}")
        pre, post = arms[2][1].split('{' + arms[2][0] + '}')
        out += ["/-- `impl Display for NCalls` -/", "def nCallsSrc : Nat → String",
                f'  | 0 => "{arms[0][1]}"', f'  | 1 => "{arms[1][1]}"', f'  | n => "{pre}" ++ toString n ++ "{post}"', ""]
        flags['nCalls'] = True
    except Unrecognised as e:
        notes.append(f"NCalls Display: {e}")
        out += ["def nCallsSrc (n : Nat) : String := Render.renderNCalls n", ""]
        flags['nCalls'] = False
    out.append("/-- which functions the translator recognised (false = definition above is the model's own) -/")
    for k, v in flags.items():
        out.append(f"def recognised_{k} : Bool := {'true' if v else 'false'}")
    out += ["", "end Unimock.Generated", ""]
    with open(OUT + _TMP, 'w') as fh:
        fh.write('\n'.join(out))
    _finalise(OUT + _TMP, OUT)
    print("translated counter/fn_mocker functions: " + ', '.join(f"{k}={'ok' if v else 'UNRECOGNISED'}" for k, v in flags.items()) + ('; ' + '; '.join(notes) if notes else ''))

if __name__ == '__main__':
    main()
