#!/usr/bin/env python3
"""keep a confirmed seeded change: tools/keep_seed.py <stem> <detected_by comma list> [note]"""
import json, os, shutil, sys
stem, caught = sys.argv[1], sys.argv[2]
note = sys.argv[3] if len(sys.argv) > 3 else ''
src = '/tmp/wt/out'
dst = f"/verif/seeded/{stem}"
os.makedirs(dst, exist_ok=True)
shutil.copy(f"{src}/{stem}.patch.diff", f"{dst}/patch.diff")
shutil.copy(f"{src}/{stem}_demo.rs", f"{dst}/demo.rs")
meta = json.load(open(f"{src}/{stem}_meta.json"))
conf = json.load(open(f"/tmp/wt/confirm/{stem}.json"))
meta['confirmed_by_me'] = {
    'how': 'fresh worktree of /repo HEAD under /tmp: demo as tests/seeded_<id>.rs run with `cargo test --offline --test ...` without and with the patch; then `cargo test --workspace --no-fail-fast --offline` with the patch',
    'demo_passes_without_patch': conf['demo_clean_rc'] == 0,
    'demo_fails_with_patch': conf['demo_patched_rc'] != 0,
    'suite_passed_with_patch': conf['suite_passed'], 'suite_failed_with_patch': conf['suite_failed'],
}
meta['detected_by'] = [c for c in caught.split(',') if c]
if note:
    meta['detection_note'] = note
json.dump(meta, open(f"{dst}/meta.json", 'w'), indent=1)
print('kept', dst)
