#!/bin/sh
# usage: tools/try_seed.sh <patch.diff> <PROP> [<PROP>...]  — apply a seeded change to /repo, run checks, undo
set -u
patch="$1"; shift
cd /repo || exit 2
if ! git diff --quiet; then echo "repo dirty"; exit 2; fi
git apply "$patch" 2>/dev/null || git apply --3way "$patch" 2>/dev/null || patch -p1 --no-backup-if-mismatch -F3 < "$patch" >/dev/null || { echo "patch does not apply"; git reset -q --hard HEAD; exit 2; }
for p in "$@"; do
  echo "== $p with $(basename $patch)"
  (cd /verif && mkdir -p /tmp/wt/evidence && VERIF_EVIDENCE_DIR=/tmp/wt/evidence timeout 900 ./check "$p" --tier quick 2>&1 | grep -E "^(VIOLATION|KNOWN|#)" | cut -c1-260 | head -6; echo "exit=$?")
done
git -C /repo reset -q --hard HEAD
git -C /repo clean -qfd -e target
# the generated Lean tables must describe the restored tree again
(cd /verif && python3 tools/translate_tuples.py >/dev/null; python3 tools/translate_locks.py >/dev/null; python3 tools/translate_mirrors.py >/dev/null; python3 tools/translate_counter.py >/dev/null; python3 tools/translate_control.py >/dev/null; python3 tools/translate_typestate.py >/dev/null; python3 tools/translate_scan.py >/dev/null)
