#!/bin/bash
# usage: tools/confirm_seeds.sh <seed-stem>...   e.g. C01_1 C02_2  (files under /tmp/wt/out)
# For each: fresh worktree, (1) apply patch -> full suite must pass, demo must fail; (2) without patch demo must pass.
# Writes /tmp/wt/confirm/<stem>.json
mkdir -p /tmp/wt/confirm
WT=/tmp/wt/confirm_wt
cd /repo
git worktree remove --force $WT 2>/dev/null
git worktree add -q --detach $WT HEAD || exit 2
export CARGO_NET_OFFLINE=true
for stem in "$@"; do
  prop=${stem%_*}
  feat=""; if [ "$prop" = "C20" ] || [ "$prop" = "X08" ]; then feat="--features mock-core,mock-std,mock-tokio-1,mock-futures-io-0-3,mock-embedded-hal-1"; fi
  mf=$(python3 -c "
import json,sys
try:
    f=json.load(open('/tmp/wt/out/${stem}_meta.json')).get('features','') or ''
except Exception:
    f=''
print(f if f.startswith('--') else ('--features '+f if f else ''))")
  if [ -n "$mf" ]; then feat="$mf"; fi
  cd $WT; git reset -q --hard HEAD; git clean -qfd tests
  cp /tmp/wt/out/${stem}_demo.rs tests/seeded_${stem}.rs
  # without patch
  cargo test --offline $feat --test seeded_${stem} > /tmp/wt/confirm/${stem}.clean.log 2>&1; clean_rc=$?
  git apply /tmp/wt/out/${stem}.patch.diff 2>/dev/null || git apply --3way /tmp/wt/out/${stem}.patch.diff; apply_rc=$?
  cargo test --offline $feat --test seeded_${stem} > /tmp/wt/confirm/${stem}.patched.log 2>&1; patched_rc=$?
  rm tests/seeded_${stem}.rs
  cargo test --workspace --no-fail-fast --offline > /tmp/wt/confirm/${stem}.suite.log 2>&1; suite_rc=$?
  passed=$(grep -h "^test result" /tmp/wt/confirm/${stem}.suite.log | sed 's/.* \([0-9]*\) passed.*/\1/' | paste -sd+ | bc)
  failed=$(grep -h "^test result" /tmp/wt/confirm/${stem}.suite.log | sed 's/.* \([0-9]*\) failed.*/\1/' | paste -sd+ | bc)
  echo "{\"seed\":\"$stem\",\"apply_rc\":$apply_rc,\"demo_clean_rc\":$clean_rc,\"demo_patched_rc\":$patched_rc,\"suite_rc\":$suite_rc,\"suite_passed\":${passed:-0},\"suite_failed\":${failed:-0}}" > /tmp/wt/confirm/${stem}.json
  cat /tmp/wt/confirm/${stem}.json
done
cd /repo; git worktree remove --force $WT
