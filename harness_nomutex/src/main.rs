//! nomutex: unimock built with neither `std` nor `spin-lock`. A return value that needs a single-use slot (an owned leaf configured
//! through `some_call/next_call .. returns(v)`) cannot be produced in this feature set: constructing the mock must fail right there.
//! Everything that does construct must reproduce the configured value. Prints `case <name> <outcome>`; outcome is
//! `new-panic:<first line>` or `ok <observations of three calls>`.
use std::panic::{catch_unwind, AssertUnwindSafe};
use unimock::*;

#[derive(Clone, Debug, PartialEq)]
pub struct Tok(pub u32);

#[unimock(api = NmMock)]
trait Nm {
    fn o_tok(&self) -> Tok;
    fn r_tok(&self) -> &Tok;
    fn s_opt(&self) -> Option<&Tok>;
    fn s_res(&self) -> Result<&Tok, Tok>;
    fn d_vec_res(&self) -> Vec<Result<&Tok, Tok>>;
    fn d_opt_res(&self) -> Option<Result<&Tok, Tok>>;
}

fn msg(p: Box<dyn std::any::Any + Send>) -> String {
    p.downcast_ref::<String>().cloned().or_else(|| p.downcast_ref::<&str>().map(|s| s.to_string())).unwrap_or_default().lines().next().unwrap_or("").to_string()
}

fn show_res(r: &Result<&Tok, Tok>) -> String { match r { Ok(t) => format!("O(L{})", t.0), Err(t) => format!("E(L{})", t.0) } }

macro_rules! case {
    ($name:expr, $clause:expr, $call:expr) => {{
        let built = catch_unwind(AssertUnwindSafe(|| Unimock::new($clause).no_verify_in_drop()));
        match built {
            Err(p) => println!("case {} new-panic:{}", $name, msg(p)),
            Ok(u) => {
                let mut outs = vec![];
                for _ in 0..3 {
                    let f: &dyn Fn(&Unimock) -> String = &$call;
                    outs.push(match catch_unwind(AssertUnwindSafe(|| f(&u))) { Ok(s) => s, Err(p) => format!("!{}", msg(p).replace(' ', "_")) });
                }
                println!("case {} ok {}", $name, outs.join(" "));
            }
        }
    }};
}

fn main() {
    std::panic::set_hook(Box::new(|_| {}));
    let t = |n: u32| Tok(n);
    // owned value through the single-use path: cannot be produced here
    case!("o_tok.some", NmMock::o_tok.some_call(matching!()).returns(t(1)), |u| format!("L{}", u.o_tok().0));
    case!("o_tok.next", NmMock::o_tok.next_call(matching!()).returns(t(1)), |u| format!("L{}", u.o_tok().0));
    case!("o_tok.some.once-then", NmMock::o_tok.some_call(matching!()).returns(t(1)).once().then().returns(t(2)), |u| format!("L{}", u.o_tok().0));
    // the repeatable path clones: no slot needed
    case!("o_tok.each", NmMock::o_tok.each_call(matching!()).returns(t(1)), |u| format!("L{}", u.o_tok().0));
    case!("o_tok.n2", NmMock::o_tok.some_call(matching!()).returns(t(1)).n_times(2), |u| format!("L{}", u.o_tok().0));
    // borrowed leaves only: nothing single-use to store
    case!("r_tok.some", NmMock::r_tok.some_call(matching!()).returns(t(1)), |u| format!("L{}", u.r_tok().0));
    case!("s_opt.some", NmMock::s_opt.some_call(matching!()).returns(Some(t(1))), |u| match u.s_opt() { Some(x) => format!("S(L{})", x.0), None => "N".into() });
    // composite values with an owned leaf through the single-use path
    case!("s_res.err.some", NmMock::s_res.some_call(matching!()).returns(Err::<Tok, Tok>(t(2))), |u| show_res(&u.s_res()));
    case!("s_res.ok.some", NmMock::s_res.some_call(matching!()).returns(Ok::<Tok, Tok>(t(1))), |u| show_res(&u.s_res()));
    case!("s_res.err.each", NmMock::s_res.each_call(matching!()).returns(Err::<Tok, Tok>(t(2))), |u| show_res(&u.s_res()));
    case!("d_vec_res.mixed.some", NmMock::d_vec_res.some_call(matching!()).returns(vec![Ok::<Tok, Tok>(t(1)), Err(t(2)), Ok(t(3)), Err(t(4))]), |u| u.d_vec_res().iter().map(show_res).collect::<Vec<_>>().join(","));
    case!("d_vec_res.err.next", NmMock::d_vec_res.next_call(matching!()).returns(vec![Err::<Tok, Tok>(t(7))]), |u| u.d_vec_res().iter().map(show_res).collect::<Vec<_>>().join(","));
    case!("d_vec_res.oks.some", NmMock::d_vec_res.some_call(matching!()).returns(vec![Ok::<Tok, Tok>(t(1)), Ok(t(2))]), |u| u.d_vec_res().iter().map(show_res).collect::<Vec<_>>().join(","));
    case!("d_vec_res.empty.some", NmMock::d_vec_res.some_call(matching!()).returns(Vec::<Result<Tok, Tok>>::new()), |u| format!("[{}]", u.d_vec_res().iter().map(show_res).collect::<Vec<_>>().join(",")));
    case!("d_vec_res.mixed.each", NmMock::d_vec_res.each_call(matching!()).returns(vec![Ok::<Tok, Tok>(t(1)), Err(t(2))]), |u| u.d_vec_res().iter().map(show_res).collect::<Vec<_>>().join(","));
    case!("d_opt_res.err.some", NmMock::d_opt_res.some_call(matching!()).returns(Some(Err::<Tok, Tok>(t(2)))), |u| match u.d_opt_res() { Some(r) => format!("S({})", show_res(&r)), None => "N".into() });
    case!("d_opt_res.none.some", NmMock::d_opt_res.some_call(matching!()).returns(None::<Result<Tok, Tok>>), |u| match u.d_opt_res() { Some(r) => format!("S({})", show_res(&r)), None => "N".into() });
}
