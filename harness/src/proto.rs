//! Scenario line protocol (see /verif/PROTOCOL.md): parsing.

#[derive(Clone, Debug)]
pub enum Resp {
    Ret(i64),
    Def,
    Ans(u32),
    Pan(String),
    Unm,
    Dfl,
}

#[derive(Clone, Copy, Debug, PartialEq)]
pub enum Quant {
    Once,
    N(usize),
    AtLeast(usize),
    None,
}

#[derive(Clone, Debug)]
pub struct Seg {
    pub resp: Resp,
    pub quant: Quant,
}

#[derive(Clone, Debug)]
pub struct PatSpec {
    pub mask: Option<u32>,
    pub pmask: u32,
    pub dbg: u32,
    pub chain: Vec<Seg>,
}

#[derive(Clone, Copy, Debug, PartialEq)]
pub enum Kind {
    Some,
    Each,
    Next,
}

#[derive(Clone, Debug)]
pub enum Tree {
    Unit,
    Term { mid: u8, kind: Kind, pat: PatSpec },
    Stub { mid: u8, pats: Vec<PatSpec> },
    Tuple(Vec<Tree>),
}

#[derive(Clone, Debug)]
pub enum Event {
    Build { i: usize, t: usize, partial: bool, tree: Tree },
    Call { i: usize, t: usize, mid: u8, a: u8 },
    Clone { i: usize, j: usize, t: usize },
    Drop { i: usize, t: usize, unwind: bool },
    Verify { i: usize, t: usize },
    NoVerify { i: usize, t: usize },
    Report { i: usize, t: usize },
    /// call on `i`, then (if it returned) a user panic; `i` and `also` are dropped while unwinding
    UnwindCall { i: usize, t: usize, mid: u8, a: u8, also: Vec<usize>, wrap: u8, fresh: u8 },
    /// by-value provided method U2::consume
    Consume { i: usize, t: usize, a: u8 },
}

pub struct Scenario {
    pub name: String,
    pub events: Vec<Event>,
}

pub fn kv<'a>(toks: &[&'a str], key: &str) -> Option<&'a str> {
    for t in toks {
        if let Some(rest) = t.strip_prefix(key) {
            if let Some(v) = rest.strip_prefix('=') {
                return Some(v);
            }
        }
    }
    None
}

pub fn kv_num(toks: &[&str], key: &str) -> usize {
    kv(toks, key).and_then(|v| v.parse().ok()).unwrap_or(0)
}

fn parse_quant(q: &str) -> Quant {
    if q == "once" {
        Quant::Once
    } else if q == "-" {
        Quant::None
    } else if let Some(n) = q.strip_prefix("al") {
        Quant::AtLeast(n.parse().unwrap_or(0))
    } else if let Some(n) = q.strip_prefix('n') {
        Quant::N(n.parse().unwrap_or(0))
    } else {
        Quant::None
    }
}

fn parse_resp(r: &str) -> Resp {
    if let Some(v) = r.strip_prefix("ret") {
        Resp::Ret(v.parse().unwrap_or(0))
    } else if r == "def" {
        Resp::Def
    } else if let Some(v) = r.strip_prefix("ans") {
        Resp::Ans(v.parse().unwrap_or(0))
    } else if r == "panE" {
        Resp::Pan(String::new())
    } else if let Some(v) = r.strip_prefix("pan") {
        Resp::Pan(format!("boom{v}"))
    } else if r == "unm" {
        Resp::Unm
    } else {
        Resp::Dfl
    }
}

fn parse_chain(s: &str) -> Vec<Seg> {
    s.split(',')
        .filter(|x| !x.is_empty())
        .map(|seg| {
            let mut it = seg.split('/');
            let r = it.next().unwrap_or("");
            let q = it.next().unwrap_or("-");
            Seg { resp: parse_resp(r), quant: parse_quant(q) }
        })
        .collect()
}

fn parse_pat(toks: &[&str]) -> PatSpec {
    let mask = match kv(toks, "mask") {
        Some("none") | None => None,
        Some(v) => Some(v.parse().unwrap_or(0)),
    };
    PatSpec {
        mask,
        pmask: kv_num(toks, "pmask") as u32,
        dbg: kv_num(toks, "dbg") as u32,
        chain: parse_chain(kv(toks, "chain").unwrap_or("")),
    }
}

fn parse_tree(lines: &[Vec<&str>], pos: &mut usize) -> Option<Tree> {
    let toks = lines.get(*pos)?;
    *pos += 1;
    match toks.first().copied() {
        Some("unit") => Some(Tree::Unit),
        Some("term") => {
            let kind = match kv(toks, "kind").unwrap_or("each") {
                "some" => Kind::Some,
                "next" => Kind::Next,
                _ => Kind::Each,
            };
            Some(Tree::Term { mid: kv_num(toks, "m") as u8, kind, pat: parse_pat(toks) })
        }
        Some("stub") => {
            let n = kv_num(toks, "n");
            let mut pats = vec![];
            for _ in 0..n {
                let t = lines.get(*pos)?;
                *pos += 1;
                pats.push(parse_pat(t));
            }
            Some(Tree::Stub { mid: kv_num(toks, "m") as u8, pats })
        }
        Some("tuple") => {
            let n = kv_num(toks, "n");
            let mut cs = vec![];
            for _ in 0..n {
                cs.push(parse_tree(lines, pos)?);
            }
            Some(Tree::Tuple(cs))
        }
        _ => None,
    }
}

pub fn parse_events(lines: &[Vec<&str>]) -> Result<Vec<Event>, String> {
    let mut pos = 0;
    let mut events = vec![];
    while pos < lines.len() {
        let toks = &lines[pos];
        pos += 1;
        let i = kv_num(toks, "i");
        let t = kv_num(toks, "t");
        let ev = match toks.first().copied() {
            Some("build") => {
                let partial = kv(toks, "mode") == Some("partial");
                let tree = parse_tree(lines, &mut pos).ok_or("bad clause tree")?;
                Event::Build { i, t, partial, tree }
            }
            Some("call") => Event::Call { i, t, mid: kv_num(toks, "m") as u8, a: kv_num(toks, "a") as u8 },
            Some("clone") => Event::Clone { i, j: kv_num(toks, "j"), t },
            Some("drop") => Event::Drop { i, t, unwind: kv_num(toks, "unwind") == 1 },
            Some("verify") => Event::Verify { i, t },
            Some("noverify") => Event::NoVerify { i, t },
            Some("report") => Event::Report { i, t },
            Some("unwindcall") => Event::UnwindCall {
                i, t, mid: kv_num(toks, "m") as u8, a: kv_num(toks, "a") as u8,
                also: kv(toks, "also").unwrap_or("").split(',').filter(|x| !x.is_empty()).filter_map(|x| x.parse().ok()).collect(),
                wrap: kv_num(toks, "wrap") as u8,
                fresh: kv_num(toks, "fresh") as u8,
            },
            Some("consume") => Event::Consume { i, t, a: kv_num(toks, "a") as u8 },
            Some("end") => break,
            other => return Err(format!("bad event {other:?}")),
        };
        events.push(ev);
    }
    Ok(events)
}

/// split input text into scenarios
pub fn parse_scenarios(text: &str) -> Vec<Result<Scenario, String>> {
    let mut out = vec![];
    let mut cur: Vec<Vec<&str>> = vec![];
    let mut name = String::new();
    for line in text.lines() {
        let toks: Vec<&str> = line.split_whitespace().collect();
        if toks.is_empty() || toks[0].starts_with('#') {
            continue;
        }
        if toks[0] == "scenario" {
            name = toks[1..].join(" ");
            cur.clear();
        } else if toks[0] == "end" {
            out.push(parse_events(&cur).map(|events| Scenario { name: name.clone(), events }));
        } else {
            cur.push(toks);
        }
    }
    out
}

pub fn esc(s: &str) -> String {
    s.replace('\\', "\\\\").replace('\n', "\\n").replace('\t', "\\t").replace('\r', "\\r")
}
