//! Correspondence harness for the unimock verification (see /verif/DESIGN.md).
pub mod universe;
pub mod proto;
pub mod runtime;
pub mod sched;
