//! Executes scenarios on the real library, in-process, printing one canonical trace line per event.

use crate::proto::*;
use crate::universe::*;
use std::collections::BTreeMap;
use std::panic::{catch_unwind, AssertUnwindSafe};
use std::sync::mpsc;
use unimock::build::*;
use unimock::property::*;
use unimock::private::Matching;
use unimock::verif::DynClause;
use unimock::*;

/// Marker trait for universe methods (all have the same signature).
pub trait UFn:
    MockFn<
        OutputKind = unimock::output::Owning<i64>,
        AnswerFn = dyn (for<'u> Fn(&'u Unimock, u8) -> i64) + Send + Sync,
    > + for<'i> MockFn<Inputs<'i> = u8>
{
    const MID: u8;
}

macro_rules! ufn {
    ($t:ty, $mid:expr) => {
        impl UFn for $t {
            const MID: u8 = $mid;
        }
    };
}
ufn!(U0Mock::a, 0);
ufn!(U0Mock::b, 1);
ufn!(U0Mock::c, 2);
ufn!(U0Mock::d, 3);
ufn!(U1Mock::a, 4);
ufn!(U1Mock::b, 5);
ufn!(U1Mock::c, 6);
ufn!(U1Mock::d, 7);
ufn!(U2Mock::r, 8);

fn leak(s: String) -> &'static str {
    Box::leak(s.into_boxed_str())
}

fn matcher_setup<F: UFn>(pat: &PatSpec) -> impl Fn(&mut Matching<F>) {
    let mask = pat.mask;
    let pmask = pat.pmask;
    let dbg = pat.dbg;
    move |m: &mut Matching<F>| {
        if let Some(mask) = mask {
            m.func(move |x: &u8, _| {
                if (pmask >> *x) & 1 == 1 {
                    user_panic()
                }
                (mask >> *x) & 1 == 1
            });
        }
        if dbg != 0 {
            m.pat_debug(leak(format!("(p{dbg})")), "scn.rs", dbg);
        }
    }
}

pub trait OrdExt: Ordering + Copy + 'static {
    fn q_at_least<'p, F: UFn>(q: Quantify<'p, F, Self>, n: usize) -> QuantifiedResponse<'p, F, Self, AtLeast>;
    fn qrv_at_least<'p, F: UFn>(
        q: QuantifyReturnValue<'p, F, i64, Self>,
        n: usize,
    ) -> QuantifiedResponse<'p, F, Self, AtLeast>;
}

impl OrdExt for InAnyOrder {
    fn q_at_least<'p, F: UFn>(q: Quantify<'p, F, Self>, n: usize) -> QuantifiedResponse<'p, F, Self, AtLeast> {
        q.at_least_times(n)
    }
    fn qrv_at_least<'p, F: UFn>(
        q: QuantifyReturnValue<'p, F, i64, Self>,
        n: usize,
    ) -> QuantifiedResponse<'p, F, Self, AtLeast> {
        q.at_least_times(n)
    }
}

impl OrdExt for InOrder {
    fn q_at_least<'p, F: UFn>(_: Quantify<'p, F, Self>, _: usize) -> QuantifiedResponse<'p, F, Self, AtLeast> {
        panic!("scenario error: at_least_times on an ordered pattern does not type-check")
    }
    fn qrv_at_least<'p, F: UFn>(
        _: QuantifyReturnValue<'p, F, i64, Self>,
        _: usize,
    ) -> QuantifiedResponse<'p, F, Self, AtLeast> {
        panic!("scenario error: at_least_times on an ordered pattern does not type-check")
    }
}

/// The builder type-states a chain can be in.
pub enum St<'p, F: UFn, O: OrdExt> {
    DR(DefineResponse<'p, F, O>),
    DM(DefineMultipleResponses<'p, F, O>),
    QRV(QuantifyReturnValue<'p, F, i64, O>),
    Q(Quantify<'p, F, O>),
    QE(QuantifiedResponse<'p, F, O, Exact>),
    QA(QuantifiedResponse<'p, F, O, AtLeast>),
}

macro_rules! common_resp {
    ($b:expr, $resp:expr) => {
        match $resp {
            Resp::Def => $b.returns_default(),
            Resp::Ans(f) => $b.answers_arc(std::sync::Arc::new(answer_fn(*f, F::MID))),
            Resp::Pan(msg) => $b.panics(msg.clone()),
            Resp::Unm => $b.applies_unmocked(),
            Resp::Dfl => $b.applies_default_impl(),
            Resp::Ret(_) => unreachable!(),
        }
    };
}

impl<'p, F: UFn, O: OrdExt> St<'p, F, O> {
    fn respond(self, resp: &Resp) -> Self {
        match self {
            St::DR(b) => match resp {
                Resp::Ret(v) => St::QRV(b.returns(*v)),
                other => St::Q(common_resp!(b, other)),
            },
            St::DM(b) => match resp {
                Resp::Ret(v) => St::Q(b.returns(*v)),
                other => St::Q(common_resp!(b, other)),
            },
            _ => panic!("scenario error: response in a state that cannot take one"),
        }
    }

    fn quantify(self, q: Quant) -> Self {
        match (self, q) {
            (s, Quant::None) => s,
            (St::QRV(b), Quant::Once) => St::QE(b.once()),
            (St::QRV(b), Quant::N(n)) => St::QE(b.n_times(n)),
            (St::QRV(b), Quant::AtLeast(n)) => St::QA(O::qrv_at_least(b, n)),
            (St::Q(b), Quant::Once) => St::QE(b.once()),
            (St::Q(b), Quant::N(n)) => St::QE(b.n_times(n)),
            (St::Q(b), Quant::AtLeast(n)) => St::QA(O::q_at_least(b, n)),
            _ => panic!("scenario error: quantifier in a state that cannot take one"),
        }
    }

    fn then(self) -> Self {
        match self {
            St::QE(b) => St::DM(b.then()),
            _ => panic!("scenario error: then() does not type-check here"),
        }
    }

    fn chain(mut self, segs: &[Seg]) -> Self {
        for (i, seg) in segs.iter().enumerate() {
            self = self.respond(&seg.resp).quantify(seg.quant);
            if i + 1 < segs.len() {
                self = self.then();
            }
        }
        self
    }
}

impl<F: UFn, O: OrdExt> St<'static, F, O> {
    fn push_into(self, dc: &mut DynClause) {
        match self {
            St::DR(_) | St::DM(_) => panic!("scenario error: pattern without response is not a Clause"),
            St::QRV(b) => dc.push(b),
            St::Q(b) => dc.push(b),
            St::QE(b) => dc.push(b),
            St::QA(b) => dc.push(b),
        }
    }
}

fn build_term<F: UFn>(f: F, kind: Kind, pat: &PatSpec, dc: &mut DynClause) {
    let setup = matcher_setup::<F>(pat);
    match kind {
        Kind::Some => St::DR(f.some_call(&setup)).chain(&pat.chain).push_into(dc),
        Kind::Next => St::DR(f.next_call(&setup)).chain(&pat.chain).push_into(dc),
        Kind::Each => St::DM(f.each_call(&setup)).chain(&pat.chain).push_into(dc),
    }
}

fn build_stub<F: UFn>(f: F, pats: &[PatSpec], dc: &mut DynClause) {
    let pats = pats.to_vec();
    dc.push(f.stub(move |each| {
        for pat in pats.iter() {
            let setup = matcher_setup::<F>(pat);
            let _ = St::DM(each.call(&setup)).chain(&pat.chain);
        }
    }));
}

pub fn build_tree(tree: &Tree) -> DynClause {
    let mut dc = DynClause::new();
    match tree {
        Tree::Unit => dc.push(()),
        Tree::Term { mid, kind, pat } => {
            crate::with_mock_fn!(*mid, f => build_term(f, *kind, pat, &mut dc))
        }
        Tree::Stub { mid, pats } => {
            crate::with_mock_fn!(*mid, f => build_stub(f, pats, &mut dc))
        }
        Tree::Tuple(cs) => {
            // real tuples (the crate's own `Clause for (T1, .., Tn)` impls) for every arity 2..=16;
            // other arities fall back to a run-time list
            let kids: Vec<DynClause> = cs.iter().map(build_tree).collect();
            match kids.len() {
                2 => { let mut it = kids.into_iter(); let c0 = it.next().unwrap(); let c1 = it.next().unwrap(); dc.push((c0, c1)); }
                3 => { let mut it = kids.into_iter(); let c0 = it.next().unwrap(); let c1 = it.next().unwrap(); let c2 = it.next().unwrap(); dc.push((c0, c1, c2)); }
                4 => { let mut it = kids.into_iter(); let c0 = it.next().unwrap(); let c1 = it.next().unwrap(); let c2 = it.next().unwrap(); let c3 = it.next().unwrap(); dc.push((c0, c1, c2, c3)); }
                5 => { let mut it = kids.into_iter(); let c0 = it.next().unwrap(); let c1 = it.next().unwrap(); let c2 = it.next().unwrap(); let c3 = it.next().unwrap(); let c4 = it.next().unwrap(); dc.push((c0, c1, c2, c3, c4)); }
                6 => { let mut it = kids.into_iter(); let c0 = it.next().unwrap(); let c1 = it.next().unwrap(); let c2 = it.next().unwrap(); let c3 = it.next().unwrap(); let c4 = it.next().unwrap(); let c5 = it.next().unwrap(); dc.push((c0, c1, c2, c3, c4, c5)); }
                7 => { let mut it = kids.into_iter(); let c0 = it.next().unwrap(); let c1 = it.next().unwrap(); let c2 = it.next().unwrap(); let c3 = it.next().unwrap(); let c4 = it.next().unwrap(); let c5 = it.next().unwrap(); let c6 = it.next().unwrap(); dc.push((c0, c1, c2, c3, c4, c5, c6)); }
                8 => { let mut it = kids.into_iter(); let c0 = it.next().unwrap(); let c1 = it.next().unwrap(); let c2 = it.next().unwrap(); let c3 = it.next().unwrap(); let c4 = it.next().unwrap(); let c5 = it.next().unwrap(); let c6 = it.next().unwrap(); let c7 = it.next().unwrap(); dc.push((c0, c1, c2, c3, c4, c5, c6, c7)); }
                9 => { let mut it = kids.into_iter(); let c0 = it.next().unwrap(); let c1 = it.next().unwrap(); let c2 = it.next().unwrap(); let c3 = it.next().unwrap(); let c4 = it.next().unwrap(); let c5 = it.next().unwrap(); let c6 = it.next().unwrap(); let c7 = it.next().unwrap(); let c8 = it.next().unwrap(); dc.push((c0, c1, c2, c3, c4, c5, c6, c7, c8)); }
                10 => { let mut it = kids.into_iter(); let c0 = it.next().unwrap(); let c1 = it.next().unwrap(); let c2 = it.next().unwrap(); let c3 = it.next().unwrap(); let c4 = it.next().unwrap(); let c5 = it.next().unwrap(); let c6 = it.next().unwrap(); let c7 = it.next().unwrap(); let c8 = it.next().unwrap(); let c9 = it.next().unwrap(); dc.push((c0, c1, c2, c3, c4, c5, c6, c7, c8, c9)); }
                11 => { let mut it = kids.into_iter(); let c0 = it.next().unwrap(); let c1 = it.next().unwrap(); let c2 = it.next().unwrap(); let c3 = it.next().unwrap(); let c4 = it.next().unwrap(); let c5 = it.next().unwrap(); let c6 = it.next().unwrap(); let c7 = it.next().unwrap(); let c8 = it.next().unwrap(); let c9 = it.next().unwrap(); let c10 = it.next().unwrap(); dc.push((c0, c1, c2, c3, c4, c5, c6, c7, c8, c9, c10)); }
                12 => { let mut it = kids.into_iter(); let c0 = it.next().unwrap(); let c1 = it.next().unwrap(); let c2 = it.next().unwrap(); let c3 = it.next().unwrap(); let c4 = it.next().unwrap(); let c5 = it.next().unwrap(); let c6 = it.next().unwrap(); let c7 = it.next().unwrap(); let c8 = it.next().unwrap(); let c9 = it.next().unwrap(); let c10 = it.next().unwrap(); let c11 = it.next().unwrap(); dc.push((c0, c1, c2, c3, c4, c5, c6, c7, c8, c9, c10, c11)); }
                13 => { let mut it = kids.into_iter(); let c0 = it.next().unwrap(); let c1 = it.next().unwrap(); let c2 = it.next().unwrap(); let c3 = it.next().unwrap(); let c4 = it.next().unwrap(); let c5 = it.next().unwrap(); let c6 = it.next().unwrap(); let c7 = it.next().unwrap(); let c8 = it.next().unwrap(); let c9 = it.next().unwrap(); let c10 = it.next().unwrap(); let c11 = it.next().unwrap(); let c12 = it.next().unwrap(); dc.push((c0, c1, c2, c3, c4, c5, c6, c7, c8, c9, c10, c11, c12)); }
                14 => { let mut it = kids.into_iter(); let c0 = it.next().unwrap(); let c1 = it.next().unwrap(); let c2 = it.next().unwrap(); let c3 = it.next().unwrap(); let c4 = it.next().unwrap(); let c5 = it.next().unwrap(); let c6 = it.next().unwrap(); let c7 = it.next().unwrap(); let c8 = it.next().unwrap(); let c9 = it.next().unwrap(); let c10 = it.next().unwrap(); let c11 = it.next().unwrap(); let c12 = it.next().unwrap(); let c13 = it.next().unwrap(); dc.push((c0, c1, c2, c3, c4, c5, c6, c7, c8, c9, c10, c11, c12, c13)); }
                15 => { let mut it = kids.into_iter(); let c0 = it.next().unwrap(); let c1 = it.next().unwrap(); let c2 = it.next().unwrap(); let c3 = it.next().unwrap(); let c4 = it.next().unwrap(); let c5 = it.next().unwrap(); let c6 = it.next().unwrap(); let c7 = it.next().unwrap(); let c8 = it.next().unwrap(); let c9 = it.next().unwrap(); let c10 = it.next().unwrap(); let c11 = it.next().unwrap(); let c12 = it.next().unwrap(); let c13 = it.next().unwrap(); let c14 = it.next().unwrap(); dc.push((c0, c1, c2, c3, c4, c5, c6, c7, c8, c9, c10, c11, c12, c13, c14)); }
                16 => { let mut it = kids.into_iter(); let c0 = it.next().unwrap(); let c1 = it.next().unwrap(); let c2 = it.next().unwrap(); let c3 = it.next().unwrap(); let c4 = it.next().unwrap(); let c5 = it.next().unwrap(); let c6 = it.next().unwrap(); let c7 = it.next().unwrap(); let c8 = it.next().unwrap(); let c9 = it.next().unwrap(); let c10 = it.next().unwrap(); let c11 = it.next().unwrap(); let c12 = it.next().unwrap(); let c13 = it.next().unwrap(); let c14 = it.next().unwrap(); let c15 = it.next().unwrap(); dc.push((c0, c1, c2, c3, c4, c5, c6, c7, c8, c9, c10, c11, c12, c13, c14, c15)); }
                _ => {
                    for k in kids {
                        dc.push(k);
                    }
                }
            }
        }
    }
    dc
}

// ---------------------------------------------------------------------------------------------
// threads

type Job = Box<dyn FnOnce() + Send>;

pub struct Workers {
    txs: Vec<mpsc::Sender<Job>>,
}

impl Workers {
    pub fn new(n: usize) -> Self {
        let mut txs = vec![];
        for k in 0..n {
            let (tx, rx) = mpsc::channel::<Job>();
            std::thread::Builder::new()
                .name(format!("w{k}"))
                .stack_size(16 << 20)
                .spawn(move || {
                    while let Ok(job) = rx.recv() {
                        job();
                    }
                })
                .unwrap();
            txs.push(tx);
        }
        Self { txs }
    }

    /// run `f` on worker `t` and wait for its result
    pub fn on<R: Send + 'static>(&self, t: usize, f: impl FnOnce() -> R + Send + 'static) -> R {
        let (rtx, rrx) = mpsc::channel();
        self.txs[t % self.txs.len()]
            .send(Box::new(move || {
                let _ = rtx.send(f());
            }))
            .unwrap();
        rrx.recv().expect("worker died")
    }
}

// ---------------------------------------------------------------------------------------------
// execution

pub enum Caught<T> {
    Ok(T),
    User,
    Msg(String),
}

/// `fresh` = 1: builds a mock with an unmet expectation during the unwind and drops it; 2: also a clone, original dropped first
struct FreshOnDrop(u8);
impl Drop for FreshOnDrop {
    fn drop(&mut self) {
        if self.0 == 0 { return; }
        let u = Unimock::new(crate::universe::U1Mock::b.some_call(matching!(_)).returns(1i64));
        if self.0 == 2 {
            let c = u.clone();
            drop(u);
            drop(c);
        } else {
            drop(u);
        }
    }
}

pub fn catch<T>(f: impl FnOnce() -> T) -> Caught<T> {
    match catch_unwind(AssertUnwindSafe(f)) {
        Ok(v) => Caught::Ok(v),
        Err(payload) => {
            if payload.is::<UserPanic>() {
                Caught::User
            } else if let Some(s) = payload.downcast_ref::<String>() {
                Caught::Msg(s.clone())
            } else if let Some(s) = payload.downcast_ref::<&'static str>() {
                Caught::Msg(s.to_string())
            } else {
                Caught::Msg("<non-string panic payload>".into())
            }
        }
    }
}

#[derive(Default)]
pub struct WorldRt {
    /// instance slab; `None` = consumed / dropped
    pub insts: BTreeMap<usize, Unimock>,
    /// instance id -> mock index (build order)
    pub mock_of: BTreeMap<usize, usize>,
    pub n_mocks: usize,
}

fn show_pattern(p: &unimock::verif::PatternSnapshot) -> String {
    let starts: Vec<String> = p.response_indexes.iter().map(|s| s.to_string()).collect();
    format!(
        "c{}/r{}-{}/m{}/e{}/s{}/k{}/f{}{}",
        p.count,
        p.range.0,
        p.range.1,
        p.minimum,
        p.exactness,
        starts.join("."),
        p.responder_kinds.join("."),
        p.has_matcher as u8,
        p.has_debug as u8
    )
}

pub fn state_lines(w: &WorldRt) -> Vec<String> {
    let mut out = vec![];
    for sh in 0..w.n_mocks {
        let live = w.insts.iter().find(|(i, _)| w.mock_of.get(i) == Some(&sh));
        match live {
            None => out.push(format!("state\tsh={sh}\tdead")),
            Some((_, u)) => {
                let s = unimock::verif::snapshot(u);
                let mut fns: Vec<String> = s
                    .fns
                    .iter()
                    .map(|f| {
                        let pats: Vec<String> = f.patterns.iter().map(show_pattern).collect();
                        format!(
                            "{}::{}:{}:d{}:[{}]",
                            f.trait_ident,
                            f.method_ident,
                            if f.in_order { "ord" } else { "any" },
                            f.has_default_impl as u8,
                            pats.join(";")
                        )
                    })
                    .collect();
                fns.sort();
                let mut line = format!(
                    "state\tsh={sh}\tfb={}\tnext={}\tstrong={}\tfns={}\treasons",
                    if s.fallback_unmock { "unmock" } else { "error" },
                    s.next_ordered,
                    s.strong_count,
                    fns.join(" ")
                );
                for (kind, msg) in s.reasons.iter() {
                    line.push('\t');
                    line.push_str(kind);
                    line.push('\t');
                    line.push_str(&esc(msg));
                }
                out.push(line);
            }
        }
    }
    out
}

/// Execute one event; returns the trace line. Must be called on the thread named by the event.
pub fn exec_event(w: &mut WorldRt, ev: &Event) -> String {
    match ev {
        Event::Build { i, partial, tree, .. } => {
            let r = catch(|| {
                let clause = build_tree(tree);
                if *partial {
                    Unimock::new_partial(clause)
                } else {
                    Unimock::new(clause)
                }
            });
            match r {
                Caught::Ok(u) => {
                    w.insts.insert(*i, u);
                    w.mock_of.insert(*i, w.n_mocks);
                    w.n_mocks += 1;
                    "built".into()
                }
                Caught::Msg(m) => format!("build-panic\t{}", esc(&m)),
                Caught::User => "build-panic\t<user>".into(),
            }
        }
        Event::Call { i, mid, a, .. } => {
            let Some(u) = w.insts.get(i) else { return "bad-event".into() };
            let _ = take_log();
            let r = catch(|| call_method(u, *mid, *a));
            let log = take_log().join(",");
            match r {
                Caught::Ok(v) => format!("call\tret\t{v}\t{log}"),
                Caught::User => format!("call\tuser-panic\t\t{log}"),
                Caught::Msg(m) => format!("call\tpanic\t{}\t{log}", esc(&m)),
            }
        }
        Event::Clone { i, j, .. } => {
            let Some(u) = w.insts.get(i) else { return "bad-event".into() };
            let c = u.clone();
            let sh = w.mock_of[i];
            w.insts.insert(*j, c);
            w.mock_of.insert(*j, sh);
            "ok".into()
        }
        Event::Drop { i, unwind, .. } => {
            let Some(u) = w.insts.remove(i) else { return "bad-event".into() };
            let r = if *unwind {
                catch(move || {
                    let _guard = u;
                    user_panic()
                })
            } else {
                catch(move || drop(u))
            };
            match r {
                Caught::Ok(()) => "teardown\tok".into(),
                Caught::User => "teardown\tok".into(),
                Caught::Msg(m) => format!("teardown\tpanic\t{}", esc(&m)),
            }
        }
        Event::UnwindCall { i, mid, a, also, wrap, fresh, .. } => {
            let Some(u) = w.insts.remove(i) else { return "bad-event".into() };
            let mut others = vec![];
            for j in also {
                if let Some(o) = w.insts.remove(j) {
                    others.push(o);
                }
            }
            let _ = take_log();
            let (mid, a, wrap, fresh) = (*mid, *a, *wrap, *fresh);
            // everything below is dropped while the thread unwinds from the panic raised inside
            let r = catch(move || {
                // dropped first while unwinding: a fixture whose cleanup builds (and drops) a mock of its own
                let _fixture = FreshOnDrop(fresh);
                let _others = others;
                // the holders stay alive until the panic below unwinds through this frame
                let boxed: Option<Box<Unimock>>;
                let rc: Option<(std::rc::Rc<Unimock>, std::rc::Rc<Unimock>)>;
                let arc: Option<std::sync::Arc<Unimock>>;
                let plain: Option<Unimock>;
                match wrap {
                    1 => { boxed = Some(Box::new(u)); rc = None; arc = None; plain = None; }
                    2 => { let r = std::rc::Rc::new(u); rc = Some((r.clone(), r)); boxed = None; arc = None; plain = None; }
                    3 => { arc = Some(std::sync::Arc::new(u)); boxed = None; rc = None; plain = None; }
                    _ => { plain = Some(u); boxed = None; rc = None; arc = None; }
                }
                let target: &Unimock = if let Some(b) = &boxed { b } else if let Some((r, _)) = &rc { r } else if let Some(a) = &arc { a } else { plain.as_ref().unwrap() };
                let v = call_method(target, mid, a);
                let _ = v;
                user_panic()
            });
            let log = take_log().join(",");
            match r {
                Caught::Ok(()) => "unwound\tno-panic".into(),
                Caught::User => format!("unwound\tuser\t\t{log}"),
                Caught::Msg(m) => format!("unwound\tpanic\t{}\t{log}", esc(&m)),
            }
        }
        Event::Consume { i, a, .. } => {
            let Some(u) = w.insts.remove(i) else { return "bad-event".into() };
            let _ = take_log();
            let a = *a;
            let r = catch(move || U2::consume(u, a));
            let log = take_log().join(",");
            match r {
                Caught::Ok(v) => format!("call\tret\t{v}\t{log}"),
                Caught::User => format!("call\tuser-panic\t\t{log}"),
                Caught::Msg(m) => format!("call\tpanic\t{}\t{log}", esc(&m)),
            }
        }
        Event::Verify { i, .. } => {
            let Some(u) = w.insts.remove(i) else { return "bad-event".into() };
            match catch(move || u.verify()) {
                Caught::Ok(()) => "teardown\tok".into(),
                Caught::User => "teardown\tuser?".into(),
                Caught::Msg(m) => format!("teardown\tpanic\t{}", esc(&m)),
            }
        }
        Event::NoVerify { i, .. } => {
            let Some(u) = w.insts.remove(i) else { return "bad-event".into() };
            match catch(move || u.no_verify_in_drop()) {
                Caught::Ok(u) => {
                    w.insts.insert(*i, u);
                    "ok".into()
                }
                Caught::User => "teardown\tuser?".into(),
                Caught::Msg(m) => format!("teardown\tpanic\t{}", esc(&m)),
            }
        }
        Event::Report { i, .. } => {
            let Some(u) = w.insts.remove(i) else { return "bad-event".into() };
            // `impl Termination for Unimock` exists with the `std` feature only (configuration B is built without it)
            #[cfg(verif_nostd)]
            { drop(u); "bad-event".into() }
            #[cfg(not(verif_nostd))]
            match catch(move || std::process::Termination::report(u)) {
                Caught::Ok(code) => {
                    // exactly SUCCESS or exactly FAILURE; any other exit code is printed as it is
                    let c = format!("{code:?}");
                    if c == format!("{:?}", std::process::ExitCode::SUCCESS) { "exit\t0".into() }
                    else if c == format!("{:?}", std::process::ExitCode::FAILURE) { "exit\t1".into() }
                    else { format!("exit\tother:{}", c.replace(' ', "")) }
                }
                Caught::User => "teardown\tuser?".into(),
                Caught::Msg(m) => format!("teardown\tpanic\t{}", esc(&m)),
            }
        }
    }
}

fn event_thread(ev: &Event) -> usize {
    match ev {
        Event::Build { t, .. }
        | Event::Call { t, .. }
        | Event::Clone { t, .. }
        | Event::Drop { t, .. }
        | Event::Verify { t, .. }
        | Event::NoVerify { t, .. }
        | Event::UnwindCall { t, .. }
        | Event::Consume { t, .. }
        | Event::Report { t, .. } => *t,
    }
}

/// Run a whole scenario; every event runs on its worker thread. Returns the trace lines.
pub fn run_scenario(workers: &Workers, sc: &Scenario) -> Vec<String> {
    let mut out = vec![];
    let world = std::sync::Arc::new(std::sync::Mutex::new(WorldRt::default()));
    for ev in sc.events.iter() {
        let t = event_thread(ev);
        let ev2 = ev.clone();
        let w2 = world.clone();
        let lines = workers.on(t, move || {
            let mut w = w2.lock().unwrap_or_else(|e| e.into_inner());
            let line = exec_event(&mut w, &ev2);
            let mut lines = vec![line];
            lines.extend(state_lines(&w));
            lines
        });
        out.extend(lines);
    }
    // release whatever is left without verification noise: forget originals' expectations
    let w2 = world.clone();
    workers.on(0, move || {
        let mut w = w2.lock().unwrap_or_else(|e| e.into_inner());
        let insts = std::mem::take(&mut w.insts);
        for (_, u) in insts {
            let _ = catch(move || drop(u));
        }
    });
    out
}
