//! Controlled scheduler: real OS threads, exactly one runnable at a time, hand-over at every
//! `unimock::verif::yield_point` (before every atomic operation, lock acquisition and try_insert).

use std::cell::Cell;
use std::sync::{Arc, Condvar, Mutex};

pub const MAIN: usize = usize::MAX;

pub struct Inner {
    pub turn: usize,
    pub finished: Vec<bool>,
    pub choices: Vec<usize>,
    pub pos: usize,
    /// (choice taken, number of enabled threads) per decision
    pub trace: Vec<(usize, usize)>,
    /// thread picked at each decision
    pub picks: Vec<usize>,
    pub tags: Vec<Vec<&'static str>>,
    pub rng: u64,
    pub random: bool,
}

pub struct Sched {
    pub inner: Mutex<Inner>,
    pub cv: Condvar,
}

thread_local! {
    static TID: Cell<Option<usize>> = const { Cell::new(None) };
}

static ACTIVE: Mutex<Option<Arc<Sched>>> = Mutex::new(None);

fn active() -> Option<Arc<Sched>> {
    ACTIVE.lock().unwrap_or_else(|e| e.into_inner()).clone()
}

fn hook(tag: &'static str) {
    if let Some(tid) = TID.with(|t| t.get()) {
        if let Some(s) = active() {
            s.yield_now(tid, tag);
        }
    }
}

pub fn install() {
    unimock::verif::set_yield_hook(hook);
}

fn splitmix(x: &mut u64) -> u64 {
    *x = x.wrapping_add(0x9E3779B97F4A7C15);
    let mut z = *x;
    z = (z ^ (z >> 30)).wrapping_mul(0xBF58476D1CE4E5B9);
    z = (z ^ (z >> 27)).wrapping_mul(0x94D049BB133111EB);
    z ^ (z >> 31)
}

impl Inner {
    /// decide who runs next; returns MAIN when everybody is finished
    fn pick(&mut self) -> usize {
        let enabled: Vec<usize> = (0..self.finished.len()).filter(|t| !self.finished[*t]).collect();
        if enabled.is_empty() {
            return MAIN;
        }
        let n = enabled.len();
        let c = if self.pos < self.choices.len() {
            self.choices[self.pos].min(n - 1)
        } else if self.random {
            (splitmix(&mut self.rng) % n as u64) as usize
        } else {
            0
        };
        self.pos += 1;
        self.trace.push((c, n));
        self.picks.push(enabled[c]);
        enabled[c]
    }
}

impl Sched {
    pub fn new(nthreads: usize, choices: Vec<usize>, random_seed: Option<u64>) -> Arc<Self> {
        Arc::new(Sched {
            inner: Mutex::new(Inner {
                turn: MAIN,
                finished: vec![false; nthreads],
                choices,
                pos: 0,
                trace: vec![],
                picks: vec![],
                tags: vec![vec![]; nthreads],
                rng: random_seed.unwrap_or(0),
                random: random_seed.is_some(),
            }),
            cv: Condvar::new(),
        })
    }

    fn yield_now(&self, tid: usize, tag: &'static str) {
        let mut g = self.inner.lock().unwrap_or_else(|e| e.into_inner());
        g.tags[tid].push(tag);
        let next = g.pick();
        g.turn = next;
        self.cv.notify_all();
        while g.turn != tid {
            g = self.cv.wait(g).unwrap_or_else(|e| e.into_inner());
        }
    }

    fn start(&self, tid: usize) {
        TID.with(|t| t.set(Some(tid)));
        let mut g = self.inner.lock().unwrap_or_else(|e| e.into_inner());
        while g.turn != tid {
            g = self.cv.wait(g).unwrap_or_else(|e| e.into_inner());
        }
    }

    fn finish(&self, tid: usize) {
        TID.with(|t| t.set(None));
        let mut g = self.inner.lock().unwrap_or_else(|e| e.into_inner());
        g.finished[tid] = true;
        let next = g.pick();
        g.turn = next;
        self.cv.notify_all();
    }

    /// Run the given thread bodies under this scheduler; returns when all have finished.
    pub fn run<'a>(self: &Arc<Self>, bodies: Vec<Box<dyn FnOnce() + Send + 'a>>) {
        *ACTIVE.lock().unwrap_or_else(|e| e.into_inner()) = Some(self.clone());
        std::thread::scope(|scope| {
            for (tid, body) in bodies.into_iter().enumerate() {
                let me = self.clone();
                scope.spawn(move || {
                    me.start(tid);
                    body();
                    me.finish(tid);
                });
            }
            {
                let mut g = self.inner.lock().unwrap_or_else(|e| e.into_inner());
                let first = g.pick();
                g.turn = first;
                self.cv.notify_all();
                while g.turn != MAIN {
                    g = self.cv.wait(g).unwrap_or_else(|e| e.into_inner());
                }
            }
        });
        *ACTIVE.lock().unwrap_or_else(|e| e.into_inner()) = None;
    }
}

/// next DFS prefix after a run with decision trace `trace`, or None when the space is exhausted
pub fn next_prefix(trace: &[(usize, usize)]) -> Option<Vec<usize>> {
    let mut i = trace.len();
    while i > 0 {
        i -= 1;
        let (c, n) = trace[i];
        if c + 1 < n {
            let mut p: Vec<usize> = trace[..i].iter().map(|x| x.0).collect();
            p.push(c + 1);
            return Some(p);
        }
    }
    None
}
