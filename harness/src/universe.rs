//! The fixed universe of mocked methods used by the runtime correspondence scenarios.
//! Mirror of `/verif/lean/Unimock/Driver/Universe.lean`.
//!
//! Method ids 0..7: two traits `U0`, `U1` with four methods each: `a` (unmock fn), `b` (nothing),
//! `c` (default body), `d` (default body + unmock fn). Inputs are `u8` codes 0..7, outputs `i64`.

use std::cell::RefCell;
use unimock::*;

thread_local! {
    /// log of user code invocations of the current top-level call on this thread
    pub static LOG: RefCell<Vec<String>> = RefCell::new(Vec::new());
}

pub fn log(entry: String) {
    LOG.with(|l| l.borrow_mut().push(entry));
}

pub fn take_log() -> Vec<String> {
    LOG.with(|l| std::mem::take(&mut *l.borrow_mut()))
}

pub struct UserPanic;

pub fn user_panic() -> ! {
    std::panic::panic_any(UserPanic)
}

macro_rules! universe_trait {
    ($tr:ident, $api:ident, $base:expr, $real_a:ident, $real_d:ident) => {
        #[unimock(api=$api, unmock_with=[$real_a, _, _, $real_d])]
        pub trait $tr {
            fn a(&self, x: u8) -> i64;
            fn b(&self, x: u8) -> i64;
            fn c(&self, x: u8) -> i64 {
                let mid = $base + 2;
                log(format!("dflt:{}:{}", mid, x));
                let leaf = 3000 + 10 * mid as i64 + x as i64;
                match x {
                    4 => leaf + self.d(0),
                    5 => leaf + self.c(4),
                    6 => user_panic(),
                    7 => {
                        let v = self.d(1);
                        let w = self.a(2);
                        leaf + v + w
                    }
                    _ => leaf,
                }
            }
            fn d(&self, x: u8) -> i64 {
                let mid = $base + 3;
                log(format!("dflt:{}:{}", mid, x));
                let leaf = 3000 + 10 * mid as i64 + x as i64;
                match x {
                    4 => leaf + self.a(0),
                    5 => leaf + self.d(4),
                    6 => user_panic(),
                    7 => {
                        let v = self.a(1);
                        let w = self.b(2);
                        leaf + v + w
                    }
                    _ => leaf,
                }
            }
        }

        pub fn $real_a(u: &impl $tr, x: u8) -> i64 {
            let mid = $base + 0;
            log(format!("real:{}:{}", mid, x));
            let leaf = 2000 + 10 * mid as i64 + x as i64;
            match x {
                4 => leaf + u.b(0),
                5 => leaf + u.a(4),
                6 => user_panic(),
                7 => {
                    let v = u.b(1);
                    let w = u.c(2);
                    leaf + v + w
                }
                _ => leaf,
            }
        }

        pub fn $real_d(u: &impl $tr, x: u8) -> i64 {
            let mid = $base + 3;
            log(format!("real:{}:{}", mid, x));
            let leaf = 2000 + 10 * mid as i64 + x as i64;
            match x {
                4 => leaf + u.a(0),
                5 => leaf + u.d(4),
                6 => user_panic(),
                7 => {
                    let v = u.a(1);
                    let w = u.b(2);
                    leaf + v + w
                }
                _ => leaf,
            }
        }
    };
}

universe_trait!(U0, U0Mock, 0u8, real_u0_a, real_u0_d);
universe_trait!(U1, U1Mock, 4u8, real_u1_a, real_u1_d);

/// by-value receiver with a provided method (C11/C15): ids 8 (`r`, required) and 9 (`consume`, provided)
#[unimock(api=U2Mock)]
pub trait U2 {
    fn r(&self, x: u8) -> i64;
    fn consume(self, x: u8) -> i64
    where
        Self: Sized,
    {
        log(format!("dflt:9:{}", x));
        let v = self.r(x);
        if x == 6 {
            user_panic()
        }
        4000 + v
    }
}

pub const N_METHODS: u8 = 8;

pub fn sibling(mid: u8, k: u8) -> u8 {
    (mid / 4) * 4 + (mid + k) % 4
}

/// call method `mid` on a mock instance
pub fn call_method(u: &Unimock, mid: u8, x: u8) -> i64 {
    match mid {
        0 => U0::a(u, x),
        1 => U0::b(u, x),
        2 => U0::c(u, x),
        3 => U0::d(u, x),
        4 => U1::a(u, x),
        5 => U1::b(u, x),
        6 => U1::c(u, x),
        7 => U1::d(u, x),
        8 => U2::r(u, x),
        _ => panic!("bad method id"),
    }
}

/// The answer function with id `f` for method `mid`.
pub fn answer_fn(f: u32, mid: u8) -> impl Fn(&Unimock, u8) -> i64 + Send + Sync + 'static {
    move |u: &Unimock, x: u8| {
        log(format!("ans:{}:{}", f, x));
        let leaf = -((f as i64) * 10 + x as i64);
        if f % 10 == 9 {
            user_panic()
        } else if f % 10 == 7 {
            let _parked: &Unimock = u.make_ref(u.clone());
            leaf
        } else if f % 10 == 6 {
            // lend a value unique to this call through the mock and read it back: another call's value would show
            static SERIAL: std::sync::atomic::AtomicI64 = std::sync::atomic::AtomicI64::new(1);
            let k = SERIAL.fetch_add(1, std::sync::atomic::Ordering::SeqCst);
            let r: &i64 = u.make_ref(k);
            if *r == k { leaf } else { 777_777 }
        } else if f % 10 == 8 {
            leaf + call_method(u, sibling(mid, 1), 0)
        } else {
            leaf
        }
    }
}

/// Expands `$body` once per universe method with `$F` bound to its `MockFn` type/value.
#[macro_export]
macro_rules! with_mock_fn {
    ($mid:expr, $F:ident => $body:expr) => {
        match $mid {
            0 => { #[allow(non_upper_case_globals)] let $F = $crate::universe::U0Mock::a; $body }
            1 => { let $F = $crate::universe::U0Mock::b; $body }
            2 => { let $F = $crate::universe::U0Mock::c; $body }
            3 => { let $F = $crate::universe::U0Mock::d; $body }
            4 => { let $F = $crate::universe::U1Mock::a; $body }
            5 => { let $F = $crate::universe::U1Mock::b; $body }
            6 => { let $F = $crate::universe::U1Mock::c; $body }
            7 => { let $F = $crate::universe::U1Mock::d; $body }
            8 => { let $F = $crate::universe::U2Mock::r; $body }
            _ => panic!("bad method id"),
        }
    };
}
