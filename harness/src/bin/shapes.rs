//! shapes: behavioural validation of what `#[unimock]` generates, on hand-written traits spanning
//! receiver kinds, arities with same-typed neighbours, parameter classes, async / impl-Future methods,
//! unmock forms and provided methods. Every case is a model-free oracle: it prints `case <name> ok`
//! or `case <name> FAIL <what was observed>`.
use std::future::Future;
use std::pin::Pin;
use std::rc::Rc;
use std::sync::{Arc, Mutex};
use std::task::{Context, Poll, Wake, Waker};
use unimock::*;

static SEEN: Mutex<Vec<String>> = Mutex::new(Vec::new());
fn see(s: String) { SEEN.lock().unwrap().push(s); }
fn seen() -> Vec<String> { std::mem::take(&mut *SEEN.lock().unwrap()) }

struct NoopWake;
impl Wake for NoopWake { fn wake(self: Arc<Self>) {} }
fn block_on<F: Future>(f: F) -> F::Output {
    let waker = Waker::from(Arc::new(NoopWake));
    let mut cx = Context::from_waker(&waker);
    let mut f = std::pin::pin!(f);
    loop { if let Poll::Ready(v) = f.as_mut().poll(&mut cx) { return v; } }
}

// ---------------------------------------------------------------- traits
#[unimock(api=RefMock, unmock_with=[real_ref2, real_ref3(p2, self, p0), _, _])]
trait RefT {
    fn r_m2(&self, p0: u32, p1: u32) -> u32;
    fn r_m3(&self, p0: u32, p1: &u32, p2: &mut u32) -> u32;
    fn r_req(&self, p0: u32, p1: u32) -> u32;
    fn r_prov(&self, p0: u32, p1: u32) -> u32 { see(format!("prov({p0},{p1})")); self.r_req(p1, p0) + 1 }
}
/// an argument whose `Debug` counts its renderings (and can be told to panic): a matched, answered call never renders it
pub struct CountDbg(pub u32);
static DBG_RENDERINGS: std::sync::atomic::AtomicUsize = std::sync::atomic::AtomicUsize::new(0);
impl std::fmt::Debug for CountDbg {
    fn fmt(&self, f: &mut std::fmt::Formatter<'_>) -> std::fmt::Result {
        DBG_RENDERINGS.fetch_add(1, std::sync::atomic::Ordering::SeqCst);
        if self.0 == 66 { panic!("Debug of CountDbg(66) must not run") }
        write!(f, "CountDbg({})", self.0)
    }
}
#[unimock(api=DbgMock, unmock_with=[_, _, real_dbg_u, _])]
trait DbgT {
    fn dbg_m2(&self, p0: CountDbg, p1: &mut u32) -> u32;
    async fn dbg_a1(&self, p0: CountDbg) -> u32;
    fn dbg_u(&self, p0: CountDbg) -> u32;
    fn dbg_d(&self, p0: CountDbg) -> u32 { see(format!("dflt({})", p0.0)); p0.0 + 3 }
}
fn real_dbg_u(_: &impl DbgT, p0: CountDbg) -> u32 { see(format!("real({})", p0.0)); p0.0 + 2 }

/// a trait whose mock API is hidden (plain `#[unimock]`): its provided methods still run their own bodies over the same mock
#[unimock]
trait HidT: RefT {
    fn h_version(&self) -> u32 { 3 }
    fn h_twice(&self, p0: u32) -> u32 { see(format!("twice({p0})")); self.r_req(p0, 1) + self.r_req(p0, 2) }
}

/// associated constants configured in the attribute: a default body reads the mock's value, not the trait's default
#[unimock(api=KMock, const MAX: u32 = 100; const NAME: &'static str = "mocked";)]
trait KT {
    const MAX: u32 = 1;
    const NAME: &'static str;
    fn k_raw(&self, p0: u32, p1: u32) -> u32;
    fn k_clamp(&self, p0: u32) -> u32 { see(format!("clamp({p0},{})", Self::MAX)); self.k_raw(p0, Self::MAX) }
    fn k_clamp_mut(&mut self, p0: u32) -> u32 { self.k_raw(p0, Self::MAX) + Self::NAME.len() as u32 }
}

/// a `&mut` parameter whose pointee is the method's own type parameter
#[unimock(api=GmMock)]
trait GmT {
    fn gm_push<B: Extend<u8> + AsRef<[u8]> + 'static>(&self, p0: u8, p1: &mut B, p2: usize) -> usize;
}

/// a receiver-less provided function ahead of the mocked methods: `unmock_with` stays positional over ALL trait functions
#[unimock(api=StatMock, unmock_with=[_, real_st_a, real_st_b])]
trait StatT {
    fn st_k() -> u32 { 1 }
    fn st_a(&self, p0: u32) -> u32;
    fn st_b(&self, p0: u32) -> u32;
}
fn real_st_a(_: &impl StatT, p0: u32) -> u32 { see(format!("real_a({p0})")); p0 * 2 }
fn real_st_b(_: &impl StatT, p0: u32) -> u32 { see(format!("real_b({p0})")); p0 * 3 }

/// a generic trait whose `Debug` bound lives in a `where` clause, with methods that have no type parameters of their own
#[unimock(api=WhMock)]
trait WhT<T> where T: std::fmt::Debug + 'static {
    fn wh_put(&self, p0: u8, p1: T) -> u32;
}

#[unimock(api=LtMock)]
trait LtT {
    fn lt_m2<'a>(&self, p0: u32, p1: &'a mut u32) -> u32;
    fn lt_m3<'a, 'b>(&self, p0: &'a u32, p1: &'b mut u32, p2: &'a mut u32) -> u32;
}
fn real_ref2(u: &impl RefT, p0: u32, p1: u32) -> u32 { see(format!("real_ref2({p0},{p1})")); 1000 + p0 * 10 + p1 + u.r_req(p0, p1) }
fn real_ref3(p2: &mut u32, _u: &impl RefT, p0: u32) -> u32 { see(format!("real_ref3({p2},{p0})")); *p2 += 1; 2000 + p0 }

#[unimock(api=MutMock, unmock_with=[real_mut2, real_mut4(p2, self, p0), _])]
trait MutT {
    fn mu_m2(&mut self, p0: u32, p1: u32) -> u32;
    fn mu_m4(&mut self, p0: u32, p1: u32, p2: &mut u32, p3: u32) -> u32;
    fn mu_prov(&mut self, p0: u32, p1: u32) -> u32 { see(format!("prov({p0},{p1})")); self.mu_m2(p1, p0) + 1 }
}
fn real_mut2(_u: &mut impl MutT, p0: u32, p1: u32) -> u32 { see(format!("real_mut2({p0},{p1})")); 1000 + p0 * 10 + p1 }
fn real_mut4(p2: &mut u32, u: &mut impl MutT, p0: u32) -> u32 { see(format!("real_mut4({p2},{p0})")); *p2 += 1; 2000 + u.mu_m2(p0, 1) }

#[unimock(api=OwnMock)]
trait OwnT {
    fn o_req(&self, p0: u32, p1: u32) -> u32;
    fn o_m2(self, p0: u32, p1: u32) -> u32;
    fn o_reqv(self, p0: u32, p1: u32) -> u32;
    fn o_provv(self, p0: u32, p1: u32) -> u32 where Self: Sized { see(format!("provv({p0},{p1})")); self.o_reqv(p1, p0) + 1 }
    fn o_prov(self, p0: u32, p1: u32) -> u32 where Self: Sized { see(format!("prov({p0},{p1})")); self.o_req(p1, p0) + 1 }
    fn o_provr(&self, p0: u32, p1: u32) -> u32 { see(format!("provr({p0},{p1})")); self.o_req(p1, p0) + 2 }
}

#[unimock(api=RcMock)]
trait RcT {
    fn rc_req(&self, p0: u32, p1: u32) -> u32;
    fn rc_m2(self: Rc<Self>, p0: u32, p1: u32) -> u32;
    fn rc_prov(self: Rc<Self>, p0: u32, p1: u32) -> u32 { see(format!("prov({p0},{p1})")); self.rc_req(p1, p0) + 1 }
    fn rc_prov2(self: Rc<Self>, p0: u32, p1: u32) -> u32 { see(format!("prov2({p0},{p1})")); let x = self.rc_req(p1, p0); self.rc_m2(x, p0) + 1 }
}

#[unimock(api=ArcMock)]
trait ArcT {
    fn ar_req(&self, p0: u32, p1: u32) -> u32;
    fn ar_m2(self: Arc<Self>, p0: u32, p1: u32) -> u32;
    fn ar_prov(self: Arc<Self>, p0: u32, p1: u32) -> u32 { see(format!("prov({p0},{p1})")); self.ar_req(p1, p0) + 1 }
    fn ar_prov2(self: Arc<Self>, p0: u32, p1: u32) -> u32 { see(format!("prov2({p0},{p1})")); let x = self.ar_req(p1, p0); self.ar_m2(x, p0) + 1 }
    fn ar_prov3(self: Arc<Self>, p0: u32, p1: u32) -> u32 { see(format!("prov3({p0},{p1})")); let x = self.clone().ar_m2(p0, p1); self.ar_m2(x, p0) + 1 }
}

#[unimock(api=PinMock, unmock_with=[_, real_pin2, _])]
trait PinT {
    fn pi_req(&self, p0: u32, p1: u32) -> u32;
    fn pi_m2(self: Pin<&mut Self>, p0: u32, p1: u32) -> u32;
    fn pi_prov(self: Pin<&mut Self>, p0: u32, p1: u32) -> u32 { see(format!("prov({p0},{p1})")); self.pi_req(p1, p0) + 1 }
}

fn real_pin2(u: Pin<&mut impl PinT>, p0: u32, p1: u32) -> u32 { see(format!("real_pin2({p0},{p1})")); 3000 + u.pi_req(p0, p1) }

#[unimock(api=AsyncMock, unmock_with=[real_async2, _])]
trait AsyncT {
    async fn a2(&self, p0: u32, p1: u32) -> u32;
    fn f2(&self, p0: u32, p1: u32) -> impl Future<Output = u32>;
}
async fn real_async2(_u: &impl AsyncT, p0: u32, p1: u32) -> u32 { see(format!("real_async2({p0},{p1})")); 1000 + p0 * 10 + p1 }

#[unimock(api=GenMock)]
trait GenT<T: 'static + std::fmt::Debug> {
    fn g2(&self, p0: T, p1: T) -> T;
    fn i2(&self, p0: impl Into<u32> + 'static, p1: u32) -> u32;
}

#[derive(Debug, Clone, PartialEq)]
pub struct UnitS;
#[unimock(api=SelMock)]
trait SelT {
    fn z0(&self) -> u32;
    fn zu(&self, x: ()) -> u32;
    fn zs(&self, x: UnitS) -> u32;
    fn two(&self, a: u8, b: &str) -> u32;
}

// ---------------------------------------------------------------- cases
fn check(name: &str, ok: bool, detail: String) {
    if ok { println!("case {name} ok") } else { println!("case {name} FAIL {detail}") }
}

fn count_of(u: &Unimock, method: &str) -> usize {
    unimock::verif::snapshot(u).fns.iter().filter(|f| f.method_ident == method).flat_map(|f| f.patterns.iter().map(|p| p.count)).sum()
}

fn run_case(name: &str, f: impl FnOnce() + std::panic::UnwindSafe) {
    let _ = seen();
    if let Err(p) = std::panic::catch_unwind(f) {
        let msg = p.downcast_ref::<String>().cloned().or_else(|| p.downcast_ref::<&str>().map(|s| s.to_string())).unwrap_or_default();
        println!("case {name} FAIL panicked: {}", msg.replace('\n', " "));
    }
}

fn main() {
    std::panic::set_hook(Box::new(|_| {}));
    // --- &self: matcher and answer see the arguments in order; result unchanged
    run_case("ref.m2.matcher+answer", || {
        let u = Unimock::new(RefMock::r_m2.each_call(&|m| m.func(|(a, b), _| { see(format!("match({a},{b})")); true })).answers(&|_, a, b| { see(format!("ans({a},{b})")); a * 100 + b }));
        let r = u.r_m2(3, 7);
        let s = seen();
        check("ref.m2.matcher+answer", r == 307 && s == ["match(3,7)", "ans(3,7)"], format!("ret={r} seen={s:?}"));
    });
    run_case("ref.m3.mutation", || {
        let u = Unimock::new(RefMock::r_m3.each_call(&|m| m.func(|(a, b, c), _| { see(format!("match({a},{b},{c})")); true })).answers(&|_, a, b, c| { see(format!("ans({a},{b},{c})")); *c += 10; a + *b }));
        let mut z = 5;
        let r = u.r_m3(1, &2, &mut z);
        let s = seen();
        check("ref.m3.mutation", r == 3 && z == 15 && s == ["match(1,2,5)", "ans(1,2,5)"], format!("ret={r} z={z} seen={s:?}"));
    });
    // lifetimes spelled out on the references themselves (not inside the pointee): arguments are presented like those of `&mut T`
    run_case("ref.m2.named-lifetime-mut", || {
        let u = Unimock::new(LtMock::lt_m2.each_call(&|m| m.func(|(a, b), _| { see(format!("match({a:?},{b:?})")); true })).answers(&|_, a, b| { see(format!("ans({a:?},{b:?})")); *b += a; *b }));
        let mut z = 40;
        let r = u.lt_m2(2, &mut z);
        let s = seen();
        check("ref.m2.named-lifetime-mut", r == 42 && z == 42 && s == ["match(2,40)", "ans(2,40)"], format!("ret={r} z={z} seen={s:?}"));
    });
    run_case("ref.m3.named-lifetime-mut", || {
        let u = Unimock::new(LtMock::lt_m3.each_call(&|m| m.func(|(a, b, c), _| { see(format!("match({a:?},{b:?},{c:?})")); true })).answers(&|_, a, b, c| { see(format!("ans({a:?},{b:?},{c:?})")); *b += 1; *c += 2; *a }));
        let (mut y, mut z) = (5, 6);
        let r = u.lt_m3(&9, &mut y, &mut z);
        let s = seen();
        check("ref.m3.named-lifetime-mut", r == 9 && y == 6 && z == 8 && s == ["match(9,5,6)", "ans(9,5,6)"], format!("ret={r} y={y} z={z} seen={s:?}"));
    });
    run_case("ref.m2.named-lifetime-mut.rendering", || {
        let u = Unimock::new(LtMock::lt_m2.each_call(matching!(100, _)).returns(0u32)).no_verify_in_drop();
        let mut z = 5;
        let msg = match std::panic::catch_unwind(std::panic::AssertUnwindSafe(|| u.lt_m2(1, &mut z))) { Ok(v) => format!("returned {v}"), Err(p) => p.downcast_ref::<String>().cloned().unwrap_or_default() };
        check("ref.m2.named-lifetime-mut.rendering", msg.contains("LtT::lt_m2(1, 5)"), msg.replace('\n', " "));
    });
    // arguments are handed to the matcher and the answer as they are: their `Debug` is for error messages only
    run_case("ref.m2.debug-not-rendered", || {
        let u = Unimock::new(DbgMock::dbg_m2.each_call(&|m| m.func(|(a, b), _| { see(format!("match({},{})", a.0, b)); true })).answers(&|_, a, b| { see(format!("ans({},{})", a.0, b)); *b += 1; a.0 + *b }));
        let before = DBG_RENDERINGS.load(std::sync::atomic::Ordering::SeqCst);
        let mut z = 5;
        let r = u.dbg_m2(CountDbg(66), &mut z);
        let s = seen();
        let n = DBG_RENDERINGS.load(std::sync::atomic::Ordering::SeqCst) - before;
        check("ref.m2.debug-not-rendered", r == 72 && z == 6 && n == 0 && s == ["match(66,5)", "ans(66,5)"], format!("ret={r} z={z} renderings={n} seen={s:?}"));
    });
    run_case("async.a1.debug-not-rendered", || {
        let u = Unimock::new(DbgMock::dbg_a1.each_call(&|m| m.func(|a, _| { see(format!("match({})", a.0)); true })).answers(&|_, a| { see(format!("ans({})", a.0)); a.0 + 1 }));
        let before = DBG_RENDERINGS.load(std::sync::atomic::Ordering::SeqCst);
        let r = block_on(u.dbg_a1(CountDbg(66)));
        let s = seen();
        let n = DBG_RENDERINGS.load(std::sync::atomic::Ordering::SeqCst) - before;
        check("async.a1.debug-not-rendered", r == 67 && n == 0 && s == ["match(66)", "ans(66)"], format!("ret={r} renderings={n} seen={s:?}"));
    });
    // no clause mentions the method: the default body / the registered function run, and the arguments' `Debug` stays out of it
    run_case("ref.default.unmentioned.debug-not-rendered", || {
        let u = Unimock::new(());
        let before = DBG_RENDERINGS.load(std::sync::atomic::Ordering::SeqCst);
        let r = u.dbg_d(CountDbg(66));
        let s = seen();
        let n = DBG_RENDERINGS.load(std::sync::atomic::Ordering::SeqCst) - before;
        check("ref.default.unmentioned.debug-not-rendered", r == 69 && n == 0 && s == ["dflt(66)"], format!("ret={r} renderings={n} seen={s:?}"));
    });
    run_case("ref.unmock.fallthrough.debug-not-rendered", || {
        let u = Unimock::new_partial(());
        let before = DBG_RENDERINGS.load(std::sync::atomic::Ordering::SeqCst);
        let r = u.dbg_u(CountDbg(66));
        let s = seen();
        let n = DBG_RENDERINGS.load(std::sync::atomic::Ordering::SeqCst) - before;
        check("ref.unmock.fallthrough.debug-not-rendered", r == 68 && n == 0 && s == ["real(66)"], format!("ret={r} renderings={n} seen={s:?}"));
    });
    run_case("ref.default.hidden-api", || {
        let u = Unimock::new(RefMock::r_req.each_call(matching!(_, _)).answers(&|_, a, b| { see(format!("req({a},{b})")); a * 10 + b }));
        let r = (u.h_version(), u.h_twice(4));
        let s = seen();
        check("ref.default.hidden-api", r == (3, 83) && s == ["twice(4)", "req(4,1)", "req(4,2)"], format!("ret={r:?} seen={s:?}"));
    });
    run_case("ref.default.assoc-const", || {
        let mut u = Unimock::new(KMock::k_raw.each_call(matching!(_, 100)).answers(&|_, a, b| a.min(b)));
        let r = (<Unimock as KT>::MAX, u.k_clamp(500), u.k_clamp(7), u.k_clamp_mut(500));
        let s = seen();
        check("ref.default.assoc-const", r == (100, 100, 7, 106) && s == ["clamp(500,100)", "clamp(7,100)"], format!("ret={r:?} seen={s:?}"));
    });
    run_case("ref.m3.generic-mut-pointee", || {
        let u = Unimock::new(GmMock::gm_push.with_types::<Vec<u8>>().each_call(&|m| m.func(|(a, b, c), _| { see(format!("match({a},{:?},{c})", b.as_slice())); b.is_empty() })).answers(&|_, a, b, c| { b.push(a); b.len() + c })).no_verify_in_drop();
        let mut v: Vec<u8> = vec![];
        let r = u.gm_push(7, &mut v, 10);
        let s = seen();
        let again = std::panic::catch_unwind(std::panic::AssertUnwindSafe(|| u.gm_push(8, &mut v, 10))).is_err();   // the matcher sees the now non-empty buffer and rejects
        let _ = seen();
        check("ref.m3.generic-mut-pointee", r == 11 && v == [7] && again && s == ["match(7,[],10)"], format!("ret={r} v={v:?} rejected={again} seen={s:?}"));
    });
    run_case("ref.unmock.path", || {
        let u = Unimock::new((RefMock::r_m2.each_call(matching!(_, _)).applies_unmocked(), RefMock::r_req.each_call(matching!(_, _)).answers(&|_, a, b| { see(format!("req({a},{b})")); a + b })));
        let r = u.r_m2(3, 7);
        let s = seen();
        check("ref.unmock.path", r == 1037 + 10 && s == ["real_ref2(3,7)", "req(3,7)"] && count_of(&u, "r_req") == 1, format!("ret={r} seen={s:?}"));
    });
    run_case("ref.unmock.listed", || {
        let u = Unimock::new_partial(());
        let mut z = 40;
        let r = u.r_m3(9, &0, &mut z);
        let s = seen();
        check("ref.unmock.listed", r == 2009 && z == 41 && s == ["real_ref3(40,9)"], format!("ret={r} z={z} seen={s:?}"));
    });
    run_case("ref.unmock.none-registered", || {
        let u = Unimock::new(RefMock::r_req.each_call(matching!(_, _)).applies_unmocked());
        let r = std::panic::catch_unwind(std::panic::AssertUnwindSafe(|| RefT::r_req(&u, 1, 2)));
        let msg = r.err().and_then(|p| p.downcast_ref::<String>().cloned()).unwrap_or_default();
        let _ = std::panic::catch_unwind(std::panic::AssertUnwindSafe(move || drop(u)));
        check("ref.unmock.none-registered", msg.contains("RefT::r_req cannot be unmocked"), format!("msg={msg:?}"));
    });
    // a provided method without a registered function: resolving to "unmock" (explicit clause, or partial-mock fall-through of a
    // rejected call) panics naming the method and is remembered — the default body is not a stand-in for the real implementation
    run_case("ref.unmock.none-registered.provided", || {
        let u = Unimock::new(RefMock::r_prov.each_call(matching!(_, _)).applies_unmocked());
        let r = std::panic::catch_unwind(std::panic::AssertUnwindSafe(|| u.r_prov(1, 2)));
        let msg = match &r { Ok(v) => format!("returned {v}"), Err(p) => p.downcast_ref::<String>().cloned().unwrap_or_default() };
        let s = seen();
        let v = std::panic::catch_unwind(std::panic::AssertUnwindSafe(move || u.verify())).err().and_then(|p| p.downcast_ref::<String>().cloned()).unwrap_or_default();
        check("ref.unmock.none-registered.provided", msg.contains("RefT::r_prov cannot be unmocked") && s.is_empty() && v.contains("RefT::r_prov cannot be unmocked"), format!("msg={msg:?} seen={s:?} verify={v:?}"));
    });
    run_case("ref.unmock.none-registered.provided-partial", || {
        let u = Unimock::new_partial(RefMock::r_prov.each_call(matching!(9, 9)).returns(1u32).at_least_times(0));
        let r = std::panic::catch_unwind(std::panic::AssertUnwindSafe(|| u.r_prov(1, 2)));
        let msg = match &r { Ok(v) => format!("returned {v}"), Err(p) => p.downcast_ref::<String>().cloned().unwrap_or_default() };
        let s = seen();
        let _ = std::panic::catch_unwind(std::panic::AssertUnwindSafe(move || drop(u)));
        check("ref.unmock.none-registered.provided-partial", msg.contains("RefT::r_prov cannot be unmocked") && s.is_empty(), format!("msg={msg:?} seen={s:?}"));
    });
    run_case("own.unmock.none-registered.provided", || {
        let u = Unimock::new(OwnMock::o_prov.each_call(matching!(_, _)).applies_unmocked()).no_verify_in_drop();
        let r = std::panic::catch_unwind(std::panic::AssertUnwindSafe(move || u.o_prov(1, 2)));
        let msg = match &r { Ok(v) => format!("returned {v}"), Err(p) => p.downcast_ref::<String>().cloned().unwrap_or_default() };
        let s = seen();
        check("own.unmock.none-registered.provided", msg.contains("OwnT::o_prov cannot be unmocked") && s.is_empty(), format!("msg={msg:?} seen={s:?}"));
    });
    run_case("rc.unmock.none-registered.provided", || {
        let u = Rc::new(Unimock::new(RcMock::rc_prov.each_call(matching!(_, _)).applies_unmocked()).no_verify_in_drop());
        let r = std::panic::catch_unwind(std::panic::AssertUnwindSafe(move || u.rc_prov(1, 2)));
        let msg = match &r { Ok(v) => format!("returned {v}"), Err(p) => p.downcast_ref::<String>().cloned().unwrap_or_default() };
        let s = seen();
        check("rc.unmock.none-registered.provided", msg.contains("RcT::rc_prov cannot be unmocked") && s.is_empty(), format!("msg={msg:?} seen={s:?}"));
    });
    run_case("ref.default.delegation", || {
        let u = Unimock::new(RefMock::r_req.each_call(matching!(_, _)).answers(&|_, a, b| { see(format!("req({a},{b})")); a * 10 + b }).n_times(2));
        let r = u.r_prov(3, 7);
        let d = RefT::r_req(&u, 1, 1);
        let s = seen();
        check("ref.default.delegation", r == 74 && d == 11 && s == ["prov(3,7)", "req(7,3)", "req(1,1)"], format!("ret={r} direct={d} seen={s:?}"));
    });
    run_case("ref.default.explicit", || {
        let u = Unimock::new((RefMock::r_prov.next_call(matching!(3, 7)).applies_default_impl(), RefMock::r_req.next_call(matching!(7, 3)).returns(5u32)));
        let r = u.r_prov(3, 7);
        check("ref.default.explicit", r == 6, format!("ret={r}"));
    });
    // --- &mut self
    run_case("mut.m2.matcher+answer", || {
        let mut u = Unimock::new(MutMock::mu_m2.each_call(&|m| m.func(|(a, b), _| { see(format!("match({a},{b})")); true })).answers(&|_, a, b| { see(format!("ans({a},{b})")); a * 100 + b }));
        let r = u.mu_m2(3, 7);
        let s = seen();
        check("mut.m2.matcher+answer", r == 307 && s == ["match(3,7)", "ans(3,7)"], format!("ret={r} seen={s:?}"));
    });
    run_case("mut.m4.order+mutation", || {
        let mut u = Unimock::new(MutMock::mu_m4.each_call(&|m| m.func(|(a, b, c, d), _| { see(format!("match({a},{b},{c},{d})")); true })).answers(&|_, a, b, c, d| { see(format!("ans({a},{b},{c},{d})")); *c += 10; a * 1000 + b * 100 + d }));
        let mut z = 5;
        let r = u.mu_m4(1, 2, &mut z, 4);
        let s = seen();
        check("mut.m4.order+mutation", r == 1204 && z == 15 && s == ["match(1,2,5,4)", "ans(1,2,5,4)"], format!("ret={r} z={z} seen={s:?}"));
    });
    run_case("mut.default.delegation", || {
        let mut u = Unimock::new(MutMock::mu_m2.each_call(matching!(_, _)).answers(&|_, a, b| { see(format!("m2({a},{b})")); a * 10 + b }).n_times(2));
        let r = u.mu_prov(3, 7);
        let d = u.mu_m2(1, 1);
        let s = seen();
        check("mut.default.delegation", r == 74 && d == 11 && s == ["prov(3,7)", "m2(7,3)", "m2(1,1)"], format!("ret={r} direct={d} seen={s:?}"));
    });
    run_case("mut.unmock.path", || {
        let mut u = Unimock::new_partial(());
        let r = u.mu_m2(3, 7);
        let s = seen();
        check("mut.unmock.path", r == 1037 && s == ["real_mut2(3,7)"], format!("ret={r} seen={s:?}"));
    });
    run_case("mut.unmock.listed", || {
        let mut u = Unimock::new_partial(());
        let mut z = 40;
        let r = u.mu_m4(9, 0, &mut z, 0);
        let s = seen();
        check("mut.unmock.listed", r == 3091 && z == 41 && s == ["real_mut4(40,9)", "real_mut2(9,1)"], format!("ret={r} z={z} seen={s:?}"));
    });
    run_case("mut.unmock.explicit+none-registered", || {
        let mut u = Unimock::new((MutMock::mu_m2.next_call(matching!(1, 2)).applies_unmocked(), MutMock::mu_prov.next_call(matching!(_, _)).applies_unmocked())).no_verify_in_drop();
        let r = u.mu_m2(1, 2);
        let s = seen();
        let e = std::panic::catch_unwind(std::panic::AssertUnwindSafe(|| u.mu_prov(1, 2)));
        let msg = match &e { Ok(v) => format!("returned {v}"), Err(p) => p.downcast_ref::<String>().cloned().unwrap_or_default() };
        check("mut.unmock.explicit+none-registered", r == 1012 && s == ["real_mut2(1,2)"] && msg.contains("MutT::mu_prov cannot be unmocked"), format!("ret={r} seen={s:?} msg={msg:?}"));
    });
    run_case("pin.unmock.path", || {
        let mut u = Unimock::new_partial(PinMock::pi_req.each_call(matching!(_, _)).answers(&|_, a, b| { see(format!("req({a},{b})")); a * 10 + b }));
        let r = Pin::new(&mut u).pi_m2(3, 7);
        let s = seen();
        check("pin.unmock.path", r == 3037 && s == ["real_pin2(3,7)", "req(3,7)"], format!("ret={r} seen={s:?}"));
    });
    // --- by value, Rc, Arc, Pin
    run_case("own.m2+default", || {
        let u = Unimock::new((OwnMock::o_m2.each_call(matching!(_, _)).answers(&|_, a, b| { see(format!("ans({a},{b})")); a * 100 + b }), OwnMock::o_req.each_call(matching!(_, _)).answers(&|_, a, b| { see(format!("req({a},{b})")); a * 10 + b })));
        let c = u.clone();
        let r = c.o_m2(3, 7);
        let r2 = u.clone().o_prov(3, 7);
        let s = seen();
        check("own.m2+default", r == 307 && r2 == 74 && s == ["ans(3,7)", "prov(3,7)", "req(7,3)"], format!("ret={r} prov={r2} seen={s:?}"));
    });
    run_case("own.default.original-consumed", || {
        let u = Unimock::new(OwnMock::o_req.each_call(matching!(_, _)).answers(&|_, a, b| { see(format!("req({a},{b})")); a * 10 + b }));
        let r = u.o_prov(3, 7);
        let s = seen();
        check("own.default.original-consumed", r == 74 && s == ["prov(3,7)", "req(7,3)"], format!("ret={r} seen={s:?}"));
    });
    run_case("own.default.byvalue-required", || {
        let u = Unimock::new(OwnMock::o_reqv.each_call(matching!(_, _)).answers(&|_, a, b| { see(format!("reqv({a},{b})")); a * 10 + b }));
        let r = u.o_provv(3, 7);
        let s = seen();
        check("own.default.byvalue-required", r == 74 && s == ["provv(3,7)", "reqv(7,3)"], format!("ret={r} seen={s:?}"));
    });
    // pattern selection for inputs of other shapes than one scalar: zero-sized inputs, several inputs. The first declared
    // pattern whose matcher accepts answers; a rejecting matcher is consulted (and never counted) whatever the input type
    run_case("sel.zero-sized-inputs", || {
        let counts = |u: &Unimock, m: &str| -> Vec<usize> { unimock::verif::snapshot(u).fns.iter().filter(|f| f.method_ident == m).flat_map(|f| f.patterns.iter().map(|p| p.count)).collect() };
        let u = Unimock::new((
            SelMock::z0.each_call(&|m| m.func(|_, _| false)).returns(1u32).at_least_times(0),
            SelMock::z0.each_call(matching!()).returns(2u32).at_least_times(0),
            SelMock::zu.each_call(&|m| m.func(|_, _| false)).returns(1u32).at_least_times(0),
            SelMock::zu.each_call(matching!(_)).returns(2u32).at_least_times(0),
            SelMock::zs.each_call(&|m| m.func(|_, _| false)).returns(1u32).at_least_times(0),
            SelMock::zs.each_call(matching!(UnitS)).returns(2u32).at_least_times(0),
        ));
        let r = (u.z0(), u.zu(()), u.zs(UnitS), u.z0());
        let c = (counts(&u, "z0"), counts(&u, "zu"), counts(&u, "zs"));
        check("sel.zero-sized-inputs", r == (2, 2, 2, 2) && c == (vec![0, 2], vec![0, 1], vec![0, 1]), format!("ret={r:?} counts={c:?}"));
    });
    run_case("sel.zero-sized-rejected", || {
        let u = Unimock::new(SelMock::z0.each_call(&|m| m.func(|_, _| false)).returns(1u32).at_least_times(0)).no_verify_in_drop();
        let r = std::panic::catch_unwind(std::panic::AssertUnwindSafe(|| u.z0()));
        let msg = match &r { Ok(v) => format!("answered {v}"), Err(p) => p.downcast_ref::<String>().cloned().unwrap_or_default() };
        check("sel.zero-sized-rejected", r.is_err() && msg.contains("No matching call patterns"), msg);
    });
    run_case("sel.two-inputs-first-accepting", || {
        let u = Unimock::new((
            SelMock::two.each_call(matching!(1, "x")).returns(10u32).at_least_times(0),
            SelMock::two.each_call(matching!(_, "x")).returns(20u32).at_least_times(0),
            SelMock::two.each_call(matching!(1, _)).returns(30u32).at_least_times(0),
            SelMock::two.each_call(matching!(_, _)).returns(40u32).at_least_times(0),
        ));
        let r = (u.two(1, "x"), u.two(2, "x"), u.two(1, "y"), u.two(2, "y"), u.two(1, "x"));
        check("sel.two-inputs-first-accepting", r == (10, 20, 30, 40, 10) && count_of(&u, "two") == 5, format!("ret={r:?}"));
    });
    // the original consumed by a by-value provided method still verifies (at the end of the default body): unmet expectations are reported
    run_case("own.default.unmet-verifies", || {
        let u = Unimock::new((
            OwnMock::o_req.each_call(matching!(_, _)).answers(&|_, a, b| a * 10 + b),
            OwnMock::o_m2.next_call(matching!(1, 1)).returns(5u32).n_times(2),
        ));
        let r = std::panic::catch_unwind(std::panic::AssertUnwindSafe(move || u.o_prov(3, 7)));
        let _ = seen();
        let msg = match &r { Ok(v) => format!("returned {v} silently"), Err(p) => p.downcast_ref::<String>().cloned().unwrap_or_default() };
        check("own.default.unmet-verifies", r.is_err() && msg.contains("o_m2"), msg.replace('\n', " "));
    });
    run_case("own.default.met-silent", || {
        let u = Unimock::new((
            OwnMock::o_req.each_call(matching!(_, _)).answers(&|_, a, b| a * 10 + b),
            OwnMock::o_m2.each_call(matching!(1, 1)).returns(5u32).at_least_times(0),
        ));
        let c = u.clone();
        let _ = c.o_m2(1, 1);
        let r = u.o_prov(3, 7);
        let _ = seen();
        check("own.default.met-silent", r == 74, format!("ret={r}"));
    });
    run_case("rc.m2", || {
        let u = Rc::new(Unimock::new(RcMock::rc_m2.each_call(matching!(_, _)).answers(&|_, a, b| { see(format!("ans({a},{b})")); a * 100 + b })));
        let r = u.clone().rc_m2(3, 7);
        let s = seen();
        check("rc.m2", r == 307 && s == ["ans(3,7)"], format!("ret={r} seen={s:?}"));
    });
    run_case("rc.default.shared-owner", || {
        let u = Rc::new(Unimock::new(RcMock::rc_req.each_call(matching!(_, _)).answers(&|_, a, b| { see(format!("req({a},{b})")); a * 10 + b })));
        let r = u.clone().rc_prov(3, 7);
        let s = seen();
        check("rc.default.shared-owner", r == 74 && s == ["prov(3,7)", "req(7,3)"], format!("ret={r} seen={s:?}"));
    });
    run_case("rc.default.sole-owner", || {
        let u = Rc::new(Unimock::new(RcMock::rc_req.each_call(matching!(_, _)).answers(&|_, a, b| { see(format!("req({a},{b})")); a * 10 + b })));
        let r = u.rc_prov(3, 7);
        let s = seen();
        check("rc.default.sole-owner", r == 74 && s == ["prov(3,7)", "req(7,3)"], format!("ret={r} seen={s:?}"));
    });
    // a sole Rc owner whose default body goes on to consume the Rc in a required method; and one with an unmet expectation
    run_case("rc.default.sole-owner-nested", || {
        let u = Rc::new(Unimock::new((
            RcMock::rc_req.each_call(matching!(_, _)).answers(&|_, a, b| { see(format!("req({a},{b})")); a * 10 + b }),
            RcMock::rc_m2.each_call(matching!(_, _)).answers(&|_, a, b| { see(format!("m2({a},{b})")); a + b }),
        )));
        let r = u.rc_prov2(3, 7);
        let s = seen();
        check("rc.default.sole-owner-nested", r == 77 && s == ["prov2(3,7)", "req(7,3)", "m2(73,3)"], format!("ret={r} seen={s:?}"));
    });
    run_case("rc.default.sole-owner-unmet", || {
        let u = Rc::new(Unimock::new((
            RcMock::rc_req.each_call(matching!(_, _)).answers(&|_, a, b| a * 10 + b),
            RcMock::rc_m2.next_call(matching!(1, 1)).returns(5u32).n_times(2),
        )));
        let r = std::panic::catch_unwind(std::panic::AssertUnwindSafe(move || u.rc_prov(3, 7)));
        let _ = seen();
        let msg = match &r { Ok(v) => format!("returned {v} silently"), Err(p) => p.downcast_ref::<String>().cloned().unwrap_or_default() };
        check("rc.default.sole-owner-unmet", r.is_err() && msg.contains("rc_m2"), msg.replace('\n', " "));
    });
    run_case("arc.default.shared-owner", || {
        let u = Arc::new(Unimock::new(ArcMock::ar_req.each_call(matching!(_, _)).answers(&|_, a, b| { see(format!("req({a},{b})")); a * 10 + b })));
        let r = u.clone().ar_prov(3, 7);
        let s = seen();
        check("arc.default.shared-owner", r == 74 && s == ["prov(3,7)", "req(7,3)"], format!("ret={r} seen={s:?}"));
    });
    run_case("arc.default.sole-owner", || {
        let u = Arc::new(Unimock::new(ArcMock::ar_req.each_call(matching!(_, _)).answers(&|_, a, b| { see(format!("req({a},{b})")); a * 10 + b })));
        let r = u.ar_prov(3, 7);
        let s = seen();
        check("arc.default.sole-owner", r == 74 && s == ["prov(3,7)", "req(7,3)"], format!("ret={r} seen={s:?}"));
    });
    // a sole Arc owner whose default body goes on to consume the Arc in a required method (once; twice through a clone of the handle); and one with an unmet expectation
    run_case("arc.default.sole-owner-nested", || {
        let u = Arc::new(Unimock::new((
            ArcMock::ar_req.each_call(matching!(_, _)).answers(&|_, a, b| { see(format!("req({a},{b})")); a * 10 + b }),
            ArcMock::ar_m2.each_call(matching!(_, _)).answers(&|_, a, b| { see(format!("m2({a},{b})")); a + b }),
        )));
        let r = u.ar_prov2(3, 7);
        let s = seen();
        check("arc.default.sole-owner-nested", r == 77 && s == ["prov2(3,7)", "req(7,3)", "m2(73,3)"], format!("ret={r} seen={s:?}"));
    });
    run_case("arc.default.sole-owner-nested-twice", || {
        let u = Arc::new(Unimock::new((
            ArcMock::ar_m2.next_call(matching!(3, 7)).returns(10u32),
            ArcMock::ar_m2.next_call(matching!(10, 3)).returns(100u32),
        )));
        let r = u.ar_prov3(3, 7);
        let s = seen();
        check("arc.default.sole-owner-nested-twice", r == 101 && s == ["prov3(3,7)"], format!("ret={r} seen={s:?}"));
    });
    run_case("arc.default.sole-owner-unmet", || {
        let u = Arc::new(Unimock::new((
            ArcMock::ar_req.each_call(matching!(_, _)).answers(&|_, a, b| a * 10 + b),
            ArcMock::ar_m2.next_call(matching!(1, 1)).returns(5u32).n_times(2),
        )));
        let r = std::panic::catch_unwind(std::panic::AssertUnwindSafe(move || u.ar_prov(3, 7)));
        let _ = seen();
        let msg = match &r { Ok(v) => format!("returned {v} silently"), Err(p) => p.downcast_ref::<String>().cloned().unwrap_or_default() };
        check("arc.default.sole-owner-unmet", r.is_err() && msg.contains("ar_m2"), msg.replace('\n', " "));
    });
    run_case("arc.m2", || {
        let u = Arc::new(Unimock::new(ArcMock::ar_m2.each_call(matching!(_, _)).answers(&|_, a, b| { see(format!("ans({a},{b})")); a * 100 + b })));
        let r = u.clone().ar_m2(3, 7);
        check("arc.m2", r == 307, format!("ret={r}"));
    });
    run_case("pin.m2+default", || {
        let mut u = Unimock::new((PinMock::pi_m2.each_call(matching!(_, _)).answers(&|_, a, b| { see(format!("ans({a},{b})")); a * 100 + b }), PinMock::pi_req.each_call(matching!(_, _)).answers(&|_, a, b| { see(format!("req({a},{b})")); a * 10 + b })));
        let r = Pin::new(&mut u).pi_m2(3, 7);
        let r2 = Pin::new(&mut u).pi_prov(3, 7);
        let s = seen();
        check("pin.m2+default", r == 307 && r2 == 74 && s == ["ans(3,7)", "prov(3,7)", "req(7,3)"], format!("ret={r} prov={r2} seen={s:?}"));
    });
    // --- async
    run_case("async.a2.lazy+once", || {
        let u = Unimock::new(AsyncMock::a2.each_call(matching!(_, _)).answers(&|_, a, b| { see(format!("ans({a},{b})")); a * 100 + b }));
        let fut = u.a2(3, 7);
        let before = count_of(&u, "a2");
        drop(fut);
        let dropped = count_of(&u, "a2");
        let r = block_on(u.a2(3, 7));
        let after = count_of(&u, "a2");
        let s = seen();
        check("async.a2.lazy+once", before == 0 && dropped == 0 && r == 307 && after == 1 && s == ["ans(3,7)"], format!("before={before} dropped={dropped} ret={r} after={after} seen={s:?}"));
    });
    run_case("async.f2.lazy+once", || {
        let u = Unimock::new(AsyncMock::f2.each_call(matching!(_, _)).answers(&|_, a, b| { see(format!("ans({a},{b})")); a * 100 + b }));
        let fut = u.f2(3, 7);
        let before = count_of(&u, "f2");
        drop(fut);
        let dropped = count_of(&u, "f2");
        let f1 = u.f2(1, 2);
        let f2 = u.f2(3, 4);
        let r2 = block_on(f2);
        let r1 = block_on(f1);
        let after = count_of(&u, "f2");
        let s = seen();
        check("async.f2.lazy+once", before == 0 && dropped == 0 && r1 == 102 && r2 == 304 && after == 2 && s == ["ans(3,4)", "ans(1,2)"], format!("before={before} dropped={dropped} r1={r1} r2={r2} after={after} seen={s:?}"));
    });
    run_case("async.unmock.awaited", || {
        let u = Unimock::new_partial(());
        let r = block_on(u.a2(3, 7));
        let s = seen();
        check("async.unmock.awaited", r == 1037 && s == ["real_async2(3,7)"], format!("ret={r} seen={s:?}"));
    });
    // --- selection through matching!: guard over several alternatives, several eq! operands in one alternative, ordered multi-alternative
    run_case("sel.matching-guard-over-alternatives", || {
        let u = Unimock::new((
            SelMock::two.each_call(matching!((1, x) | (2, x) if x.len() > 1)).returns(10u32).at_least_times(0),
            SelMock::two.each_call(matching!(_, _)).returns(20u32).at_least_times(0),
        ));
        let r = (u.two(1, "ab".into()), u.two(2, "ab".into()), u.two(1, "a".into()), u.two(2, "a".into()), u.two(3, "ab".into()));
        check("sel.matching-guard-over-alternatives", r == (10, 10, 20, 20, 20), format!("ret={r:?}"));
    });
    run_case("sel.matching-two-eq-operands", || {
        let u = Unimock::new((
            RefMock::r_m2.each_call(matching!(eq!(&1), eq!(&2))).returns(10u32).at_least_times(0),
            RefMock::r_m2.each_call(matching!(_, _)).returns(20u32).at_least_times(0),
        ));
        let r = (u.r_m2(1, 2), u.r_m2(1, 1), u.r_m2(2, 2), u.r_m2(2, 1));
        check("sel.matching-two-eq-operands", r == (10, 20, 20, 20), format!("ret={r:?}"));
    });
    // an `ident @ subpattern` argument pattern next to wildcards / plain bindings is as refutable as its sub-pattern
    run_case("sel.matching-at-binding", || {
        let u = Unimock::new((
            SelMock::two.each_call(matching!(n @ 1..=5, _)).returns(10u32).at_least_times(0),
            SelMock::two.each_call(matching!(_m @ (7 | 8), _q)).returns(15u32).at_least_times(0),
            SelMock::two.each_call(matching!(_, _)).returns(20u32).at_least_times(0),
        ));
        let r = (u.two(3, "x".into()), u.two(9, "x".into()), u.two(5, "y".into()), u.two(8, "q".into()), u.two(0, "y".into()));
        check("sel.matching-at-binding", r == (10, 20, 10, 15, 20), format!("ret={r:?}"));
    });
    // ordered slot whose pattern has several alternatives under one guard: a call fitting the FIRST alternative with the guard false is rejected
    run_case("ord.matching-guard-over-alternatives", || {
        let mk = || Unimock::new(SelMock::two.next_call(matching!((1, x) | (2, x) if x.len() > 1)).returns(10u32));
        let (u1, u2, u3) = (mk(), mk(), mk());
        let ok = (u1.two(1, "ab".into()), u2.two(2, "ab".into()));
        let r = std::panic::catch_unwind(std::panic::AssertUnwindSafe(|| u3.two(1, "a".into())));
        let msg = match &r { Ok(v) => format!("returned {v}"), Err(p) => p.downcast_ref::<String>().cloned().unwrap_or_default() };
        let _ = std::panic::catch_unwind(std::panic::AssertUnwindSafe(move || drop(u3)));
        check("ord.matching-guard-over-alternatives", ok == (10, 10) && r.is_err() && msg.contains("two"), format!("accepted={ok:?} call-with-guard-false={msg:?}"));
    });
    // a guard over several alternatives applies to every alternative: a call fitting a later alternative with the guard false is
    // rejected — loudly in a strict mock, handed to the registered real function in a partial one — and is not counted
    run_case("ref.unmock.guard-over-alternatives-strict", || {
        let u = Unimock::new(RefMock::r_m2.each_call(matching!((1, x) | (2, x) | (_, x @ 100) if *x > 5)).returns(10u32).at_least_times(0));
        let ok = (u.r_m2(1, 7), u.r_m2(2, 7), u.r_m2(9, 100));
        let r = std::panic::catch_unwind(std::panic::AssertUnwindSafe(|| u.r_m2(2, 3)));
        let msg = match &r { Ok(v) => format!("returned {v}"), Err(p) => p.downcast_ref::<String>().cloned().unwrap_or_default() };
        let n = count_of(&u, "r_m2");
        let _ = std::panic::catch_unwind(std::panic::AssertUnwindSafe(move || drop(u)));
        check("ref.unmock.guard-over-alternatives-strict", ok == (10, 10, 10) && msg.contains("No matching call patterns") && n == 3, format!("accepted={ok:?} rejected-call={msg:?} count={n}"));
    });
    run_case("ref.unmock.guard-over-alternatives-partial", || {
        let u = Unimock::new_partial((RefMock::r_m2.each_call(matching!((1, x) | (2, x) if *x > 5)).returns(10u32).at_least_times(0), RefMock::r_req.each_call(matching!(_, _)).answers(&|_, a, b| { see(format!("req({a},{b})")); a + b })));
        let r = (u.r_m2(2, 7), u.r_m2(2, 3));
        let s = seen();
        let n = count_of(&u, "r_m2");
        check("ref.unmock.guard-over-alternatives-partial", r.0 == 10 && r.1 != 10 && s.first().map(|x| x.as_str()) == Some("real_ref2(2,3)") && n == 1, format!("ret={r:?} seen={s:?} count={n}"));
    });
    // an ordered pattern covering several calls shows EVERY call's own arguments to its matcher, and judges each by them
    run_case("ref.m2.ordered-repeat-matcher-sees-every-call", || {
        let u = Unimock::new(RefMock::r_m2.next_call(&|m| m.func(|(a, b), _| { see(format!("match({a},{b})")); *a < 100 })).answers(&|_, a, b| a + b).n_times(3));
        let r = (u.r_m2(1, 2), u.r_m2(3, 4), u.r_m2(5, 6));
        let s = seen();
        let u2 = Unimock::new(RefMock::r_m2.next_call(matching!(1, _)).returns(5u32).n_times(2));
        let first = u2.r_m2(1, 0);
        let second = std::panic::catch_unwind(std::panic::AssertUnwindSafe(|| u2.r_m2(2, 0)));
        let msg = match &second { Ok(v) => format!("returned {v}"), Err(p) => p.downcast_ref::<String>().cloned().unwrap_or_default() };
        let _ = std::panic::catch_unwind(std::panic::AssertUnwindSafe(move || drop(u2)));
        check("ref.m2.ordered-repeat-matcher-sees-every-call", r == (3, 7, 11) && s == ["match(1,2)", "match(3,4)", "match(5,6)"] && first == 5 && second.is_err() && msg.contains("r_m2"),
              format!("ret={r:?} matcher-saw={s:?} first={first} second-call-with-rejected-arguments={msg:?}"));
    });
    run_case("ord.matching-second-alternative", || {
        let u = Unimock::new((
            SelMock::two.next_call(matching!((1, _) | (_, "z"))).returns(10u32),
            SelMock::two.next_call(matching!((5, "q") | (6, "q"))).returns(20u32),
        ));
        let r = (u.two(9, "z".into()), u.two(6, "q".into()));
        check("ord.matching-second-alternative", r == (10, 20), format!("ret={r:?}"));
    });
    run_case("ref.unmock.after-static-fn", || {
        let u = Unimock::new((StatMock::st_a.each_call(matching!(_)).applies_unmocked(), StatMock::st_b.next_call(matching!(5)).returns(1u32).once().then().applies_unmocked()));
        let r = (u.st_a(5), u.st_b(5), u.st_b(5), <Unimock as StatT>::st_k());
        let s = seen();
        check("ref.unmock.after-static-fn", r == (10, 1, 15, 1) && s == ["real_a(5)", "real_b(5)"], format!("ret={r:?} seen={s:?}"));
    });
    // a rejecting pattern consulted before the deciding one: nothing of the arguments is rendered on a call that is answered
    run_case("ref.m2.debug-not-rendered.after-rejecting-pattern", || {
        let u = Unimock::new((
            DbgMock::dbg_m2.each_call(matching!(CountDbg(1), _)).returns(1u32).at_least_times(0),
            DbgMock::dbg_m2.each_call(matching!(CountDbg(2), _)).returns(2u32).at_least_times(0),
            DbgMock::dbg_m2.each_call(matching!(_, _)).answers(&|_, a, b| a.0 + *b),
        ));
        let before = DBG_RENDERINGS.load(std::sync::atomic::Ordering::SeqCst);
        let mut z = 5;
        let r = u.dbg_m2(CountDbg(66), &mut z);
        let n = DBG_RENDERINGS.load(std::sync::atomic::Ordering::SeqCst) - before;
        check("ref.m2.debug-not-rendered.after-rejecting-pattern", r == 71 && n == 0, format!("ret={r} renderings={n}"));
    });
    // a by-value provided method delegated after a `&self` provided method was delegated on the same instance
    run_case("own.default.after-ref-default", || {
        let u = Unimock::new(OwnMock::o_req.each_call(matching!(_, _)).answers(&|_, a, b| { see(format!("req({a},{b})")); a * 10 + b }).n_times(2));
        let r1 = u.o_provr(3, 7);
        let r2 = u.o_prov(3, 7);
        let s = seen();
        check("own.default.after-ref-default", (r1, r2) == (75, 74) && s == ["provr(3,7)", "req(7,3)", "prov(3,7)", "req(7,3)"], format!("ret=({r1},{r2}) seen={s:?}"));
    });
    // the first `&self` provided call on ONE shared instance made by eight threads at once
    run_case("ref.default.concurrent-first-delegation", || {
        let mut bad = vec![];
        for round in 0..300 {
            let u = Unimock::new(RefMock::r_req.each_call(matching!(_, _)).answers(&|_, a, b| a * 10 + b));
            let barrier = std::sync::Barrier::new(8);
            let res: Vec<Result<u32, String>> = std::thread::scope(|sc| {
                let hs: Vec<_> = (0..8).map(|_| sc.spawn(|| { barrier.wait(); u.r_prov(3, 7) })).collect();
                hs.into_iter().map(|h| h.join().map_err(|p| p.downcast_ref::<String>().cloned().or_else(|| p.downcast_ref::<&str>().map(|s| s.to_string())).unwrap_or_default())).collect()
            });
            let _ = seen();
            if let Some(Err(m)) = res.iter().find(|r| r.is_err()) { bad.push(format!("round {round}: {m}")); break; }
            if res.iter().any(|r| r.as_ref().ok() != Some(&74)) { bad.push(format!("round {round}: {res:?}")); break; }
            let _ = std::panic::catch_unwind(std::panic::AssertUnwindSafe(move || drop(u)));
        }
        check("ref.default.concurrent-first-delegation", bad.is_empty(), bad.join("; "));
    });
    run_case("generic.instances-modes-and-never-called", || {
        // one instantiation ordered, the other unordered: they are different methods, construction succeeds
        let u = Unimock::new((GenMock::g2.with_types::<u32>().next_call(matching!(_, _)).returns(1u32), GenMock::g2.with_types::<String>().each_call(matching!(_, _)).returns("s".to_string())));
        let r1 = <Unimock as GenT<u32>>::g2(&u, 3, 7);
        // the String instantiation is never called: verification says so although its sibling was called
        let v = std::panic::catch_unwind(std::panic::AssertUnwindSafe(move || u.verify()));
        let msg = v.err().and_then(|p| p.downcast_ref::<String>().cloned()).unwrap_or_default();
        check("generic.instances-modes-and-never-called", r1 == 1 && msg.contains("GenT::g2 was never called"), format!("r1={r1} verify={msg:?}"));
    });
    run_case("generic.where-clause-debug-rendering", || {
        let u = Unimock::new(WhMock::wh_put.with_types::<String>().each_call(matching!(9, _)).returns(1u32)).no_verify_in_drop();
        let r = std::panic::catch_unwind(std::panic::AssertUnwindSafe(|| <Unimock as WhT<String>>::wh_put(&u, 2, "b".to_string())));
        let msg = r.err().and_then(|p| p.downcast_ref::<String>().cloned()).unwrap_or_default();
        check("generic.where-clause-debug-rendering", msg.contains("WhT::wh_put(2, \"b\")"), msg.replace('\n', " "));
    });
    // --- generics
    run_case("generic.instances-distinct", || {
        let u = Unimock::new((GenMock::g2.with_types::<u32>().each_call(matching!(_, _)).answers(&|_, a, b| a * 100 + b), GenMock::g2.with_types::<String>().each_call(matching!(_, _)).answers(&|_, a, b| format!("{a}{b}"))));
        let r1 = <Unimock as GenT<u32>>::g2(&u, 3, 7);
        let r2 = <Unimock as GenT<String>>::g2(&u, "x".to_string(), "y".to_string());
        check("generic.instances-distinct", r1 == 307 && r2 == "xy", format!("r1={r1} r2={r2}"));
    });
}
