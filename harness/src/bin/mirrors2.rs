//! mirrors2: wiring of the async and embedded-hal mirrors — every required method is reached through
//! the UPSTREAM trait on a Unimock (its own mock entry point answers), and upstream provided methods
//! (poll_write_vectored, is_write_vectored, poll_read_vectored, I2c::read/write/write_read,
//! SpiDevice::read/write/transfer/transfer_in_place, SetDutyCycle::*) are compared with plain impls.
use std::pin::Pin;
use std::sync::{Arc, Mutex};
use std::task::{Context, Poll, Wake, Waker};
use unimock::*;

struct NoopWake;
impl Wake for NoopWake { fn wake(self: Arc<Self>) {} }

type Log = Arc<Mutex<Vec<String>>>;
fn push(l: &Log, s: String) { l.lock().unwrap().push(s); }
fn dump(l: &Log) -> String { l.lock().unwrap().join(";") }
fn emit(case: &str, mock: String, plain: String) { println!("case {case}\tmock={mock}\tplain={plain}"); }

fn tokio_part(cx: &mut Context<'_>) {
    use tokio_1::io::{AsyncBufRead, AsyncRead, AsyncSeek, AsyncWrite, ReadBuf};
    use unimock::mock::tokio_1::io::*;
    let log: Log = Default::default();
    let (l1, l2, l3) = (log.clone(), log.clone(), log.clone());
    let mut u = Unimock::new((
        AsyncWriteMock::poll_write.each_call(matching!(_, _)).answers_arc(Arc::new(move |_, _, buf| { push(&l1, format!("poll_write{buf:?}")); Poll::Ready(Ok(buf.len().min(2))) })).at_least_times(0),
        AsyncWriteMock::poll_flush.each_call(matching!(_)).answers_arc(Arc::new(move |_, _| { push(&l2, "poll_flush".into()); Poll::Ready(Ok(())) })).at_least_times(0),
        AsyncWriteMock::poll_shutdown.each_call(matching!(_)).answers_arc(Arc::new(move |_, _| { push(&l3, "poll_shutdown".into()); Poll::Pending })).at_least_times(0),
    )).no_verify_in_drop();
    struct P(Log);
    impl AsyncWrite for P {
        fn poll_write(self: Pin<&mut Self>, _: &mut Context<'_>, buf: &[u8]) -> Poll<std::io::Result<usize>> { push(&self.0, format!("poll_write{buf:?}")); Poll::Ready(Ok(buf.len().min(2))) }
        fn poll_flush(self: Pin<&mut Self>, _: &mut Context<'_>) -> Poll<std::io::Result<()>> { push(&self.0, "poll_flush".into()); Poll::Ready(Ok(())) }
        fn poll_shutdown(self: Pin<&mut Self>, _: &mut Context<'_>) -> Poll<std::io::Result<()>> { push(&self.0, "poll_shutdown".into()); Poll::Pending }
    }
    let plog: Log = Default::default();
    let mut p = P(plog.clone());
    let bufs = [std::io::IoSlice::new(&[]), std::io::IoSlice::new(&[7, 8, 9])];
    let a = format!("{:?}/{:?}/{:?}/{:?}/{}", Pin::new(&mut u).poll_write(cx, &[1, 2, 3]).map(|r| r.ok()), Pin::new(&mut u).poll_write_vectored(cx, &bufs).map(|r| r.ok()), Pin::new(&mut u).poll_flush(cx).map(|r| r.ok()), Pin::new(&mut u).poll_shutdown(cx).map(|r| r.ok()), AsyncWrite::is_write_vectored(&u));
    let b = format!("{:?}/{:?}/{:?}/{:?}/{}", Pin::new(&mut p).poll_write(cx, &[1, 2, 3]).map(|r| r.ok()), Pin::new(&mut p).poll_write_vectored(cx, &bufs).map(|r| r.ok()), Pin::new(&mut p).poll_flush(cx).map(|r| r.ok()), Pin::new(&mut p).poll_shutdown(cx).map(|r| r.ok()), p.is_write_vectored());
    emit("tokio.AsyncWrite", format!("{a}|{}", dump(&log)), format!("{b}|{}", dump(&plog)));
    // AsyncRead / AsyncSeek / AsyncBufRead: entry points
    let mut u = Unimock::new((
        AsyncReadMock::poll_read.each_call(matching!(_, _)).answers_arc(Arc::new(|_, _, buf| { buf.put_slice(&[4, 5]); Poll::Ready(Ok(())) })).at_least_times(0),
        AsyncSeekMock::start_seek.each_call(matching!(_)).answers_arc(Arc::new(|_, _| Ok(()))).at_least_times(0),
        AsyncSeekMock::poll_complete.each_call(matching!(_)).answers_arc(Arc::new(|_, _| Poll::Ready(Ok(11)))).at_least_times(0),
        AsyncBufReadMock::poll_fill_buf.each_call(matching!(_)).answers_arc(Arc::new(|u, _| Poll::Ready(Ok(u.make_mut(vec![1u8, 2]).as_slice())))).at_least_times(0),
        AsyncBufReadMock::consume.each_call(matching!(2)).answers_arc(Arc::new(|_, _| ())).at_least_times(0),
    )).no_verify_in_drop();
    let mut store = [0u8; 4];
    let mut rb = ReadBuf::new(&mut store);
    let r1 = Pin::new(&mut u).poll_read(cx, &mut rb).map(|r| r.ok());
    let filled = rb.filled().to_vec();
    let r2 = Pin::new(&mut u).start_seek(std::io::SeekFrom::Start(3)).ok();
    let r3 = Pin::new(&mut u).poll_complete(cx).map(|r| r.ok());
    let r4 = Pin::new(&mut u).poll_fill_buf(cx).map(|r| r.ok().map(|s| s.to_vec()));
    Pin::new(&mut u).consume(2);
    emit("tokio.entry-points", format!("{r1:?}{filled:?}{r2:?}{r3:?}{r4:?}"), "Ready(Some(()))[4, 5]Some(())Ready(Some(11))Ready(Some([1, 2]))".into());
}

fn futures_part(cx: &mut Context<'_>) {
    use futures_io_0_3::{AsyncBufRead, AsyncRead, AsyncSeek, AsyncWrite};
    use unimock::mock::futures_0_3::io::*;
    let log: Log = Default::default();
    let (l1, l2) = (log.clone(), log.clone());
    let mut u = Unimock::new((
        AsyncWriteMock::poll_write.each_call(matching!(_, _)).answers_arc(Arc::new(move |_, _, buf| { push(&l1, format!("poll_write{buf:?}")); Poll::Ready(Ok(buf.len().min(2))) })).at_least_times(0),
        AsyncWriteMock::poll_flush.each_call(matching!(_)).answers_arc(Arc::new(|_, _| Poll::Ready(Ok(())))).at_least_times(0),
        AsyncWriteMock::poll_close.each_call(matching!(_)).answers_arc(Arc::new(|_, _| Poll::Ready(Ok(())))).at_least_times(0),
        AsyncReadMock::poll_read.each_call(matching!(_, _)).answers_arc(Arc::new(move |_, _, buf| { push(&l2, format!("poll_read[{}]", buf.len())); buf[0] = 9; Poll::Ready(Ok(1)) })).at_least_times(0),
        AsyncSeekMock::poll_seek.each_call(matching!(_, _)).answers_arc(Arc::new(|_, _, _| Poll::Ready(Ok(5)))).at_least_times(0),
        AsyncBufReadMock::poll_fill_buf.each_call(matching!(_)).answers_arc(Arc::new(|u, _| Poll::Ready(Ok(u.make_mut(vec![3u8]).as_slice())))).at_least_times(0),
        AsyncBufReadMock::consume.each_call(matching!(1)).answers_arc(Arc::new(|_, _| ())).at_least_times(0),
    )).no_verify_in_drop();
    struct P(Log);
    impl AsyncWrite for P {
        fn poll_write(self: Pin<&mut Self>, _: &mut Context<'_>, buf: &[u8]) -> Poll<std::io::Result<usize>> { push(&self.0, format!("poll_write{buf:?}")); Poll::Ready(Ok(buf.len().min(2))) }
        fn poll_flush(self: Pin<&mut Self>, _: &mut Context<'_>) -> Poll<std::io::Result<()>> { Poll::Ready(Ok(())) }
        fn poll_close(self: Pin<&mut Self>, _: &mut Context<'_>) -> Poll<std::io::Result<()>> { Poll::Ready(Ok(())) }
    }
    impl AsyncRead for P {
        fn poll_read(self: Pin<&mut Self>, _: &mut Context<'_>, buf: &mut [u8]) -> Poll<std::io::Result<usize>> { push(&self.0, format!("poll_read[{}]", buf.len())); buf[0] = 9; Poll::Ready(Ok(1)) }
    }
    let plog: Log = Default::default();
    let mut p = P(plog.clone());
    let bufs = [std::io::IoSlice::new(&[]), std::io::IoSlice::new(&[7, 8, 9])];
    let (mut m1, mut m2, mut p1, mut p2) = ([0u8; 0], [0u8; 2], [0u8; 0], [0u8; 2]);
    let a = format!("{:?}/{:?}/{:?}/{:?}/{:?}/{:?}", Pin::new(&mut u).poll_write_vectored(cx, &bufs).map(|r| r.ok()), Pin::new(&mut u).poll_flush(cx).map(|r| r.ok()), Pin::new(&mut u).poll_close(cx).map(|r| r.ok()),
        Pin::new(&mut u).poll_read_vectored(cx, &mut [std::io::IoSliceMut::new(&mut m1), std::io::IoSliceMut::new(&mut m2)]).map(|r| r.ok()), Pin::new(&mut u).poll_seek(cx, std::io::SeekFrom::End(0)).map(|r| r.ok()), Pin::new(&mut u).poll_fill_buf(cx).map(|r| r.ok().map(|s| s.to_vec())));
    Pin::new(&mut u).consume(1);
    let b = format!("{:?}/{:?}/{:?}/{:?}/Ready(Some(5))/Ready(Some([3]))", Pin::new(&mut p).poll_write_vectored(cx, &bufs).map(|r| r.ok()), Pin::new(&mut p).poll_flush(cx).map(|r| r.ok()), Pin::new(&mut p).poll_close(cx).map(|r| r.ok()),
        Pin::new(&mut p).poll_read_vectored(cx, &mut [std::io::IoSliceMut::new(&mut p1), std::io::IoSliceMut::new(&mut p2)]).map(|r| r.ok()));
    emit("futures.io", format!("{a}{m2:?}|{}", dump(&log)), format!("{b}{p2:?}|{}", dump(&plog)));
}

fn hal_part() {
    use embedded_hal_1::i2c::{I2c, Operation, SevenBitAddress};
    use embedded_hal_1::pwm::SetDutyCycle;
    use embedded_hal_1::spi::{Operation as SpiOp, SpiBus, SpiDevice};
    use unimock::mock::embedded_hal_1::{digital::InputPinMock, i2c::I2cMock, pwm::SetDutyCycleMock, spi::{SpiBusMock, SpiDeviceMock}};
    fn show_ops(ops: &[Operation<'_>]) -> String { ops.iter().map(|o| match o { Operation::Read(b) => format!("R{}", b.len()), Operation::Write(b) => format!("W{b:?}") }).collect::<Vec<_>>().join(",") }
    fn show_spi(ops: &[SpiOp<'_, u8>]) -> String { ops.iter().map(|o| match o { SpiOp::Read(b) => format!("R{}", b.len()), SpiOp::Write(b) => format!("W{b:?}"), SpiOp::Transfer(r, w) => format!("T{}:{w:?}", r.len()), SpiOp::TransferInPlace(b) => format!("I{b:?}"), SpiOp::DelayNs(n) => format!("D{n}") }).collect::<Vec<_>>().join(",") }
    // I2c provided methods over `transaction`
    let log: Log = Default::default();
    let l = log.clone();
    let mut u = Unimock::new(I2cMock::transaction.with_types::<SevenBitAddress>().each_call(matching!(_, _)).answers_arc(Arc::new(move |_, addr, ops| { push(&l, format!("tx({addr},{})", show_ops(ops))); Ok(()) })).at_least_times(0)).no_verify_in_drop();
    struct PI(Log);
    impl embedded_hal_1::i2c::ErrorType for PI { type Error = core::convert::Infallible; }
    impl I2c<SevenBitAddress> for PI { fn transaction(&mut self, addr: u8, ops: &mut [Operation<'_>]) -> Result<(), Self::Error> { push(&self.0, format!("tx({addr},{})", show_ops(ops))); Ok(()) } }
    let plog: Log = Default::default();
    let mut p = PI(plog.clone());
    let mut rb = [0u8; 3];
    let _ = I2c::read(&mut u, 5u8, &mut rb); let _ = I2c::write(&mut u, 6u8, &[1, 2]); let _ = I2c::write_read(&mut u, 7u8, &[9], &mut rb);
    let _ = p.read(5u8, &mut rb); let _ = p.write(6u8, &[1, 2]); let _ = p.write_read(7u8, &[9], &mut rb);
    emit("hal.i2c", dump(&log), dump(&plog));
    // SpiDevice provided methods over `transaction`
    let log: Log = Default::default();
    let l = log.clone();
    let mut u = Unimock::new(SpiDeviceMock::transaction.with_types::<u8>().each_call(matching!(_)).answers_arc(Arc::new(move |_, ops| { push(&l, format!("tx({})", show_spi(ops))); Ok(()) })).at_least_times(0)).no_verify_in_drop();
    struct PS(Log);
    impl embedded_hal_1::spi::ErrorType for PS { type Error = core::convert::Infallible; }
    impl SpiDevice<u8> for PS { fn transaction(&mut self, ops: &mut [SpiOp<'_, u8>]) -> Result<(), Self::Error> { push(&self.0, format!("tx({})", show_spi(ops))); Ok(()) } }
    let plog: Log = Default::default();
    let mut p = PS(plog.clone());
    let (mut b1, mut b2) = ([0u8; 2], [4u8, 5]);
    let _ = SpiDevice::<u8>::read(&mut u, &mut b1); let _ = SpiDevice::<u8>::write(&mut u, &[1u8]); let _ = SpiDevice::<u8>::transfer(&mut u, &mut b1, &[2u8, 3]); let _ = SpiDevice::<u8>::transfer_in_place(&mut u, &mut b2);
    let _ = p.read(&mut b1); let _ = p.write(&[1u8]); let _ = p.transfer(&mut b1, &[2u8, 3]); let _ = p.transfer_in_place(&mut b2);
    emit("hal.spi-device", dump(&log), dump(&plog));
    // SpiBus entry points
    let mut u = Unimock::new((
        SpiBusMock::read.with_types::<u8>().each_call(matching!(_)).answers_arc(Arc::new(|_, w| { w[0] = 1; Ok(()) })).at_least_times(0),
        SpiBusMock::write.with_types::<u8>().each_call(matching!(_)).answers_arc(Arc::new(|_, _| Ok(()))).at_least_times(0),
        SpiBusMock::transfer.with_types::<u8>().each_call(matching!(_, _)).answers_arc(Arc::new(|_, r, w| { r[0] = w[0]; Ok(()) })).at_least_times(0),
        SpiBusMock::transfer_in_place.with_types::<u8>().each_call(matching!(_)).answers_arc(Arc::new(|_, w| { w[0] += 1; Ok(()) })).at_least_times(0),
        SpiBusMock::flush.with_types::<u8>().each_call(matching!()).answers_arc(Arc::new(|_| Ok(()))).at_least_times(0),
    )).no_verify_in_drop();
    let (mut a, mut b, mut c) = ([0u8; 1], [0u8; 1], [5u8; 1]);
    let r = (SpiBus::read(&mut u, &mut a).is_ok(), SpiBus::write(&mut u, &[1u8]).is_ok(), SpiBus::transfer(&mut u, &mut b, &[8u8]).is_ok(), SpiBus::transfer_in_place(&mut u, &mut c).is_ok(), SpiBus::<u8>::flush(&mut u).is_ok());
    emit("hal.spi-bus", format!("{r:?}{a:?}{b:?}{c:?}"), "(true, true, true, true, true)[1][8][6]".into());
    // SetDutyCycle provided methods
    let log: Log = Default::default();
    let l = log.clone();
    let mut u = Unimock::new((SetDutyCycleMock::max_duty_cycle.each_call(matching!()).returns(1000u16).at_least_times(0),
                              SetDutyCycleMock::set_duty_cycle.each_call(matching!(_)).answers_arc(Arc::new(move |_, d| { push(&l, format!("set({d})")); Ok(()) })).at_least_times(0))).no_verify_in_drop();
    struct PP(Log);
    impl embedded_hal_1::pwm::ErrorType for PP { type Error = core::convert::Infallible; }
    impl SetDutyCycle for PP { fn max_duty_cycle(&self) -> u16 { 1000 } fn set_duty_cycle(&mut self, d: u16) -> Result<(), Self::Error> { push(&self.0, format!("set({d})")); Ok(()) } }
    let plog: Log = Default::default();
    let mut p = PP(plog.clone());
    let _ = SetDutyCycle::set_duty_cycle_fully_off(&mut u); let _ = SetDutyCycle::set_duty_cycle_fully_on(&mut u); let _ = SetDutyCycle::set_duty_cycle_fraction(&mut u, 1, 3); let _ = SetDutyCycle::set_duty_cycle_percent(&mut u, 37);
    let _ = p.set_duty_cycle_fully_off(); let _ = p.set_duty_cycle_fully_on(); let _ = p.set_duty_cycle_fraction(1, 3); let _ = p.set_duty_cycle_percent(37);
    emit("hal.pwm", dump(&log), dump(&plog));
    // two instantiations of one mirrored trait in one mock: a provided method stubbed for SevenBitAddress, left alone for TenBitAddress —
    // the un-mocked instantiation still runs the upstream default over its own `transaction`
    {
        use embedded_hal_1::i2c::TenBitAddress;
        let log: Log = Default::default();
        let (l7, l10) = (log.clone(), log.clone());
        let mut u = Unimock::new((
            I2cMock::write.with_types::<SevenBitAddress>().each_call(matching!(_, _)).answers_arc(Arc::new(move |_, addr, w| { push(&l7, format!("write7({addr},{w:?})")); Ok(()) })).at_least_times(0),
            I2cMock::transaction.with_types::<TenBitAddress>().each_call(matching!(_, _)).answers_arc(Arc::new(move |_, addr, ops| { push(&l10, format!("tx10({addr},{})", show_ops(ops))); Ok(()) })).at_least_times(0),
        )).no_verify_in_drop();
        let mut rb = [0u8; 2];
        let pn = std::panic::catch_unwind(std::panic::AssertUnwindSafe(|| {
            let _ = I2c::<SevenBitAddress>::write(&mut u, 6u8, &[1]); let _ = I2c::<TenBitAddress>::write(&mut u, 600u16, &[2, 3]); let _ = I2c::<TenBitAddress>::write_read(&mut u, 601u16, &[4], &mut rb);
        })).err().map(|p| format!(";panicked:{}", p.downcast_ref::<String>().cloned().unwrap_or_default().lines().next().unwrap_or(""))).unwrap_or_default();
        emit("hal.i2c-two-instantiations", format!("{}{pn}", dump(&log)), "write7(6,[1]);tx10(600,W[2, 3]);tx10(601,W[4],R2)".into());
    }
    // a required method answered by a closure that itself calls an un-mocked PROVIDED method on the mock it is handed, reached through
    // another un-mocked provided method (delegation inside delegation)
    {
        use embedded_hal_1::digital::{OutputPin, PinState};
        use unimock::mock::embedded_hal_1::digital::OutputPinMock;
        let log: Log = Default::default();
        let (lh, ll) = (log.clone(), log.clone());
        let mut u = Unimock::new((
            OutputPinMock::set_high.each_call(matching!()).answers_arc(Arc::new(move |u| { push(&lh, "high".into()); OutputPin::set_state(u, PinState::Low) })).at_least_times(0),
            OutputPinMock::set_low.each_call(matching!()).answers_arc(Arc::new(move |_| { push(&ll, "low".into()); Ok(()) })).at_least_times(0),
        )).no_verify_in_drop();
        struct PO(Log);
        impl embedded_hal_1::digital::ErrorType for PO { type Error = core::convert::Infallible; }
        impl OutputPin for PO {
            fn set_high(&mut self) -> Result<(), Self::Error> { push(&self.0, "high".into()); self.set_state(PinState::Low) }
            fn set_low(&mut self) -> Result<(), Self::Error> { push(&self.0, "low".into()); Ok(()) }
        }
        let plog: Log = Default::default();
        let mut p = PO(plog.clone());
        let r = match std::panic::catch_unwind(std::panic::AssertUnwindSafe(|| (OutputPin::set_state(&mut u, PinState::High).is_ok(), OutputPin::set_state(&mut u, PinState::Low).is_ok()))) {
            Ok(r) => format!("{r:?}"),
            Err(p) => format!("panicked:{};", p.downcast_ref::<String>().cloned().unwrap_or_default().lines().next().unwrap_or("")),
        };
        let rp = (p.set_state(PinState::High).is_ok(), p.set_state(PinState::Low).is_ok());
        emit("hal.output-pin-nested-delegation", format!("{r}{}", dump(&log)), format!("{rp:?}{}", dump(&plog)));
    }
    // InputPin + Error kinds: entry points
    let mut u = Unimock::new((InputPinMock::is_high.each_call(matching!()).answers_arc(Arc::new(|_| Ok(true))).at_least_times(0), InputPinMock::is_low.each_call(matching!()).answers_arc(Arc::new(|_| Ok(false))).at_least_times(0))).no_verify_in_drop();
    use embedded_hal_1::digital::InputPin;
    emit("hal.input-pin", format!("{:?}{:?}", InputPin::is_high(&mut u).ok(), InputPin::is_low(&mut u).ok()), "Some(true)Some(false)".into());
}

fn std_error_part() {
    use unimock::mock::std::error::ErrorMock;
    let u = Unimock::new(()).no_verify_in_drop();
    let none = std::error::Error::source(&u).is_none();
    let inner = Unimock::new(()).no_verify_in_drop();
    let u2 = Unimock::new(ErrorMock::source.each_call(matching!()).answers_arc(Arc::new(move |u| Some(u.make_ref(std::fmt::Error) as &(dyn std::error::Error + 'static)))).at_least_times(0)).no_verify_in_drop();
    let _ = inner;
    emit("std.error", format!("{none}{}", std::error::Error::source(&u2).is_some()), "truetrue".into());
    // the first un-mocked `&self` provided call on ONE shared instance, made by eight threads at once
    let mut bad = String::new();
    for round in 0..300 {
        let u = Unimock::new(()).no_verify_in_drop();
        let barrier = std::sync::Barrier::new(8);
        let res: Vec<bool> = std::thread::scope(|sc| {
            let hs: Vec<_> = (0..8).map(|_| sc.spawn(|| { barrier.wait(); std::error::Error::source(&u).is_none() })).collect();
            hs.into_iter().map(|h| h.join().unwrap_or(false)).collect()
        });
        if res.iter().any(|ok| !ok) { bad = format!("round {round}: {res:?}"); break; }
    }
    emit("std.error.concurrent-first-provided-call", bad, String::new());
}

/// a user trait whose supertrait is a mirrored one: its provided method formats `self` — Display and Debug each with
/// format options — through the bundled `Display` / `Debug` mocks, compared with a plain struct
#[unimock(api = ReportMock)]
trait Report: std::error::Error {
    fn code(&self) -> u32;
    fn render(&self) -> String { format!("{}|{self}|{self:>8}|{self:*<6}|{self:.1}|{self:?}|{self:#?}", self.code()) }
}
fn fmt_part() {
    use unimock::mock::core::fmt::{DebugMock, DisplayMock};
    #[derive(Debug)]
    #[allow(dead_code)]
    struct Timeout { ms: u32 }
    struct Plain;
    impl std::fmt::Display for Plain { fn fmt(&self, f: &mut std::fmt::Formatter<'_>) -> std::fmt::Result { f.pad("ab") } }
    impl std::fmt::Debug for Plain { fn fmt(&self, f: &mut std::fmt::Formatter<'_>) -> std::fmt::Result { std::fmt::Debug::fmt(&Timeout { ms: 30 }, f) } }
    impl std::error::Error for Plain {}
    impl Report for Plain { fn code(&self) -> u32 { 7 } }
    let u = Unimock::new((
        ReportMock::code.each_call(matching!()).returns(7u32).at_least_times(0),
        DisplayMock::fmt.each_call(matching!(_)).answers(&|_, f| f.pad("ab")).at_least_times(0),
        DebugMock::fmt.each_call(matching!(_)).answers(&|_, f| std::fmt::Debug::fmt(&Timeout { ms: 30 }, f)).at_least_times(0),
    )).no_verify_in_drop();
    emit("fmt.provided-over-supertrait", u.render().replace('\n', "\\n"), Plain.render().replace('\n', "\\n"));
    // only Debug mocked: the provided method's `{self:?}` must reach DebugMock::fmt, not DisplayMock::fmt
    #[unimock(api = DbgOnlyMock)]
    trait DbgOnly: std::fmt::Debug { fn show(&self) -> String { format!("<{self:?}>") } }
    let u = Unimock::new(DebugMock::fmt.each_call(matching!(_)).answers(&|_, f| f.write_str("dbg")).at_least_times(0)).no_verify_in_drop();
    emit("fmt.debug-only", u.show(), "<dbg>".into());
}

fn main() {
    if std::env::var("MIRROR_VERBOSE").is_err() { std::panic::set_hook(Box::new(|_| {})); }
    let waker = Waker::from(Arc::new(NoopWake));
    let mut cx = Context::from_waker(&waker);
    for (name, f) in [("tokio", &mut (|| tokio_part(&mut Context::from_waker(&Waker::from(Arc::new(NoopWake))))) as &mut dyn FnMut()), ("futures", &mut (|| futures_part(&mut Context::from_waker(&Waker::from(Arc::new(NoopWake)))))), ("hal", &mut hal_part), ("std.error", &mut std_error_part), ("fmt", &mut fmt_part)] {
        if std::panic::catch_unwind(std::panic::AssertUnwindSafe(|| f())).is_err() {
            println!("case {name}.crash\tmock=panicked\tplain=ok");
        }
    }
    let _ = &mut cx;
}
