//! replay: reads scenarios (stdin or file argument), runs them on the real library, prints traces.
use std::io::{Read, Write};
use verif_harness::{proto, runtime};

fn main() {
    std::panic::set_hook(Box::new(|_| {}));
    let args: Vec<String> = std::env::args().collect();
    let mut text = String::new();
    if args.len() > 1 {
        text = std::fs::read_to_string(&args[1]).expect("read scenario file");
    } else {
        std::io::stdin().read_to_string(&mut text).unwrap();
    }
    let workers = runtime::Workers::new(4);
    let stdout = std::io::stdout();
    let mut out = std::io::BufWriter::new(stdout.lock());
    for sc in proto::parse_scenarios(&text) {
        match sc {
            Err(e) => {
                writeln!(out, "scenario ?\nparse-error\t{e}\nend").unwrap();
            }
            Ok(sc) => {
                writeln!(out, "scenario {}", sc.name).unwrap();
                for line in runtime::run_scenario(&workers, &sc) {
                    writeln!(out, "{line}").unwrap();
                }
                writeln!(out, "end").unwrap();
            }
        }
    }
    out.flush().unwrap();
}
