//! crashpoints: user code that panics at the less obvious places the mock calls into — `Debug` of an argument while an
//! error message is rendered, `Clone` of a repeatable return value, `PartialEq` inside `eq!`, `Debug` inside the mismatch
//! report — while mocks (original with unmet expectations, clones, foreign-thread instances) sit in the unwinding
//! frames. One case per process invocation (`crashpoints <case>`): a second panic would abort the process.
//! Prints `case <name> ok <details>` or `case <name> FAIL <why>`.
use std::panic::{catch_unwind, AssertUnwindSafe};
use unimock::*;

struct UserPanic;
fn user_panic() -> ! { std::panic::resume_unwind(Box::new(UserPanic)) }

#[derive(Clone, PartialEq)]
pub struct NoisyDebug(pub u8);
impl std::fmt::Debug for NoisyDebug {
    fn fmt(&self, f: &mut std::fmt::Formatter<'_>) -> std::fmt::Result { if self.0 == 6 { user_panic() } write!(f, "ND({})", self.0) }
}
#[derive(Debug)]
pub struct NoisyClone(pub u8, pub std::sync::Arc<std::sync::atomic::AtomicUsize>);
impl Clone for NoisyClone {
    fn clone(&self) -> Self {
        let n = self.1.fetch_add(1, std::sync::atomic::Ordering::SeqCst);
        if n == 1 { user_panic() }            // the second clone panics
        NoisyClone(self.0, self.1.clone())
    }
}
#[derive(Debug, Clone)]
pub struct NoisyEq(pub u8);
impl PartialEq for NoisyEq { fn eq(&self, o: &Self) -> bool { if self.0 == 6 { user_panic() } self.0 == o.0 } }

#[unimock(api = CpMock)]
pub trait Cp {
    fn dbg(&self, x: NoisyDebug, y: u8) -> u32;
    fn cl(&self) -> NoisyClone;
    fn eqm(&self, x: NoisyEq) -> u32;
    fn other(&self, x: u8) -> u32;
    fn lend(&self) -> &u32;
}

/// a fixture that verifies its (non-verifying-on-drop) mock explicitly when it goes out of scope — also while unwinding
struct VerifyOnDrop(Option<Unimock>);
impl Drop for VerifyOnDrop {
    fn drop(&mut self) { if let Some(u) = self.0.take() { u.verify() } }
}

/// run `f` (which ends in a panic) with `holders` alive in the unwinding frame; returns what was caught
fn unwind_with(holders: Vec<Unimock>, f: impl FnOnce(&Unimock)) -> Result<String, String> {
    let r = catch_unwind(AssertUnwindSafe(move || {
        let hs = holders;
        f(&hs[0]);
    }));
    match r {
        Ok(()) => Err("no panic reached the frame".into()),
        Err(p) => {
            if p.is::<UserPanic>() { Ok("user".into()) }
            else { Ok(format!("mock:{}", p.downcast_ref::<String>().cloned().unwrap_or_default().lines().next().unwrap_or(""))) }
        }
    }
}

fn unmet() -> impl Clause { CpMock::other.next_call(matching!(1)).returns(1u32).n_times(2) }

fn main() {
    std::panic::set_hook(Box::new(|_| {}));
    let case = std::env::args().nth(1).unwrap_or_default();
    let topo = std::env::args().nth(2).unwrap_or_else(|| "orig".into());
    let build = |c: Box<dyn FnOnce() -> Unimock>| -> (Vec<Unimock>, Option<Unimock>) {
        // topology: which instances sit in the unwinding frame, which stay outside
        let u = c();
        match topo.as_str() {
            "orig" => (vec![u], None),
            "orig+clone" => { let c = u.clone(); (vec![u, c], None) }
            "clone-first" => { let c = u.clone(); (vec![c, u], None) }
            "clone-outside" => { let c = u.clone(); (vec![u], Some(c)) }
            _ => { let c = u.clone(); (vec![c], Some(u)) }            // "clone-only": the original stays outside
        }
    };
    let verdict: Result<String, String> = match case.as_str() {
        // Debug of an argument panics while the "no matching call pattern" error is rendered
        "debug-nomatch" => {
            let (hs, out) = build(Box::new(|| Unimock::new((CpMock::dbg.each_call(matching!(_, 1)).returns(7u32), unmet()))));
            let r = unwind_with(hs, |u| { u.dbg(NoisyDebug(6), 2); });
            after(out, r)
        }
        // Debug of an argument panics while "no mock implementation" is rendered
        "debug-nomock" => {
            let (hs, out) = build(Box::new(|| Unimock::new(unmet())));
            let r = unwind_with(hs, |u| { u.dbg(NoisyDebug(6), 2); });
            after(out, r)
        }
        // Debug panics inside the mismatch report of an ordered pattern (inputs not matched in call order)
        "debug-mismatch" => {
            let (hs, out) = build(Box::new(|| Unimock::new((CpMock::dbg.next_call(matching!(NoisyDebug(1), _)).returns(7u32), unmet()))));
            let r = unwind_with(hs, |u| { u.dbg(NoisyDebug(6), 2); });
            after(out, r)
        }
        // Clone of a repeatable return value panics on the second call
        "clone-return" => {
            let cnt = std::sync::Arc::new(std::sync::atomic::AtomicUsize::new(0));
            let v = NoisyClone(3, cnt.clone());
            let (hs, out) = build(Box::new(move || Unimock::new((CpMock::cl.each_call(matching!()).returns(v), unmet()))));
            let r = unwind_with(hs, |u| { let a = u.cl(); assert_eq!(a.0, 3); u.cl(); });
            // the clause is still usable after the caught panic (the third clone succeeds): no lock may have been poisoned
            let r = r.and_then(|got| match &out {
                Some(u) => match catch_unwind(AssertUnwindSafe(|| u.cl().0)) {
                    Ok(3) => Ok(got),
                    Ok(v) => Err(format!("after the caught Clone panic the clause returned {v}")),
                    Err(p) => Err(format!("after the caught Clone panic the same clause panics: {}", p.downcast_ref::<String>().cloned().unwrap_or_default().lines().next().unwrap_or(""))),
                },
                None => Ok(got),
            });
            after(out, r)
        }
        // PartialEq panics inside eq!
        "eq-matcher" => {
            let (hs, out) = build(Box::new(|| Unimock::new((CpMock::eqm.each_call(matching!(eq!(&NoisyEq(1)))).returns(7u32), unmet()))));
            let r = unwind_with(hs, |u| { u.eqm(NoisyEq(6)); });
            after(out, r)
        }
        // an explicit verify() run by a fixture's Drop while the thread unwinds from a user panic: unmet expectation, possibly a live clone
        "verify-in-drop" => {
            let u = Unimock::new(unmet()).no_verify_in_drop();
            let keep = match topo.as_str() { "orig" => None, _ => Some(u.clone()) };
            let r = catch_unwind(AssertUnwindSafe(move || { let _f = VerifyOnDrop(Some(u)); user_panic() }));
            let got = match r { Ok(()) => Err("no panic reached the frame".to_string()), Err(p) => if p.is::<UserPanic>() { Ok("user".to_string()) } else { Ok(format!("mock:{}", p.downcast_ref::<String>().cloned().unwrap_or_default().lines().next().unwrap_or(""))) } };
            after(keep, got)
        }
        // values lent on the creating thread; the instance then dies on another thread that is unwinding from a user panic
        "lent-foreign" => {
            let u = Unimock::new((CpMock::lend.each_call(matching!()).answers(&|u| u.make_ref(5u32)), unmet()));
            let keep = match topo.as_str() { "orig" => None, _ => Some(u.clone()) };
            let a = *u.lend() + *u.lend();
            let j = std::thread::spawn(move || { let _h = u; user_panic() }).join();
            let got = match j { Ok(()) => Err("the thread did not panic".to_string()), Err(p) => if a == 10 && p.is::<UserPanic>() { Ok("user".to_string()) } else { Ok(format!("mock:{}", p.downcast_ref::<String>().cloned().unwrap_or_default().lines().next().unwrap_or(""))) } };
            after(keep, got)
        }
        // an original configured with no_verify_in_drop() after a mock-induced error has been recorded (swallowed on this thread / raised
        // by a clone on a joined worker / the very panic that is unwinding): dropping it while the thread unwinds must stay silent
        "noverify-recorded" => {
            let u = Unimock::new(unmet()).no_verify_in_drop();
            match topo.as_str() {
                "orig" => { let _ = catch_unwind(AssertUnwindSafe(|| { u.other(9); })); }
                "clone-outside" => { let c = u.clone(); let _ = std::thread::spawn(move || { c.other(9); }).join(); }
                _ => {}
            }
            let own = topo == "self";
            let r = catch_unwind(AssertUnwindSafe(move || { let h = u; if own { h.other(9); } user_panic() }));
            match r {
                Ok(()) => Err("no panic reached the frame".to_string()),
                Err(p) if p.is::<UserPanic>() => if own { Err("the mock-induced panic did not reach the frame".to_string()) } else { Ok("user".to_string()) },
                Err(p) => { let m = p.downcast_ref::<String>().cloned().unwrap_or_default(); if own && m.contains("Cp::other") { Ok("mock-induced panic unwound the owner once".to_string()) } else { Err(format!("the frame was unwound by `{}`", m.lines().next().unwrap_or(""))) } }
            }
        }
        _ => Err(format!("unknown case {case}")),
    };
    match verdict {
        Ok(d) => println!("case {case}/{topo} ok {d}"),
        Err(e) => println!("case {case}/{topo} FAIL {e}"),
    }
}

/// the panic that reached the frame must be the user's; whatever stayed outside is still usable and verifies by its counts
fn after(outside: Option<Unimock>, r: Result<String, String>) -> Result<String, String> {
    let got = r?;
    if got != "user" {
        return Err(format!("the frame was unwound by `{got}` instead of the user's panic"));
    }
    if let Some(u) = outside {
        // still usable: the ordered expectation can now be met and verification passes / reports by counts only
        let a = catch_unwind(AssertUnwindSafe(|| (u.other(1), u.other(1))));
        let v = catch_unwind(AssertUnwindSafe(move || drop(u)));
        return Ok(format!("user; outside: calls {:?} teardown {}", a.ok(), if v.is_ok() { "silent" } else { "panicked" }));
    }
    Ok("user".into())
}
