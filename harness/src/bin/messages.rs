//! messages: provokes every mock-induced error kind on methods of several shapes and prints the
//! structured facts of the situation (kind, trait, method, Debug renderings of the arguments, pattern
//! source + file:line or index, call order, …) next to the first line of the real panic message.
//! Line format (TAB separated): msg, id, kind, trait, method, args(\x1f sep, \x1e = no Debug), patkind,
//! src, file, line|index, order, extra, REAL TEXT (first line)
use unimock::*;

pub struct ND(pub u8);

#[unimock(api=MsgMock, unmock_with=[_, _, real_a2, _, _, _, _, _, _])]
trait Msg {
    fn a0(&self) -> u32;
    fn a1(&self, x: u8) -> u32;
    fn a2(&self, x: u8, y: &str) -> u32;
    fn a3(&self, x: &u8, y: &&u8, z: &mut u8) -> u32;
    fn sl(&self, x: &[u8], y: Vec<u8>) -> u32;
    fn nd(&self, x: ND, y: u8) -> u32;
    fn gn<T: 'static>(&self, x: T, y: u8) -> u32;
    fn nd2(&self, x: ND, y: u8, z: ND) -> u32;
    fn prov(&self, x: u8) -> u32 { x as u32 }
}
fn real_a2(_: &impl Msg, x: u8, _y: &str) -> u32 { x as u32 }

fn caught<T>(f: impl FnOnce() -> T) -> String {
    match std::panic::catch_unwind(std::panic::AssertUnwindSafe(f)) {
        Ok(_) => "<no panic>".to_string(),
        Err(p) => p.downcast_ref::<String>().cloned().unwrap_or_else(|| "<non-string>".into()),
    }
}

#[allow(clippy::too_many_arguments)]
fn emit(id: &str, kind: &str, method: &str, args: &[&str], patkind: &str, src: &str, line_or_index: u32, order: u32, extra: &str, real: &str) {
    let first = real.split('\n').next().unwrap_or("");
    println!("msg\t{id}\t{kind}\tMsg\t{method}\t{}\t{patkind}\t{src}\t{}\t{line_or_index}\t{order}\t{extra}\t{first}", args.join("\x1f"), file!());
}

fn main() {
    std::panic::set_hook(Box::new(|_| {}));
    const ND_: &str = "\x1e";
    // ---- NoMockImplementation, every shape
    let u = Unimock::new(()).no_verify_in_drop();
    emit("nmi0", "NoMockImplementation", "a0", &[], "-", "", 0, 0, "", &caught(|| u.a0()));
    emit("nmi1", "NoMockImplementation", "a1", &["7"], "-", "", 0, 0, "", &caught(|| u.a1(7)));
    emit("nmi2", "NoMockImplementation", "a2", &["7", "\"s t\""], "-", "", 0, 0, "", &caught(|| u.a2(7, "s t")));
    let mut z = 3u8;
    emit("nmi3", "NoMockImplementation", "a3", &["1", "2", "3"], "-", "", 0, 0, "", &caught(|| u.a3(&1, &&2, &mut z)));
    emit("nmi4", "NoMockImplementation", "sl", &["[1, 2]", "[3]"], "-", "", 0, 0, "", &caught(|| u.sl(&[1, 2], vec![3])));
    emit("nmi5", "NoMockImplementation", "nd", &[ND_, "9"], "-", "", 0, 0, "", &caught(|| u.nd(ND(1), 9)));
    emit("nmi6", "NoMockImplementation", "gn", &[ND_, "9"], "-", "", 0, 0, "", &caught(|| u.gn(5u64, 9)));
    // arguments whose renderings repeat (separators are positional, not by value)
    for (k, (a, b, c)) in [(1u8, 1u8, 1u8), (1, 1, 2), (1, 2, 1), (2, 1, 1), (1, 2, 2), (2, 1, 2), (2, 2, 1)].into_iter().enumerate() {
        let mut zz = c;
        let (sa, sb, sc) = (a.to_string(), b.to_string(), c.to_string());
        emit(&format!("rep3_{k}"), "NoMockImplementation", "a3", &[&sa, &sb, &sc], "-", "", 0, 0, "", &caught(|| u.a3(&a, &&b, &mut zz)));
    }
    emit("rep_sl", "NoMockImplementation", "sl", &["[3]", "[3]"], "-", "", 0, 0, "", &caught(|| u.sl(&[3], vec![3])));
    emit("rep_nd0", "NoMockImplementation", "nd2", &[ND_, "1", ND_], "-", "", 0, 0, "", &caught(|| u.nd2(ND(1), 1, ND(2))));
    // ---- NoMatchingCallPatterns
    let u = Unimock::new(MsgMock::a2.each_call(matching!(9, _)).returns(1u32)).no_verify_in_drop();
    emit("nmc", "NoMatchingCallPatterns", "a2", &["1", "\"x\""], "-", "", 0, 0, "", &caught(|| u.a2(1, "x")));
    // ---- NoMatcherFunction
    let u = Unimock::new(MsgMock::a1.each_call(&|_m| {}).returns(1u32)).no_verify_in_drop();
    emit("nmf", "NoMatcherFunction", "a1", &["4"], "index", "", 0, 0, "", &caught(|| u.a1(4)));
    // ---- NoOutputAvailable
    let (cl, ln) = (MsgMock::a1.stub(|each| { each.call(matching!(4)); }), line!());
    let u = Unimock::new(cl).no_verify_in_drop();
    emit("noa", "NoOutputAvailableForCallPattern", "a1", &["4"], "debug", "(4)", ln, 0, "", &caught(|| u.a1(4)));
    // ---- order errors
    let (c1, l1) = (MsgMock::a1.next_call(matching!(1)).returns(1u32), line!());
    let (c2, l2) = (MsgMock::a2.next_call(matching!(2, "b")).returns(2u32), line!());
    let u = Unimock::new((c1, c2)).no_verify_in_drop();
    emit("wo", "WrongOrder", "a2", &["2", "\"b\""], "debug", "(1)", l1, 0, "Msg::a1", &caught(|| u.a2(2, "b")));
    emit("inm", "InputsNotMatchedInCallOrder", "a2", &["3", "\"c\""], "debug", "(2, \"b\")", l2, 1, "", &caught(|| u.a2(3, "c")));
    emit("oor", "OutOfRange", "a1", &["1"], "-", "", 0, 2, "", &caught(|| u.a1(1)));
    // ---- CannotReturnValueMoreThanOnce
    let (c, l) = (MsgMock::a1.some_call(matching!(_)).returns(1u32), line!());
    let u = Unimock::new(c).no_verify_in_drop();
    let _ = u.a1(5);
    emit("crt", "CannotReturnValueMoreThanOnce", "a1", &["6"], "debug", "(_)", l, 0, "", &caught(|| u.a1(6)));
    // half-open range patterns are named as written
    let (c, l) = (MsgMock::a1.some_call(matching!(..=5)).returns(1u32), line!());
    let u = Unimock::new(c).no_verify_in_drop();
    let _ = u.a1(5);
    emit("crt_to", "CannotReturnValueMoreThanOnce", "a1", &["4"], "debug", "(..=5)", l, 0, "", &caught(|| u.a1(4)));
    let (c, l) = (MsgMock::a2.some_call(matching!(3.., "a" | "b")).returns(1u32), line!());
    let u = Unimock::new(c).no_verify_in_drop();
    let _ = u.a2(9, "b");
    emit("crt_from", "CannotReturnValueMoreThanOnce", "a2", &["3", "\"a\""], "debug", "(3.., \"a\" | \"b\")", l, 0, "", &caught(|| u.a2(3, "a")));
    // ---- ExplicitPanic
    let (c, l) = (MsgMock::sl.each_call(matching!([1, ..], _)).panics("custom message"), line!());
    let u = Unimock::new(c).no_verify_in_drop();
    emit("exp", "ExplicitPanic", "sl", &["[1, 5]", "[]"], "debug", "([1, ..], _)", l, 0, "custom message", &caught(|| u.sl(&[1, 5], vec![])));
    // ---- a matching! invocation spread over several lines is located by the line of the invocation itself
    let l = line!() + 2;
    let c = MsgMock::a2.each_call(
        matching!(
            7,
            "multi" | "line"
        ))
        .panics("ml");
    let u = Unimock::new(c).no_verify_in_drop();
    emit("expml", "ExplicitPanic", "a2", &["7", "\"line\""], "debug", "(7, \"multi\" | \"line\")", l, 0, "ml", &caught(|| u.a2(7, "line")));
    // ---- CannotUnmock / NoDefaultImpl
    let u = Unimock::new((MsgMock::a1.each_call(matching!(_)).applies_unmocked(), MsgMock::a0.each_call(matching!()).applies_default_impl())).no_verify_in_drop();
    emit("cu", "CannotUnmock", "a1", &[], "-", "", 0, 0, "", &caught(|| u.a1(1)));
    emit("ndi", "NoDefaultImpl", "a0", &[], "-", "", 0, 0, "", &caught(|| u.a0()));
    // ---- verification
    let (c, l) = (MsgMock::a1.each_call(matching!(1 | 2)).returns(1u32).n_times(3), line!());
    let u = Unimock::new(c);
    let _ = u.a1(1);
    emit("fve", "FailedVerification", "a1", &[], "debug", "(1 | 2)", l, 0, "exact:3:1", &caught(move || u.verify()));
    let (c, l) = (MsgMock::a3.each_call(matching!(_, _, _)).returns(1u32).at_least_times(2), line!());
    let u = Unimock::new(c);
    let mut z = 0u8;
    let _ = u.a3(&1, &&2, &mut z);
    emit("fva", "FailedVerification", "a3", &[], "debug", "(_, _, _)", l, 0, "atleast:2:1", &caught(move || u.verify()));
    let u = Unimock::new(MsgMock::a1.each_call(&|m| m.func(|_, _| true)).returns(1u32).n_times(1));
    emit("fvi", "FailedVerification", "a1", &[], "index", "", 0, 0, "exact:1:0", &caught(move || u.verify()));
    let u = Unimock::new(MsgMock::prov.each_call(matching!(_)).returns(1u32));
    emit("mnc", "MockNeverCalled", "prov", &[], "-", "", 0, 0, "", &caught(move || u.verify()));
    // ---- long / non-ASCII renderings are printed in full
    let long: String = "é".repeat(200);
    let long_dbg = format!("{long:?}");
    let u = Unimock::new(()).no_verify_in_drop();
    emit("long", "NoMockImplementation", "a2", &["7", &long_dbg], "-", "", 0, 0, "", &caught(|| u.a2(7, &long)));
    let mixed: String = format!("{}{}", "x".repeat(254), "ß∂é");
    let mixed_dbg = format!("{mixed:?}");
    emit("long2", "NoMockImplementation", "a2", &["7", &mixed_dbg], "-", "", 0, 0, "", &caught(|| u.a2(7, &mixed)));
    // ---- post: a swallowed mock-induced panic is remembered — verifying the original afterwards fails with that error's text
    //      (line format: post, id, remembered|forgotten, first line of the induced message, first line of the verification message)
    let post = |id: &str, u: Unimock, f: &dyn Fn(&Unimock)| {
        let induced = caught(|| f(&u));
        let verdict = caught(move || u.verify());
        let i1 = induced.lines().next().unwrap_or("").to_string();
        // the verification message contains the induced error's whole text (every line of it, diagnostics included)
        let ok = verdict != "<no panic>" && !i1.is_empty() && verdict.contains(&induced);
        println!("post\t{id}\t{}\t{}\t{}", if ok { "remembered" } else { "forgotten" }, i1, verdict.lines().next().unwrap_or(""));
    };
    post("p-long", Unimock::new(()), &|u| { u.a2(7, &long); });
    post("p-mixed", Unimock::new(()), &|u| { u.a2(7, &mixed); });
    post("p-empty-panic-msg", Unimock::new(MsgMock::a1.each_call(matching!(_)).panics("")), &|u| { u.a1(1); });
    post("p-multiline-panic-msg", Unimock::new(MsgMock::a1.each_call(matching!(_)).panics("first\nsecond")), &|u| { u.a1(1); });
    post("p-nomatch", Unimock::new(MsgMock::a2.each_call(matching!(9, _)).returns(1u32).at_least_times(0)), &|u| { u.a2(1, "\u{1F600}"); });
    post("p-cannot-unmock", Unimock::new(MsgMock::a1.each_call(matching!(_)).applies_unmocked()), &|u| { u.a1(1); });
    post("p-order-mismatch", Unimock::new((MsgMock::a2.next_call(matching!(2, "b")).returns(2u32), MsgMock::a1.next_call(matching!(1)).returns(1u32))), &|u| { u.a2(3, "c"); });
    post("p-nomatch-2pats", Unimock::new((MsgMock::a2.each_call(matching!(9, _)).returns(1u32).at_least_times(0), MsgMock::a2.each_call(matching!(_, "q")).returns(1u32).at_least_times(0))), &|u| { u.a2(1, "z"); });
    // the mock panics inside a destructor that runs while the thread is already unwinding from a user panic; the destructor swallows it
    {
        struct CallsOnDrop<'a>(&'a Unimock);
        impl Drop for CallsOnDrop<'_> {
            fn drop(&mut self) { let _ = std::panic::catch_unwind(std::panic::AssertUnwindSafe(|| { self.0.a1(9); })); }
        }
        struct UserPanic;
        let u = Unimock::new(MsgMock::a1.each_call(matching!(1)).returns(1u32).at_least_times(0));
        let uref = &u;
        let _ = std::panic::catch_unwind(std::panic::AssertUnwindSafe(move || {
            let _g = CallsOnDrop(uref);
            std::panic::resume_unwind(Box::new(UserPanic));      // a user panic; `_g` is dropped during the unwind
        }));
        // the same failing call once more outside any unwind: verification must then report the error's text twice
        let text = caught(|| { u.a1(9); });
        let verdict = caught(move || u.verify());
        let n = verdict.matches(text.lines().next().unwrap_or("<none>")).count();
        println!("post\tp-during-unwind\t{}\t{}\t{}", if n >= 2 { "remembered" } else { "forgotten" }, text.lines().next().unwrap_or(""), format!("{} occurrence(s) in: {}", n, verdict.lines().next().unwrap_or("")));
    }
    {
        use unimock::mock::std::process::TerminationMock;
        let u = Unimock::new((MsgMock::a1.each_call(matching!(1)).returns(1u32).at_least_times(0), TerminationMock::report.each_call(matching!()).returns(std::process::ExitCode::from(3)).at_least_times(0)));
        let text = caught(|| { u.a1(9); });
        // report() answered by the clause hands back the scripted code; the instance is then dropped and verifies: the remembered error surfaces there
        let verdict = caught(move || { let _ = std::process::Termination::report(u); });
        let ok = verdict.contains(text.lines().next().unwrap_or("<none>"));
        println!("post\tp-mocked-report\t{}\t{}\t{}", if ok { "remembered" } else { "forgotten" }, text.lines().next().unwrap_or(""), verdict.lines().next().unwrap_or(""));
    }
    // the mock panics inside the destructor of a value the instance itself owns (lent through `make_ref`), i.e. WHILE teardown
    // releases the value chain; the destructor swallows it: the verification that is under way must still fail with that error
    for via in ["verify", "drop"] {
        static INDUCED: std::sync::Mutex<String> = std::sync::Mutex::new(String::new());
        struct CallsOnDropOwned(Unimock);
        impl Drop for CallsOnDropOwned {
            fn drop(&mut self) { let t = caught(|| { self.0.a1(9); }); *INDUCED.lock().unwrap() = t; }
        }
        let u = Unimock::new(MsgMock::a1.each_call(matching!(1)).returns(1u32).at_least_times(0));
        let _lent: &CallsOnDropOwned = u.make_ref(CallsOnDropOwned(u.clone()));
        let verdict = if via == "verify" { caught(move || u.verify()) } else { caught(move || drop(u)) };
        let text = INDUCED.lock().unwrap().clone();
        let ok = verdict != "<no panic>" && !text.is_empty() && verdict.contains(text.lines().next().unwrap_or("<none>"));
        println!("post\tp-during-teardown-{via}\t{}\t{}\t{}", if ok { "remembered" } else { "forgotten" }, text.lines().next().unwrap_or(""), verdict.lines().next().unwrap_or(""));
    }
    post("p-order", Unimock::new((MsgMock::a1.next_call(matching!(1)).returns(1u32), MsgMock::a2.next_call(matching!(2, "b")).returns(2u32))), &|u| { u.a2(2, "b"); });
}
