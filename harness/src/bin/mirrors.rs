//! mirrors: drives upstream *provided* methods of the traits mirrored under `unimock::mock` over
//! (a) a Unimock whose required methods replay a script and (b) a plain struct implementing the trait
//! with the same script; prints both observation logs (results, buffers, sequence of required-method
//! arguments). Also exercises every required method's mock entry point once.
use std::collections::VecDeque;
use std::hash::Hasher;
use std::io::{BufRead, Read, Seek, SeekFrom, Write};
use std::sync::{Arc, Mutex};
use unimock::mock::core::{fmt::*, hash::*};
use unimock::mock::embedded_hal_1::{delay::*, digital::*};
use unimock::mock::std::io::*;
use unimock::*;

struct Rng(u64);
impl Rng {
    fn next(&mut self) -> u64 {
        self.0 = self.0.wrapping_add(0x9E3779B97F4A7C15);
        let mut z = self.0;
        z = (z ^ (z >> 30)).wrapping_mul(0xBF58476D1CE4E5B9);
        z = (z ^ (z >> 27)).wrapping_mul(0x94D049BB133111EB);
        z ^ (z >> 31)
    }
    fn below(&mut self, n: u64) -> u64 { if n == 0 { 0 } else { self.next() % n } }
}

type Log = Arc<Mutex<Vec<String>>>;
fn log_of() -> Log { Arc::new(Mutex::new(vec![])) }
fn push(l: &Log, s: String) { l.lock().unwrap().push(s); }
fn dump(l: &Log) -> String { l.lock().unwrap().join(";") }

#[derive(Clone, Debug)]
enum WStep { Ok(usize), Interrupted, Broken }
#[derive(Clone, Debug)]
enum RStep { Data(Vec<u8>), Interrupted, Eof, Broken }

fn io_err(kind: std::io::ErrorKind) -> std::io::Error { std::io::Error::new(kind, "scripted") }

// ------------------------------------------------------------------ plain structs
struct PlainW { script: VecDeque<WStep>, log: Log }
impl Write for PlainW {
    fn write(&mut self, buf: &[u8]) -> std::io::Result<usize> {
        push(&self.log, format!("write{:?}", buf));
        match self.script.pop_front() { Some(WStep::Ok(n)) => Ok(n.min(buf.len())), Some(WStep::Interrupted) => Err(io_err(std::io::ErrorKind::Interrupted)), Some(WStep::Broken) => Err(io_err(std::io::ErrorKind::BrokenPipe)), None => Ok(0) }
    }
    fn flush(&mut self) -> std::io::Result<()> { push(&self.log, "flush".into()); Ok(()) }
}
struct PlainR { script: VecDeque<RStep>, log: Log }
impl Read for PlainR {
    fn read(&mut self, buf: &mut [u8]) -> std::io::Result<usize> {
        push(&self.log, format!("read[{}]", buf.len()));
        match self.script.pop_front() {
            Some(RStep::Data(d)) => { let n = d.len().min(buf.len()); buf[..n].copy_from_slice(&d[..n]); Ok(n) }
            Some(RStep::Interrupted) => Err(io_err(std::io::ErrorKind::Interrupted)),
            Some(RStep::Broken) => Err(io_err(std::io::ErrorKind::BrokenPipe)),
            Some(RStep::Eof) | None => Ok(0),
        }
    }
}
struct PlainSeek { log: Log, pos: u64 }
impl Seek for PlainSeek {
    fn seek(&mut self, pos: SeekFrom) -> std::io::Result<u64> { push(&self.log, format!("seek({pos:?})")); if let SeekFrom::Start(p) = pos { self.pos = p; } Ok(self.pos) }
}
struct PlainHasher { log: Log }
impl Hasher for PlainHasher {
    fn finish(&self) -> u64 { push(&self.log, "finish".into()); 42 }
    fn write(&mut self, bytes: &[u8]) { push(&self.log, format!("write{:?}", bytes)); }
}
struct PlainDelay { log: Log }
impl embedded_hal_1::delay::DelayNs for PlainDelay { fn delay_ns(&mut self, ns: u32) { push(&self.log, format!("ns({ns})")); } }
struct PlainPin { log: Log, low: bool }
impl embedded_hal_1::digital::ErrorType for PlainPin { type Error = core::convert::Infallible; }
impl embedded_hal_1::digital::OutputPin for PlainPin {
    fn set_low(&mut self) -> Result<(), Self::Error> { push(&self.log, "set_low".into()); self.low = true; Ok(()) }
    fn set_high(&mut self) -> Result<(), Self::Error> { push(&self.log, "set_high".into()); self.low = false; Ok(()) }
}
impl embedded_hal_1::digital::StatefulOutputPin for PlainPin {
    fn is_set_high(&mut self) -> Result<bool, Self::Error> { push(&self.log, "is_set_high".into()); Ok(!self.low) }
    fn is_set_low(&mut self) -> Result<bool, Self::Error> { push(&self.log, "is_set_low".into()); Ok(self.low) }
}
struct PlainDisplay(String);
impl std::fmt::Display for PlainDisplay { fn fmt(&self, f: &mut std::fmt::Formatter<'_>) -> std::fmt::Result { f.write_str(&self.0) } }

// ------------------------------------------------------------------ scripted mocks
fn mk(partial: bool, c: impl Clause) -> Unimock { if partial { Unimock::new_partial(c) } else { Unimock::new(c) } }

fn mock_w(script: Vec<WStep>, log: Log, partial: bool) -> Unimock {
    let s = Arc::new(Mutex::new(VecDeque::from(script)));
    let l2 = log.clone();
    mk(partial, (
        WriteMock::write.each_call(matching!(_)).answers_arc(Arc::new(move |_, buf: &[u8]| {
            push(&log, format!("write{:?}", buf));
            match s.lock().unwrap().pop_front() { Some(WStep::Ok(n)) => Ok(n.min(buf.len())), Some(WStep::Interrupted) => Err(io_err(std::io::ErrorKind::Interrupted)), Some(WStep::Broken) => Err(io_err(std::io::ErrorKind::BrokenPipe)), None => Ok(0) }
        })).at_least_times(0),
        WriteMock::flush.each_call(matching!()).answers_arc(Arc::new(move |_| { push(&l2, "flush".into()); Ok(()) })).at_least_times(0),
    )).no_verify_in_drop()
}
fn mock_r(script: Vec<RStep>, log: Log, partial: bool) -> Unimock {
    let s = Arc::new(Mutex::new(VecDeque::from(script)));
    mk(partial, ReadMock::read.each_call(matching!(_)).answers_arc(Arc::new(move |_, buf: &mut [u8]| {
        push(&log, format!("read[{}]", buf.len()));
        match s.lock().unwrap().pop_front() {
            Some(RStep::Data(d)) => { let n = d.len().min(buf.len()); buf[..n].copy_from_slice(&d[..n]); Ok(n) }
            Some(RStep::Interrupted) => Err(io_err(std::io::ErrorKind::Interrupted)),
            Some(RStep::Broken) => Err(io_err(std::io::ErrorKind::BrokenPipe)),
            Some(RStep::Eof) | None => Ok(0),
        }
    })).at_least_times(0)).no_verify_in_drop()
}

fn res<T: std::fmt::Debug>(r: std::io::Result<T>) -> String { match r { Ok(v) => format!("Ok({v:?})"), Err(e) => format!("Err({:?})", e.kind()) } }

fn gen_wscript(rng: &mut Rng) -> Vec<WStep> {
    (0..rng.below(7)).map(|_| match rng.below(8) { 0 => WStep::Interrupted, 1 => WStep::Broken, 2 => WStep::Ok(0), k => WStep::Ok(k as usize - 2) }).collect()
}
fn gen_rscript(rng: &mut Rng, utf8: bool) -> Vec<RStep> {
    (0..rng.below(7)).map(|_| match rng.below(9) {
        0 => RStep::Interrupted, 1 => RStep::Broken, 2 => RStep::Eof,
        _ => RStep::Data((0..1 + rng.below(5)).map(|_| if utf8 { b'a' + rng.below(5) as u8 } else if rng.below(6) == 0 { b'\n' } else { rng.below(250) as u8 }).collect()),
    }).collect()
}

fn emit(case: &str, mock: String, plain: String) {
    println!("case {case}\tmock={mock}\tplain={plain}");
}

fn main() {
    std::panic::set_hook(Box::new(|_| {}));
    let seed: u64 = std::env::var("VERIF_SEED").ok().and_then(|v| v.parse().ok()).unwrap_or(1);
    let n: u64 = std::env::var("MIRROR_CASES").ok().and_then(|v| v.parse().ok()).unwrap_or(300);
    let mut rng = Rng(seed.wrapping_mul(0xA24BAED4963EE407));
    // ---- diagnostics name the upstream trait: an unmocked required method of a mirrored trait panics as `<Trait>::<method>(..)`
    {
        let named = |f: &dyn Fn(&mut Unimock)| -> String {
            let mut u = Unimock::new(()).no_verify_in_drop();
            match std::panic::catch_unwind(std::panic::AssertUnwindSafe(|| f(&mut u))) {
                Ok(()) => "<no panic>".to_string(),
                Err(p) => p.downcast_ref::<String>().cloned().unwrap_or_default().split(['(', ' ']).next().unwrap_or("").trim_end_matches(':').to_string(),
            }
        };
        emit("name.Debug", named(&|u| { let _ = format!("{:?}", u); }), "Debug::fmt".into());
        emit("name.Display", named(&|u| { let _ = format!("{}", u); }), "Display::fmt".into());
        emit("name.Hasher.finish", named(&|u| { let _ = Hasher::finish(u); }), "Hasher::finish".into());
        emit("name.Hasher.write", named(&|u| { Hasher::write(u, b"x"); }), "Hasher::write".into());
        emit("name.Read", named(&|u| { let _ = Read::read(u, &mut [0u8; 2]); }), "Read::read".into());
        emit("name.Write.write", named(&|u| { let _ = Write::write(u, b"x"); }), "Write::write".into());
        emit("name.Write.flush", named(&|u| { let _ = Write::flush(u); }), "Write::flush".into());
        emit("name.BufRead.fill_buf", named(&|u| { let _ = BufRead::fill_buf(u); }), "BufRead::fill_buf".into());
        emit("name.BufRead.consume", named(&|u| { BufRead::consume(u, 1); }), "BufRead::consume".into());
        emit("name.Seek", named(&|u| { let _ = Seek::seek(u, SeekFrom::Start(0)); }), "Seek::seek".into());
    }
    // ---- an earlier failed call (swallowed) does not change what provided methods do afterwards
    {
        let lm = log_of();
        let l = lm.clone();
        let mut m = Unimock::new(WriteMock::write.each_call(matching!(_)).answers_arc(Arc::new(move |_, buf: &[u8]| { push(&l, format!("write{:?}", buf)); Ok(buf.len().min(2)) })).at_least_times(0)).no_verify_in_drop();
        let failed = std::panic::catch_unwind(std::panic::AssertUnwindSafe(|| { let _ = Write::flush(&mut m); })).is_err();     // flush is not scripted
        let r = match std::panic::catch_unwind(std::panic::AssertUnwindSafe(|| res(Write::write_all(&mut m, b"abc")))) {
            Ok(r) => r,
            Err(p) => format!("panicked:{}", p.downcast_ref::<String>().cloned().unwrap_or_default().lines().next().unwrap_or("")),
        };
        emit("write_all.after-swallowed-failure", format!("{failed}|{r}|{}", dump(&lm)), "true|Ok(())|write[97, 98, 99];write[99]".to_string());
    }
    // ---- provided methods keep running the upstream default after the ORDERED part of a mixed script has been used up
    {
        let lm = log_of();
        let l = lm.clone();
        let mut m = Unimock::new((
            WriteMock::flush.next_call(matching!()).answers_arc(Arc::new(|_| Ok(()))),
            WriteMock::write.each_call(matching!(_)).answers_arc(Arc::new(move |_, buf: &[u8]| { push(&l, format!("write{:?}", buf)); Ok(buf.len().min(2)) })).at_least_times(0),
        )).no_verify_in_drop();
        let r = match std::panic::catch_unwind(std::panic::AssertUnwindSafe(|| { let f = res(Write::flush(&mut m)); let w = res(Write::write_all(&mut m, b"abc")); format!("{f}|{w}") })) {
            Ok(r) => r,
            Err(p) => format!("panicked:{}", p.downcast_ref::<String>().cloned().unwrap_or_default().lines().next().unwrap_or("")),
        };
        emit("write_all.after-ordered-script-finished", format!("{r}|{}", dump(&lm)), "Ok(())|Ok(())|write[97, 98, 99];write[99]".to_string());
    }
    for k in 0..n {
      let mut rng_iter = Rng(rng.next());
      let res_iter = std::panic::catch_unwind(std::panic::AssertUnwindSafe(|| {
        let rng = &mut rng_iter;
        // ---- Write::write_all / write_vectored
        let script = gen_wscript(rng);
        let data: Vec<u8> = (0..rng.below(9)).map(|_| rng.below(256) as u8).collect();
        let (lm, lp) = (log_of(), log_of());
        let mut m = mock_w(script.clone(), lm.clone(), k % 2 == 1);
        let mut p = PlainW { script: script.clone().into(), log: lp.clone() };
        let (rm, rp) = (res(Write::write_all(&mut m, &data)), res(p.write_all(&data)));
        emit(&format!("write_all#{k}"), format!("{rm}|{}", dump(&lm)), format!("{rp}|{}", dump(&lp)));
        let (lm, lp) = (log_of(), log_of());
        let mut m = mock_w(script.clone(), lm.clone(), k % 2 == 1);
        let mut p = PlainW { script: script.clone().into(), log: lp.clone() };
        let bufs = [std::io::IoSlice::new(&[]), std::io::IoSlice::new(&data), std::io::IoSlice::new(b"zz")];
        let (rm, rp) = (res(Write::write_vectored(&mut m, &bufs)), res(p.write_vectored(&bufs)));
        emit(&format!("write_vectored#{k}"), format!("{rm}|{}", dump(&lm)), format!("{rp}|{}", dump(&lp)));
        // ---- a provided method (upstream default body over the mocked required one), then explicit verification:
        //      the instance that ran the default body verifies like any other
        if k < 4 {
            let lm = log_of();
            let l = lm.clone();
            let mut m = mk(k % 2 == 1, WriteMock::write.each_call(matching!(_)).answers_arc(Arc::new(move |_, buf: &[u8]| { push(&l, format!("write{:?}", buf)); Ok(buf.len()) })));
            let r = res(Write::write_all(&mut m, b"ab"));
            let v = match std::panic::catch_unwind(std::panic::AssertUnwindSafe(move || if k < 2 { m.verify() } else { drop(m) })) {
                Ok(()) => "verified".to_string(),
                Err(p) => format!("verify-panic:{}", p.downcast_ref::<String>().cloned().unwrap_or_default().lines().next().unwrap_or("")),
            };
            emit(&format!("write_all+verify#{k}"), format!("{r}|{}|{v}", dump(&lm)), "Ok(())|write[97, 98]|verified".to_string());
        }
        // ---- Read::read_exact / read_to_end / read_to_string / read_vectored
        let script = gen_rscript(rng, false);
        let want = rng.below(8) as usize;
        for which in 0..4 {
            let script = if which == 2 { gen_rscript(&mut Rng(rng.0 ^ k), true) } else { script.clone() };
            let (lm, lp) = (log_of(), log_of());
            let mut m = mock_r(script.clone(), lm.clone(), k % 2 == 1);
            let mut p = PlainR { script: script.clone().into(), log: lp.clone() };
            let (om, op) = match which {
                0 => { let (mut a, mut b) = (vec![0u8; want], vec![0u8; want]); let (x, y) = (res(Read::read_exact(&mut m, &mut a)), res(p.read_exact(&mut b))); (format!("{x}{a:?}"), format!("{y}{b:?}")) }
                1 => { let (mut a, mut b) = (vec![], vec![]); let (x, y) = (res(Read::read_to_end(&mut m, &mut a)), res(p.read_to_end(&mut b))); (format!("{x}{a:?}"), format!("{y}{b:?}")) }
                2 => { let (mut a, mut b) = (String::new(), String::new()); let (x, y) = (res(Read::read_to_string(&mut m, &mut a)), res(p.read_to_string(&mut b))); (format!("{x}{a:?}"), format!("{y}{b:?}")) }
                _ => { let (mut a1, mut a2, mut b1, mut b2) = ([0u8; 0], [0u8; 3], [0u8; 0], [0u8; 3]);
                       let x = res(Read::read_vectored(&mut m, &mut [std::io::IoSliceMut::new(&mut a1), std::io::IoSliceMut::new(&mut a2)]));
                       let y = res(p.read_vectored(&mut [std::io::IoSliceMut::new(&mut b1), std::io::IoSliceMut::new(&mut b2)]));
                       (format!("{x}{a2:?}"), format!("{y}{b2:?}")) }
            };
            emit(&format!("{}#{k}", ["read_exact", "read_to_end", "read_to_string", "read_vectored"][which]), format!("{om}|{}", dump(&lm)), format!("{op}|{}", dump(&lp)));
        }
        // ---- BufRead::read_until / read_line over fill_buf/consume
        {
            let chunks: Vec<Vec<u8>> = (0..rng.below(5)).map(|_| (0..1 + rng.below(4)).map(|_| if rng.below(4) == 0 { b'\n' } else { b'a' + rng.below(3) as u8 }).collect()).collect();
            let flat: Vec<u8> = chunks.concat();
            let (lm, lp) = (log_of(), log_of());
            let state = Arc::new(Mutex::new((VecDeque::from(chunks.clone()), Vec::<u8>::new())));
            let (s1, s2, l1, l2) = (state.clone(), state.clone(), lm.clone(), lm.clone());
            let mut m = Unimock::new((
                BufReadMock::fill_buf.each_call(matching!()).answers_arc(Arc::new(move |u| {
                    let mut st = s1.lock().unwrap();
                    if st.1.is_empty() { if let Some(c) = st.0.pop_front() { st.1 = c; } }
                    push(&l1, format!("fill_buf->{:?}", st.1));
                    Ok(u.make_mut(st.1.clone()).as_slice())
                })).at_least_times(0),
                BufReadMock::consume.each_call(matching!(_)).answers_arc(Arc::new(move |_, amt| {
                    push(&l2, format!("consume({amt})"));
                    let mut st = s2.lock().unwrap(); st.1.drain(..amt);
                })).at_least_times(0),
            )).no_verify_in_drop();
            // plain: a BufRead over chunks with the same observable protocol
            struct PlainB { chunks: VecDeque<Vec<u8>>, cur: Vec<u8>, log: Log }
            impl Read for PlainB { fn read(&mut self, _: &mut [u8]) -> std::io::Result<usize> { unreachable!() } }
            impl BufRead for PlainB {
                fn fill_buf(&mut self) -> std::io::Result<&[u8]> { if self.cur.is_empty() { if let Some(c) = self.chunks.pop_front() { self.cur = c; } } push(&self.log, format!("fill_buf->{:?}", self.cur)); Ok(&self.cur) }
                fn consume(&mut self, amt: usize) { push(&self.log, format!("consume({amt})")); self.cur.drain(..amt); }
            }
            let mut p = PlainB { chunks: chunks.into(), cur: vec![], log: lp.clone() };
            let (mut a, mut b) = (vec![], vec![]);
            let (x, y) = (res(BufRead::read_until(&mut m, b'\n', &mut a)), res(p.read_until(b'\n', &mut b)));
            let (mut sa, mut sb) = (String::new(), String::new());
            let (x2, y2) = (res(BufRead::read_line(&mut m, &mut sa)), res(p.read_line(&mut sb)));
            let _ = flat;
            emit(&format!("read_until+line#{k}"), format!("{x}{a:?}{x2}{sa:?}|{}", dump(&lm)), format!("{y}{b:?}{y2}{sb:?}|{}", dump(&lp)));
        }
        if k < 20 {
            // ---- Seek::rewind / stream_position
            let (lm, lp) = (log_of(), log_of());
            let l = lm.clone();
            let mut m = Unimock::new(SeekMock::seek.each_call(matching!(_)).answers_arc(Arc::new(move |_, pos| { push(&l, format!("seek({pos:?})")); Ok(7) })).at_least_times(0)).no_verify_in_drop();
            let mut p = PlainSeek { log: lp.clone(), pos: 7 };
            let (a, b) = (format!("{}{}", res(Seek::rewind(&mut m)), res(Seek::stream_position(&mut m))), format!("{}{}", res(p.rewind().map(|_| ())), res(p.stream_position().map(|_| 7u64))));
            emit(&format!("seek#{k}"), format!("{a}|{}", dump(&lm)), format!("{b}|{}", dump(&lp)));
            // ---- Hasher provided writes
            let (lm, lp) = (log_of(), log_of());
            let (l, l2) = (lm.clone(), lm.clone());
            let mut m = mk(k % 2 == 1, (HasherMock::write.each_call(matching!(_)).answers_arc(Arc::new(move |_, bytes| push(&l, format!("write{:?}", bytes)))).at_least_times(0),
                                      HasherMock::finish.each_call(matching!()).answers_arc(Arc::new(move |_| { push(&l2, "finish".into()); 42 })).at_least_times(0))).no_verify_in_drop();
            let mut p = PlainHasher { log: lp.clone() };
            let v = rng.next();
            macro_rules! both { ($($call:ident($e:expr)),*) => { $( Hasher::$call(&mut m, $e); p.$call($e); )* } }
            both!(write_u8(v as u8), write_u16(v as u16), write_u32(v as u32), write_u64(v), write_u128(v as u128), write_usize(v as usize), write_i8(v as i8), write_i16(v as i16), write_i32(v as i32), write_i64(v as i64), write_i128(v as i128), write_isize(v as isize));
            let (a, b) = (Hasher::finish(&m), p.finish());
            emit(&format!("hasher#{k}"), format!("{a}|{}", dump(&lm)), format!("{b}|{}", dump(&lp)));
            // ---- DelayNs provided
            let (lm, lp) = (log_of(), log_of());
            let l = lm.clone();
            let mut m = mk(k % 2 == 1, DelayNsMock::delay_ns.each_call(matching!(_)).answers_arc(Arc::new(move |_, ns| push(&l, format!("ns({ns})")))).at_least_times(0)).no_verify_in_drop();
            let mut p = PlainDelay { log: lp.clone() };
            let (us, ms) = (rng.below(9_000_000) as u32, rng.below(9000) as u32);
            embedded_hal_1::delay::DelayNs::delay_us(&mut m, us); embedded_hal_1::delay::DelayNs::delay_ms(&mut m, ms);
            embedded_hal_1::delay::DelayNs::delay_us(&mut p, us); embedded_hal_1::delay::DelayNs::delay_ms(&mut p, ms);
            emit(&format!("delay#{k}"), dump(&lm), dump(&lp));
            // ---- OutputPin::set_state / StatefulOutputPin::toggle
            let (lm, lp) = (log_of(), log_of());
            let low = Arc::new(Mutex::new(rng.below(2) == 0));
            let start_low = *low.lock().unwrap();
            let (a1, a2, a3, a4) = (low.clone(), low.clone(), low.clone(), low.clone());
            let (l1, l2, l3, l4) = (lm.clone(), lm.clone(), lm.clone(), lm.clone());
            let mut m = Unimock::new((
                OutputPinMock::set_low.each_call(matching!()).answers_arc(Arc::new(move |_| { push(&l1, "set_low".into()); *a1.lock().unwrap() = true; Ok(()) })).at_least_times(0),
                OutputPinMock::set_high.each_call(matching!()).answers_arc(Arc::new(move |_| { push(&l2, "set_high".into()); *a2.lock().unwrap() = false; Ok(()) })).at_least_times(0),
                StatefulOutputPinMock::is_set_high.each_call(matching!()).answers_arc(Arc::new(move |_| { push(&l3, "is_set_high".into()); Ok(!*a3.lock().unwrap()) })).at_least_times(0),
                StatefulOutputPinMock::is_set_low.each_call(matching!()).answers_arc(Arc::new(move |_| { push(&l4, "is_set_low".into()); Ok(*a4.lock().unwrap()) })).at_least_times(0),
            )).no_verify_in_drop();
            let mut p = PlainPin { log: lp.clone(), low: start_low };
            use embedded_hal_1::digital::{OutputPin as OP, PinState, StatefulOutputPin as SOP};
            let st = if rng.below(2) == 0 { PinState::Low } else { PinState::High };
            let _ = OP::set_state(&mut m, st); let _ = SOP::toggle(&mut m); let _ = SOP::toggle(&mut m);
            let _ = p.set_state(st); let _ = p.toggle(); let _ = p.toggle();
            emit(&format!("pin#{k}"), dump(&lm), dump(&lp));
            // ---- Display / Debug through format!
            let text = format!("t{}", rng.below(1000));
            let (t1, t2) = (text.clone(), text.clone());
            let m = Unimock::new((DisplayMock::fmt.each_call(matching!()).answers_arc(Arc::new(move |_, f| f.write_str(&t1))).at_least_times(0),
                                  DebugMock::fmt.each_call(matching!()).answers_arc(Arc::new(move |_, f| f.write_str(&t2))).at_least_times(0))).no_verify_in_drop();
            emit(&format!("display#{k}"), format!("{m}/{m:?}/{m:>8}"), format!("{0}/{0}/{0:>8}", PlainDisplay(text)));
        }
      }));
      if let Err(p) = res_iter {
          let msg = p.downcast_ref::<String>().cloned().unwrap_or_default();
          emit(&format!("iteration#{k}"), format!("panicked: {}", msg.replace('\n', " ").replace('\t', " ")), "completed".into());
      }
    }
}
