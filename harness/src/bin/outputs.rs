//! outputs: every composite return type of `outputs_trait.rs`, every variant / element count, configured
//! through the single-use path, the repeatable path and an explicit `n_times(2)`, called three times;
//! prints the observed values as S-expressions (the same notation the Lean Output model prints).
use std::task::Poll;
use unimock::*;

#[derive(Clone, Debug, PartialEq)]
pub struct Tok(pub u32);

include!("../outputs_trait.rs");

trait Show { fn show(&self) -> String; }
impl Show for Tok { fn show(&self) -> String { format!("L{}", self.0) } }
impl<T: Show + ?Sized> Show for &T { fn show(&self) -> String { (**self).show() } }
impl<T: Show> Show for Option<T> { fn show(&self) -> String { match self { None => "N".into(), Some(v) => format!("S({})", v.show()) } } }
impl<T: Show, E: Show> Show for Result<T, E> { fn show(&self) -> String { match self { Ok(v) => format!("O({})", v.show()), Err(v) => format!("E({})", v.show()) } } }
impl<T: Show> Show for Vec<T> { fn show(&self) -> String { format!("V[{}]", self.iter().map(|x| x.show()).collect::<Vec<_>>().join(",")) } }
impl<T: Show> Show for Poll<T> { fn show(&self) -> String { match self { Poll::Pending => "P".into(), Poll::Ready(v) => format!("R({})", v.show()) } } }
impl<A: Show, B: Show> Show for (A, B) { fn show(&self) -> String { format!("T[{},{}]", self.0.show(), self.1.show()) } }
impl<A: Show, B: Show, C: Show> Show for (A, B, C) { fn show(&self) -> String { format!("T[{},{},{}]", self.0.show(), self.1.show(), self.2.show()) } }

static STATIC_TOK: Tok = Tok(9);

fn classify(msg: &str) -> String {
    if msg.contains("Cannot return value more than once") { "!CannotReturnValueMoreThanOnce".into() } else { format!("!other:{}", msg.replace([' ', '\n'], "_")) }
}

macro_rules! case {
    ($m:ident, $val:expr, $sexpr:expr) => {{
        for path in ["once", "multi", "n2", "al1", "al0"] {
            let v = $val;
            let u = match path {
                "once" => Unimock::new(OutMock::$m.some_call(matching!()).returns(v)),
                "multi" => Unimock::new(OutMock::$m.each_call(matching!()).returns(v)),
                "al1" => Unimock::new(OutMock::$m.some_call(matching!()).returns(v).at_least_times(1)),
                "al0" => Unimock::new(OutMock::$m.some_call(matching!()).returns(v).at_least_times(0)),
                _ => Unimock::new(OutMock::$m.some_call(matching!()).returns(v).n_times(2)),
            };
            let mut outs = vec![];
            let mut msgs: Vec<String> = vec![];
            for _ in 0..3 {
                let r = std::panic::catch_unwind(std::panic::AssertUnwindSafe(|| u.$m().show()));
                outs.push(match r {
                    Ok(s) => s,
                    Err(p) => { let m = p.downcast_ref::<String>().cloned().or_else(|| p.downcast_ref::<&str>().map(|s| s.to_string())).unwrap_or_default(); msgs.push(m.clone()); classify(&m) }
                });
            }
            println!("case {} path={} val={} outs={}", stringify!($m), path, $sexpr, outs.join(" "));
            // every mock-induced panic above names the call and is remembered: verifying the original reports its full text
            let verdict = std::panic::catch_unwind(std::panic::AssertUnwindSafe(move || u.verify()))
                .err().map(|p| p.downcast_ref::<String>().cloned().unwrap_or_default()).unwrap_or_default();
            let named = msgs.iter().filter(|m| m.starts_with(concat!("OutT::", stringify!($m), "()"))).count();
            let remembered = msgs.iter().filter(|m| !m.is_empty() && verdict.contains(m.as_str())).count();
            println!("rec {} path={} val={} panics={} named={} remembered={} first={}", stringify!($m), path, $sexpr, msgs.len(), named, remembered,
                msgs.first().map(|m| m.lines().next().unwrap_or("").to_string()).unwrap_or_default());
        }
    }};
}

fn t(n: u32) -> Tok { Tok(n) }

fn main() {
    std::panic::set_hook(Box::new(|_| {}));
    case!(o_tok, t(1), "L1");
    case!(o_opt, None::<Tok>, "N");
    case!(o_opt, Some(t(1)), "S(L1)");
    case!(o_pair, (t(1), t(2)), "T[L1,L2]");
    case!(r_tok, t(1), "L1");
    case!(st_tok, &STATIC_TOK, "L9");
    case!(s_opt, None::<Tok>, "N");
    case!(s_opt, Some(t(1)), "S(L1)");
    case!(s_res, Ok::<Tok, Tok>(t(1)), "O(L1)");
    case!(s_res, Err::<Tok, Tok>(t(2)), "E(L2)");
    case!(s_vec, Vec::<Tok>::new(), "V[]");
    case!(s_vec, vec![t(1)], "V[L1]");
    case!(s_vec, vec![t(1), t(2), t(3)], "V[L1,L2,L3]");
    case!(d_opt_res, None::<Result<Tok, Tok>>, "N");
    case!(d_opt_res, Some(Ok::<Tok, Tok>(t(1))), "S(O(L1))");
    case!(d_opt_res, Some(Err::<Tok, Tok>(t(2))), "S(E(L2))");
    case!(d_vec_res, Vec::<Result<Tok, Tok>>::new(), "V[]");
    case!(d_vec_res, vec![Ok::<Tok, Tok>(t(1)), Ok(t(2))], "V[O(L1),O(L2)]");
    case!(d_vec_res, vec![Ok::<Tok, Tok>(t(1)), Err(t(2))], "V[O(L1),E(L2)]");
    case!(d_vec_res, vec![Err::<Tok, Tok>(t(1)), Ok(t(2)), Err(t(3)), Ok(t(4))], "V[E(L1),O(L2),E(L3),O(L4)]");
    case!(d_vec_opt, vec![Some(t(1)), None, Some(t(3))], "V[S(L1),N,S(L3)]");
    case!(d_tup_ro, (t(1), t(2)), "T[L1,L2]");
    case!(d_tup_rr, (t(1), t(2)), "T[L1,L2]");
    case!(d_tup_oro, (t(1), t(2), t(3)), "T[L1,L2,L3]");
    case!(d_poll_opt, Poll::<Option<Tok>>::Pending, "P");
    case!(d_poll_opt, Poll::Ready(None::<Tok>), "R(N)");
    case!(d_poll_opt, Poll::Ready(Some(t(1))), "R(S(L1))");
    case!(d_res_or, Ok::<Option<Tok>, Result<Tok, Tok>>(None), "O(N)");
    case!(d_res_or, Ok::<Option<Tok>, Result<Tok, Tok>>(Some(t(1))), "O(S(L1))");
    case!(d_res_or, Err::<Option<Tok>, Result<Tok, Tok>>(Ok(t(2))), "E(O(L2))");
    case!(d_res_or, Err::<Option<Tok>, Result<Tok, Tok>>(Err(t(3))), "E(E(L3))");
    case!(d_poll_res, Poll::<Result<Tok, Tok>>::Pending, "P");
    case!(d_poll_res, Poll::Ready(Ok::<Tok, Tok>(t(1))), "R(O(L1))");
    case!(d_poll_res, Poll::Ready(Err::<Tok, Tok>(t(2))), "R(E(L2))");
    // the receiver's lifetime spelled out (`&'s self` -> `&'s Tok`): same shapes as with elided lifetimes; values given as `&'static` borrows
    case!(l_ref, &STATIC_TOK, "L9");
    case!(l_opt, Some(&STATIC_TOK), "S(L9)");
    case!(l_opt, None::<&'static Tok>, "N");
    case!(l_res, Ok::<&'static Tok, Tok>(&STATIC_TOK), "O(L9)");
    case!(l_res, Err::<&'static Tok, Tok>(t(2)), "E(L2)");
    case!(l_tup, (&STATIC_TOK, t(2)), "T[L9,L2]");
    case!(l_vec_opt, vec![Some(&STATIC_TOK), None, Some(&STATIC_TOK)], "V[S(L9),N,S(L9)]");
    // methods that also have a default body: same shapes, and an exhausted single-use value is still refused
    case!(b_opt_res, Some(Err::<Tok, Tok>(t(2))), "S(E(L2))");
    case!(b_opt_res, Some(Ok::<Tok, Tok>(t(1))), "S(O(L1))");
    case!(b_tup, (t(1), t(2)), "T[L1,L2]");
    case!(d_opt_vec_res, None::<Vec<Result<Tok, Tok>>>, "N");
    case!(d_opt_vec_res, Some(vec![Ok::<Tok, Tok>(t(1)), Err(t(2)), Ok(t(3))]), "S(V[O(L1),E(L2),O(L3)])");
}
