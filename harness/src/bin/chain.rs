//! chain: drives `ValueChain` / `Unimock::{make_ref, make_mut}` with drop-tracking payloads.
//! Sequential op lists are compared with the Lean model; concurrent pushes run under the
//! controlled scheduler (yield point before every `try_insert`) and are judged by an oracle.
use std::io::{Read, Write};
use std::sync::Mutex;
use unimock::value_chain::ValueChain;
use unimock::*;
use verif_harness::proto;
use verif_harness::sched::{self, Sched};

static DROPS: Mutex<Vec<u64>> = Mutex::new(Vec::new());

pub struct A(u64);
struct B(u64, String);
struct C(Box<u64>);
impl Drop for A { fn drop(&mut self) { DROPS.lock().unwrap().push(self.0); } }
impl Drop for B { fn drop(&mut self) { DROPS.lock().unwrap().push(self.0); } }
impl Drop for C { fn drop(&mut self) { DROPS.lock().unwrap().push(*self.0); } }
/// zero-sized payload: instances cannot carry their serial, so the serials of the lent markers are queued
/// (a chain releases its values in insertion order)
struct Z;
static ZQ: Mutex<std::collections::VecDeque<u64>> = Mutex::new(std::collections::VecDeque::new());
impl Drop for Z { fn drop(&mut self) { let s = ZQ.lock().unwrap().pop_front().unwrap_or(u64::MAX); DROPS.lock().unwrap().push(s); } }

enum Ref<'a> { A(&'a A), B(&'a B), C(&'a C), Z(&'a Z, u64) }
impl Ref<'_> {
    fn read(&self) -> u64 {
        match self { Ref::A(x) => x.0, Ref::B(x) => { assert_eq!(x.1, format!("p{}", x.0)); x.0 } Ref::C(x) => *x.0, Ref::Z(_, s) => *s }
    }
    fn addr(&self) -> usize {
        match self { Ref::A(x) => *x as *const A as usize, Ref::B(x) => *x as *const B as usize, Ref::C(x) => *x as *const C as usize, Ref::Z(_, s) => usize::MAX - *s as usize /* zero-sized values have no address of their own */ }
    }
}

trait Lender: Sync {
    fn lend(&self, ty: usize, s: u64) -> Ref<'_>;
    fn lend_mut(&mut self, ty: usize, s: u64) -> u64;
}
impl Lender for ValueChain {
    fn lend(&self, ty: usize, s: u64) -> Ref<'_> {
        match ty { 0 => Ref::A(self.push(A(s))), 1 => Ref::B(self.push(B(s, format!("p{s}")))), 2 => Ref::C(self.push(C(Box::new(s)))), _ => { ZQ.lock().unwrap().push_back(s); Ref::Z(self.push(Z), s) } }
    }
    fn lend_mut(&mut self, ty: usize, s: u64) -> u64 {
        match ty { 0 => { let r = self.push_mut(A(s)); r.0 } 1 => { let r = self.push_mut(B(s, format!("p{s}"))); r.0 } 2 => { let r = self.push_mut(C(Box::new(s))); *r.0 } _ => { ZQ.lock().unwrap().push_back(s); let _r = self.push_mut(Z); s } }
    }
}
impl Lender for Unimock {
    fn lend(&self, ty: usize, s: u64) -> Ref<'_> {
        match ty { 0 => Ref::A(self.make_ref(A(s))), 1 => Ref::B(self.make_ref(B(s, format!("p{s}")))), 2 => Ref::C(self.make_ref(C(Box::new(s)))), _ => { ZQ.lock().unwrap().push_back(s); Ref::Z(self.make_ref(Z), s) } }
    }
    fn lend_mut(&mut self, ty: usize, s: u64) -> u64 {
        match ty { 0 => { let r = self.make_mut(A(s)); r.0 } 1 => { let r = self.make_mut(B(s, format!("p{s}"))); r.0 } 2 => { let r = self.make_mut(C(Box::new(s))); *r.0 } _ => { ZQ.lock().unwrap().push_back(s); let _r = self.make_mut(Z); s } }
    }
}

#[unimock(api = HelpMock)]
trait Help {
    fn req(&self, s: u64) -> u64;
    fn via_mut(&mut self, s: u64) -> u64 { self.req(s) }
    fn via_ref(&self, s: u64) -> u64 { self.req(s) }
    fn via_pin(self: std::pin::Pin<&mut Self>, s: u64) -> u64 { self.req(s) }
    fn bref(&self) -> &A;
    fn reqv(self, s: u64) -> u64;
    fn via_own(self, s: u64) -> u64 where Self: Sized { let d = DROPS.lock().unwrap().len() as u64; self.reqv(s) + 1000 * d }
}

#[unimock(api = HelpRcMock)]
trait HelpRc {
    fn reqrc(self: std::rc::Rc<Self>, s: u64) -> u64;
    fn via_rc(self: std::rc::Rc<Self>, s: u64) -> u64 { let d = DROPS.lock().unwrap().len() as u64; self.reqrc(s) + 1000 * d }
}
#[unimock(api = HelpArcMock)]
trait HelpArc {
    fn reqarc(self: std::sync::Arc<Self>, s: u64) -> u64;
    fn via_arc(self: std::sync::Arc<Self>, s: u64) -> u64 { let d = DROPS.lock().unwrap().len() as u64; self.reqarc(s) + 1000 * d }
}

/// an instance that has lent values is dropped while its thread unwinds from an unrelated panic: the values are
/// released then (exactly once), not leaked
fn run_unwind_drop(n: usize, clone: bool, out: &mut impl Write) {
    struct Boom;
    let orig = Unimock::new(());
    let target = if clone { orig.clone() } else { Unimock::new(()) };
    let r = std::panic::catch_unwind(std::panic::AssertUnwindSafe(move || {
        let t = target;
        for k in 0..n { let _ = t.make_ref(A(k as u64 + 1)); }
        std::panic::resume_unwind(Box::new(Boom));
    }));
    let d = take_drops();
    drop(orig);
    writeln!(out, "unwinddrop n={} clone={} unwound={} dropped={}", n, clone, r.is_err(), d.split(',').filter(|x| !x.is_empty()).count()).unwrap();
}

/// values lent through the delegation helpers of provided methods stay alive until the mock is torn down
fn run_helper(n: usize, end: usize, out: &mut impl Write) {
    let lend = || HelpMock::req.each_call(matching!(_)).answers(&|u, s| { u.make_ref(A(s)); s });
    let mut u = if end == 4 { Unimock::new((lend(), HelpRcMock::reqrc.each_call(matching!(_)).answers(&|_, s| s + DROPS.lock().unwrap().len() as u64))) }
        else if end == 5 { Unimock::new((lend(), HelpArcMock::reqarc.each_call(matching!(_)).answers(&|_, s| s + DROPS.lock().unwrap().len() as u64))) }
        else if end == 3 { Unimock::new((lend(), HelpMock::reqv.each_call(matching!(_)).answers(&|_, s| s + DROPS.lock().unwrap().len() as u64))) } else { Unimock::new(lend()) };
    let mut early = vec![];
    let mut wrong = 0;
    for k in 0..n {
        let s = k as u64 + 1;
        let r = match k % 4 { 2 => u.via_ref(s), 3 => std::pin::Pin::new(&mut u).via_pin(s), _ => u.via_mut(s) };
        if r != s { wrong += 1; }
        let d = take_drops();
        if !d.is_empty() { early.push(format!("after-call-{}:[{}]", k + 1, d)); }
    }
    // how the instance ends: dropped; re-configured with no_verify_in_drop() first (nothing may be released by that); verified explicitly
    match end {
        3 => {
            // a by-value provided method: inside its default body and inside the required method's answer nothing lent so far is gone
            let _ = u.make_ref(A(9_000_000));            // lent by the instance itself (the helpers' values live in the helpers)
            let r = u.via_own(7);
            if r != 7 { early.push(format!("during-by-value-delegation:[result {r}: 1000 x values dropped when the default body started + 1 x values dropped when the answer ran]")); }
        }
        4 | 5 => {
            // the sole STRONG owner of an Rc / Arc (a Weak is outstanding) calls a provided method: the instance itself is handed to
            // the default body, so nothing it has lent is gone inside that body or inside the required method's answer
            let _ = u.make_ref(A(9_000_000));
            let r = if end == 4 {
                let rc = std::rc::Rc::new(u); let w = std::rc::Rc::downgrade(&rc);
                let r = std::panic::catch_unwind(std::panic::AssertUnwindSafe(move || rc.via_rc(7))); drop(w); r
            } else {
                let ar = std::sync::Arc::new(u); let w = std::sync::Arc::downgrade(&ar);
                let r = std::panic::catch_unwind(std::panic::AssertUnwindSafe(move || ar.via_arc(7))); drop(w); r
            };
            match r {
                Ok(7) => {}
                Ok(r) => early.push(format!("during-rc-arc-delegation-with-weak:[result {r}: 1000 x values dropped when the default body started + 1 x values dropped when the answer ran]")),
                Err(p) => early.push(format!("during-rc-arc-delegation-with-weak:[panicked: {}]", p.downcast_ref::<String>().cloned().unwrap_or_default().lines().next().unwrap_or("").replace(['[', ']'], "|"))),
            }
        }
        1 => {
            let u2 = u.no_verify_in_drop();
            let d = take_drops();
            if !d.is_empty() { early.push(format!("after-no_verify_in_drop:[{}]", d)); }
            drop(u2);
        }
        2 => u.verify(),
        _ => drop(u),
    }
    let fin = take_drops();
    writeln!(out, "helper n={} wrong={} early=[{}] dropped_at_teardown={}", n, wrong, early.join(";"), fin.split(',').filter(|x| !x.is_empty() && *x != "9000000").count()).unwrap();
}

/// a value configured with returns() for a borrowed return lives in the mock: it is dropped exactly once, when the last instance
/// sharing the state goes — however that instance ends (drop, verify(), report())
fn run_returns_drop(end: usize, out: &mut impl Write) {
    // end 3 / 4: an expectation stays unmet, so verify() panics (caught) / report() says FAILURE — the value is released all the same
    let u = if end >= 3 { Unimock::new(HelpMock::bref.each_call(matching!()).returns(A(77)).n_times(5)) } else { Unimock::new(HelpMock::bref.each_call(matching!()).returns(A(77))) };
    let c = u.clone();
    let reads = (u.bref().0, c.bref().0);
    drop(c);
    let early = take_drops();
    match end {
        1 => u.verify(),
        2 | 4 => { let _ = std::process::Termination::report(u); }
        3 => { let _ = std::panic::catch_unwind(std::panic::AssertUnwindSafe(move || u.verify())); }
        _ => drop(u),
    }
    let fin = take_drops();
    writeln!(out, "returnsdrop end={} reads={:?} early=[{}] dropped_after_end=[{}]", end, reads, early, fin).unwrap();
}

/// the drop log in the order the values were released (a chain releases root first)
fn take_drops_in_order() -> Vec<u64> {
    std::mem::take(&mut *DROPS.lock().unwrap())
}

fn take_drops() -> String {
    let mut d = std::mem::take(&mut *DROPS.lock().unwrap());
    d.sort();
    d.iter().map(|x| x.to_string()).collect::<Vec<_>>().join(",")
}

/// ops between two `mut`s are one phase: references obtained in a phase are re-read after every op of it
fn run_seq<L: Lender>(mut lender: L, ops: &[Vec<String>], out: &mut impl Write) {
    let mut i = 0;
    while i < ops.len() {
        // find end of phase
        let mut j = i;
        while j < ops.len() && ops[j][0] != "mut" { j += 1; }
        {
            let l: &L = &lender;
            let mut refs: Vec<Ref> = vec![];
            for op in &ops[i..j] {
                let toks: Vec<&str> = op.iter().map(|s| s.as_str()).collect();
                if toks[0] == "ref" {
                    refs.push(l.lend(proto::kv_num(&toks, "ty"), proto::kv_num(&toks, "s") as u64));
                }
                let reads: Vec<String> = refs.iter().map(|r| r.read().to_string()).collect();
                let mut addrs: Vec<usize> = refs.iter().map(|r| r.addr()).collect();
                addrs.sort(); addrs.dedup();
                writeln!(out, "{} reads={} distinct={} drops={}", toks[0], reads.join(","), addrs.len() == refs.len(), take_drops()).unwrap();
            }
        }
        if j < ops.len() {
            let toks: Vec<&str> = ops[j].iter().map(|s| s.as_str()).collect();
            let v = lender.lend_mut(proto::kv_num(&toks, "ty"), proto::kv_num(&toks, "s") as u64);
            writeln!(out, "mut reads={} distinct=true drops={}", v, take_drops()).unwrap();
            j += 1;
        }
        i = j;
    }
    drop(lender);
    writeln!(out, "drop drops={}", take_drops()).unwrap();
}

fn run_par<L: Lender>(lender: L, pre: u64, threads: usize, per: usize, out: &mut impl Write, cap: usize, mk: &dyn Fn() -> L) {
    let _ = lender;
    let trace_schedules = std::env::var("CHAIN_TRACE").is_ok();
    let mut prefix: Option<Vec<usize>> = Some(vec![]);
    let mut count = 0;
    let mut bad: Option<String> = None;
    let mut exhausted = false;
    while let Some(p) = prefix {
        let l = mk();
        let pre_refs: Vec<Ref> = (0..pre).map(|s| l.lend(0, 1000 + s)).collect();
        let s = Sched::new(threads, p, None);
        let results: Vec<Mutex<Vec<(u64, u64, usize)>>> = (0..threads).map(|_| Mutex::new(vec![])).collect();
        {
            let lr = &l;
            let res = &results;
            let mut bodies: Vec<Box<dyn FnOnce() + Send + '_>> = vec![];
            for t in 0..threads {
                bodies.push(Box::new(move || {
                    let mut mine = vec![];
                    for k in 0..per {
                        let serial = (t * 100 + k) as u64;
                        let r = lr.lend(k % 3, serial);
                        mine.push((serial, r));
                    }
                    // re-read everything at the end of the thread
                    let v: Vec<(u64, u64, usize)> = mine.iter().map(|(s, r)| (*s, r.read(), r.addr())).collect();
                    *res[t].lock().unwrap() = v;
                }));
            }
            s.run(bodies);
        }
        let early = take_drops();
        let mut all: Vec<(u64, u64, usize)> = results.iter().flat_map(|m| m.lock().unwrap().clone()).collect();
        let wrong: Vec<(u64, u64, usize)> = all.iter().filter(|(s, r, _)| s != r).cloned().collect();
        let pre_ok = pre_refs.iter().enumerate().all(|(i, r)| r.read() == 1000 + i as u64);
        let mut addrs: Vec<usize> = all.iter().map(|x| x.2).chain(pre_refs.iter().map(|r| r.addr())).collect();
        let n_addrs = addrs.len();
        addrs.sort(); addrs.dedup();
        drop(pre_refs);
        drop(l);
        let fin_order = take_drops_in_order();
        let fin = { let mut d = fin_order.clone(); d.sort(); d.iter().map(|x| x.to_string()).collect::<Vec<_>>().join(",") };
        all.sort();
        let mut expect: Vec<u64> = all.iter().map(|x| x.0).chain((0..pre).map(|s| 1000 + s)).collect();
        expect.sort();
        let expect_s = expect.iter().map(|x| x.to_string()).collect::<Vec<_>>().join(",");
        let g = s.inner.lock().unwrap();
        let picks: Vec<String> = g.picks.iter().map(|p| p.to_string()).collect();
        if bad.is_none() && (!wrong.is_empty() || !pre_ok || addrs.len() != n_addrs || !early.is_empty() || fin != expect_s) {
            bad = Some(format!("picks={} wrong_reads={:?} earlier_refs_intact={} distinct={} dropped_before_teardown=[{}] dropped_at_teardown=[{}] expected=[{}]",
                picks.join(","), wrong.iter().map(|x| (x.0, x.1)).collect::<Vec<_>>(), pre_ok, addrs.len() == n_addrs, early, fin, expect_s));
        }
        if trace_schedules {
            // one line per schedule for the replay on the Lean race model: the chain order is the release order
            let attempts: Vec<String> = g.tags.iter().map(|t| t.iter().filter(|x| **x == "try_insert").count().to_string()).collect();
            let other: usize = g.tags.iter().map(|t| t.iter().filter(|x| **x != "try_insert").count()).sum();
            writeln!(out, "rsched picks={} order={} attempts={} othertags={}", picks.join(","),
                fin_order.iter().map(|x| x.to_string()).collect::<Vec<_>>().join(","), attempts.join(","), other).unwrap();
        }
        count += 1;
        prefix = sched::next_prefix(&g.trace);
        if prefix.is_none() { exhausted = true; }
        if count >= cap { break; }
    }
    writeln!(out, "par schedules={} exhaustive={} verdict={}", count, exhausted, bad.unwrap_or_else(|| "ok".into())).unwrap();
}

/// uninstrumented real-thread race on one shared lender, same oracle as `run_par`
fn run_stress<L: Lender>(threads: usize, per: usize, rounds: usize, out: &mut impl Write, mk: &dyn Fn() -> L) {
    let mut bad: Option<String> = None;
    for round in 0..rounds {
        let l = mk();
        let barrier = std::sync::Barrier::new(threads);
        let results: Vec<Vec<(u64, u64, usize)>> = std::thread::scope(|scope| {
            let mut hs = vec![];
            for t in 0..threads {
                let lr = &l;
                let b = &barrier;
                hs.push(scope.spawn(move || {
                    b.wait();
                    let mut mine = vec![];
                    for k in 0..per {
                        let serial = (t * 100000 + k) as u64;
                        mine.push((serial, lr.lend(k % 3, serial)));
                    }
                    mine.iter().map(|(s, r)| (*s, r.read(), r.addr())).collect::<Vec<_>>()
                }));
            }
            hs.into_iter().map(|h| h.join().unwrap()).collect()
        });
        let early = take_drops();
        let all: Vec<(u64, u64, usize)> = results.into_iter().flatten().collect();
        let wrong = all.iter().filter(|(s, r, _)| s != r).count();
        let mut addrs: Vec<usize> = all.iter().map(|x| x.2).collect();
        addrs.sort(); addrs.dedup();
        drop(l);
        let fin = DROPS.lock().unwrap().len();
        let _ = take_drops();
        if bad.is_none() && (wrong > 0 || addrs.len() != all.len() || !early.is_empty() || fin != all.len()) {
            bad = Some(format!("round={round} wrong_reads={wrong} aliased={} dropped_before_teardown={} dropped_at_teardown={} of {}",
                all.len() - addrs.len(), early.split(',').filter(|x| !x.is_empty()).count(), fin, all.len()));
        }
    }
    writeln!(out, "stress rounds={} verdict={}", rounds, bad.unwrap_or_else(|| "ok".into())).unwrap();
}

fn main() {
    std::panic::set_hook(Box::new(|_| {}));
    sched::install();
    let cap: usize = std::env::var("SCHED_CAP").ok().and_then(|v| v.parse().ok()).unwrap_or(5000);
    let mut text = String::new();
    std::io::stdin().read_to_string(&mut text).unwrap();
    let stdout = std::io::stdout();
    let mut out = std::io::BufWriter::new(stdout.lock());
    let mut name = String::new();
    let mut via = String::from("chain");
    let mut ops: Vec<Vec<String>> = vec![];
    for line in text.lines() {
        let toks: Vec<String> = line.split_whitespace().map(|s| s.to_string()).collect();
        if toks.is_empty() || toks[0].starts_with('#') { continue; }
        match toks[0].as_str() {
            "scenario" => { name = toks[1..].join(" "); ops.clear(); via = "chain".into(); }
            "via" => { via = toks[1].clone(); }
            "end" => {
                writeln!(out, "scenario {name}").unwrap();
                let _ = take_drops();
                let res = std::panic::catch_unwind(std::panic::AssertUnwindSafe(|| {
                if let Some(h) = ops.iter().find(|o| o[0] == "unwinddrop") {
                    let t: Vec<&str> = h.iter().map(|s| s.as_str()).collect();
                    run_unwind_drop(proto::kv_num(&t, "n"), proto::kv_num(&t, "clone") == 1, &mut out);
                } else if let Some(h) = ops.iter().find(|o| o[0] == "helper") {
                    let t: Vec<&str> = h.iter().map(|s| s.as_str()).collect();
                    run_helper(proto::kv_num(&t, "n"), proto::kv_num(&t, "end"), &mut out);
                } else if let Some(h) = ops.iter().find(|o| o[0] == "returnsdrop") {
                    let t: Vec<&str> = h.iter().map(|s| s.as_str()).collect();
                    run_returns_drop(proto::kv_num(&t, "end"), &mut out);
                } else if let Some(d) = ops.iter().find(|o| o[0] == "deep") {
                    // a long chain released by one make_mut, on a thread with a small stack: the release must not recurse per node
                    let t: Vec<&str> = d.iter().map(|s| s.as_str()).collect();
                    let (n, stack) = (proto::kv_num(&t, "n"), proto::kv_num(&t, "stack"));
                    let via2 = via.clone();
                    out.flush().unwrap();
                    let h = std::thread::Builder::new().stack_size(stack).spawn(move || {
                        fn go<L: Lender>(mut l: L, n: usize) -> u64 {
                            for i in 0..n { let _ = l.lend(0, i as u64 + 1); }
                            let r = l.lend_mut(0, n as u64 + 1);
                            drop(l);
                            r
                        }
                        match via2.as_str() { "chain" => go(ValueChain::default(), n), _ => go(Unimock::new(()), n) }
                    }).unwrap();
                    let r = h.join().unwrap();
                    let d = take_drops();
                    writeln!(out, "deep n={} mut_serial={} dropped={}", n, r, d.split(',').filter(|x| !x.is_empty()).count()).unwrap();
                } else if let Some(st) = ops.iter().find(|o| o[0] == "stress") {
                    let t: Vec<&str> = st.iter().map(|s| s.as_str()).collect();
                    let (threads, per, rounds) = (proto::kv_num(&t, "threads"), proto::kv_num(&t, "per"), proto::kv_num(&t, "rounds"));
                    match via.as_str() {
                        "chain" => run_stress(threads, per, rounds, &mut out, &|| ValueChain::default()),
                        _ => run_stress(threads, per, rounds, &mut out, &|| Unimock::new(())),
                    }
                } else if let Some(par) = ops.iter().find(|o| o[0] == "par") {
                    let t: Vec<&str> = par.iter().map(|s| s.as_str()).collect();
                    let (threads, per, pre) = (proto::kv_num(&t, "threads"), proto::kv_num(&t, "per"), proto::kv_num(&t, "pre") as u64);
                    match via.as_str() {
                        "chain" => run_par(ValueChain::default(), pre, threads, per, &mut out, cap, &|| ValueChain::default()),
                        _ => run_par(Unimock::new(()), pre, threads, per, &mut out, cap, &|| Unimock::new(())),
                    }
                } else {
                    match via.as_str() {
                        "chain" => run_seq(ValueChain::default(), &ops, &mut out),
                        "clone" => { let o = Unimock::new(()); let c = o.clone(); run_seq(c, &ops, &mut out); drop(o); }
                        _ => run_seq(Unimock::new(()), &ops, &mut out),
                    }
                }
                }));
                if let Err(payload) = res {
                    let msg = payload.downcast_ref::<String>().cloned().or_else(|| payload.downcast_ref::<&str>().map(|s| s.to_string())).unwrap_or_default();
                    writeln!(out, "crash {}", proto::esc(&msg)).unwrap();
                }
                writeln!(out, "end").unwrap();
            }
            _ => ops.push(toks),
        }
    }
    out.flush().unwrap();
}
