//! sched: explores thread interleavings of concurrent calls on the real library under the
//! controlled scheduler (all schedules by DFS up to a cap, then seeded random ones), plus the
//! call-granularity sequential interleavings used by the linearizability oracle, plus a stress mode.
use std::io::{Read, Write};
use std::sync::Arc;
use unimock::Unimock;
use verif_harness::proto::{self, esc, Tree};
use verif_harness::runtime::{build_tree, catch, Caught};
use verif_harness::sched::{self, Sched};
use verif_harness::universe::call_method;

struct ParScenario {
    name: String,
    partial: bool,
    tree: Tree,
    shared: bool,
    threads: Vec<Vec<(u8, u8)>>,
}

fn parse(text: &str) -> Vec<ParScenario> {
    let mut out = vec![];
    let mut cur: Vec<Vec<&str>> = vec![];
    let mut name = String::new();
    for line in text.lines() {
        let toks: Vec<&str> = line.split_whitespace().collect();
        if toks.is_empty() || toks[0].starts_with('#') {
            continue;
        }
        if toks[0] == "scenario" {
            name = toks[1..].join(" ");
            cur.clear();
        } else if toks[0] == "end" {
            // split: build block lines until `par`
            let par_pos = cur.iter().position(|t| t[0] == "par").expect("par line");
            let evs = proto::parse_events(&cur[..par_pos]).expect("build block");
            let (partial, tree) = match &evs[0] {
                proto::Event::Build { partial, tree, .. } => (*partial, tree.clone()),
                _ => panic!("first event must be build"),
            };
            let n = proto::kv_num(&cur[par_pos], "threads");
            let shared = proto::kv_num(&cur[par_pos], "shared") == 1;
            let mut threads = vec![vec![]; n];
            for t in &cur[par_pos + 1..] {
                if t[0] == "tcall" {
                    threads[proto::kv_num(t, "k")].push((proto::kv_num(t, "m") as u8, proto::kv_num(t, "a") as u8));
                }
            }
            out.push(ParScenario { name: name.clone(), partial, tree, shared, threads });
        } else {
            cur.push(toks);
        }
    }
    out
}

fn new_mock(sc: &ParScenario) -> Unimock {
    let clause = build_tree(&sc.tree);
    if sc.partial {
        Unimock::new_partial(clause)
    } else {
        Unimock::new(clause)
    }
}

fn one_call(u: &Unimock, m: u8, a: u8) -> String {
    match catch(|| call_method(u, m, a)) {
        Caught::Ok(v) => format!("ret:{v}"),
        Caught::User => "user".to_string(),
        Caught::Msg(msg) => format!("panic:{}", esc(&msg)),
    }
}

fn finalize(orig: Unimock, outs: &mut [Vec<String>]) -> String {
    // map panic messages to error kinds through the recorded reasons, then verify the original
    let snap = unimock::verif::snapshot(&orig);
    for t in outs.iter_mut() {
        for o in t.iter_mut() {
            if let Some(msg) = o.strip_prefix("panic:") {
                let kind = snap.reasons.iter().find(|(_, m)| esc(m) == msg).map(|(k, _)| *k).unwrap_or("Unrecorded");
                *o = format!("err:{kind}");
            }
        }
    }
    let mut fns: Vec<String> = snap
        .fns
        .iter()
        .map(|f| {
            let counts: Vec<String> = f.patterns.iter().map(|p| p.count.to_string()).collect();
            format!("{}::{}[{}]", f.trait_ident, f.method_ident, counts.join(","))
        })
        .collect();
    fns.sort();
    let mut kinds: Vec<&str> = snap.reasons.iter().map(|(k, _)| *k).collect();
    kinds.sort();
    let verdict = match catch(move || orig.verify()) {
        Caught::Ok(()) => "ok".to_string(),
        Caught::User => "user".to_string(),
        Caught::Msg(m) => esc(&m),
    };
    format!("next={} counts={} reasons={} verdict={}", snap.next_ordered, fns.join(" "), kinds.join(","), verdict)
}

fn fmt_outs(outs: &[Vec<String>]) -> String {
    outs.iter().map(|t| t.join(",")).collect::<Vec<_>>().join("|")
}

/// run the scenario under one schedule
fn run_schedule(sc: &ParScenario, choices: Vec<usize>, random: Option<u64>) -> (String, Vec<(usize, usize)>) {
    let orig = new_mock(sc);
    let n = sc.threads.len();
    let clones: Vec<Unimock> = if sc.shared { vec![] } else { (0..n).map(|_| orig.clone()).collect() };
    let results: Vec<std::sync::Mutex<Vec<String>>> = (0..n).map(|_| std::sync::Mutex::new(vec![])).collect();
    let s = Sched::new(n, choices, random);
    {
        let orig_ref = &orig;
        let results = &results;
        let mut bodies: Vec<Box<dyn FnOnce() + Send + '_>> = vec![];
        let mut clones_it = clones.into_iter();
        for (tid, calls) in sc.threads.iter().enumerate() {
            let mine: Option<Unimock> = clones_it.next();
            bodies.push(Box::new(move || {
                let u: &Unimock = match &mine {
                    Some(c) => c,
                    None => orig_ref,
                };
                for (m, a) in calls {
                    let o = one_call(u, *m, *a);
                    results[tid].lock().unwrap().push(o);
                }
                // keep the clone alive until the scheduled region is over; dropped below on this thread
                // after the last yield point (drop of a clone touches no instrumented state)
                drop(mine);
            }));
        }
        s.run(bodies);
    }
    let mut outs: Vec<Vec<String>> = results.into_iter().map(|m| m.into_inner().unwrap()).collect();
    let fin = finalize(orig, &mut outs);
    let g = s.inner.lock().unwrap();
    let picks: Vec<String> = g.picks.iter().map(|p| p.to_string()).collect();
    let choices: Vec<String> = g.trace.iter().map(|(c, _)| c.to_string()).collect();
    let tags: Vec<String> = g.tags.iter().map(|t| t.join(",")).collect();
    (
        format!("sched {} picks={} tags={} outs={} {}", choices.join(","), picks.join(","), tags.join("|"), fmt_outs(&outs), fin),
        g.trace.clone(),
    )
}

/// all interleavings of whole calls that keep each thread's program order (no scheduler)
fn sequential_runs(sc: &ParScenario, out: &mut impl Write) {
    let n = sc.threads.len();
    fn rec(sc: &ParScenario, pos: &mut Vec<usize>, order: &mut Vec<usize>, out: &mut impl Write) {
        let n = sc.threads.len();
        if (0..n).all(|t| pos[t] == sc.threads[t].len()) {
            let orig = new_mock(sc);
            let clones: Vec<Unimock> = (0..n).map(|_| orig.clone()).collect();
            let mut outs: Vec<Vec<String>> = vec![vec![]; n];
            let mut p = vec![0usize; n];
            for &t in order.iter() {
                let (m, a) = sc.threads[t][p[t]];
                p[t] += 1;
                let u = if sc.shared { &orig } else { &clones[t] };
                outs[t].push(one_call(u, m, a));
            }
            drop(clones);
            let fin = finalize(orig, &mut outs);
            let ord: Vec<String> = order.iter().map(|x| x.to_string()).collect();
            writeln!(out, "seq {} outs={} {}", ord.join(","), fmt_outs(&outs), fin).unwrap();
            return;
        }
        for t in 0..n {
            if pos[t] < sc.threads[t].len() {
                pos[t] += 1;
                order.push(t);
                rec(sc, pos, order, out);
                order.pop();
                pos[t] -= 1;
            }
        }
    }
    rec(sc, &mut vec![0; n], &mut vec![], out);
}

/// uninstrumented, for `shared=1` scenarios: `reps` rounds, each with a fresh mock that all threads call through ONE
/// `&Unimock` (so they also share its value chain), released together by a barrier
fn stress_shared(sc: &ParScenario, reps: usize, out: &mut impl Write) {
    let n = sc.threads.len();
    let mut total = 0;
    let mut hist = std::collections::BTreeMap::new();
    let mut last_fin = String::new();
    for _ in 0..reps {
        let orig = new_mock(sc);
        let barrier = std::sync::Barrier::new(n);
        let results: Vec<Vec<String>> = std::thread::scope(|scope| {
            let mut hs = vec![];
            for t in 0..n {
                let u = &orig;
                let b = &barrier;
                let calls = sc.threads[t].clone();
                hs.push(scope.spawn(move || {
                    b.wait();
                    calls.iter().map(|(m, a)| match catch(|| call_method(u, *m, *a)) {
                        Caught::Ok(v) => format!("ret:{v}"),
                        Caught::User => "user".into(),
                        Caught::Msg(_) => "panic".into(),
                    }).collect::<Vec<_>>()
                }));
            }
            hs.into_iter().map(|h| h.join().unwrap()).collect()
        });
        for r in results { for o in r { *hist.entry(o).or_insert(0) += 1; total += 1; } }
        let mut none: Vec<Vec<String>> = vec![];
        last_fin = finalize(orig, &mut none);
    }
    let h: Vec<String> = hist.iter().map(|(k, v)| format!("{k}x{v}")).collect();
    let fin_short: String = last_fin.chars().take(400).collect();
    writeln!(out, "stress calls={} hist={} {}", total, h.join(","), fin_short).unwrap();
}

fn stress(sc: &ParScenario, reps: usize, out: &mut impl Write) {
    if sc.shared {
        return stress_shared(sc, reps, out);
    }
    // uninstrumented: every thread repeats its call list `reps` times on its own clone
    let orig = new_mock(sc);
    let n = sc.threads.len();
    let results: Vec<(usize, std::collections::BTreeMap<String, usize>)> = std::thread::scope(|scope| {
        let mut hs = vec![];
        for t in 0..n {
            let u = orig.clone();
            let calls = sc.threads[t].clone();
            hs.push(scope.spawn(move || {
                let mut hist = std::collections::BTreeMap::new();
                let mut total = 0;
                for _ in 0..reps {
                    for (m, a) in calls.iter() {
                        let o = match catch(|| call_method(&u, *m, *a)) {
                            Caught::Ok(v) => format!("ret:{v}"),
                            Caught::User => "user".into(),
                            Caught::Msg(_) => "panic".into(),
                        };
                        *hist.entry(o).or_insert(0) += 1;
                        total += 1;
                    }
                }
                (total, hist)
            }));
        }
        hs.into_iter().map(|h| h.join().unwrap()).collect()
    });
    let mut total = 0;
    let mut hist = std::collections::BTreeMap::new();
    for (t, h) in results {
        total += t;
        for (k, v) in h {
            *hist.entry(k).or_insert(0) += v;
        }
    }
    let mut none: Vec<Vec<String>> = vec![];
    let fin = finalize(orig, &mut none);
    let h: Vec<String> = hist.iter().map(|(k, v)| format!("{k}x{v}")).collect();
    let fin_short: String = fin.chars().take(400).collect();
    writeln!(out, "stress calls={} hist={} {}", total, h.join(","), fin_short).unwrap();
}

fn main() {
    std::panic::set_hook(Box::new(|_| {}));
    sched::install();
    let args: Vec<String> = std::env::args().collect();
    let cap: usize = std::env::var("SCHED_CAP").ok().and_then(|v| v.parse().ok()).unwrap_or(20000);
    let nrandom: usize = std::env::var("SCHED_RANDOM").ok().and_then(|v| v.parse().ok()).unwrap_or(200);
    let seed: u64 = std::env::var("VERIF_SEED").ok().and_then(|v| v.parse().ok()).unwrap_or(1);
    let stress_reps: usize = std::env::var("SCHED_STRESS").ok().and_then(|v| v.parse().ok()).unwrap_or(0);
    let mut text = String::new();
    if args.len() > 1 {
        text = std::fs::read_to_string(&args[1]).expect("read scenario file");
    } else {
        std::io::stdin().read_to_string(&mut text).unwrap();
    }
    let stdout = std::io::stdout();
    let mut out = std::io::BufWriter::new(stdout.lock());
    for sc in parse(&text) {
        writeln!(out, "scenario {}", sc.name).unwrap();
        if stress_reps > 0 {
            stress(&sc, stress_reps, &mut out);
            writeln!(out, "end").unwrap();
            continue;
        }
        sequential_runs(&sc, &mut out);
        // explicit schedules given in the file? (replay mode): lines `schedule 0,1,0`
        let mut prefix: Option<Vec<usize>> = Some(vec![]);
        let mut count = 0;
        let mut exhausted = false;
        while let Some(p) = prefix {
            let (line, trace) = run_schedule(&sc, p, None);
            writeln!(out, "{line}").unwrap();
            count += 1;
            prefix = sched::next_prefix(&trace);
            if prefix.is_none() {
                exhausted = true;
            }
            if count >= cap {
                break;
            }
        }
        if !exhausted {
            for k in 0..nrandom {
                let (line, _) = run_schedule(&sc, vec![], Some(seed.wrapping_mul(1000003).wrapping_add(k as u64 + 1)));
                writeln!(out, "{line}").unwrap();
            }
        }
        writeln!(out, "explored {} exhaustive={}", count, exhausted).unwrap();
        writeln!(out, "end").unwrap();
    }
    out.flush().unwrap();
    let _ = Arc::new(0);
}
