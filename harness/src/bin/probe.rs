use std::sync::Arc;
use unimock::*;
use embedded_hal_1::spi::{Operation as SpiOp, SpiDevice};
use unimock::mock::embedded_hal_1::spi::SpiDeviceMock;
fn main() {
    let mut u = Unimock::new(SpiDeviceMock::transaction.with_types::<u8>().each_call(matching!(_)).answers_arc(Arc::new(move |_, _ops| { println!("tx"); Ok(()) })).at_least_times(0)).no_verify_in_drop();
    let mut b1 = [0u8; 2];
    let r = std::panic::catch_unwind(std::panic::AssertUnwindSafe(|| { let _ = SpiDevice::<u8>::transaction(&mut u, &mut [SpiOp::Read(&mut b1)]); }));
    println!("direct: {:?}", r.is_ok());
    let r = std::panic::catch_unwind(std::panic::AssertUnwindSafe(|| { let _ = SpiDevice::<u8>::read(&mut u, &mut b1); }));
    println!("provided read: {:?}", r.is_ok());
    let r = std::panic::catch_unwind(std::panic::AssertUnwindSafe(|| { let _ = SpiDevice::<u8>::write(&mut u, &[1u8]); }));
    println!("provided write: {:?}", r.is_ok());
}
