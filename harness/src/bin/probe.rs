use unimock::*;
#[unimock(api=MTMock)]
trait MT { fn m_nn(&self, a: u8, b: u8) -> u32; }
fn main() {
    let o = Unimock::new(MTMock::m_nn.next_call(matching!(eq!(&1), eq!(&3))).returns(1u32).n_times(1)).no_verify_in_drop();
    let r = std::panic::catch_unwind(std::panic::AssertUnwindSafe(|| o.m_nn(1, 0)));
    println!("{}", r.err().and_then(|p| p.downcast_ref::<String>().cloned()).unwrap_or_default());
}
