//! matchers: generated `matching!` invocations evaluated on every argument tuple of a finite domain,
//! through an unordered clause (diagnostics off) and an ordered clause (diagnostics on), next to the
//! hand-expanded native `match` (independent oracle). The cases live in `src/gen_matching_cases.rs`.
use unimock::*;

#[unimock(api=MTMock)]
trait MT {
    fn m_nn(&self, a: u8, b: u8) -> u32;
    fn m_on(&self, a: Option<u8>, b: u8) -> u32;
    fn m_ss(&self, a: &str, b: String) -> u32;
    fn m_ll(&self, a: &[u8], b: Vec<u8>) -> u32;
    fn m_n(&self, a: u8) -> u32;
    fn m_ww(&self, a: W, b: W) -> u32;
}

/// constants with the same names and different values in two modules: a pattern is the path, not its last segment
#[allow(dead_code)]
pub mod ka { pub const A: u8 = 0; pub const B: u8 = 1; }
#[allow(dead_code)]
pub mod kb { pub const A: u8 = 2; pub const B: u8 = 3; }

/// a type whose `PartialEq` is deliberately irregular: `eq` treats the right-hand 3 as a wildcard (not symmetric) and
/// `ne` is three-valued (a left-hand 2 is never unequal), so `a != b` is not `!(a == b)` and `a == b` is not `b == a`
#[derive(Clone, Debug)]
pub struct W(pub u8);
impl PartialEq for W {
    fn eq(&self, o: &W) -> bool { (self.0 == o.0 && self.0 != 1) || o.0 == 3 }      // not reflexive at 1: equal Debug renderings, unequal values
    #[allow(clippy::partialeq_ne_impl)]
    fn ne(&self, o: &W) -> bool { self.0 != o.0 && self.0 != 2 }
}

fn accepts<T>(f: impl FnOnce() -> T) -> (bool, String) {
    match std::panic::catch_unwind(std::panic::AssertUnwindSafe(f)) {
        Ok(_) => (true, String::new()),
        Err(p) => (false, p.downcast_ref::<String>().cloned().unwrap_or_default()),
    }
}

/// argument positions listed in the mismatch report of a panic message
fn positions(msg: &str) -> String {
    let mut out = vec![];
    let mut rest = msg;
    while let Some(i) = rest.find("input #") {
        let tail = &rest[i + 7..];
        let digits: String = tail.chars().take_while(|c| c.is_ascii_digit()).collect();
        out.push(digits);
        rest = tail;
    }
    out.join(",")
}

include!("../gen_matching_cases.rs");

fn main() {
    std::panic::set_hook(Box::new(|_| {}));
    run_all();
}
