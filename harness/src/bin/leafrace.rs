//! leafrace: several threads request one composite single-use value (owned leaves in separate locked slots)
//! under the controlled scheduler; every schedule (DFS up to a cap) is printed with the per-thread tag
//! sequence and outcome, to be replayed on the Lean `LeafRace` model.
use std::io::{Read, Write};
use std::sync::atomic::{AtomicUsize, Ordering};
use std::sync::Mutex;
use unimock::*;
use verif_harness::proto;
use verif_harness::sched::{self, Sched};

static DROPPED: AtomicUsize = AtomicUsize::new(0);

/// non-Clone owned leaf with drop accounting
#[derive(Debug)]
pub struct Own(pub u32);
impl Drop for Own { fn drop(&mut self) { DROPPED.fetch_add(1, Ordering::SeqCst); } }
#[derive(Debug, Clone, PartialEq)]
pub struct Tok(pub u32);

#[unimock(api = RaceMock)]
pub trait Race {
    fn tup2(&self) -> (Own, &Tok, Own);
    fn tup3(&self) -> (Own, Own, &Tok, Own);
    fn vecres(&self) -> Vec<Result<&Tok, Own>>;
    fn optres(&self) -> Option<Result<&Tok, Own>>;
}

fn build(kind: &str) -> (Unimock, usize) {
    match kind {
        "tup2" => (Unimock::new(RaceMock::tup2.some_call(matching!()).returns((Own(1), Tok(2), Own(3)))), 2),
        "tup3" => (Unimock::new(RaceMock::tup3.some_call(matching!()).returns((Own(1), Own(2), Tok(3), Own(4)))), 3),
        "vecres" => (Unimock::new(RaceMock::vecres.some_call(matching!()).returns(vec![Err::<Tok, Own>(Own(1)), Ok(Tok(2)), Err(Own(3))])), 2),
        _ => (Unimock::new(RaceMock::optres.some_call(matching!()).returns(Some(Err::<Tok, Own>(Own(1))))), 1),
    }
}

/// "got:<leaves>" when the whole value arrived, "err:<kind>" for a mock-induced panic
fn request(u: &Unimock, kind: &str) -> String {
    let r = std::panic::catch_unwind(std::panic::AssertUnwindSafe(|| match kind {
        "tup2" => { let (a, t, b) = u.tup2(); format!("got:{}.{}.{}", a.0, t.0, b.0) }
        "tup3" => { let (a, b, t, c) = u.tup3(); format!("got:{}.{}.{}.{}", a.0, b.0, t.0, c.0) }
        "vecres" => { let v = u.vecres(); format!("got:{}", v.iter().map(|x| match x { Ok(t) => t.0.to_string(), Err(o) => o.0.to_string() }).collect::<Vec<_>>().join(".")) }
        _ => { match u.optres() { Some(Err(o)) => format!("got:{}", o.0), _ => "got:?".into() } }
    }));
    match r {
        Ok(s) => s,
        Err(p) => {
            let msg = p.downcast_ref::<String>().cloned().unwrap_or_default();
            if msg.contains("Cannot return value more than once") { "err:CannotReturnValueMoreThanOnce".into() } else { format!("err:other:{}", proto::esc(&msg)) }
        }
    }
}

fn main() {
    std::panic::set_hook(Box::new(|_| {}));
    sched::install();
    let cap: usize = std::env::var("SCHED_CAP").ok().and_then(|v| v.parse().ok()).unwrap_or(5000);
    let mut text = String::new();
    std::io::stdin().read_to_string(&mut text).unwrap();
    let stdout = std::io::stdout();
    let mut out = std::io::BufWriter::new(stdout.lock());
    for line in text.lines() {
        let toks: Vec<&str> = line.split_whitespace().collect();
        if toks.first() != Some(&"race") { continue; }
        let name = toks[1];
        let kind = proto::kv(&toks, "kind").unwrap_or("tup2").to_string();
        let threads = proto::kv_num(&toks, "threads");
        writeln!(out, "scenario {name}").unwrap();
        let mut prefix: Option<Vec<usize>> = Some(vec![]);
        let mut count = 0;
        let mut exhausted = false;
        while let Some(p) = prefix {
            DROPPED.store(0, Ordering::SeqCst);
            let (u, leaves) = build(&kind);
            let u = u.no_verify_in_drop();
            let s = Sched::new(threads, p, None);
            let results: Vec<Mutex<String>> = (0..threads).map(|_| Mutex::new(String::new())).collect();
            {
                let ur = &u;
                let res = &results;
                let kd = &kind;
                let mut bodies: Vec<Box<dyn FnOnce() + Send + '_>> = vec![];
                for t in 0..threads {
                    bodies.push(Box::new(move || { *res[t].lock().unwrap() = request(ur, kd); }));
                }
                s.run(bodies);
            }
            // results hold no leaves any more (formatted): every delivered leaf has been dropped by its receiver
            let before_teardown = DROPPED.load(Ordering::SeqCst);
            drop(u);
            let total = DROPPED.load(Ordering::SeqCst);
            let g = s.inner.lock().unwrap();
            let picks: Vec<String> = g.picks.iter().map(|p| p.to_string()).collect();
            let tags: Vec<String> = g.tags.iter().map(|t| t.join("+")).collect();
            let outs: Vec<String> = results.iter().map(|m| m.lock().unwrap().clone()).collect();
            writeln!(out, "sched picks={} tags={} outs={} leaves={} dropped_before_teardown={} dropped_total={}",
                picks.join(","), tags.join("|"), outs.join("|"), leaves, before_teardown, total).unwrap();
            count += 1;
            prefix = sched::next_prefix(&g.trace);
            if prefix.is_none() { exhausted = true; }
            if count >= cap { break; }
        }
        writeln!(out, "explored {count} exhaustive={exhausted}").unwrap();
        writeln!(out, "end").unwrap();
    }
    out.flush().unwrap();
}
