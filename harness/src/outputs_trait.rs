#[unimock(api=OutMock)]
pub trait OutT {
    fn o_tok(&self) -> Tok;
    fn o_opt(&self) -> Option<Tok>;
    fn o_pair(&self) -> (Tok, Tok);
    fn r_tok(&self) -> &Tok;
    fn st_tok(&self) -> &'static Tok;
    fn s_opt(&self) -> Option<&Tok>;
    fn s_res(&self) -> Result<&Tok, Tok>;
    fn s_vec(&self) -> Vec<&Tok>;
    fn d_opt_res(&self) -> Option<Result<&Tok, Tok>>;
    fn d_vec_res(&self) -> Vec<Result<&Tok, Tok>>;
    fn d_vec_opt(&self) -> Vec<Option<&Tok>>;
    fn d_tup_ro(&self) -> (&Tok, Tok);
    fn d_tup_rr(&self) -> (&Tok, &Tok);
    fn d_tup_oro(&self) -> (Tok, &Tok, Tok);
    fn d_poll_opt(&self) -> Poll<Option<&Tok>>;
    fn d_res_or(&self) -> Result<Option<&Tok>, Result<&Tok, Tok>>;
    fn d_poll_res(&self) -> Poll<Result<&Tok, Tok>>;
    fn d_opt_vec_res(&self) -> Option<Vec<Result<&Tok, Tok>>>;
    fn b_opt_res(&self) -> Option<Result<&Tok, Tok>> { None }
    fn b_tup(&self) -> (&Tok, Tok) { (&STATIC_TOK, Tok(0)) }
    fn l_ref<'s>(&'s self) -> &'s Tok;
    fn l_opt<'s>(&'s self) -> Option<&'s Tok>;
    fn l_res<'s>(&'s self) -> Result<&'s Tok, Tok>;
    fn l_tup<'s>(&'s self) -> (&'s Tok, Tok);
    fn l_vec_opt<'s>(&'s self) -> Vec<Option<&'s Tok>>;
}
