import Unimock.Model.Core
import Unimock.Model.Assemble
