import Unimock.Driver.Protocol
open Unimock.Driver

/-- read all scenarios from stdin; each starts with `scenario <id>` and ends with `end` -/
partial def readAll (h : IO.FS.Stream) (acc : Array String) : IO (Array String) := do
  let line ← h.getLine
  if line.isEmpty then return acc
  readAll h (acc.push line)

def main (_args : List String) : IO Unit := do
  let stdin ← IO.getStdin
  let stdout ← IO.getStdout
  let lines ← readAll stdin #[]
  let mut cur : Array (List String) := #[]
  let mut name := ""
  for l in lines do
    let toks := words l
    match toks with
    | [] => pure ()
    | "scenario" :: rest =>
      name := " ".intercalate rest
      cur := #[]
    | ["end"] =>
      let st := runScenario (cur.toList ++ [["end"]]) {}
      stdout.putStrLn s!"scenario {name}"
      for o in st.out do stdout.putStrLn o
      stdout.putStrLn "end"
    | _ =>
      if (toks.head?.getD "").startsWith "#" then pure () else cur := cur.push toks
  stdout.flush
