import Unimock.Driver.Protocol
import Unimock.Model.Interleave
open Unimock.Driver

/-- read all scenarios from stdin; each starts with `scenario <id>` and ends with `end` -/
partial def readAll (h : IO.FS.Stream) (acc : Array String) : IO (Array String) := do
  let line ← h.getLine
  if line.isEmpty then return acc
  readAll h (acc.push line)

def main (_args : List String) : IO Unit := do
  let stdin ← IO.getStdin
  let stdout ← IO.getStdout
  let lines ← readAll stdin #[]
  let mut cur : Array (List String) := #[]
  let mut name := ""
  for l in lines do
    let toks := words l
    if l.startsWith "msgcase\t" then
      let (id, text) := runMsgCase (l.dropRightWhile (· == '\n'))
      stdout.putStrLn s!"item {id}"
      stdout.putStrLn text
      stdout.putStrLn "end"
      continue
    match toks with
    | [] => pure ()
    | "shape" :: id :: _ =>
      stdout.putStrLn s!"item {id}"
      for o in runShape l do stdout.putStrLn o
      stdout.putStrLn "end"
    | "matchcase" :: id :: _ =>
      stdout.putStrLn s!"item {id}"
      stdout.putStrLn (runMatchCase toks)
      stdout.putStrLn "end"
    | "tscase" :: id :: _ =>
      stdout.putStrLn s!"item {id}"
      stdout.putStrLn (runTsCase toks)
      stdout.putStrLn "end"
    | "kindcase" :: id :: _ =>
      stdout.putStrLn s!"item {id}"
      stdout.putStrLn (runKindCase toks)
      stdout.putStrLn "end"
    | "leafrace" :: id :: _ =>
      stdout.putStrLn s!"item {id}"
      stdout.putStrLn (runLeafRace toks)
      stdout.putStrLn "end"
    | "racecase" :: id :: _ =>
      stdout.putStrLn s!"item {id}"
      stdout.putStrLn (runRaceCase toks)
      stdout.putStrLn "end"
    | "outcase" :: id :: _ =>
      stdout.putStrLn s!"item {id}"
      stdout.putStrLn (runOutCase toks)
      stdout.putStrLn "end"
    | "scenario" :: rest =>
      name := " ".intercalate rest
      cur := #[]
    | ["end"] =>
      stdout.putStrLn s!"scenario {name}"
      if cur.any (fun t => t.head? == some "via") then
        if !(cur.any (fun t => t.head? == some "par" || t.head? == some "stress")) then
          for o in runChainScenario cur.toList do stdout.putStrLn o
      else if cur.any (fun t => t.head? == some "par") then
        for o in runParScenario cur.toList do stdout.putStrLn o
      else
        let st := runScenario (cur.toList ++ [["end"]]) {}
        for o in st.out do stdout.putStrLn o
      stdout.putStrLn "end"
    | _ =>
      if (toks.head?.getD "").startsWith "#" then pure () else cur := cur.push toks
  stdout.flush
