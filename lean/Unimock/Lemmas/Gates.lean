import Unimock.Model.Gates
import Unimock.Model.Lifecycle
/-!
# The model's lifecycle / evaluation functions, restated over the `Gates` observations

Each lemma says: the hand-written model function is the concretisation of the `spec…` function of `Model/Gates.lean`
applied to what the model state lets the code observe. `Props/*` compose these with the (kernel-decided) statement that
the interpreted *source* skeleton equals the same `spec…` function on every observation.
-/
namespace Unimock
open Gates

variable {α ρ : Type}

/-- what `teardown` on instance `x` (helper chain and value chain already released) observes -/
def obsOf (w : World α ρ) (x : Inst) (t : Nat) (panicking : Bool) : Obs where
  original := x.original
  panicking := panicking
  others := decide (w.strong x.sh > 1)
  helperAlive := false
  parkedAlive := false
  otherThread := match w.mocks[x.sh]? with
    | some m => decide (t ≠ m.creator)
    | none => false
  reasons := match w.mocks[x.sh]? with
    | some m => !m.shared.reasons.isEmpty
    | none => false
  verifyErrs := match w.mocks[x.sh]? with
    | some m => !(verifyAll m.shared).isEmpty
    | none => false

/-- the verdict with its payload -/
def concretise (w : World α ρ) (x : Inst) : Verdict → Teardown
  | .ok => .ok
  | .panicClones => .panicClones
  | .panicThread => .panicThread
  | .errsReasons => match w.mocks[x.sh]? with
    | some m => .errs m.shared.reasons
    | none => .ok
  | .errsVerify => match w.mocks[x.sh]? with
    | some m => .errs (verifyAll m.shared)
    | none => .ok
  | .fellThrough => .ok

theorem teardownVerdict_eq_spec (w : World α ρ) (x : Inst) (t : Nat) (p : Bool) :
    teardownVerdict w x t p = concretise w x (specVerdict (obsOf w x t p)).1 := by
  unfold teardownVerdict specVerdict obsOf concretise
  cases ho : x.original
  · simp
  cases p
  case true => simp
  by_cases hs : World.strong w x.sh > 1
  · simp [hs]
  cases hm : w.mocks[x.sh]? with
  | none => simp [hs]
  | some m =>
    by_cases ht : t = m.creator
    case neg => simp [hs, ht]
    cases hr : m.shared.reasons.isEmpty
    case false => simp [hs, ht, hr]
    cases hv : (verifyAll m.shared).isEmpty <;> simp [hs, ht, hr, hv]

/-- the instance-local part of `teardown`: flags set, helper chain and value chain released -/
def obsInst (w : World α ρ) (i : Nat) (x : Inst) (t : Nat) (p : Bool) : Obs :=
  let x' := { x with tornDown := true, helper := 0, parked := 0 }
  let o := obsOf (w.setInst i x') x' t p
  { o with helperAlive := decide (x.helper > 0), parkedAlive := decide (x.parked > 0) }

theorem specVerdict_ignores_own (o : Obs) (a b : Bool) :
    specVerdict { o with helperAlive := a, parkedAlive := b } = specVerdict o := rfl

theorem teardownInst_eq_spec (w : World α ρ) (i : Nat) (x : Inst) (t : Nat) (p : Bool) :
    (teardownInst w i x t p).2 =
      concretise (w.setInst i { x with tornDown := true, helper := 0, parked := 0 })
        { x with tornDown := true, helper := 0, parked := 0 } (specVerdict (obsInst w i x t p)).1 := by
  unfold teardownInst obsInst
  simp only [specVerdict_ignores_own]
  exact teardownVerdict_eq_spec _ _ _ _

/-- the instance after `teardown`, from the flags the statement list leaves behind -/
def applyFlags (x : Inst) (f : Flags) : Inst :=
  { x with tornDown := x.tornDown || f.tornDown,
           helper := if f.helperDropped then 0 else x.helper,
           parked := if f.chainDropped then 0 else x.parked }

theorem teardownInst_flags (w : World α ρ) (i : Nat) (x : Inst) (t : Nat) (p : Bool) :
    (teardownInst w i x t p).1 = w.setInst i (applyFlags x (specVerdict (obsInst w i x t p)).snd) := by
  simp [teardownInst, specVerdict, applyFlags]

def iflags (x : Inst) : IFlags := ⟨x.original, x.tornDown, x.verifyInDrop⟩

theorem dropInst_eq_spec (w : World α ρ) (i t : Nat) (p : Bool) (x : Inst) (h : w.inst? i = some x) :
    dropInst w i t p =
      match specDrop (iflags x) with
      | .teardown => ((teardownInst w i x t p).1.free i, (teardownInst w i x t p).2)
      | _ => (w.free i, .ok) := by
  unfold dropInst specDrop iflags
  simp only [h]
  cases x.tornDown <;> cases x.verifyInDrop <;> simp

theorem step_verify_eq_spec (env : Env α ρ) (w : World α ρ) (i t : Nat) (x : Inst)
    (h : w.inst? i = some x) (ha : x.alive = true) :
    step env w (.verify i t) =
      match specVerify (iflags x) with
      | .panicNotOriginal => ((dropInst w i t true).1, .panicOnClone)
      | _ => ((teardownInst w i x t false).1.free i, .teardown (teardownInst w i x t false).2) := by
  unfold specVerify iflags
  simp only [step, h, ha]
  cases x.original <;> simp

theorem step_noVerify_eq_spec (env : Env α ρ) (w : World α ρ) (i t : Nat) (x : Inst)
    (h : w.inst? i = some x) (ha : x.alive = true) :
    step env w (.noVerify i t) =
      match specNoVerify (iflags x) with
      | .panicNotOriginal => ((dropInst w i t true).1, .panicOnClone)
      | _ => (w.setInst i { x with verifyInDrop := false }, .ok) := by
  unfold specNoVerify iflags
  simp only [step, h, ha]
  cases x.original <;> simp

/-! ### evaluation -/

def fbOf : Fallback → Fb
  | .error => .error
  | .unmock => .unmock

def concretiseNoMock (m : MethodInfo) : NoMock → EvalOutcome ρ
  | .callDefault => .contDefault
  | .unmock => .contUnmock
  | .errNoMockImplementation => .err (.noMockImplementation m)
  | .errNoMatchingCallPatterns => .err (.noMatchingCallPatterns m)

theorem evalCall_noMocker_eq_spec (s : Shared α ρ) (m : MethodInfo) (a : α) (h : s.find m.id = none) :
    evalCall s m a = (s, concretiseNoMock m (specNoMocker m.hasDefaultImpl m.partialByDefault (fbOf s.fallback))) := by
  unfold evalCall specNoMocker
  simp only [h]
  cases m.hasDefaultImpl <;> cases m.partialByDefault <;> cases s.fallback <;> simp [concretiseNoMock, fbOf]

theorem evalCall_noMatch_eq_spec (s : Shared α ρ) (m : MethodInfo) (a : α) (fm : FnMocker α ρ)
    (h : s.find m.id = some fm) (hm : fm.mode = .anyOrder) (hs : scan fm.pats a 0 = none) :
    evalCall s m a = (s, concretiseNoMock m (specNoMatch (fbOf s.fallback))) := by
  unfold evalCall specNoMatch
  simp only [h, hm, hs]
  cases s.fallback <;> simp [concretiseNoMock, fbOf]

def variantOf : Resp ρ → RVariant
  | .ret _ _ => .ret
  | .answer _ => .answer
  | .applyDefaultImpl => .applyDefaultImpl
  | .unmock => .unmock
  | .panic _ => .panic

/-- which outcomes a dispatch class allows -/
def fitsDisp : Disp → EvalOutcome ρ → Prop
  | .returnOrCannotReturnTwice, .ret _ => True
  | .returnOrCannotReturnTwice, .err (.cannotReturnValueMoreThanOnce _ _) => True
  | .contAnswer, .contAnswer _ => True
  | .errExplicitPanic, .err (.explicitPanic _ _ _) => True
  | .contUnmock, .contUnmock => True
  | .contDefault, .contDefault => True
  | _, _ => False

theorem respond_fits_spec (m : MethodInfo) (pi : Nat) (rs : List (Responder ρ)) (ci ri : Nat) (r : Responder ρ)
    (hf : findResponderIdx rs ci = some ri) (hr : rs[ri]? = some r) :
    fitsDisp (specDispatch (variantOf r.resp)) (respond m pi rs ci).2 := by
  unfold respond
  simp only [hf, hr]
  cases hresp : r.resp with
  | ret v once =>
    cases once <;> simp [variantOf, specDispatch, fitsDisp]
    cases r.taken <;> simp [fitsDisp]
  | answer f => simp [variantOf, specDispatch, fitsDisp]
  | applyDefaultImpl => simp [variantOf, specDispatch, fitsDisp]
  | unmock => simp [variantOf, specDispatch, fitsDisp]
  | panic msg => simp [variantOf, specDispatch, fitsDisp]

/-! ### assembly: `Sink::push` -/

/-- what `push` observes of the assembler and the incoming terminal clause -/
def pushObs (a : Asm α ρ) (t : Terminal α ρ) : PObs where
  outputError := t.b.outputError
  exists_ := ((newPattern a t.b).1.mockers.find? (·.info.id = t.info.id)).isSome
  modeDiffers := match (newPattern a t.b).1.mockers.find? (·.info.id = t.info.id) with
    | some fm => decide (fm.mode ≠ t.b.mode)
    | none => false

/-- the model's `Asm.push` yields the result class the observation-level specification names; on an output error
    `new_call_pattern` has not run -/
theorem push_eq_spec (a : Asm α ρ) (t : Terminal α ρ) :
    match (specPush (pushObs a t)).1 with
    | .errOutput => a.push t = .error .outputError
    | .errMode => ∃ fm, (newPattern a t.b).1.mockers.find? (·.info.id = t.info.id) = some fm ∧
        a.push t = .error (.modeConflict fm.info fm.mode t.b.mode)
    | .appended => ∃ a', a.push t = .ok a' ∧ a'.cur = (newPattern a t.b).1.cur ∧ a'.mockers.length = a.mockers.length
    | .inserted => ∃ a', a.push t = .ok a' ∧ a'.cur = (newPattern a t.b).1.cur ∧ a'.mockers.length = a.mockers.length + 1
    | .fellThrough => False := by
  have hnm : (newPattern a t.b).1.mockers = a.mockers := by unfold newPattern; split <;> rfl
  unfold specPush pushObs
  cases ho : t.b.outputError
  case true => simp [Asm.push, ho]
  simp only [Bool.false_eq_true, ↓reduceIte]
  cases hf : (newPattern a t.b).1.mockers.find? (·.info.id = t.info.id) with
  | none =>
    simp only [Option.isSome_none, Bool.false_eq_true, ↓reduceIte]
    have hp : a.push t = .ok { (newPattern a t.b).1 with
        mockers := (newPattern a t.b).1.mockers ++ [⟨t.info, t.b.mode, [(newPattern a t.b).2]⟩] } := by
      simp [Asm.push, ho, hf]
    exact ⟨_, hp, rfl, by simp [hnm]⟩
  | some fm =>
    simp only [Option.isSome_some, ↓reduceIte]
    by_cases hm : fm.mode = t.b.mode
    · simp only [hm, ne_eq, not_true_eq_false, decide_false, Bool.false_eq_true, ↓reduceIte]
      have hp : a.push t = .ok { (newPattern a t.b).1 with
          mockers := (newPattern a t.b).1.mockers.map fun m =>
            if m.info.id = t.info.id then { m with pats := m.pats ++ [(newPattern a t.b).2] } else m } := by
        simp [Asm.push, ho, hf, hm]
      exact ⟨_, hp, rfl, by simp [hnm]⟩
    · simp only [ne_eq, hm, not_false_eq_true, decide_true, ↓reduceIte]
      exact ⟨fm, rfl, by simp [Asm.push, ho, hf, hm]⟩

end Unimock
