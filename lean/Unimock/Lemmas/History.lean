import Unimock.Lemmas.State
import Unimock.Lemmas.Scan
import Unimock.Lemmas.Solo
/-! Pattern counters along a history of calls: a counter is the number of calls the pattern answered. -/
namespace Unimock
variable {α ρ : Type}

/-- the match count of pattern `(id, pi)` (0 when there is no such pattern) -/
def Shared.countOf (s : Shared α ρ) (id pi : Nat) : Nat :=
  match s.pat? id pi with
  | some p => p.count
  | none => 0

/-- the pattern of method `m` that a call with arguments `a` is matched by in state `s`, if any:
    unordered — the first pattern whose matcher accepts; ordered — the owner of the current slot, if
    its matcher accepts -/
def selected (s : Shared α ρ) (m : MethodInfo) (a : α) : Option Nat :=
  match s.find m.id with
  | none => none
  | some fm =>
    match fm.mode with
    | .anyOrder =>
      match scan fm.pats a 0 with
      | none => none
      | some (pi, .accept) => some pi
      | some (_, .noMatcher) => none
      | some (_, .userPanic) => none
    | .inOrder =>
      match findForOrder fm.pats s.nextOrdered with
      | none => none
      | some pi =>
        match fm.pats[pi]? with
        | none => none
        | some p =>
          match tryPat p a with
          | some .accept => some pi
          | some .noMatcher => none
          | some .userPanic => none
          | none => none

theorem countOf_bump (s : Shared α ρ) (id pi id' pi' : Nat) (p q : Pattern α ρ)
    (hp : s.pat? id pi = some p) (hq : q.count = p.count + 1) :
    (s.setPat id pi q).countOf id' pi' = s.countOf id' pi' + (if id' = id ∧ pi' = pi then 1 else 0) := by
  unfold Shared.countOf
  by_cases h : id' = id ∧ pi' = pi
  · obtain ⟨rfl, rfl⟩ := h
    rw [pat?_setPat_same s id' pi' q p hp, hp]
    simp [hq]
  · have h' : id' ≠ id ∨ pi' ≠ pi := by
      by_cases h1 : id' = id
      · right; intro h2; exact h ⟨h1, h2⟩
      · left; exact h1
    rw [pat?_setPat_other s id pi id' pi' q h']
    simp [h]

theorem countOf_nextOrdered (s : Shared α ρ) (n : Nat) (id pi : Nat) :
    Shared.countOf ({ s with nextOrdered := n } : Shared α ρ) id pi = s.countOf id pi := rfl

theorem countOf_induce (s : Shared α ρ) (e : MockError) (id pi : Nat) : (s.induce e).countOf id pi = s.countOf id pi := rfl

/-- **one call bumps exactly the counter of the pattern it is matched by, and no other** -/
theorem evalCall_countOf (s : Shared α ρ) (m : MethodInfo) (a : α) (id pi : Nat) :
    (evalCall s m a).1.countOf id pi =
      s.countOf id pi + (if id = m.id ∧ selected s m a = some pi then 1 else 0) := by
  cases hf : s.find m.id with
  | none =>
    unfold evalCall selected
    simp only [hf]
    split
    · simp
    · split
      · simp
      · cases s.fallback <;> simp
  | some fm =>
    obtain ⟨info, mode, pats⟩ := fm
    cases mode with
    | anyOrder =>
      rcases hscan : scan pats a 0 with _ | ⟨pi0, t⟩
      · unfold evalCall selected
        simp only [hf, hscan]
        cases s.fallback <;> simp
      · cases t with
        | noMatcher => unfold evalCall selected; simp [hf, hscan]
        | userPanic => unfold evalCall selected; simp [hf, hscan]
        | accept =>
          have hlt := scan_lt pats a pi0 .accept hscan
          have hp : pats[pi0]? = some pats[pi0] := List.getElem?_eq_getElem hlt
          have hpat : s.pat? m.id pi0 = some pats[pi0] := by unfold Shared.pat?; rw [hf]; simpa using hp
          unfold evalCall selected
          simp only [hf, hscan, hp]
          rw [countOf_bump s m.id pi0 id pi pats[pi0] _ hpat rfl]
          congr 1
          by_cases h1 : id = m.id <;> by_cases h2 : pi = pi0 <;> simp [h1, h2, eq_comm]
    | inOrder =>
      rcases hfo : findForOrder pats s.nextOrdered with _ | pi0
      · unfold evalCall selected; simp [hf, hfo, countOf_nextOrdered]
      · rcases hp : pats[pi0]? with _ | p
        · unfold evalCall selected; simp [hf, hfo, hp, countOf_nextOrdered]
        · rcases htry : tryPat p a with _ | t
          · unfold evalCall selected; simp [hf, hfo, hp, htry, countOf_nextOrdered]
          · cases t with
            | noMatcher => unfold evalCall selected; simp [hf, hfo, hp, htry, countOf_nextOrdered]
            | userPanic => unfold evalCall selected; simp [hf, hfo, hp, htry, countOf_nextOrdered]
            | accept =>
              have hpat : Shared.pat? ({ s with nextOrdered := s.nextOrdered + 1 } : Shared α ρ) m.id pi0 = some p := by
                unfold Shared.pat?
                have : Shared.find ({ s with nextOrdered := s.nextOrdered + 1 } : Shared α ρ) m.id = some ⟨info, .inOrder, pats⟩ := hf
                rw [this]; simpa using hp
              unfold evalCall selected
              simp only [hf, hfo, hp, htry]
              rw [countOf_bump _ m.id pi0 id pi p _ hpat rfl, countOf_nextOrdered]
              congr 1
              by_cases h1 : id = m.id <;> by_cases h2 : pi = pi0 <;> simp [h1, h2, eq_comm]

/-- the outcome of a call that is matched by pattern `pi`: that pattern's response chain, asked at the pattern's
    current counter -/
theorem evalCall_outcome_of_selected (s : Shared α ρ) (m : MethodInfo) (a : α) (pi : Nat)
    (h : selected s m a = some pi) :
    ∃ p, s.pat? m.id pi = some p ∧ (evalCall s m a).2 = (respond m pi p.responders (s.countOf m.id pi)).2 := by
  cases hf : s.find m.id with
  | none => unfold selected at h; simp [hf] at h
  | some fm =>
    obtain ⟨info, mode, pats⟩ := fm
    cases mode with
    | anyOrder =>
      rcases hscan : scan pats a 0 with _ | ⟨pi0, t⟩
      · unfold selected at h; simp [hf, hscan] at h
      · cases t with
        | noMatcher => unfold selected at h; simp [hf, hscan] at h
        | userPanic => unfold selected at h; simp [hf, hscan] at h
        | accept =>
          have hpi : pi0 = pi := by unfold selected at h; simpa [hf, hscan] using h
          subst hpi
          have hlt := scan_lt pats a pi0 .accept hscan
          have hp : pats[pi0]? = some pats[pi0] := List.getElem?_eq_getElem hlt
          have hpat : s.pat? m.id pi0 = some pats[pi0] := by unfold Shared.pat?; rw [hf]; simpa using hp
          refine ⟨pats[pi0], hpat, ?_⟩
          have hc : s.countOf m.id pi0 = pats[pi0].count := by unfold Shared.countOf; rw [hpat]
          unfold evalCall
          simp only [hf, hscan, hp, hc]
    | inOrder =>
      rcases hfo : findForOrder pats s.nextOrdered with _ | pi0
      · unfold selected at h; simp [hf, hfo] at h
      · rcases hp : pats[pi0]? with _ | p
        · unfold selected at h; simp [hf, hfo, hp] at h
        · rcases htry : tryPat p a with _ | t
          · unfold selected at h; simp [hf, hfo, hp, htry] at h
          · cases t with
            | noMatcher => unfold selected at h; simp [hf, hfo, hp, htry] at h
            | userPanic => unfold selected at h; simp [hf, hfo, hp, htry] at h
            | accept =>
              have hpi : pi0 = pi := by unfold selected at h; simpa [hf, hfo, hp, htry] using h
              subst hpi
              have hpat : s.pat? m.id pi0 = some p := by unfold Shared.pat?; rw [hf]; simpa using hp
              refine ⟨p, hpat, ?_⟩
              have hc : s.countOf m.id pi0 = p.count := by unfold Shared.countOf; rw [hpat]
              unfold evalCall
              simp only [hf, hfo, hp, htry, hc]

theorem call_countOf (s : Shared α ρ) (m : MethodInfo) (a : α) (id pi : Nat) :
    (call s m a).1.countOf id pi =
      s.countOf id pi + (if id = m.id ∧ selected s m a = some pi then 1 else 0) := by
  have := evalCall_countOf s m a id pi
  unfold call
  cases h : evalCall s m a with
  | mk s' out =>
    rw [h] at this
    cases out <;> simp_all [countOf_induce]

/-- a history of calls, made one after the other -/
def runCalls (s : Shared α ρ) : List (MethodInfo × α) → Shared α ρ
  | [] => s
  | (m, a) :: rest => runCalls (call s m a).1 rest

/-- how many calls of the history are matched by pattern `(id, pi)` -/
def matchCount (id pi : Nat) (s : Shared α ρ) : List (MethodInfo × α) → Nat
  | [] => 0
  | (m, a) :: rest =>
    (if id = m.id ∧ selected s m a = some pi then 1 else 0) + matchCount id pi (call s m a).1 rest

theorem runCalls_countOf (s : Shared α ρ) (calls : List (MethodInfo × α)) (id pi : Nat) :
    (runCalls s calls).countOf id pi = s.countOf id pi + matchCount id pi s calls := by
  induction calls generalizing s with
  | nil => simp [runCalls, matchCount]
  | cons c rest ih =>
    obtain ⟨m, a⟩ := c
    simp only [runCalls, matchCount]
    rw [ih, call_countOf]
    omega

/-! ### method ids never change -/

def Shared.ids (s : Shared α ρ) : List Nat := s.mockers.map (·.info.id)

theorem ids_setPat (s : Shared α ρ) (id i : Nat) (p : Pattern α ρ) : (s.setPat id i p).ids = s.ids := by
  unfold Shared.ids Shared.setPat
  simp only [List.map_map]
  congr 1
  funext m
  simp only [Function.comp]
  split <;> rfl

theorem ids_evalCall (s : Shared α ρ) (m : MethodInfo) (a : α) : (evalCall s m a).1.ids = s.ids := by
  unfold evalCall
  cases s.find m.id with
  | none =>
    simp only
    split
    · rfl
    · split
      · rfl
      · cases s.fallback <;> rfl
  | some fm =>
    simp only
    cases fm.mode with
    | anyOrder =>
      simp only
      cases scan fm.pats a 0 with
      | none => cases s.fallback <;> rfl
      | some r =>
        obtain ⟨pi, t⟩ := r
        cases t with
        | noMatcher => rfl
        | userPanic => rfl
        | accept =>
          simp only
          cases fm.pats[pi]? with
          | none => rfl
          | some p => exact ids_setPat _ _ _ _
    | inOrder =>
      simp only
      cases findForOrder fm.pats s.nextOrdered with
      | none => rfl
      | some pi =>
        simp only
        cases fm.pats[pi]? with
        | none => rfl
        | some p =>
          simp only
          cases tryPat p a with
          | none => rfl
          | some t =>
            cases t with
            | noMatcher => rfl
            | userPanic => rfl
            | accept => exact ids_setPat _ _ _ _

theorem ids_call (s : Shared α ρ) (m : MethodInfo) (a : α) : (call s m a).1.ids = s.ids := by
  have := ids_evalCall s m a
  unfold call
  cases h : evalCall s m a with
  | mk s' out => rw [h] at this; cases out <;> simpa [Shared.induce, Shared.ids] using this

theorem ids_runCalls (s : Shared α ρ) (calls : List (MethodInfo × α)) : (runCalls s calls).ids = s.ids := by
  induction calls generalizing s with
  | nil => rfl
  | cons c rest ih => obtain ⟨m, a⟩ := c; simp only [runCalls]; rw [ih, ids_call]

theorem uniqueIds_runCalls (s : Shared α ρ) (calls : List (MethodInfo × α)) (h : s.UniqueIds) :
    (runCalls s calls).UniqueIds := by
  unfold Shared.UniqueIds at *
  have := ids_runCalls s calls
  unfold Shared.ids at this
  rw [this]; exact h

/-- with distinct ids, the counter read through the lookup is the counter stored in the table entry -/
theorem countOf_of_mem (s : Shared α ρ) (hu : s.UniqueIds) (fm : FnMocker α ρ) (hm : fm ∈ s.mockers) (pi : Nat)
    (p : Pattern α ρ) (hp : fm.pats[pi]? = some p) : s.countOf fm.info.id pi = p.count := by
  have hf : s.find fm.info.id = some fm := find?_of_mem_nodup s.mockers hu fm hm
  unfold Shared.countOf Shared.pat?
  rw [hf]
  simp [hp]

end Unimock
