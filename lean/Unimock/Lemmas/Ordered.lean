import Unimock.Lemmas.State
import Unimock.Model.Assemble
import Unimock.Props.C14
/-! Invariants of ordered patterns: slot ranges assigned by the assembler are pairwise disjoint and
    consecutive; along a deviation-free history every ordered pattern's counter is determined by the
    global index. -/
namespace Unimock
variable {α ρ : Type}

def patOf (ms : List (FnMocker α ρ)) (id i : Nat) : Option (Pattern α ρ) :=
  (ms.find? (·.info.id = id)).bind (·.pats[i]?)

def modeOf (ms : List (FnMocker α ρ)) (id : Nat) : Option Mode :=
  (ms.find? (·.info.id = id)).map (·.mode)

theorem Shared.pat?_eq (s : Shared α ρ) (id i : Nat) : s.pat? id i = patOf s.mockers id i := rfl

/-- ranges of distinct ordered patterns never overlap -/
def OrdDisjoint (ms : List (FnMocker α ρ)) : Prop :=
  ∀ id i id' j p q, patOf ms id i = some p → patOf ms id' j = some q →
    modeOf ms id = some .inOrder → modeOf ms id' = some .inOrder → (id ≠ id' ∨ i ≠ j) →
    p.hi ≤ q.lo ∨ q.hi ≤ p.lo

/-- every ordered pattern's range lies below `cur`, has the length of its exact count, and starts uncounted -/
def OrdBelow (ms : List (FnMocker α ρ)) (cur : Nat) : Prop :=
  ∀ id i p, patOf ms id i = some p → modeOf ms id = some .inOrder → p.hi ≤ cur ∧ p.hi = p.lo + p.min ∧ p.count = 0

theorem find?_append_one' {β : Type} (l : List β) (x : β) (p : β → Bool) :
    (l ++ [x]).find? p = (l.find? p).or (if p x then some x else none) := find?_append_one l x p

/-- one `Sink::push` keeps the ordered ranges disjoint, below the running index, and advances the index -/
theorem push_ranges (a a' : Asm α ρ) (t : Terminal α ρ) (hpush : a.push t = .ok a')
    (hd : OrdDisjoint a.mockers) (hb : OrdBelow a.mockers a.cur) :
    OrdDisjoint a'.mockers ∧ OrdBelow a'.mockers a'.cur ∧ a.cur ≤ a'.cur := by
  unfold Asm.push at hpush
  by_cases hoe : t.b.outputError = true
  · simp [hoe] at hpush
  · simp only [hoe, Bool.false_eq_true, ↓reduceIte] at hpush
    -- the new pattern and the advanced index
    have hnp : (newPattern a t.b).1.mockers = a.mockers := by unfold newPattern; split <;> rfl
    have hcur : a.cur ≤ (newPattern a t.b).1.cur := by unfold newPattern; split <;> simp
    have hpnew : t.b.mode = .inOrder →
        (newPattern a t.b).2.lo = a.cur ∧ (newPattern a t.b).2.hi = (newPattern a t.b).1.cur ∧
        (newPattern a t.b).2.hi = (newPattern a t.b).2.lo + (newPattern a t.b).2.min ∧ (newPattern a t.b).2.count = 0 := by
      intro hm; unfold newPattern; simp [hm, exactCalls]
    rw [hnp] at hpush
    cases hf : a.mockers.find? (·.info.id = t.info.id) with
    | some fm =>
      rw [hf] at hpush
      simp only at hpush
      by_cases hmode : fm.mode = t.b.mode
      · simp only [hmode, ne_eq, not_true_eq_false, ↓reduceIte] at hpush
        injection hpush with hpush
        subst hpush
        -- lookups in the updated table
        have hfid : fm.info.id = t.info.id := by have := List.find?_some hf; simpa using this
        have hfind : ∀ id, ((a.mockers.map fun m => if m.info.id = t.info.id then { m with pats := m.pats ++ [(newPattern a t.b).2] } else m).find? (·.info.id = id)) =
            (a.mockers.find? (·.info.id = id)).map fun m => if m.info.id = t.info.id then { m with pats := m.pats ++ [(newPattern a t.b).2] } else m :=
          fun id => find?_map_upd a.mockers t.info.id id _ (fun _ => rfl)
        have hmodeOf : ∀ id, modeOf (a.mockers.map fun m => if m.info.id = t.info.id then { m with pats := m.pats ++ [(newPattern a t.b).2] } else m) id = modeOf a.mockers id := by
          intro id; unfold modeOf; rw [hfind]
          cases a.mockers.find? (·.info.id = id) with
          | none => rfl
          | some m => simp only [Option.map_some]; split <;> rfl
        -- a pattern of the new table is either an old one or the appended one
        have hpat : ∀ id i p, patOf (a.mockers.map fun m => if m.info.id = t.info.id then { m with pats := m.pats ++ [(newPattern a t.b).2] } else m) id i = some p →
            patOf a.mockers id i = some p ∨ (id = t.info.id ∧ i = fm.pats.length ∧ p = (newPattern a t.b).2) := by
          intro id i p h
          unfold patOf at h ⊢
          rw [hfind] at h
          cases hfi : a.mockers.find? (·.info.id = id) with
          | none => rw [hfi] at h; simp at h
          | some m =>
            rw [hfi] at h
            have hmid : m.info.id = id := by have := List.find?_some hfi; simpa using this
            simp only [Option.map_some, Option.bind_some] at h ⊢
            by_cases hc : m.info.id = t.info.id
            · simp only [hc, ↓reduceIte] at h
              have hidt : id = t.info.id := by rw [← hmid]; exact hc
              have hmfm : m = fm := by
                rw [hidt] at hfi; rw [hf] at hfi; injection hfi with hfi; exact hfi.symm
              by_cases hi : i < m.pats.length
              · left; rw [List.getElem?_append_left hi] at h; exact h
              · right
                rw [List.getElem?_append_right (by omega)] at h
                have : i - m.pats.length = 0 := by
                  cases hx : i - m.pats.length with
                  | zero => rfl
                  | succ k => rw [hx] at h; simp at h
                rw [this] at h; simp at h
                exact ⟨hidt, by rw [← hmfm]; omega, h.symm⟩
            · simp only [hc, ↓reduceIte] at h; left; exact h
        refine ⟨?_, ?_, hcur⟩
        · intro id i id' j p q hp hq hm hm' hne
          rw [hmodeOf] at hm hm'
          rcases hpat id i p hp with h1 | ⟨rfl, rfl, rfl⟩ <;> rcases hpat id' j q hq with h2 | ⟨rfl, rfl, rfl⟩
          · exact hd id i id' j p q h1 h2 hm hm' hne
          · -- q is the new pattern: p lies below a.cur = q.lo
            have hmt : t.b.mode = .inOrder := by
              have : modeOf a.mockers t.info.id = some fm.mode := by unfold modeOf; rw [hf]; rfl
              rw [this] at hm'; injection hm' with hm'; rw [← hmode]; exact hm'
            have := hb id i p h1 hm
            left; rw [(hpnew hmt).1]; exact this.1
          · have hmt : t.b.mode = .inOrder := by
              have : modeOf a.mockers t.info.id = some fm.mode := by unfold modeOf; rw [hf]; rfl
              rw [this] at hm; injection hm with hm; rw [← hmode]; exact hm
            have := hb id' j q h2 hm'
            right; rw [(hpnew hmt).1]; exact this.1
          · rcases hne with h | h <;> exact absurd rfl h
        · intro id i p hp hm
          rw [hmodeOf] at hm
          rcases hpat id i p hp with h1 | ⟨rfl, rfl, rfl⟩
          · have := hb id i p h1 hm; exact ⟨Nat.le_trans this.1 hcur, this.2⟩
          · have hmt : t.b.mode = .inOrder := by
              have : modeOf a.mockers t.info.id = some fm.mode := by unfold modeOf; rw [hf]; rfl
              rw [this] at hm; injection hm with hm; rw [← hmode]; exact hm
            exact ⟨by rw [(hpnew hmt).2.1]; exact Nat.le_refl _, (hpnew hmt).2.2.1, (hpnew hmt).2.2.2⟩
      · simp [hmode] at hpush
    | none =>
      rw [hf] at hpush
      simp only at hpush
      injection hpush with hpush
      subst hpush
      have hfind : ∀ id, (a.mockers ++ [(⟨t.info, t.b.mode, [(newPattern a t.b).2]⟩ : FnMocker α ρ)]).find? (·.info.id = id) =
          (a.mockers.find? (·.info.id = id)).or (if t.info.id = id then some ⟨t.info, t.b.mode, [(newPattern a t.b).2]⟩ else none) := by
        intro id; rw [find?_append_one]; simp
      have hpat : ∀ id i p, patOf (a.mockers ++ [(⟨t.info, t.b.mode, [(newPattern a t.b).2]⟩ : FnMocker α ρ)]) id i = some p →
          (patOf a.mockers id i = some p ∧ modeOf (a.mockers ++ [(⟨t.info, t.b.mode, [(newPattern a t.b).2]⟩ : FnMocker α ρ)]) id = modeOf a.mockers id) ∨
          (id = t.info.id ∧ i = 0 ∧ p = (newPattern a t.b).2 ∧ modeOf (a.mockers ++ [(⟨t.info, t.b.mode, [(newPattern a t.b).2]⟩ : FnMocker α ρ)]) id = some t.b.mode) := by
        intro id i p h
        unfold patOf at h
        unfold patOf modeOf
        rw [hfind] at h ⊢
        cases hfi : a.mockers.find? (·.info.id = id) with
        | some m => rw [hfi] at h; left; simpa using h
        | none =>
          rw [hfi] at h
          simp only [Option.none_or] at h ⊢
          by_cases hid : t.info.id = id
          · simp only [hid, ↓reduceIte, Option.bind_some] at h
            right
            cases i with
            | zero => simp at h; exact ⟨hid.symm, rfl, h.symm, by simp [hid]⟩
            | succ k => simp at h
          · simp [hid] at h
      refine ⟨?_, ?_, hcur⟩
      · intro id i id' j p q hp hq hm hm' hne
        rcases hpat id i p hp with ⟨h1, e1⟩ | ⟨rfl, rfl, rfl, e1⟩ <;> rcases hpat id' j q hq with ⟨h2, e2⟩ | ⟨rfl, rfl, rfl, e2⟩
        · rw [e1] at hm; rw [e2] at hm'; exact hd id i id' j p q h1 h2 hm hm' hne
        · rw [e1] at hm; rw [e2] at hm'; injection hm' with hm'
          have := hb id i p h1 hm
          left; rw [(hpnew hm').1]; exact this.1
        · rw [e1] at hm; rw [e2] at hm'; injection hm with hm
          have := hb id' j q h2 hm'
          right; rw [(hpnew hm).1]; exact this.1
        · rcases hne with h | h <;> exact absurd rfl h
      · intro id i p hp hm
        rcases hpat id i p hp with ⟨h1, e1⟩ | ⟨rfl, rfl, rfl, e1⟩
        · rw [e1] at hm; have := hb id i p h1 hm; exact ⟨Nat.le_trans this.1 hcur, this.2⟩
        · rw [e1] at hm; injection hm with hm
          exact ⟨by rw [(hpnew hm).2.1]; exact Nat.le_refl _, (hpnew hm).2.2.1, (hpnew hm).2.2.2⟩

/-- the whole assembly keeps the invariants -/
theorem assembleList_ranges (a a' : Asm α ρ) (items : List (Except AsmError (Terminal α ρ)))
    (h : assembleList a items = .ok a') (hd : OrdDisjoint a.mockers) (hb : OrdBelow a.mockers a.cur) :
    OrdDisjoint a'.mockers ∧ OrdBelow a'.mockers a'.cur := by
  induction items generalizing a with
  | nil => simp [assembleList] at h; subst h; exact ⟨hd, hb⟩
  | cons it items ih =>
    cases it with
    | error e => simp [assembleList] at h
    | ok t =>
      simp only [assembleList] at h
      cases hp : a.push t with
      | error e => simp [hp] at h
      | ok a1 =>
        simp only [hp] at h
        obtain ⟨h1, h2, _⟩ := push_ranges a a1 t hp hd hb
        exact ih a1 h h1 h2

end Unimock
