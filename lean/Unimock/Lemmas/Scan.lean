import Unimock.Model.Core
/-! Lemmas about the unordered first-match scan (`match_call_pattern`, InAnyOrder). -/
namespace Unimock
variable {α ρ : Type}

theorem scan_shift (ps : List (Pattern α ρ)) (a : α) (k : Nat) :
    scan ps a k = (scan ps a 0).map (fun r => (r.1 + k, r.2)) := by
  induction ps generalizing k with
  | nil => simp [scan]
  | cons p ps ih =>
    unfold scan
    cases tryPat p a with
    | some b => simp
    | none =>
      simp only
      rw [ih (k+1), ih 1]
      cases scan ps a 0 with
      | none => simp
      | some r => simp; omega

theorem scan_some_iff (ps : List (Pattern α ρ)) (a : α) (i : Nat) (b : Try) :
    scan ps a 0 = some (i, b) ↔
      ∃ h : i < ps.length, tryPat ps[i] a = some b ∧ ∀ j (hj : j < i), tryPat (ps[j]'(by omega)) a = none := by
  induction ps generalizing i with
  | nil => simp [scan]
  | cons p ps ih =>
    unfold scan
    cases hp : tryPat p a with
    | some b' =>
      simp only
      constructor
      · intro h
        injection h with h; injection h with h1 h2
        subst h1; subst h2
        exact ⟨by simp, by simpa using hp, by intro j hj; omega⟩
      · rintro ⟨h, hacc, hrej⟩
        cases i with
        | zero => simp at hacc; rw [hp] at hacc; injection hacc with e; subst e; rfl
        | succ i => have := hrej 0 (by omega); simp at this; rw [hp] at this; cases this
    | none =>
      simp only
      rw [scan_shift]
      constructor
      · intro h
        cases hs : scan ps a 0 with
        | none => rw [hs] at h; simp at h
        | some r =>
          rw [hs] at h; simp at h
          obtain ⟨h1, h2⟩ := h
          obtain ⟨r1, r2⟩ := r
          simp at h1 h2; subst h1; subst h2
          obtain ⟨hl, hacc, hrej⟩ := (ih r1).mp hs
          refine ⟨by simp; omega, by simpa using hacc, ?_⟩
          intro j hj
          cases j with
          | zero => simpa using hp
          | succ j => simpa using hrej j (by omega)
      · rintro ⟨h, hacc, hrej⟩
        cases i with
        | zero => simp at hacc; rw [hp] at hacc; cases hacc
        | succ i =>
          have : scan ps a 0 = some (i, b) := by
            apply (ih i).mpr
            refine ⟨by simpa using h, by simpa using hacc, ?_⟩
            intro j hj
            have := hrej (j+1) (by omega)
            simpa using this
          rw [this]; simp

theorem scan_none_iff (ps : List (Pattern α ρ)) (a : α) :
    scan ps a 0 = none ↔ ∀ p ∈ ps, tryPat p a = none := by
  induction ps with
  | nil => simp [scan]
  | cons p ps ih =>
    unfold scan
    cases hp : tryPat p a with
    | some b => simp [hp]
    | none => simp only; rw [scan_shift]; simp [hp, ih]

theorem scan_lt (ps : List (Pattern α ρ)) (a : α) (i : Nat) (b : Try)
    (h : scan ps a 0 = some (i, b)) : i < ps.length :=
  ((scan_some_iff ps a i b).mp h).1

/-- the scan looks at matchers only: counts, slots, responders, expectations are irrelevant -/
def sameMatchers (ps qs : List (Pattern α ρ)) : Prop :=
  ps.map (·.matcher) = qs.map (·.matcher)

theorem tryPat_matcher (p q : Pattern α ρ) (a : α) (h : p.matcher = q.matcher) :
    tryPat p a = tryPat q a := by unfold tryPat; rw [h]

theorem scan_config_only (ps qs : List (Pattern α ρ)) (a : α) (h : sameMatchers ps qs) (k : Nat) :
    scan ps a k = scan qs a k := by
  induction ps generalizing qs k with
  | nil =>
    cases qs with
    | nil => rfl
    | cons q qs => simp [sameMatchers] at h
  | cons p ps ih =>
    cases qs with
    | nil => simp [sameMatchers] at h
    | cons q qs =>
      simp [sameMatchers] at h
      unfold scan
      rw [tryPat_matcher p q a h.1, ih qs h.2]

end Unimock
