import Unimock.Lemmas.Typestate
import Unimock.Props.C03
/-!
From a chain of builder calls (type-state level) to the quantifier chain of the value-level builder model:
what the calls mean for the expectation the pattern ends up with.
-/
namespace Unimock.Typestate
open Unimock

variable {ρ : Type}

/-- the quantifier a call stands for (the counts are immaterial here: `n_times(2)`, `at_least_times(1)`) -/
def quantOf : Call → Option Quant
  | .once => some .once
  | .nTimes => some (.nTimes 2)
  | .atLeastTimes => some (.atLeastTimes 1)
  | _ => none

/-- the response a call defines (`v` stands for the configured value) -/
def respOf (v : ρ) : Call → Option (Resp ρ × Bool)
  | .returns _ => some (.ret v false, true)
  | .other => some (.unmock, false)
  | _ => none

/-- read a chain of builder calls as response segments: `resp [quant] (then resp [quant])*`;
    `qrv`: the first response is defined on `DefineResponse` (after `some_call` / `next_call`) -/
def toSegs (v : ρ) : Nat → Bool → List Call → Option (List (Segment ρ))
  | 0, _, _ => none
  | _ + 1, _, [] => none
  | fuel + 1, qrv, r :: rest =>
    match respOf v r with
    | none => none
    | some (resp, isRet) =>
      match rest with
      | [] => some [⟨resp, .unquantified, qrv && isRet⟩]
      | q :: rest' =>
        match quantOf q with
        | none => none
        | some qu =>
          match rest' with
          | [] => some [⟨resp, qu, qrv && isRet⟩]
          | .then_ :: rest'' => (toSegs v fuel false rest'').map fun t => ⟨resp, qu, qrv && isRet⟩ :: t
          | _ :: _ => none

theorem toSegs_ne_nil (v : ρ) (fuel : Nat) (qrv : Bool) (cs : List Call) (segs : List (Segment ρ))
    (h : toSegs v fuel qrv cs = some segs) : segs ≠ [] := by
  cases fuel with
  | zero => simp [toSegs] at h
  | succ fuel =>
    cases cs with
    | nil => simp [toSegs] at h
    | cons r rest =>
      simp only [toSegs] at h
      cases hr : respOf v r with
      | none => simp [hr] at h
      | some x =>
        obtain ⟨resp, isRet⟩ := x
        simp only [hr] at h
        cases rest with
        | nil => simp at h; subst h; simp
        | cons q rest' =>
          simp only at h
          cases hq : quantOf q with
          | none => simp [hq] at h
          | some qu =>
            simp only [hq] at h
            cases rest' with
            | nil => simp at h; subst h; simp
            | cons x rest'' =>
              cases x <;> simp at h
              obtain ⟨t, _, rfl⟩ := h
              simp

/-- an `at_least_times` segment comes from an `at_least_times` call -/
theorem toSegs_atLeast (v : ρ) (fuel : Nat) (qrv : Bool) (cs : List Call) (segs : List (Segment ρ))
    (h : toSegs v fuel qrv cs = some segs) (s : Segment ρ) (hs : s ∈ segs) (n : Nat) (hq : s.quant = .atLeastTimes n) :
    Call.atLeastTimes ∈ cs := by
  induction fuel generalizing qrv cs segs with
  | zero => simp [toSegs] at h
  | succ fuel ih =>
    cases cs with
    | nil => simp [toSegs] at h
    | cons r rest =>
      simp only [toSegs] at h
      cases hr : respOf v r with
      | none => simp [hr] at h
      | some x =>
        obtain ⟨resp, isRet⟩ := x
        simp only [hr] at h
        cases rest with
        | nil =>
          simp at h; subst h
          simp at hs; subst hs
          simp at hq
        | cons q rest' =>
          simp only at h
          cases hqo : quantOf q with
          | none => simp [hqo] at h
          | some qu =>
            simp only [hqo] at h
            have hqcase : qu = .atLeastTimes n → q = .atLeastTimes := by
              intro hh; subst hh
              cases q <;> simp [quantOf] at hqo ⊢
            cases rest' with
            | nil =>
              simp at h; subst h
              simp at hs; subst hs
              simp only at hq
              simp [hqcase hq]
            | cons x rest'' =>
              cases x <;> simp at h
              obtain ⟨t, ht, rfl⟩ := h
              rcases List.mem_cons.1 hs with rfl | hs'
              · simp only at hq
                simp [hqcase hq]
              · have := ih false rest'' t ht hs'
                simp [this]

/-- without `at_least_times` segments a top-level ordered chain always ends exact -/
theorem chainExactness_ordered_exact (init : Exactness) (segs : List (Segment ρ)) (hne : segs ≠ [])
    (hno : ∀ s ∈ segs, ∀ n, s.quant ≠ .atLeastTimes n) : chainExactness true .inOrder init segs = .exact := by
  induction segs generalizing init with
  | nil => exact absurd rfl hne
  | cons s t ih =>
    cases t with
    | nil =>
      simp only [chainExactness]
      have := hno s (by simp)
      cases hq : s.quant with
      | once => rfl
      | nTimes n => rfl
      | atLeastTimes n => exact absurd hq (this n)
      | unquantified => simp [implicitOnce]
    | cons s2 t2 =>
      simp only [chainExactness]
      exact ih .atLeastPlusOne (by simp) (fun x hx n => hno x (by simp [hx]) n)

end Unimock.Typestate
