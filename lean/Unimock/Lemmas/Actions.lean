import Unimock.Model.Interleave
import Unimock.Lemmas.State
/-! Effect of each atomic action on the observables (pattern counters, ordered index, slots, log). -/
namespace Unimock
variable {α ρ : Type}

theorem find_mapPat (s : Shared α ρ) (id pi id' : Nat) (f : Pattern α ρ → Pattern α ρ) :
    (s.mapPat id pi f).find id' =
      (s.find id').map fun m => if m.info.id = id then { m with pats := m.pats.modify pi f } else m := by
  unfold Shared.mapPat Shared.find
  exact find?_map_upd s.mockers id id' (fun m => { m with pats := m.pats.modify pi f }) (fun _ => rfl)

/-- the pattern `(id, pi)` exists in the table -/
def Shared.hasPat (s : Shared α ρ) (id pi : Nat) : Prop :=
  ∃ fm p, s.find id = some fm ∧ fm.pats[pi]? = some p

theorem patCount_mapPat_count_same (s : Shared α ρ) (id pi : Nat) (h : s.hasPat id pi) :
    (s.mapPat id pi fun p => { p with count := p.count + 1 }).patCount id pi = s.patCount id pi + 1 := by
  obtain ⟨fm, p, hf, hp⟩ := h
  have hid := find_id s id fm hf
  unfold Shared.patCount
  rw [find_mapPat, hf]
  simp [hid, List.getElem?_modify_eq, hp]

theorem patCount_mapPat_other (s : Shared α ρ) (id pi id' pi' : Nat) (f : Pattern α ρ → Pattern α ρ)
    (h : id' ≠ id ∨ pi' ≠ pi) : (s.mapPat id pi f).patCount id' pi' = s.patCount id' pi' := by
  unfold Shared.patCount
  rw [find_mapPat]
  cases hf : s.find id' with
  | none => rfl
  | some fm =>
    have hid := find_id s id' fm hf
    simp only [Option.map_some]
    by_cases hc : fm.info.id = id
    · have hpi : pi' ≠ pi := by
        rcases h with h | h
        · exact absurd (hid ▸ hc) h
        · exact h
      simp only [hc, ↓reduceIte, List.getElem?_modify_ne _ _ (Ne.symm hpi)]
    · simp only [hc, ↓reduceIte]

theorem patCount_mapPat_keepCount (s : Shared α ρ) (id pi id' pi' : Nat) (f : Pattern α ρ → Pattern α ρ)
    (hf : ∀ p, (f p).count = p.count) : (s.mapPat id pi f).patCount id' pi' = s.patCount id' pi' := by
  unfold Shared.patCount
  rw [find_mapPat]
  cases hfm : s.find id' with
  | none => rfl
  | some fm =>
    simp only [Option.map_some]
    by_cases hc : fm.info.id = id
    · simp only [hc, ↓reduceIte]
      by_cases hpi : pi = pi'
      · subst hpi
        simp only [List.getElem?_modify_eq]
        cases fm.pats[pi]? <;> simp [hf]
      · simp only [List.getElem?_modify_ne _ _ hpi]
    · simp only [hc, ↓reduceIte]

theorem hasPat_mapPat (s : Shared α ρ) (id pi id' pi' : Nat) (f : Pattern α ρ → Pattern α ρ)
    (h : s.hasPat id' pi') : (s.mapPat id pi f).hasPat id' pi' := by
  obtain ⟨fm, p, hfm, hp⟩ := h
  unfold Shared.hasPat
  rw [find_mapPat, hfm]
  simp only [Option.map_some]
  by_cases hc : fm.info.id = id
  · simp only [hc, ↓reduceIte]
    by_cases hpi : pi = pi'
    · subst hpi
      exact ⟨_, f p, rfl, by simp [List.getElem?_modify_eq, hp]⟩
    · exact ⟨_, p, rfl, by simp [List.getElem?_modify_ne _ _ hpi, hp]⟩
  · simp only [hc, ↓reduceIte]
    exact ⟨_, p, rfl, hp⟩

/-- every action preserves the existence of every pattern -/
theorem hasPat_applyAction (s : Shared α ρ) (a : Action) (id pi : Nat) (h : s.hasPat id pi) :
    (applyAction s a).1.hasPat id pi := by
  cases a with
  | bumpGlobal => exact h
  | bumpPat id' pi' => exact hasPat_mapPat s id' pi' id pi _ h
  | takeSlot id' pi' ri =>
    simp only [applyAction]
    split
    · exact h
    · exact hasPat_mapPat s id' pi' id pi _ h
  | pushReason e => exact h

end Unimock
