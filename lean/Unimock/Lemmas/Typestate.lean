import Unimock.Model.Typestate
/-! Facts about the builder type-state used by C12 and C14. The state and call types are finite, so
    every single-step fact is decided over the complete tables `allSt × allCall`. -/
namespace Unimock.Typestate

def allOrd : List Ord := [.inOrder, .anyOrder]
def allSt : List St :=
  allOrd.flatMap fun o =>
    [.defineResponse o, .defineMulti o, .quantifyRV o true, .quantifyRV o false, .quantify o,
     .quantified o .exact, .quantified o .atLeast]
def allCall : List Call := [.returns true, .returns false, .other, .once, .nTimes, .atLeastTimes, .then_]

theorem mem_allSt (s : St) : s ∈ allSt := by
  cases s with
  | defineResponse o => cases o <;> decide
  | defineMulti o => cases o <;> decide
  | quantifyRV o b => cases o <;> cases b <;> decide
  | quantify o => cases o <;> decide
  | quantified o r => cases o <;> cases r <;> decide

theorem mem_allCall (c : Call) : c ∈ allCall := by
  cases c with
  | returns b => cases b <;> decide
  | _ => decide

/-- lift a decided table fact to all states and calls -/
theorem forall_step {P : St → Call → Prop} [∀ s c, Decidable (P s c)]
    (h : ∀ s ∈ allSt, ∀ c ∈ allCall, P s c) (s : St) (c : Call) : P s c :=
  h s (mem_allSt s) c (mem_allCall c)

theorem step_ord (s s' : St) (c : Call) (h : step s c = some s') : s'.ord = s.ord := by
  have := forall_step (P := fun s c => ∀ s' ∈ allSt, step s c = some s' → s'.ord = s.ord) (by decide) s c
  exact this s' (mem_allSt s') h

theorem step_atLeast_anyOrder (s s' : St) (h : step s .atLeastTimes = some s') : s.ord = .anyOrder := by
  have := forall_step (P := fun s c => c = .atLeastTimes → (step s c).isSome → s.ord = .anyOrder) (by decide) s .atLeastTimes
  exact this rfl (by rw [h]; rfl)

theorem step_not_defineResponse (s : St) (c : Call) (o : Ord) : step s c ≠ some (.defineResponse o) := by
  have := forall_step (P := fun s c => ∀ o ∈ allOrd, step s c ≠ some (.defineResponse o)) (by decide) s c
  exact this o (by cases o <;> decide)

theorem step_returns_nonclone (s s' : St) (h : step s (.returns false) = some s') :
    ∃ o, s = .defineResponse o ∧ s' = .quantifyRV o false := by
  have := forall_step (P := fun s c => c = .returns false → ∀ s' ∈ allSt, step s c = some s' →
    (s = .defineResponse s.ord ∧ s' = .quantifyRV s.ord false)) (by decide) s (.returns false)
  exact ⟨s.ord, this rfl s' (mem_allSt s') h⟩

theorem step_from_quantifyRV_nonclone (o : Ord) (c : Call) (s' : St) (h : step (.quantifyRV o false) c = some s') :
    c = .once := by
  have := forall_step (P := fun s c => ∀ o ∈ allOrd, s = .quantifyRV o false → (step s c).isSome → c = .once)
    (by decide) (.quantifyRV o false) c
  exact this o (by cases o <;> decide) rfl (by rw [h]; rfl)

theorem step_then (s s' : St) (h : step s .then_ = some s') : s = .quantified s.ord .exact := by
  have := forall_step (P := fun s c => c = .then_ → (step s c).isSome → s = .quantified s.ord .exact) (by decide) s .then_
  exact this rfl (by rw [h]; rfl)

theorem step_to_exact (s : St) (c : Call) (o : Ord) (h : step s c = some (.quantified o .exact)) :
    c = .once ∨ c = .nTimes := by
  have := forall_step (P := fun s c => ∀ o ∈ allOrd, step s c = some (.quantified o .exact) → (c = .once ∨ c = .nTimes))
    (by decide) s c
  exact this o (by cases o <;> decide) h

theorem run_cons (s : St) (c : Call) (cs : List Call) :
    run s (c :: cs) = (step s c).bind fun s' => run s' cs := by
  simp only [run]; cases step s c <;> rfl

theorem run_ord (s s' : St) (cs : List Call) (h : run s cs = some s') : s'.ord = s.ord := by
  induction cs generalizing s with
  | nil => simp [run] at h; subst h; rfl
  | cons c cs ih =>
    rw [run_cons] at h
    cases hs : step s c with
    | none => simp [hs] at h
    | some s1 => simp [hs] at h; rw [ih s1 h, step_ord s s1 c hs]

end Unimock.Typestate
