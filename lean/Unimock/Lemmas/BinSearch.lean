import Unimock.Model.Core
/-! The modelled std `binary_search_by` lands on the greatest index whose key is ≤ the target. -/
namespace Unimock

def SortedKeys (keys : Array Nat) : Prop := ∀ i j, i ≤ j → j < keys.size → keys[i]! ≤ keys[j]!

theorem bsLoop_inv (keys : Array Nat) (k : Nat) (hs : SortedKeys keys) :
    ∀ fuel size base, size ≤ fuel + 1 → 0 < size → base + size ≤ keys.size →
      (base = 0 ∨ keys[base]! ≤ k) →
      (∀ j, base + size ≤ j → j < keys.size → keys[j]! > k) →
      let r := bsLoop keys k fuel size base
      r < keys.size ∧ (r = 0 ∨ keys[r]! ≤ k) ∧ (∀ j, r < j → j < keys.size → keys[j]! > k) ∧ base ≤ r := by
  intro fuel
  induction fuel with
  | zero =>
    intro size base hfuel hpos hle hlo hhi
    have : size = 1 := by omega
    subst this
    simp only [bsLoop]
    exact ⟨by omega, hlo, fun j hj hjs => hhi j (by omega) hjs, by omega⟩
  | succ fuel ih =>
    intro size base hfuel hpos hle hlo hhi
    unfold bsLoop
    by_cases h : size > 1
    · simp only [h, ↓reduceIte]
      have hhalf : size / 2 > 0 := by omega
      by_cases hg : keys[base + size / 2]! > k
      · simp only [hg, ↓reduceIte]
        exact ih (size - size / 2) base (by omega) (by omega) (by omega) hlo (by
          intro j hj hjs
          by_cases hj2 : base + size ≤ j
          · exact hhi j hj2 hjs
          · have : base + size / 2 ≤ j := by omega
            have := hs (base + size / 2) j this hjs
            omega)
      · simp only [hg, ↓reduceIte]
        have hmid : keys[base + size / 2]! ≤ k := by omega
        have := ih (size - size / 2) (base + size / 2) (by omega) (by omega) (by omega) (Or.inr hmid) (by
          intro j hj hjs
          exact hhi j (by omega) hjs)
        exact ⟨this.1, this.2.1, this.2.2.1, by omega⟩
    · simp only [h, ↓reduceIte]
      have : size = 1 := by omega
      subst this
      exact ⟨by omega, hlo, fun j hj hjs => hhi j (by omega) hjs, by omega⟩

/-- greatest index with key ≤ k (duplicates included: the last of equal keys wins) -/
theorem findKey_spec (keys : Array Nat) (k : Nat) (hs : SortedKeys keys) (hne : 0 < keys.size)
    (h0 : keys[0]! ≤ k) :
    ∃ i, findKey keys k = some i ∧ i < keys.size ∧ keys[i]! ≤ k ∧
      ∀ j, i < j → j < keys.size → keys[j]! > k := by
  have inv := bsLoop_inv keys k hs keys.size keys.size 0 (by omega) hne (by omega) (Or.inl rfl)
    (by intro j hj hjs; omega)
  simp only at inv
  obtain ⟨hr, hle, hgt, _⟩ := inv
  have hle' : keys[bsLoop keys k keys.size keys.size 0]! ≤ k := by
    rcases hle with h | h
    · rw [h]; exact h0
    · exact h
  unfold findKey binarySearch
  have : ¬ keys.size = 0 := by omega
  simp only [this, ↓reduceIte]
  by_cases heq : keys[bsLoop keys k keys.size keys.size 0]! = k
  · simp only [heq, ↓reduceIte]
    exact ⟨_, rfl, hr, by omega, hgt⟩
  · simp only [heq, ↓reduceIte]
    have hlt : keys[bsLoop keys k keys.size keys.size 0]! < k := by omega
    simp only [hlt, ↓reduceIte]
    refine ⟨_, rfl, ?_, ?_, ?_⟩ <;> simp <;> first | exact hr | exact hle' | exact hgt

theorem findResponderIdx_eq {ρ} (rs : List (Responder ρ)) (k : Nat) :
    findResponderIdx rs k = findKey (rs.map (·.start)).toArray k := rfl

end Unimock
