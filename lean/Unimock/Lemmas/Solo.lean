import Unimock.Model.Interleave
import Unimock.Lemmas.State
import Unimock.Lemmas.Scan
import Unimock.Lemmas.Actions
/-!
A call cut into atomic actions (Model/Interleave) and run with no other thread in between is the
sequential call of Model/Core. This is what ties the interleaving model — about which the C10
theorems speak — to the sequential model all other theorems speak about.
-/
namespace Unimock
variable {α ρ : Type}

/-- method ids of the table are pairwise distinct (true of every assembled mock) -/
def Shared.UniqueIds (s : Shared α ρ) : Prop := (s.mockers.map (·.info.id)).Nodup

theorem modify_eq_set_of_getElem? {β : Type} (l : List β) (i : Nat) (f : β → β) (x : β) (h : l[i]? = some x) :
    l.modify i f = l.set i (f x) := by
  apply List.ext_getElem
  · simp
  · intro j h1 h2
    simp only [List.getElem_modify, List.getElem_set]
    split
    · rename_i hij
      subst hij
      have hl : i < l.length := by simpa using h1
      rw [List.getElem?_eq_getElem hl] at h
      rw [Option.some.inj h]
    · rfl

theorem find?_of_mem_nodup (ms : List (FnMocker α ρ)) (h : (ms.map (·.info.id)).Nodup) (m : FnMocker α ρ)
    (hm : m ∈ ms) : ms.find? (·.info.id = m.info.id) = some m := by
  induction ms with
  | nil => cases hm
  | cons x xs ih =>
    simp only [List.map_cons, List.nodup_cons] at h
    by_cases hx : x.info.id = m.info.id
    · rcases List.mem_cons.1 hm with rfl | hm'
      · simp
      · exact absurd (hx ▸ List.mem_map.2 ⟨m, hm', rfl⟩) h.1
    · rcases List.mem_cons.1 hm with rfl | hm'
      · exact absurd rfl hx
      · simp only [List.find?_cons, hx, decide_false]
        exact ih h.2 hm'

/-- with distinct ids, bumping a pattern in place is writing back the bumped copy of the looked-up pattern -/
theorem mapPat_eq_setPat (s : Shared α ρ) (hu : s.UniqueIds) (id pi : Nat) (f : Pattern α ρ → Pattern α ρ)
    (fm : FnMocker α ρ) (p : Pattern α ρ) (hf : s.find id = some fm) (hp : fm.pats[pi]? = some p) :
    s.mapPat id pi f = s.setPat id pi (f p) := by
  unfold Shared.mapPat Shared.setPat
  congr 1
  apply List.map_congr_left
  intro m hm
  by_cases hid : m.info.id = id
  · have hfm : s.find id = some m := by
      unfold Shared.find; rw [← hid]; exact find?_of_mem_nodup s.mockers hu m hm
    rw [hf] at hfm
    cases hfm
    simp only [hid, ↓reduceIte]
    congr 1
    exact modify_eq_set_of_getElem? _ pi f p hp
  · simp only [hid, ↓reduceIte]

theorem uniqueIds_setPat (s : Shared α ρ) (id i : Nat) (p : Pattern α ρ) (h : s.UniqueIds) :
    (s.setPat id i p).UniqueIds := by
  unfold Shared.UniqueIds Shared.setPat at *
  simp only [List.map_map]
  have : ((fun x : FnMocker α ρ => x.info.id) ∘ fun m => if m.info.id = id then { m with pats := m.pats.set i p } else m)
      = fun x => x.info.id := by
    funext m; simp only [Function.comp]; split <;> rfl
  rw [this]; exact h

theorem setPat_setPat (s : Shared α ρ) (id i : Nat) (p q : Pattern α ρ) :
    (s.setPat id i p).setPat id i q = s.setPat id i q := by
  unfold Shared.setPat
  simp only [List.map_map]
  congr 1
  apply List.map_congr_left
  intro m _
  simp only [Function.comp]
  by_cases hid : m.info.id = id
  · simp [hid, List.set_set]
  · simp [hid]

/-! ## the rest of one call, run alone -/

def ThreadOut.ofEval : EvalOutcome ρ → ThreadOut ρ
  | .ret v => .ret v
  | .contAnswer _ => .cont 0
  | .contUnmock => .cont 1
  | .contDefault => .cont 2
  | .err e => .err e
  | .userPanic => .userPanic

/-- run the remaining atomic actions of the current call, one after the other, nothing in between -/
def finish : Nat → Shared α ρ → Sum (ThreadOut ρ) (Phase α ρ) → Shared α ρ × Option (ThreadOut ρ)
  | _, s, .inl o => (s, some o)
  | 0, s, .inr _ => (s, none)
  | fuel+1, s, .inr ph =>
    match ph with
    | .atGlobal m a =>
      let (s1, r) := applyAction s .bumpGlobal
      let idx := match r with | .idx n => n | _ => 0
      finish fuel s1 (afterGlobal s1 m a idx)
    | .atPat m pi =>
      let (s1, r) := applyAction s (.bumpPat m.id pi)
      let c := match r with | .idx n => n | _ => 0
      finish fuel s1 (afterPat s1 m pi c)
    | .atTake m pi ri v =>
      let (s1, r) := applyAction s (.takeSlot m.id pi ri)
      match r with
      | .took true => (s1, some (.ret v))
      | _ => finish fuel s1 (.inr (.atPush (.cannotReturnValueMoreThanOnce m pi)))
    | .atPush e => ((applyAction s (.pushReason e)).1, some (.err e))
    | .notStarted => (s, none)
    | .finished => (s, none)

/-- the part of a call after its pattern was chosen and counted, in the sequential model -/
theorem finish_atPat (s : Shared α ρ) (hu : s.UniqueIds) (m : MethodInfo) (pi : Nat) (fm : FnMocker α ρ)
    (p : Pattern α ρ) (hf : s.find m.id = some fm) (hp : fm.pats[pi]? = some p) (k : Nat) :
    finish (k + 3) s (.inr (.atPat m pi)) =
      (match respond m pi p.responders p.count with
        | (rs, .err e) => ((s.setPat m.id pi { p with count := p.count + 1, responders := rs }).induce e, some (.err e))
        | (rs, out) => (s.setPat m.id pi { p with count := p.count + 1, responders := rs }, some (ThreadOut.ofEval out))) := by
  have hid := find_id s m.id fm hf
  have hcnt : s.patCount m.id pi = p.count := by unfold Shared.patCount; rw [hf]; simp [hp]
  have hs1 : s.mapPat m.id pi (fun p => { p with count := p.count + 1 }) = s.setPat m.id pi { p with count := p.count + 1 } :=
    mapPat_eq_setPat s hu m.id pi _ fm p hf hp
  have hlt : pi < fm.pats.length := by
    rcases Nat.lt_or_ge pi fm.pats.length with h | h
    · exact h
    · rw [List.getElem?_eq_none h] at hp; cases hp
  have hf1 : (s.setPat m.id pi { p with count := p.count + 1 }).find m.id
      = some { fm with pats := fm.pats.set pi { p with count := p.count + 1 } } := by
    rw [find_setPat, hf]; simp [hid]
  simp only [finish, applyAction, hs1, hcnt]
  unfold afterPat respond
  rw [hf1]
  simp only [List.getElem?_set_self hlt]
  cases hri : findResponderIdx p.responders p.count with
  | none => simp [finish, applyAction]
  | some ri =>
    simp only
    cases hr : p.responders[ri]? with
    | none => simp [finish, applyAction]
    | some r =>
      simp only
      cases hresp : r.resp with
      | answer f => simp [finish, ThreadOut.ofEval]
      | applyDefaultImpl => simp [finish, ThreadOut.ofEval]
      | unmock => simp [finish, ThreadOut.ofEval]
      | panic msg => simp [finish, applyAction]
      | ret v once =>
        cases once with
        | false => simp [finish, ThreadOut.ofEval]
        | true =>
          have hu1 := uniqueIds_setPat s m.id pi { p with count := p.count + 1 } hu
          have htaken : (s.setPat m.id pi { p with count := p.count + 1 }).slotTaken m.id pi ri = r.taken := by
            unfold Shared.slotTaken; rw [hf1]; simp [List.getElem?_set_self hlt, hr]
          have hrlt : ri < p.responders.length := by
            rcases Nat.lt_or_ge ri p.responders.length with h | h
            · exact h
            · rw [List.getElem?_eq_none h] at hr; cases hr
          have hrr : p.responders[ri] = r := by
            rw [List.getElem?_eq_getElem hrlt] at hr; exact Option.some.inj hr
          simp only [finish, applyAction, htaken]
          cases htk : r.taken with
          | true => simp
          | false =>
            simp only [Bool.false_eq_true, ↓reduceIte, ThreadOut.ofEval]
            rw [mapPat_eq_setPat _ hu1 m.id pi _ _ { p with count := p.count + 1 } hf1 (by simp [List.getElem?_set_self hlt]),
              setPat_setPat]
            congr 3
            have := modify_eq_set_of_getElem? p.responders ri (fun r => { r with taken := true }) r hr
            simp only [hresp] at this
            exact this

/-- **a call run alone through its atomic actions is the sequential call** (distinct method ids) -/
theorem finish_begin_eq_call (s : Shared α ρ) (hu : s.UniqueIds) (m : MethodInfo) (a : α) :
    finish 4 s (beginCall s m a) = ((call s m a).1, some (ThreadOut.ofEval (call s m a).2)) := by
  unfold beginCall call evalCall
  cases hf : s.find m.id with
  | none =>
    simp only
    by_cases h1 : m.hasDefaultImpl
    · simp [h1, finish, ThreadOut.ofEval]
    · by_cases h2 : m.partialByDefault
      · simp [h1, h2, finish, ThreadOut.ofEval]
      · cases hfb : s.fallback <;> simp [h1, h2, finish, applyAction, ThreadOut.ofEval]
  | some fm =>
    simp only
    cases hmode : fm.mode with
    | anyOrder =>
      simp only
      cases hscan : scan fm.pats a 0 with
      | none => cases hfb : s.fallback <;> simp [finish, applyAction, ThreadOut.ofEval]
      | some r =>
        obtain ⟨pi, t⟩ := r
        cases t with
        | noMatcher => simp [finish, applyAction, ThreadOut.ofEval]
        | userPanic => simp [finish, ThreadOut.ofEval]
        | accept =>
          have hlt := scan_lt fm.pats a pi .accept hscan
          have hp : fm.pats[pi]? = some fm.pats[pi] := List.getElem?_eq_getElem hlt
          simp only [hp]
          rw [finish_atPat s hu m pi fm fm.pats[pi] hf hp 1]
          cases hresp : respond m pi fm.pats[pi].responders fm.pats[pi].count with
          | mk rs out => cases out <;> rfl
    | inOrder =>
      simp only [finish, applyAction]
      unfold afterGlobal
      have hf1 : Shared.find ({ s with nextOrdered := s.nextOrdered + 1 } : Shared α ρ) m.id = some fm := hf
      rw [hf1]
      simp only
      cases hfo : findForOrder fm.pats s.nextOrdered with
      | none => simp [finish, applyAction, ThreadOut.ofEval, Shared.induce, Shared.findOrderedExpected]
      | some pi =>
        simp only
        cases hp : fm.pats[pi]? with
        | none => simp [finish, applyAction, ThreadOut.ofEval]
        | some p =>
          simp only
          cases htry : tryPat p a with
          | none => simp [finish, applyAction, ThreadOut.ofEval]
          | some t =>
            cases t with
            | noMatcher => simp [finish, applyAction, ThreadOut.ofEval]
            | userPanic => simp [finish, ThreadOut.ofEval]
            | accept =>
              simp only
              have hu1 : Shared.UniqueIds ({ s with nextOrdered := s.nextOrdered + 1 } : Shared α ρ) := hu
              rw [finish_atPat _ hu1 m pi fm p hf1 hp 0]
              cases hresp : respond m pi p.responders p.count with
              | mk rs out => cases out <;> rfl

end Unimock
