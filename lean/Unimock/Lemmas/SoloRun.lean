import Unimock.Lemmas.Solo
import Unimock.Model.Assemble
/-!
One thread of the interleaving model, scheduled alone until it has finished, makes its calls exactly
as the sequential model does: same outcomes in the same order, same final shared state.
-/
namespace Unimock
variable {α ρ : Type}

/-- the sequential reference: the calls made one after the other through `call` -/
def seqCalls (s : Shared α ρ) : List (MethodInfo × α) → Shared α ρ × List (ThreadOut ρ)
  | [] => (s, [])
  | (m, a) :: rest =>
    let r := call s m a
    let r' := seqCalls r.1 rest
    (r'.1, ThreadOut.ofEval r.2 :: r'.2)

/-- schedule one thread `n` times in a row -/
def soloRun : Nat → Shared α ρ × ThreadSt α ρ → Shared α ρ × ThreadSt α ρ
  | 0, x => x
  | n+1, (s, t) => let r := threadStep s t; soloRun n (r.1, r.2.1)

/-! ### `finish` always completes a call from any pause point within four steps -/

theorem finish_atPush (k : Nat) (s : Shared α ρ) (e : MockError) :
    finish (k + 1) s (.inr (.atPush e)) = (s.induce e, some (.err e)) := rfl

theorem finish_atTake_some (k : Nat) (s : Shared α ρ) (m : MethodInfo) (pi ri : Nat) (v : ρ) :
    (finish (k + 2) s (.inr (.atTake m pi ri v))).2.isSome ∧
      finish (k + 3) s (.inr (.atTake m pi ri v)) = finish (k + 2) s (.inr (.atTake m pi ri v)) := by
  simp only [finish, applyAction]
  split <;> simp [finish]

/-- the possible results of the thread-local computation after a pattern position was obtained -/
theorem afterPat_cases (s : Shared α ρ) (m : MethodInfo) (pi c : Nat) :
    (∃ o, afterPat s m pi c = .inl o) ∨ (∃ e, afterPat s m pi c = .inr (.atPush e)) ∨
      (∃ ri v, afterPat s m pi c = .inr (.atTake m pi ri v)) := by
  unfold afterPat
  cases s.find m.id with
  | none => exact .inr (.inl ⟨_, rfl⟩)
  | some fm =>
    simp only
    cases fm.pats[pi]? with
    | none => exact .inr (.inl ⟨_, rfl⟩)
    | some p =>
      simp only
      cases findResponderIdx p.responders c with
      | none => exact .inr (.inl ⟨_, rfl⟩)
      | some ri =>
        simp only
        cases p.responders[ri]? with
        | none => exact .inr (.inl ⟨_, rfl⟩)
        | some r =>
          simp only
          cases r.resp with
          | ret v once => cases once <;> simp
          | answer f => exact .inl ⟨_, rfl⟩
          | applyDefaultImpl => exact .inl ⟨_, rfl⟩
          | unmock => exact .inl ⟨_, rfl⟩
          | panic msg => exact .inr (.inl ⟨_, rfl⟩)

theorem afterGlobal_cases (s : Shared α ρ) (m : MethodInfo) (a : α) (idx : Nat) :
    (∃ o, afterGlobal s m a idx = .inl o) ∨ (∃ e, afterGlobal s m a idx = .inr (.atPush e)) ∨
      (∃ pi, afterGlobal s m a idx = .inr (.atPat m pi)) := by
  unfold afterGlobal
  cases s.find m.id with
  | none => exact .inr (.inl ⟨_, rfl⟩)
  | some fm =>
    simp only
    cases findForOrder fm.pats idx with
    | none => exact .inr (.inl ⟨_, rfl⟩)
    | some pi =>
      simp only
      cases fm.pats[pi]? with
      | none => exact .inr (.inl ⟨_, rfl⟩)
      | some p =>
        simp only
        cases tryPat p a with
        | none => exact .inr (.inl ⟨_, rfl⟩)
        | some t => cases t <;> simp

theorem beginCall_cases (s : Shared α ρ) (m : MethodInfo) (a : α) :
    (∃ o, beginCall s m a = .inl o) ∨ (∃ e, beginCall s m a = .inr (.atPush e)) ∨
      (∃ pi, beginCall s m a = .inr (.atPat m pi)) ∨ beginCall s m a = .inr (.atGlobal m a) := by
  unfold beginCall
  cases s.find m.id with
  | none =>
    simp only
    split
    · exact .inl ⟨_, rfl⟩
    · split
      · exact .inl ⟨_, rfl⟩
      · cases s.fallback <;> simp
  | some fm =>
    simp only
    cases fm.mode with
    | inOrder => simp
    | anyOrder =>
      simp only
      cases scan fm.pats a 0 with
      | none => cases s.fallback <;> simp
      | some r =>
        obtain ⟨pi, t⟩ := r
        cases t <;> simp

theorem finish_afterPat_some (k : Nat) (s : Shared α ρ) (m : MethodInfo) (pi c : Nat) :
    (finish (k + 2) s (afterPat s m pi c)).2.isSome ∧
      finish (k + 3) s (afterPat s m pi c) = finish (k + 2) s (afterPat s m pi c) := by
  rcases afterPat_cases s m pi c with ⟨o, h⟩ | ⟨e, h⟩ | ⟨ri, v, h⟩
  · rw [h]; simp [finish]
  · rw [h]; simp [finish]
  · rw [h]; exact finish_atTake_some k s m pi ri v

theorem finish_atPat_some (k : Nat) (s : Shared α ρ) (m : MethodInfo) (pi : Nat) :
    (finish (k + 3) s (.inr (.atPat m pi))).2.isSome ∧
      finish (k + 4) s (.inr (.atPat m pi)) = finish (k + 3) s (.inr (.atPat m pi)) := by
  simp only [finish]
  exact finish_afterPat_some k _ m pi _

theorem finish_afterGlobal_some (k : Nat) (s : Shared α ρ) (m : MethodInfo) (a : α) (idx : Nat) :
    (finish (k + 3) s (afterGlobal s m a idx)).2.isSome ∧
      finish (k + 4) s (afterGlobal s m a idx) = finish (k + 3) s (afterGlobal s m a idx) := by
  rcases afterGlobal_cases s m a idx with ⟨o, h⟩ | ⟨e, h⟩ | ⟨pi, h⟩
  · rw [h]; simp [finish]
  · rw [h]; simp [finish]
  · rw [h]; exact finish_atPat_some k s m pi

/-! ### what remains of a thread, in the sequential model -/

/-- the outcomes a thread still has to produce and the state it leaves, if nobody interferes -/
def remaining (s : Shared α ρ) (t : ThreadSt α ρ) : Shared α ρ × List (ThreadOut ρ) :=
  match t.phase with
  | .finished => (s, [])
  | .notStarted => seqCalls s t.todo
  | ph =>
    match finish 4 s (.inr ph) with
    | (s1, some o) => let r := seqCalls s1 t.todo; (r.1, o :: r.2)
    | (s1, none) => (s1, [])

/-- `remaining` for a thread about to continue with the result `x` of a thread-local computation -/
def remainingOf (s : Shared α ρ) (todo : List (MethodInfo × α)) (x : Sum (ThreadOut ρ) (Phase α ρ)) :
    Shared α ρ × List (ThreadOut ρ) :=
  match finish 4 s x with
  | (s1, some o) => let r := seqCalls s1 todo; (r.1, o :: r.2)
  | (s1, none) => (s1, [])

/-- a pause point inside a call (neither before the first call nor after the last) -/
def Phase.inCall : Phase α ρ → Prop
  | .notStarted => False
  | .finished => False
  | _ => True

theorem remaining_inCall (s : Shared α ρ) (t : ThreadSt α ρ) (h : t.phase.inCall) :
    remaining s t = remainingOf s t.todo (.inr t.phase) := by
  unfold remaining remainingOf
  cases hp : t.phase <;> simp_all [Phase.inCall]

theorem uniqueIds_mapPat (s : Shared α ρ) (id i : Nat) (f : Pattern α ρ → Pattern α ρ) (h : s.UniqueIds) :
    (s.mapPat id i f).UniqueIds := by
  unfold Shared.UniqueIds Shared.mapPat at *
  simp only [List.map_map]
  have : ((fun x : FnMocker α ρ => x.info.id) ∘ fun m => if m.info.id = id then { m with pats := m.pats.modify i f } else m)
      = fun x => x.info.id := by
    funext m; simp only [Function.comp]; split <;> rfl
  rw [this]; exact h

theorem uniqueIds_applyAction (s : Shared α ρ) (a : Action) (h : s.UniqueIds) : (applyAction s a).1.UniqueIds := by
  cases a with
  | bumpGlobal => exact h
  | bumpPat id pi => exact uniqueIds_mapPat s id pi _ h
  | takeSlot id pi ri =>
    simp only [applyAction]
    split
    · exact h
    · exact uniqueIds_mapPat s id pi _ h
  | pushReason e => exact h

/-- settling a thread after a thread-local result: it records outcomes and walks on to the next pause;
    sequentially this changes nothing about what the thread will have produced in the end -/
theorem settle_remaining (s : Shared α ρ) (hu : s.UniqueIds) (fuel : Nat) (t : ThreadSt α ρ)
    (x : Sum (ThreadOut ρ) (Phase α ρ)) (hfuel : t.todo.length + 1 ≤ fuel)
    (hx : (finish 4 s x).2.isSome) (hph : ∀ ph, x = .inr ph → ph.inCall) :
    (settle s fuel t x).outs ++ (remaining s (settle s fuel t x)).2 = t.outs ++ (remainingOf s t.todo x).2 ∧
      (remaining s (settle s fuel t x)).1 = (remainingOf s t.todo x).1 := by
  induction fuel generalizing t x with
  | zero => omega
  | succ fuel ih =>
    cases x with
    | inr ph =>
      have hin := hph ph rfl
      simp only [settle]
      rw [remaining_inCall s _ hin]
      exact ⟨rfl, rfl⟩
    | inl o =>
      simp only [settle]
      cases htodo : t.todo with
      | nil =>
        simp [remaining, remainingOf, finish, seqCalls]
      | cons c rest =>
        obtain ⟨m, a⟩ := c
        simp only
        have hb := finish_begin_eq_call s hu m a
        have hfuel' : rest.length + 1 ≤ fuel := by rw [htodo] at hfuel; simp at hfuel; omega
        have hinc : ∀ ph, beginCall s m a = .inr ph → ph.inCall := by
          intro ph hph'
          rcases beginCall_cases s m a with ⟨o', h⟩ | ⟨e, h⟩ | ⟨pi, h⟩ | h <;> rw [h] at hph' <;> cases hph' <;> trivial
        have := ih { t with outs := t.outs ++ [o], todo := rest } (beginCall s m a) hfuel' (by rw [hb]; rfl) hinc
        simp only at this
        rw [this.1, this.2]
        simp only [remainingOf, hb, finish, seqCalls, List.append_assoc, List.singleton_append, and_self]

theorem finish_inCall_some (s : Shared α ρ) (ph : Phase α ρ) (h : ph.inCall) : (finish 4 s (.inr ph)).2.isSome := by
  cases ph with
  | notStarted => cases h
  | finished => cases h
  | atGlobal m a => simp only [finish]; exact (finish_afterGlobal_some 0 _ m a _).1
  | atPat m pi => exact (finish_atPat_some 1 s m pi).1
  | atTake m pi ri v => exact (finish_atTake_some 2 s m pi ri v).1
  | atPush e => rfl

/-- **one scheduling step of a thread running alone changes nothing about what it will have done in
    the end** (outcomes so far ++ outcomes still to come, and the final shared state) -/
theorem threadStep_remaining (s : Shared α ρ) (hu : s.UniqueIds) (t : ThreadSt α ρ) :
    (threadStep s t).2.1.outs ++ (remaining (threadStep s t).1 (threadStep s t).2.1).2 = t.outs ++ (remaining s t).2 ∧
      (remaining (threadStep s t).1 (threadStep s t).2.1).1 = (remaining s t).1 ∧ (threadStep s t).1.UniqueIds := by
  unfold threadStep
  cases hph : t.phase with
  | finished => simp only; exact ⟨trivial, trivial, hu⟩
  | notStarted =>
    simp only
    cases htodo : t.todo with
    | nil => simp [remaining, hph, htodo, seqCalls, hu]
    | cons c rest =>
      obtain ⟨m, a⟩ := c
      simp only
      have hb := finish_begin_eq_call s hu m a
      have hinc : ∀ ph, beginCall s m a = .inr ph → ph.inCall := by
        intro ph hph'
        rcases beginCall_cases s m a with ⟨o', h⟩ | ⟨e, h⟩ | ⟨pi, h⟩ | h <;> rw [h] at hph' <;> cases hph' <;> trivial
      have := settle_remaining s hu (rest.length + 1 + 1) { todo := rest, phase := .notStarted, outs := t.outs, tags := t.tags } (beginCall s m a) (by simp)
        (by rw [hb]; rfl) hinc
      simp only [List.length_cons] at *
      refine ⟨?_, ?_, hu⟩
      · rw [this.1]; simp [remaining, remainingOf, hph, htodo, hb, seqCalls]
      · rw [this.2]; simp [remaining, remainingOf, hph, htodo, hb, seqCalls]
  | atGlobal m a =>
    simp only [applyAction]
    have hu1 : Shared.UniqueIds ({ s with nextOrdered := s.nextOrdered + 1 } : Shared α ρ) := hu
    have hinc : ∀ ph, afterGlobal ({ s with nextOrdered := s.nextOrdered + 1 } : Shared α ρ) m a s.nextOrdered = .inr ph → ph.inCall := by
      intro ph hph'
      rcases afterGlobal_cases ({ s with nextOrdered := s.nextOrdered + 1 } : Shared α ρ) m a s.nextOrdered with ⟨o', h⟩ | ⟨e, h⟩ | ⟨pi, h⟩ <;>
        rw [h] at hph' <;> cases hph' <;> trivial
    have hsome := finish_afterGlobal_some 0 ({ s with nextOrdered := s.nextOrdered + 1 } : Shared α ρ) m a s.nextOrdered
    have := settle_remaining _ hu1 (t.todo.length + 1) t _ (Nat.le_refl _) (by rw [hsome.2]; exact hsome.1) hinc
    refine ⟨?_, ?_, hu1⟩
    · rw [this.1]; simp [remaining, remainingOf, hph, finish, applyAction, hsome.2]
    · rw [this.2]; simp [remaining, remainingOf, hph, finish, applyAction, hsome.2]
  | atPat m pi =>
    simp only [applyAction]
    have hu1 := uniqueIds_mapPat s m.id pi (fun p => { p with count := p.count + 1 }) hu
    have hinc : ∀ ph, afterPat (s.mapPat m.id pi fun p => { p with count := p.count + 1 }) m pi (s.patCount m.id pi) = .inr ph → ph.inCall := by
      intro ph hph'
      rcases afterPat_cases (s.mapPat m.id pi fun p => { p with count := p.count + 1 }) m pi (s.patCount m.id pi) with ⟨o', h⟩ | ⟨e, h⟩ | ⟨ri, v, h⟩ <;>
        rw [h] at hph' <;> cases hph' <;> trivial
    have hsome := finish_afterPat_some 1 (s.mapPat m.id pi fun p => { p with count := p.count + 1 }) m pi (s.patCount m.id pi)
    have hsome2 := finish_afterPat_some 0 (s.mapPat m.id pi fun p => { p with count := p.count + 1 }) m pi (s.patCount m.id pi)
    have h43 : finish 4 (s.mapPat m.id pi fun p => { p with count := p.count + 1 }) (afterPat (s.mapPat m.id pi fun p => { p with count := p.count + 1 }) m pi (s.patCount m.id pi))
        = finish 3 (s.mapPat m.id pi fun p => { p with count := p.count + 1 }) (afterPat (s.mapPat m.id pi fun p => { p with count := p.count + 1 }) m pi (s.patCount m.id pi)) := hsome.2
    have := settle_remaining _ hu1 (t.todo.length + 1) t _ (Nat.le_refl _) (by rw [h43]; exact hsome.1) hinc
    refine ⟨?_, ?_, hu1⟩
    · rw [this.1]; simp [remaining, remainingOf, hph, finish, applyAction, h43]
    · rw [this.2]; simp [remaining, remainingOf, hph, finish, applyAction, h43]
  | atTake m pi ri v =>
    simp only [applyAction]
    by_cases htk : s.slotTaken m.id pi ri
    · simp only [htk, ↓reduceIte]
      refine ⟨?_, ?_, hu⟩
      · simp [remaining, hph, finish, applyAction, htk]
      · simp [remaining, hph, finish, applyAction, htk]
    · simp only [htk, Bool.false_eq_true, ↓reduceIte]
      have hu1 := uniqueIds_mapPat s m.id pi (fun p => { p with responders := p.responders.modify ri fun r => { r with taken := true } }) hu
      have := settle_remaining _ hu1 (t.todo.length + 1) t (.inl (.ret v)) (Nat.le_refl _) rfl (by intro ph h; cases h)
      refine ⟨?_, ?_, hu1⟩
      · rw [this.1]; simp [remaining, remainingOf, hph, finish, applyAction, htk]
      · rw [this.2]; simp [remaining, remainingOf, hph, finish, applyAction, htk]
  | atPush e =>
    simp only [applyAction]
    have hu1 : (s.induce e).UniqueIds := hu
    have := settle_remaining _ hu1 (t.todo.length + 1) t (.inl (.err e)) (Nat.le_refl _) rfl (by intro ph h; cases h)
    refine ⟨?_, ?_, hu1⟩
    · rw [this.1]; simp [remaining, remainingOf, hph, finish, applyAction]
    · rw [this.2]; simp [remaining, remainingOf, hph, finish, applyAction]

/-! ### the thread finishes: a measure that every step decreases -/

def Phase.rank : Phase α ρ → Nat
  | .finished => 0
  | .atPush _ => 1
  | .atTake _ _ _ _ => 2
  | .atPat _ _ => 3
  | .atGlobal _ _ => 4
  | .notStarted => 5

def ThreadSt.measure (t : ThreadSt α ρ) : Nat :=
  match t.phase with
  | .finished => 0
  | ph => 5 * t.todo.length + ph.rank

def rk : Sum (ThreadOut ρ) (Phase α ρ) → Nat
  | .inl _ => 0
  | .inr ph => ph.rank

theorem measure_le (t : ThreadSt α ρ) : t.measure ≤ 5 * t.todo.length + t.phase.rank := by
  unfold ThreadSt.measure; cases t.phase <;> simp [Phase.rank]

theorem rk_beginCall (s : Shared α ρ) (m : MethodInfo) (a : α) : rk (beginCall s m a) ≤ 4 := by
  rcases beginCall_cases s m a with ⟨o', h⟩ | ⟨e, h⟩ | ⟨pi, h⟩ | h <;> rw [h] <;> simp [rk, Phase.rank]

theorem rk_afterGlobal (s : Shared α ρ) (m : MethodInfo) (a : α) (i : Nat) : rk (afterGlobal s m a i) ≤ 3 := by
  rcases afterGlobal_cases s m a i with ⟨o', h⟩ | ⟨e, h⟩ | ⟨pi, h⟩ <;> rw [h] <;> simp [rk, Phase.rank]

theorem rk_afterPat (s : Shared α ρ) (m : MethodInfo) (pi c : Nat) : rk (afterPat s m pi c) ≤ 2 := by
  rcases afterPat_cases s m pi c with ⟨o', h⟩ | ⟨e, h⟩ | ⟨ri, v, h⟩ <;> rw [h] <;> simp [rk, Phase.rank]

theorem settle_measure (s : Shared α ρ) (fuel : Nat) (t : ThreadSt α ρ) (x : Sum (ThreadOut ρ) (Phase α ρ)) :
    (settle s fuel t x).measure ≤ 5 * t.todo.length + rk x := by
  induction fuel generalizing t x with
  | zero =>
    cases x with
    | inr ph => simp only [settle, rk]; exact measure_le _
    | inl o => simp [settle, ThreadSt.measure]
  | succ fuel ih =>
    cases x with
    | inr ph => simp only [settle, rk]; exact measure_le _
    | inl o =>
      simp only [settle]
      cases htodo : t.todo with
      | nil => simp [ThreadSt.measure]
      | cons c rest =>
        obtain ⟨m, a⟩ := c
        simp only
        have := ih { t with outs := t.outs ++ [o], todo := rest } (beginCall s m a)
        have hb := rk_beginCall s m a
        simp only [List.length_cons, rk] at *
        omega

theorem threadStep_measure (s : Shared α ρ) (t : ThreadSt α ρ) (h : t.isFinished = false) :
    (threadStep s t).2.1.measure < t.measure := by
  unfold threadStep
  cases hph : t.phase with
  | finished => simp [ThreadSt.isFinished, hph] at h
  | notStarted =>
    simp only
    cases htodo : t.todo with
    | nil => simp [ThreadSt.measure, hph, Phase.rank]
    | cons c rest =>
      obtain ⟨m, a⟩ := c
      simp only
      have := settle_measure s (rest.length + 1 + 1) { t with todo := rest } (beginCall s m a)
      have hb := rk_beginCall s m a
      simp only [ThreadSt.measure, hph, htodo, List.length_cons, Phase.rank] at *
      omega
  | atGlobal m a =>
    simp only [applyAction]
    have := settle_measure ({ s with nextOrdered := s.nextOrdered + 1 } : Shared α ρ) (t.todo.length + 1) t
      (afterGlobal ({ s with nextOrdered := s.nextOrdered + 1 } : Shared α ρ) m a s.nextOrdered)
    have hb := rk_afterGlobal ({ s with nextOrdered := s.nextOrdered + 1 } : Shared α ρ) m a s.nextOrdered
    simp only [ThreadSt.measure, hph, Phase.rank] at *
    omega
  | atPat m pi =>
    simp only [applyAction]
    have := settle_measure (s.mapPat m.id pi fun p => { p with count := p.count + 1 }) (t.todo.length + 1) t
      (afterPat (s.mapPat m.id pi fun p => { p with count := p.count + 1 }) m pi (s.patCount m.id pi))
    have hb := rk_afterPat (s.mapPat m.id pi fun p => { p with count := p.count + 1 }) m pi (s.patCount m.id pi)
    simp only [ThreadSt.measure, hph, Phase.rank] at *
    omega
  | atTake m pi ri v =>
    simp only [applyAction]
    by_cases htk : s.slotTaken m.id pi ri
    · simp [htk, ThreadSt.measure, hph, Phase.rank]
    · simp only [htk, Bool.false_eq_true, ↓reduceIte]
      have := settle_measure (s.mapPat m.id pi fun p => { p with responders := p.responders.modify ri fun r => { r with taken := true } })
        (t.todo.length + 1) t (.inl (.ret v))
      simp only [ThreadSt.measure, hph, Phase.rank, rk] at *
      omega
  | atPush e =>
    simp only [applyAction]
    have := settle_measure (s.induce e) (t.todo.length + 1) t (.inl (.err e))
    simp only [ThreadSt.measure, hph, Phase.rank, rk] at *
    omega

theorem measure_zero (t : ThreadSt α ρ) (h : t.measure = 0) : t.isFinished = true := by
  unfold ThreadSt.measure at h
  unfold ThreadSt.isFinished
  cases hph : t.phase <;> simp_all [Phase.rank]

theorem soloRun_spec (n : Nat) (s : Shared α ρ) (t : ThreadSt α ρ) (hu : s.UniqueIds) (hn : t.measure ≤ n) :
    (soloRun n (s, t)).2.isFinished = true ∧ (soloRun n (s, t)).2.outs = t.outs ++ (remaining s t).2 ∧
      (soloRun n (s, t)).1 = (remaining s t).1 := by
  induction n generalizing s t with
  | zero =>
    have hf := measure_zero t (by omega)
    have hph : t.phase = .finished := by
      unfold ThreadSt.isFinished at hf; cases h : t.phase <;> simp_all
    simp [soloRun, hf, remaining, hph]
  | succ n ih =>
    simp only [soloRun]
    have hinv := threadStep_remaining s hu t
    cases hfin : t.isFinished with
    | true =>
      have hph : t.phase = .finished := by
        unfold ThreadSt.isFinished at hfin; cases h : t.phase <;> simp_all
      have hstep : threadStep s t = (s, t, none) := by unfold threadStep; simp [hph]
      rw [hstep]
      exact ih s t hu (by unfold ThreadSt.measure; simp [hph])
    | false =>
      have hdec := threadStep_measure s t hfin
      have := ih (threadStep s t).1 (threadStep s t).2.1 hinv.2.2 (by omega)
      rw [this.2.1, this.2.2, hinv.1, hinv.2.1]
      exact ⟨this.1, rfl, rfl⟩

/-! ### every assembled mock has pairwise distinct method ids -/

theorem newPattern_mockers (a : Asm α ρ) (b : Builder α ρ) : (newPattern a b).1.mockers = a.mockers := by
  unfold newPattern; split <;> rfl

theorem push_uniqueIds (a a' : Asm α ρ) (t : Terminal α ρ) (h : a.push t = .ok a')
    (hu : (a.mockers.map (·.info.id)).Nodup) : (a'.mockers.map (·.info.id)).Nodup := by
  unfold Asm.push at h
  split at h
  · cases h
  · simp only at h
    rw [newPattern_mockers] at h
    split at h
    · rename_i fm hfm
      split at h
      · cases h
      · cases h
        simp only [List.map_map]
        have : ((fun x : FnMocker α ρ => x.info.id) ∘ fun m =>
            if m.info.id = t.info.id then { m with pats := m.pats ++ [(newPattern a t.b).2] } else m) = fun x => x.info.id := by
          funext m; simp only [Function.comp]; split <;> rfl
        rw [this]; exact hu
    · rename_i hnone
      cases h
      simp only [List.map_append, List.map_cons, List.map_nil]
      rw [List.nodup_append]
      refine ⟨hu, by simp, ?_⟩
      intro x hx y hy
      simp only [List.mem_singleton] at hy
      subst hy
      intro hxy
      subst hxy
      obtain ⟨m, hm, hid⟩ := List.mem_map.1 hx
      have := List.find?_eq_none.1 hnone m hm
      simp [hid] at this

theorem assembleList_uniqueIds (a a' : Asm α ρ) (items : List (Except AsmError (Terminal α ρ)))
    (h : assembleList a items = .ok a') (hu : (a.mockers.map (·.info.id)).Nodup) :
    (a'.mockers.map (·.info.id)).Nodup := by
  induction items generalizing a with
  | nil => cases h; exact hu
  | cons x xs ih =>
    cases x with
    | error e => cases h
    | ok t =>
      simp only [assembleList] at h
      cases hp : a.push t with
      | error e => rw [hp] at h; cases h
      | ok a1 => rw [hp] at h; exact ih a1 h (push_uniqueIds a a1 t hp hu)

theorem newMock_uniqueIds (fb : Fallback) (c : ClauseTree α ρ) (s : Shared α ρ) (h : newMock fb c = .ok s) :
    s.UniqueIds := by
  unfold newMock at h
  cases ha : assembleList ({} : Asm α ρ) (flatten c) with
  | error e => rw [ha] at h; cases h
  | ok a =>
    rw [ha] at h
    cases h
    exact assembleList_uniqueIds {} a _ ha (by simp)

end Unimock
