import Unimock.Model.Core
/-! Lemmas about verification (`CallCounter::verify`, `FnMocker::verify`, tail of `teardown`). -/
namespace Unimock
variable {α ρ : Type}

/-- a pattern's expectation is met -/
def PatOk (p : Pattern α ρ) : Prop :=
  match p.ex with
  | .exact => p.count = p.min
  | .atLeast => p.min ≤ p.count
  | .atLeastPlusOne => p.min + 1 ≤ p.count

theorem countOk_iff (p : Pattern α ρ) : countOk p = true ↔ PatOk p := by
  unfold countOk PatOk lowerBound
  cases p.ex <;> simp

theorem verifyPat_nil_iff (m : MethodInfo) (i : Nat) (p : Pattern α ρ) :
    verifyPat m i p = [] ↔ PatOk p := by
  unfold verifyPat
  rw [← countOk_iff]
  cases countOk p <;> simp

theorem verifyMocker_nil_iff (fm : FnMocker α ρ) :
    verifyMocker fm = [] ↔ (∀ p ∈ fm.pats, PatOk p) ∧ 0 < (fm.pats.map (·.count)).sum := by
  unfold verifyMocker
  simp only [List.append_eq_nil_iff, List.flatMap_eq_nil_iff]
  constructor
  · rintro ⟨h1, h2⟩
    constructor
    · intro p hp
      obtain ⟨i, hi, rfl⟩ := List.getElem_of_mem hp
      have := h1 (fm.pats[i], i) (by
        rw [List.mem_zipIdx_iff_getElem?]; simp [hi])
      simpa [verifyPat_nil_iff] using this
    · by_cases h : (fm.pats.map (·.count)).sum = 0
      · simp [h] at h2
      · omega
  · rintro ⟨h1, h2⟩
    constructor
    · rintro ⟨p, i⟩ hpi
      have hp : p ∈ fm.pats := by
        rw [List.mem_zipIdx_iff_getElem?] at hpi
        simp at hpi
        exact List.mem_of_getElem? hpi
      simpa [verifyPat_nil_iff] using h1 p hp
    · have : ¬ (fm.pats.map (·.count)).sum = 0 := by omega
      simp [this]

/-- the error line produced for a violated pattern -/
def patLine (m : MethodInfo) (pi : Nat × Pattern α ρ) : MockError :=
  .failedVerification m pi.1 (pi.2.ex != .exact) (lowerBound pi.2.min pi.2.ex) pi.2.count

theorem flatMap_verifyPat (m : MethodInfo) (l : List (Pattern α ρ × Nat)) :
    (l.flatMap fun x => verifyPat m x.2 x.1) =
      (l.filter fun x => !countOk x.1).map fun x => patLine m (x.2, x.1) := by
  induction l with
  | nil => rfl
  | cons x t ih =>
    rw [List.flatMap_cons, ih, List.filter_cons]
    unfold verifyPat
    cases h : countOk x.1 <;> simp [patLine]

end Unimock
