import Unimock.Model.Codegen.OutputKind
/-! The kind the macro assigns to a return type accepts every value of that type. -/
namespace Unimock.Codegen.OutKind
open Unimock.Output

theorem intoReturnAll_isSome (once : Bool) (k : Kind) (t : Ty)
    (h : ∀ v, hasType v t = true → (intoReturn once k v).isSome = true) :
    ∀ vs, hasTypeAll vs t = true → (intoReturnAll once k vs).isSome = true
  | .nil, _ => by simp [intoReturnAll]
  | .cons v vs, hv => by
    simp only [hasTypeAll, Bool.and_eq_true] at hv
    have h1 := h v hv.1
    have h2 := intoReturnAll_isSome once k t h vs hv.2
    simp only [intoReturnAll]
    cases ha : intoReturn once k v with
    | none => simp [ha] at h1
    | some s =>
      cases hb : intoReturnAll once k vs with
      | none => simp [hb] at h2
      | some ss => simp

mutual
theorem mgk_fits : (t : Ty) → ∀ (k : Kind), toKind (mgk t).1 (mgk t).2 = some k →
    ∀ (once : Bool) (v : Val), hasType v t = true → (intoReturn once k v).isSome = true
  | .named n, k, h, once, v, _ => by
    simp only [mgk, toKind, Option.some.injEq] at h; subst h; simp [intoReturn]
  | .tuple ts, k, h, once, v, _ => by
    simp only [mgk, toKind, Option.some.injEq] at h; subst h; simp [intoReturn]
  | .ref lt m e, k, h, once, v, _ => by
    cases m <;> simp [mgk, toKind] at h
    subst h; simp [intoReturn]
  | .app c .nil, k, h, once, v, _ => by
    simp only [mgk, mgkArgs, toKind, Option.some.injEq] at h; subst h; simp [intoReturn]
  | .app c (.cons a .nil), k, h, once, v, hv => by
    have ih := mgk_fits a
    simp only [mgk, mgkArgs] at h
    by_cases hn : (mgk a).1.isNested = true
    · simp only [hn, ↓reduceIte] at h
      cases c with
      | option =>
        simp only [toKind, Option.map_eq_some_iff] at h
        obtain ⟨k', hk', rfl⟩ := h
        cases v <;> simp [hasType] at hv <;> simp [intoReturn]
        rename_i v'
        have := ih k' hk' once v' hv
        cases hx : intoReturn once k' v' with
        | none => simp [hx] at this
        | some s => simp
      | vec =>
        simp only [toKind, Option.map_eq_some_iff] at h
        obtain ⟨k', hk', rfl⟩ := h
        cases v <;> simp [hasType] at hv
        rename_i vs
        have := intoReturnAll_isSome once k' a (ih k' hk' once) vs hv
        simp only [intoReturn]
        cases hx : intoReturnAll once k' vs with
        | none => simp [hx] at this
        | some s => simp
      | poll =>
        simp only [toKind, Option.map_eq_some_iff] at h
        obtain ⟨k', hk', rfl⟩ := h
        cases v <;> simp [hasType] at hv <;> simp [intoReturn]
        rename_i v'
        have := ih k' hk' once v' hv
        cases hx : intoReturn once k' v' with
        | none => simp [hx] at this
        | some s => simp
      | result => simp [toKind] at h
      | other n => simp [toKind] at h
    · simp only [hn, Bool.false_eq_true, ↓reduceIte] at h
      cases c with
      | option =>
        simp only [toKind] at h
        split at h
        · cases h; cases v <;> simp [hasType] at hv <;> simp [intoReturn]
        · cases h
      | vec =>
        simp only [toKind] at h
        split at h
        · cases h; cases v <;> simp [hasType] at hv; simp [intoReturn]
        · cases h
      | poll => simp [toKind] at h
      | result => simp [toKind] at h
      | other n => simp [toKind] at h
  | .app c (.cons a (.cons b .nil)), k, h, once, v, hv => by
    have iha := mgk_fits a
    have ihb := mgk_fits b
    simp only [mgk, mgkArgs] at h
    cases c with
    | result =>
      by_cases hb : (mgk b).1.isNested = true
      · by_cases ha : (mgk a).1.isNested = true
        · simp only [ha, hb, ↓reduceIte, toKind] at h
          cases hka : toKind (mgk a).1 (mgk a).2 with
          | none => simp [hka] at h
          | some ka =>
            cases hkb : toKind (mgk b).1 (mgk b).2 with
            | none => simp [hka, hkb] at h
            | some kb =>
              simp only [hka, hkb, Option.some.injEq] at h
              subst h
              cases v <;> simp [hasType] at hv <;> simp only [intoReturn]
              · rename_i v'
                have := iha ka hka once v' hv
                cases hx : intoReturn once ka v' with
                | none => simp [hx] at this
                | some s => simp
              · rename_i v'
                have := ihb kb hkb once v' hv
                cases hx : intoReturn once kb v' with
                | none => simp [hx] at this
                | some s => simp
        · simp [ha, hb, toKind] at h
      · by_cases ha : (mgk a).1.isNested = true
        · simp [ha, hb, toKind] at h
        · simp only [ha, hb, Bool.false_eq_true, ↓reduceIte, toKind] at h
          split at h
          · cases h; cases v <;> simp [hasType] at hv <;> simp [intoReturn]
          · cases h
    | option => split at h <;> simp [toKind] at h
    | vec => split at h <;> simp [toKind] at h
    | poll => split at h <;> simp [toKind] at h
    | other n => split at h <;> simp [toKind] at h
  | .app c (.cons a (.cons b (.cons d rest))), k, h, once, v, _ => by
    simp only [mgk, mgkArgs] at h
    generalize (mgkArgs rest _).2 = tl at h
    generalize (mgkArgs rest _).1 = kn at h
    cases c <;> cases kn <;> simp [toKind] at h <;> (try (split at h <;> simp [toKind] at h)) <;>
      (try (subst h; simp [intoReturn]))
theorem wrapElems_fits : (ts : TyList) → ∀ (ks : KindList), toKindList (wrapElems ts) = some ks →
    ∀ (once : Bool) (vs : ValList), hasTypeZip vs ts = true → (intoReturnZip once ks vs).isSome = true
  | .nil, ks, h, once, vs, hv => by
    simp only [wrapElems, toKindList, Option.some.injEq] at h; subst h
    cases vs <;> simp [hasTypeZip] at hv; simp [intoReturnZip]
  | .cons t ts, ks, h, once, vs, hv => by
    simp only [wrapElems, toKindList] at h
    cases hk : toKind (mgk t).1 (mgk t).2 with
    | none => simp [hk] at h
    | some k =>
      cases hks : toKindList (wrapElems ts) with
      | none => simp [hk, hks] at h
      | some ks' =>
        simp only [hk, hks, Option.some.injEq] at h
        subst h
        cases vs with
        | nil => simp [hasTypeZip] at hv
        | cons v vs' =>
          simp only [hasTypeZip, Bool.and_eq_true] at hv
          have h1 := mgk_fits t k hk once v hv.1
          have h2 := wrapElems_fits ts ks' hks once vs' hv.2
          simp only [intoReturnZip]
          cases hx : intoReturn once k v with
          | none => simp [hx] at h1
          | some s =>
            cases hy : intoReturnZip once ks' vs' with
            | none => simp [hy] at h2
            | some ss => simp
end

end Unimock.Codegen.OutKind
