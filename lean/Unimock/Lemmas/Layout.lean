import Unimock.Lemmas.State
import Unimock.Model.Assemble
import Unimock.Props.C14
/-! Assembly is insensitive to the relative order of clauses of different methods (as long as the
    relative order of ordered clauses is kept): pushes of such terminals commute up to the order in
    which the method table lists its entries. -/
namespace Unimock
variable {α ρ : Type}

/-- two assembler states denote the same mock: same running index, and every method id is looked
    up to the same entry (the order of entries in the table is irrelevant: the real table is a
    `BTreeMap<TypeId, _>`) -/
def AsmEquiv (a b : Asm α ρ) : Prop :=
  a.cur = b.cur ∧ ∀ id, a.mockers.find? (·.info.id = id) = b.mockers.find? (·.info.id = id)

def ResEquiv : Except AsmError (Asm α ρ) → Except AsmError (Asm α ρ) → Prop
  | .ok a, .ok b => AsmEquiv a b
  | .error _, .error _ => True
  | _, _ => False

theorem AsmEquiv.refl (a : Asm α ρ) : AsmEquiv a a := ⟨rfl, fun _ => rfl⟩
theorem ResEquiv.refl (r : Except AsmError (Asm α ρ)) : ResEquiv r r := by
  cases r with
  | ok a => exact AsmEquiv.refl a
  | error e => trivial

/-- what `push` does to the lookup of every id (when it succeeds) -/
theorem push_find (a a' : Asm α ρ) (t : Terminal α ρ) (h : a.push t = .ok a') (id : Nat) :
    a'.mockers.find? (·.info.id = id) =
      if id = t.info.id then
        some (match a.mockers.find? (·.info.id = t.info.id) with
              | some fm => { fm with pats := fm.pats ++ [(newPattern a t.b).2] }
              | none => ⟨t.info, t.b.mode, [(newPattern a t.b).2]⟩)
      else a.mockers.find? (·.info.id = id) := by
  unfold Asm.push at h
  by_cases hoe : t.b.outputError = true
  · simp [hoe] at h
  · simp only [hoe, Bool.false_eq_true, ↓reduceIte] at h
    have hnp : (newPattern a t.b).1.mockers = a.mockers := by unfold newPattern; split <;> rfl
    rw [hnp] at h
    cases hf : a.mockers.find? (·.info.id = t.info.id) with
    | some fm =>
      rw [hf] at h
      simp only at h
      by_cases hmode : fm.mode = t.b.mode
      · simp only [hmode, ne_eq, not_true_eq_false, ↓reduceIte] at h
        injection h with h; subst h
        simp only
        rw [find?_map_upd a.mockers t.info.id id (fun m => { m with pats := m.pats ++ [(newPattern a t.b).2] }) (fun _ => rfl)]
        have hfid : fm.info.id = t.info.id := by have := List.find?_some hf; simpa using this
        by_cases hid : id = t.info.id
        · subst hid; simp [hf, hfid]
        · simp only [hid, ↓reduceIte]
          cases hfi : a.mockers.find? (·.info.id = id) with
          | none => rfl
          | some m =>
            have hmid : m.info.id = id := by have := List.find?_some hfi; simpa using this
            have : ¬ m.info.id = t.info.id := by rw [hmid]; exact hid
            simp [this]
      · simp [hmode] at h
    | none =>
      rw [hf] at h
      simp only at h
      injection h with h; subst h
      simp only
      rw [find?_append_one]
      by_cases hid : id = t.info.id
      · subst hid; simp [hf]
      · have : ¬ t.info.id = id := fun h => hid h.symm
        simp [hid, this]

/-- when does `push` fail, in terms of lookups only -/
theorem push_error_iff (a : Asm α ρ) (t : Terminal α ρ) :
    (∃ e, a.push t = .error e) ↔
      (t.b.outputError = true ∨ ∃ fm, a.mockers.find? (·.info.id = t.info.id) = some fm ∧ fm.mode ≠ t.b.mode) := by
  unfold Asm.push
  by_cases hoe : t.b.outputError = true
  · simp [hoe]
  · simp only [hoe, Bool.false_eq_true, ↓reduceIte, false_or]
    have hnp : (newPattern a t.b).1.mockers = a.mockers := by unfold newPattern; split <;> rfl
    rw [hnp]
    cases hf : a.mockers.find? (·.info.id = t.info.id) with
    | some fm =>
      simp only
      by_cases hmode : fm.mode = t.b.mode
      · simp [hmode]
      · simp [hmode]
    | none => simp

theorem push_cur (a a' : Asm α ρ) (t : Terminal α ρ) (h : a.push t = .ok a') :
    a'.cur = if t.b.mode = .inOrder then a.cur + exactCalls t.b else a.cur := by
  unfold Asm.push at h
  by_cases hoe : t.b.outputError = true
  · simp [hoe] at h
  · simp only [hoe, Bool.false_eq_true, ↓reduceIte] at h
    have hc : (newPattern a t.b).1.cur = if t.b.mode = .inOrder then a.cur + exactCalls t.b else a.cur := by
      unfold newPattern; split <;> simp_all
    cases hf : (newPattern a t.b).1.mockers.find? (·.info.id = t.info.id) with
    | some fm =>
      rw [hf] at h; simp only at h
      by_cases hmode : fm.mode ≠ t.b.mode
      · simp [hmode] at h
      · simp only [hmode, ↓reduceIte] at h; injection h with h; subst h; exact hc
    | none => rw [hf] at h; simp only at h; injection h with h; subst h; exact hc

theorem newPattern_congr (a b : Asm α ρ) (h : a.cur = b.cur) (bld : Builder α ρ) :
    (newPattern a bld).2 = (newPattern b bld).2 := by
  unfold newPattern; rw [h]; split <;> rfl

/-- **`push` respects equivalence** -/
theorem push_congr (a b : Asm α ρ) (h : AsmEquiv a b) (t : Terminal α ρ) : ResEquiv (a.push t) (b.push t) := by
  obtain ⟨hcur, hfind⟩ := h
  cases ha : a.push t with
  | error e =>
    have := (push_error_iff a t).mp ⟨e, ha⟩
    rw [hfind] at this
    obtain ⟨e', he'⟩ := (push_error_iff b t).mpr this
    rw [he']; trivial
  | ok a' =>
    cases hb : b.push t with
    | error e =>
      have := (push_error_iff b t).mp ⟨e, hb⟩
      rw [← hfind] at this
      obtain ⟨e', he'⟩ := (push_error_iff a t).mpr this
      rw [ha] at he'; cases he'
    | ok b' =>
      refine ⟨by rw [push_cur a a' t ha, push_cur b b' t hb, hcur], ?_⟩
      intro id
      rw [push_find a a' t ha id, push_find b b' t hb id, hfind, hfind, newPattern_congr a b hcur]

theorem assembleList_congr (a b : Asm α ρ) (h : AsmEquiv a b) (items : List (Except AsmError (Terminal α ρ))) :
    ResEquiv (assembleList a items) (assembleList b items) := by
  induction items generalizing a b with
  | nil => exact h
  | cons it items ih =>
    cases it with
    | error e => simp [assembleList, ResEquiv]
    | ok t =>
      simp only [assembleList]
      have := push_congr a b h t
      cases ha : a.push t with
      | error e => cases hb : b.push t with
        | error e' => simp [ResEquiv]
        | ok b' => rw [ha, hb] at this; exact this.elim
      | ok a' => cases hb : b.push t with
        | error e' => rw [ha, hb] at this; exact this.elim
        | ok b' => rw [ha, hb] at this; exact ih a' b' this

/-- two terminals may be exchanged: different methods, and not both ordered -/
def Swappable (t1 t2 : Terminal α ρ) : Prop :=
  t1.info.id ≠ t2.info.id ∧ ¬ (t1.b.mode = .inOrder ∧ t2.b.mode = .inOrder)

def push2 (a : Asm α ρ) (t1 t2 : Terminal α ρ) : Except AsmError (Asm α ρ) :=
  match a.push t1 with
  | .error e => .error e
  | .ok a1 => a1.push t2

/-- **pushes of swappable terminals commute** (up to table order; if either order fails, both fail) -/
theorem push_comm (a : Asm α ρ) (t1 t2 : Terminal α ρ) (hs : Swappable t1 t2) :
    ResEquiv (push2 a t1 t2) (push2 a t2 t1) := by
  obtain ⟨hid, hord⟩ := hs
  have hid' : t2.info.id ≠ t1.info.id := fun h => hid h.symm
  -- does pushing one change whether the other fails? no: different ids
  have err_after : ∀ (x y : Terminal α ρ) (ax : Asm α ρ), x.info.id ≠ y.info.id → a.push x = .ok ax →
      ((∃ e, ax.push y = .error e) ↔ (∃ e, a.push y = .error e)) := by
    intro x y ax hne hx
    rw [push_error_iff, push_error_iff, push_find a ax x hx y.info.id]
    have : ¬ y.info.id = x.info.id := fun h => hne h.symm
    simp [this]
  unfold push2
  cases h1 : a.push t1 with
  | error e1 =>
    cases h2 : a.push t2 with
    | error e2 => simp [ResEquiv]
    | ok a2 =>
      simp only
      obtain ⟨e, he⟩ := (err_after t2 t1 a2 hid' h2).mpr ⟨e1, h1⟩
      rw [he]; trivial
  | ok a1 =>
    cases h2 : a.push t2 with
    | error e2 =>
      simp only
      obtain ⟨e, he⟩ := (err_after t1 t2 a1 hid h1).mpr ⟨e2, h2⟩
      rw [he]; trivial
    | ok a2 =>
      simp only
      cases h12 : a1.push t2 with
      | error e =>
        have := (err_after t1 t2 a1 hid h1).mp ⟨e, h12⟩
        rw [h2] at this; obtain ⟨_, h⟩ := this; cases h
      | ok a12 =>
        cases h21 : a2.push t1 with
        | error e =>
          have := (err_after t2 t1 a2 hid' h2).mp ⟨e, h21⟩
          rw [h1] at this; obtain ⟨_, h⟩ := this; cases h
        | ok a21 =>
          have c1 := push_cur a a1 t1 h1
          have c2 := push_cur a a2 t2 h2
          have c12 := push_cur a1 a12 t2 h12
          have c21 := push_cur a2 a21 t1 h21
          -- the ordered one (if any) sees the same running index in both orders
          have hnp1 : (newPattern a2 t1.b).2 = (newPattern a t1.b).2 := by
            unfold newPattern
            by_cases m1 : t1.b.mode = .inOrder
            · have m2 : ¬ t2.b.mode = .inOrder := fun h => hord ⟨m1, h⟩
              simp only [m2, ↓reduceIte] at c2
              simp [m1, c2]
            · simp [m1]
          have hnp2 : (newPattern a1 t2.b).2 = (newPattern a t2.b).2 := by
            unfold newPattern
            by_cases m2 : t2.b.mode = .inOrder
            · have m1 : ¬ t1.b.mode = .inOrder := fun h => hord ⟨h, m2⟩
              simp only [m1, ↓reduceIte] at c1
              simp [m2, c1]
            · simp [m2]
          refine ⟨?_, ?_⟩
          · rw [c12, c21, c1, c2]
            by_cases m1 : t1.b.mode = .inOrder <;> by_cases m2 : t2.b.mode = .inOrder <;> simp [m1, m2]
            exact absurd ⟨m1, m2⟩ hord
          · intro id
            rw [push_find a1 a12 t2 h12 id, push_find a2 a21 t1 h21 id]
            rw [push_find a a1 t1 h1, push_find a a2 t2 h2, push_find a a1 t1 h1 id, push_find a a2 t2 h2 id]
            rw [hnp1, hnp2]
            by_cases i1 : id = t1.info.id
            · subst i1
              simp [hid, hid']
            · by_cases i2 : id = t2.info.id
              · subst i2; simp [hid, hid', i1]
              · simp [i1, i2, hid, hid']

end Unimock
