import Unimock.Model.Core
/-! Lemmas about lookups and updates of the shared state. -/
namespace Unimock
variable {α ρ : Type}

/-- pattern `i` of method `id` -/
def Shared.pat? (s : Shared α ρ) (id i : Nat) : Option (Pattern α ρ) :=
  (s.find id).bind (·.pats[i]?)

theorem find?_map_upd (ms : List (FnMocker α ρ)) (id id' : Nat) (f : FnMocker α ρ → FnMocker α ρ)
    (hf : ∀ m, (f m).info = m.info) :
    (ms.map fun m => if m.info.id = id then f m else m).find? (·.info.id = id') =
      (ms.find? (·.info.id = id')).map fun m => if m.info.id = id then f m else m := by
  have hg : ∀ m : FnMocker α ρ, (if m.info.id = id then f m else m).info = m.info := by
    intro m; by_cases h : m.info.id = id <;> simp [h, hf]
  rw [List.find?_map]
  congr 1
  have : ((fun x : FnMocker α ρ => decide (x.info.id = id')) ∘ fun m => if m.info.id = id then f m else m)
      = fun x => decide (x.info.id = id') := by
    funext m; simp only [Function.comp, hg]
  rw [this]

theorem find_setPat (s : Shared α ρ) (id i id' : Nat) (p : Pattern α ρ) :
    (s.setPat id i p).find id' =
      (s.find id').map fun m => if m.info.id = id then { m with pats := m.pats.set i p } else m := by
  unfold Shared.setPat Shared.find
  exact find?_map_upd s.mockers id id' (fun m => { m with pats := m.pats.set i p }) (fun _ => rfl)

theorem find_setPat_other (s : Shared α ρ) (id i id' : Nat) (p : Pattern α ρ) (h : id' ≠ id) :
    (s.setPat id i p).find id' = s.find id' := by
  rw [find_setPat]
  cases hf : s.find id' with
  | none => rfl
  | some fm =>
    have : fm.info.id = id' := by
      unfold Shared.find at hf
      have := List.find?_some hf
      simpa using this
    simp [this, h]

theorem find_id (s : Shared α ρ) (id : Nat) (fm : FnMocker α ρ) (h : s.find id = some fm) :
    fm.info.id = id := by
  unfold Shared.find at h
  have := List.find?_some h
  simpa using this

theorem pat?_setPat_same (s : Shared α ρ) (id i : Nat) (p q : Pattern α ρ)
    (h : s.pat? id i = some q) : (s.setPat id i p).pat? id i = some p := by
  unfold Shared.pat? at *
  rw [find_setPat]
  cases hf : s.find id with
  | none => simp [hf] at h
  | some fm =>
    have hid := find_id s id fm hf
    simp [hf] at h
    have hlt : i < fm.pats.length := by
      cases hx : fm.pats[i]? with
      | none => simp [hx] at h
      | some _ => exact (List.getElem?_eq_some_iff.mp hx).1
    simp [hid, hlt]

theorem pat?_setPat_other (s : Shared α ρ) (id i id' j : Nat) (p : Pattern α ρ)
    (h : id' ≠ id ∨ j ≠ i) : (s.setPat id i p).pat? id' j = s.pat? id' j := by
  unfold Shared.pat?
  by_cases hid : id' = id
  · subst hid
    have hj : j ≠ i := by cases h with | inl h => exact absurd rfl h | inr h => exact h
    rw [find_setPat]
    cases hf : s.find id' with
    | none => rfl
    | some fm =>
      have := find_id s id' fm hf
      simp [this, List.getElem?_set_ne (Ne.symm hj)]
  · rw [find_setPat_other s id i id' p hid]

@[simp] theorem setPat_fallback (s : Shared α ρ) (id i : Nat) (p : Pattern α ρ) :
    (s.setPat id i p).fallback = s.fallback := rfl
@[simp] theorem setPat_nextOrdered (s : Shared α ρ) (id i : Nat) (p : Pattern α ρ) :
    (s.setPat id i p).nextOrdered = s.nextOrdered := rfl
@[simp] theorem setPat_reasons (s : Shared α ρ) (id i : Nat) (p : Pattern α ρ) :
    (s.setPat id i p).reasons = s.reasons := rfl

end Unimock
