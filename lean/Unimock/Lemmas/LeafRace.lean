import Unimock.Model.LeafRace
/-! Invariant of the leaf race: the leaves taken so far form a prefix, all in the hands of one requester. -/
namespace Unimock.LeafRace

/-- the leaves taken so far are exactly `[0, k)`, all taken by one requester `w` who has not failed; every
    other requester is still at leaf 0 (it has taken nothing); nobody has failed while nothing was taken -/
def Inv (n : Nat) (s : St) : Prop :=
  s.leaves.length = n ∧
  ∃ k, k ≤ n ∧ (∀ j, j < n → s.leaves[j]? = some (decide (k ≤ j))) ∧
    ((k = 0 ∧ ∀ r : Req, r ∈ s.reqs → r.pos = 0 ∧ r.failed = false) ∨
     (0 < k ∧ ∃ (w : Nat) (r : Req), s.reqs[w]? = some r ∧ r.pos = k ∧ r.failed = false ∧
        ∀ (i : Nat) (r' : Req), i ≠ w → s.reqs[i]? = some r' → r'.pos = 0))

theorem inv_init (n k : Nat) : Inv n (init n k) := by
  refine ⟨by simp [init], 0, Nat.zero_le _, ?_, .inl ⟨rfl, ?_⟩⟩
  · intro j hj; simp [init, hj]
  · intro r hr
    simp only [init, List.mem_replicate] at hr
    rw [hr.2]; exact ⟨rfl, rfl⟩

theorem inv_step (n : Nat) (s : St) (i : Nat) (h : Inv n s) : Inv n (step s i) := by
  obtain ⟨hlen, k, hk, hleaves, hcases⟩ := h
  unfold step
  cases hr : s.reqs[i]? with
  | none => exact ⟨hlen, k, hk, hleaves, hcases⟩
  | some r =>
    simp only
    by_cases hdone : r.done s.leaves.length = true
    · simp only [hdone, ↓reduceIte]; exact ⟨hlen, k, hk, hleaves, hcases⟩
    · simp only [hdone, Bool.false_eq_true, ↓reduceIte]
      have hnf : r.failed = false := by
        cases hf : r.failed <;> simp_all [Req.done]
      have hpos : r.pos < n := by
        rw [← hlen]
        cases hf : r.failed <;> simp_all [Req.done]
      have hleaf := hleaves r.pos hpos
      have hi : i < s.reqs.length := by
        rcases Nat.lt_or_ge i s.reqs.length with h | h
        · exact h
        · rw [List.getElem?_eq_none h] at hr; cases hr
      by_cases hfull : s.leaves[r.pos]? = some true
      · -- the leaf is full: k ≤ r.pos
        simp only [hfull, ↓reduceIte]
        rw [hleaf] at hfull
        have hkle : k ≤ r.pos := by simpa using hfull
        rcases hcases with ⟨hk0, hall⟩ | ⟨hkpos, w, rw_, hw, hwpos, hwf, hothers⟩
        · -- nothing taken yet: r takes leaf 0 and becomes the winner
          have hmem : r ∈ s.reqs := List.mem_of_getElem? hr
          have hr0 : r.pos = 0 := (hall r hmem).1
          refine ⟨by simp [hlen], 1, by omega, ?_, .inr ⟨Nat.one_pos, i, { r with pos := r.pos + 1 }, ?_, by simp [hr0], hnf, ?_⟩⟩
          · intro j hj
            rw [hr0]
            by_cases hj0 : j = 0
            · subst hj0; simp [List.getElem?_set, hlen, hj]
            · rw [List.getElem?_set_ne (by omega), hleaves j hj, hk0]
              simp; omega
          · simp [List.getElem?_set_self hi]
          · intro i' r' hne hr'
            rw [List.getElem?_set_ne (Ne.symm hne)] at hr'
            exact (hall r' (List.mem_of_getElem? hr')).1
        · -- something was taken: only the winner can find a full leaf
          by_cases hiw : i = w
          · subst hiw
            rw [hr] at hw; cases hw
            refine ⟨by simp [hlen], r.pos + 1, by omega, ?_, .inr ⟨by omega, i, { r with pos := r.pos + 1 }, ?_, rfl, hnf, ?_⟩⟩
            · intro j hj
              by_cases hjr : j = r.pos
              · subst hjr; simp [List.getElem?_set, hlen, hj]
              · rw [List.getElem?_set_ne (Ne.symm hjr), hleaves j hj]
                simp; omega
            · simp [List.getElem?_set_self hi]
            · intro i' r' hne hr'
              rw [List.getElem?_set_ne (Ne.symm hne)] at hr'
              exact hothers i' r' hne hr'
          · have := hothers i r hiw hr
            omega
      · -- the leaf is empty: r gives up; it cannot be the winner and something must have been taken
        simp only [hfull, ↓reduceIte]
        rw [hleaf] at hfull
        have hklt : r.pos < k := by
          rcases Nat.lt_or_ge r.pos k with h | h
          · exact h
          · exfalso; apply hfull; simp [h]
        rcases hcases with ⟨hk0, _⟩ | ⟨hkpos, w, rw_, hw, hwpos, hwf, hothers⟩
        · omega
        · have hiw : i ≠ w := by
            intro h; subst h; rw [hr] at hw; cases hw; omega
          refine ⟨hlen, k, hk, hleaves, .inr ⟨hkpos, w, rw_, ?_, hwpos, hwf, ?_⟩⟩
          · rw [List.getElem?_set_ne hiw]; exact hw
          · intro i' r' hne hr'
            by_cases hii : i' = i
            · subst hii
              rw [List.getElem?_set_self hi] at hr'
              cases hr'
              exact hothers i' r hiw hr
            · rw [List.getElem?_set_ne (Ne.symm hii)] at hr'
              exact hothers i' r' hne hr'

theorem inv_run (n : Nat) (s : St) (sch : List Nat) (h : Inv n s) : Inv n (run s sch) := by
  induction sch generalizing s with
  | nil => exact h
  | cons i is ih => exact ih (step s i) (inv_step n s i h)

end Unimock.LeafRace
