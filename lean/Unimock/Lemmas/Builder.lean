import Unimock.Model.Core
/-! Lemmas about the pattern builder: where responders start and what expectation results. -/
namespace Unimock
variable {α ρ : Type}

/-- how far one segment advances `current_response_index` (and the expectation's minimum) -/
def Segment.advance (topLevel : Bool) (mode : Mode) (s : Segment ρ) : Nat :=
  match s.quant with
  | .once => 1
  | .nTimes n => n
  | .atLeastTimes n => n
  | .unquantified => if implicitOnce topLevel mode s.viaQRV then 1 else 0

theorem applyQuant_fields (b : Builder α ρ) (tl : Bool) (s : Segment ρ) :
    (b.applyQuant tl s).mode = b.mode ∧ (b.applyQuant tl s).responders = b.responders ∧
    (b.applyQuant tl s).idx = b.idx + s.advance tl b.mode ∧
    (b.applyQuant tl s).min = b.min + s.advance tl b.mode ∧
    (b.applyQuant tl s).matcher = b.matcher ∧ (b.applyQuant tl s).dbg = b.dbg ∧
    (b.applyQuant tl s).outputError = b.outputError := by
  unfold Builder.applyQuant Segment.advance Builder.quantify
  cases s.quant with
  | once => simp
  | nTimes n => simp
  | atLeastTimes n => simp
  | unquantified =>
    by_cases h : implicitOnce tl b.mode s.viaQRV = true
    · simp [h]
    · simp [h]

theorem segment_fields (b : Builder α ρ) (tl : Bool) (s : Segment ρ) (l : Bool) :
    (b.segment tl s l).mode = b.mode ∧
    (b.segment tl s l).responders = b.responders ++ [⟨b.idx, s.stored, false⟩] ∧
    (b.segment tl s l).idx = b.idx + s.advance tl b.mode ∧
    (b.segment tl s l).min = b.min + s.advance tl b.mode ∧
    (b.segment tl s l).matcher = b.matcher ∧ (b.segment tl s l).dbg = b.dbg ∧
    (b.segment tl s l).outputError = b.outputError := by
  have h := applyQuant_fields (b.pushResponder s.stored) tl s
  unfold Builder.segment
  cases l <;> simp only [Bool.false_eq_true, ↓reduceIte, Builder.then_] <;>
    simpa [Builder.pushResponder] using h

@[simp] theorem segment_mode (b : Builder α ρ) (tl : Bool) (s : Segment ρ) (l : Bool) :
    (b.segment tl s l).mode = b.mode := (segment_fields b tl s l).1
theorem segment_responders (b : Builder α ρ) (tl : Bool) (s : Segment ρ) (l : Bool) :
    (b.segment tl s l).responders = b.responders ++ [⟨b.idx, s.stored, false⟩] := (segment_fields b tl s l).2.1
theorem segment_idx (b : Builder α ρ) (tl : Bool) (s : Segment ρ) (l : Bool) :
    (b.segment tl s l).idx = b.idx + s.advance tl b.mode := (segment_fields b tl s l).2.2.1
theorem segment_min (b : Builder α ρ) (tl : Bool) (s : Segment ρ) (l : Bool) :
    (b.segment tl s l).min = b.min + s.advance tl b.mode := (segment_fields b tl s l).2.2.2.1

/-- start indexes of the responders a chain appends: running sums of the advances -/
def chainStarts (tl : Bool) (mode : Mode) (idx : Nat) : List (Segment ρ) → List (Responder ρ)
  | [] => []
  | s :: t => ⟨idx, s.stored, false⟩ :: chainStarts tl mode (idx + s.advance tl mode) t

theorem buildChain_responders (b : Builder α ρ) (tl : Bool) (segs : List (Segment ρ)) :
    (buildChain b tl segs).responders = b.responders ++ chainStarts tl b.mode b.idx segs ∧
    (buildChain b tl segs).idx = b.idx + (segs.map (Segment.advance tl b.mode)).sum ∧
    (buildChain b tl segs).min = b.min + (segs.map (Segment.advance tl b.mode)).sum ∧
    (buildChain b tl segs).mode = b.mode := by
  induction segs generalizing b with
  | nil => simp [buildChain, chainStarts]
  | cons s t ih =>
    cases t with
    | nil =>
      simp [buildChain, chainStarts, segment_responders, segment_idx, segment_min]
    | cons s2 t2 =>
      have := ih (b.segment tl s false)
      simp only [buildChain] at this ⊢
      rw [this.1, this.2.1, this.2.2.1, this.2.2.2]
      simp [chainStarts, segment_responders, segment_idx, segment_min, List.append_assoc]
      omega

theorem chainStarts_length (tl : Bool) (mode : Mode) (idx : Nat) (segs : List (Segment ρ)) :
    (chainStarts tl mode idx segs).length = segs.length := by
  induction segs generalizing idx with
  | nil => rfl
  | cons s t ih => simp [chainStarts, ih]

theorem chainStarts_getElem (tl : Bool) (mode : Mode) (idx : Nat) (segs : List (Segment ρ)) (i : Nat)
    (h : i < segs.length) :
    (chainStarts tl mode idx segs)[i]'(by rw [chainStarts_length]; exact h) =
      ⟨idx + ((segs.take i).map (Segment.advance tl mode)).sum, segs[i].stored, false⟩ := by
  induction segs generalizing idx i with
  | nil => simp at h
  | cons s t ih =>
    cases i with
    | zero => simp [chainStarts]
    | succ i =>
      simp only [chainStarts, List.getElem_cons_succ]
      rw [ih (idx + s.advance tl mode) i (by simpa using h)]
      simp [Nat.add_assoc]

end Unimock
