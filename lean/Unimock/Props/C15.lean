import Unimock.Generated.Control
import Unimock.Model.Codegen.Method
import Unimock.Props.C07
/-!
# C15 — default-method delegation runs the trait's own body against the same mock

Statement (properties.jsonl): when a provided method is called and no clause answers it otherwise —
or a clause says applies_default_impl() — the trait's real default body runs with the caller's
arguments, every required method it calls on self is evaluated by the same mock state as a direct call
would be, and its result is returned unchanged. This holds for &self, &mut self, by-value, Rc/Arc and
Pin<&mut Self> receivers.
-/
namespace Unimock.Codegen

/-- **C15, the CallDefaultImpl arm** exists iff the method has a default body; it calls the trait's
    own method on a `DefaultImplDelegator` obtained from the receiver in the receiver-specific way,
    with the caller's arguments in declaration order, awaited iff async. -/
theorem C15_delegate_arm_spec (s : MethodShape) :
    (genMethod s).delegate =
      (if s.hasDefault then some (delegateCtor s.recv, s.params.map (·.name), s.isAsync || s.rpit) else none) := by
  simp only [genMethod, dotAwait]
  rfl

/-- the required methods of the delegator forward to the mock with the arguments in order -/
theorem C15_delegator_forwards (s : MethodShape) :
    genDelegator s = ⟨delegatorAccessor s.recv, s.params.map (·.name), s.isAsync || s.rpit⟩ := by
  simp [genDelegator, fnParam, dotAwait]

end Unimock.Codegen

namespace Unimock
variable {α ρ : Type}

/-- the observable part of a call result: shared state, user-code log, outcome -/
def CallResult.obs (r : CallResult α ρ) : Shared α ρ × List (LogEntry α) × CallOutcome ρ := (r.shared, r.log, r.out)

/-- **C15, a call made through the delegation helper is evaluated exactly like a direct call.**
    The helper level (`0` = the instance itself, `l+1` = the helper clone hanging off level `l`) does
    not influence the shared state, the user-code log or the outcome of any call — for every
    environment of user code, at every nesting depth. Counts, ordered slots and the error log are
    therefore shared between direct calls and calls made from inside a default body. -/
theorem C15_helper_level_irrelevant (env : Env α ρ) (fuel : Nat) :
    (∀ l l' (s : Shared α ρ) m a, (callMethod env fuel l s m a).obs = (callMethod env fuel l' s m a).obs) ∧
    (∀ l l' (s : Shared α ρ) (p : Prog α ρ), (runProg env fuel l s p).obs = (runProg env fuel l' s p).obs) := by
  induction fuel with
  | zero =>
    constructor
    · intro l l' s m a; simp [callMethod, CallResult.obs]
    · intro l l' s p; cases p with
      | done r => cases r <;> simp [runProg, CallResult.obs]
      | call m a k => simp [runProg, CallResult.obs]
      | log e k => simp [runProg, CallResult.obs]
      | park k => simp [runProg, CallResult.obs]
  | succ fuel ih =>
    obtain ⟨ihc, ihp⟩ := ih
    constructor
    · intro l l' s m a
      rw [callMethod, callMethod]
      rcases call s m a with ⟨s', o⟩
      cases o with
      | ret v => rfl
      | err e => rfl
      | userPanic => rfl
      | contAnswer f => exact ihp l l' s' _
      | contUnmock =>
        simp only
        split
        · exact ihp l l' s' _
        · rfl
      | contDefault =>
        simp only
        split
        · have := ihp (l + 1) (l' + 1) s' (env.dflt m a)
          simp only [CallResult.obs] at this ⊢
          exact this
        · rfl
    · intro l l' s p
      cases p with
      | done r => cases r <;> simp [runProg, CallResult.obs]
      | log e k =>
        simp only [runProg]
        have := ihp l l' s k
        simp only [CallResult.obs, Prod.mk.injEq] at this ⊢
        exact ⟨this.1, by rw [this.2.1], this.2.2⟩
      | park k =>
        simp only [runProg]
        have := ihp l l' s k
        simp only [CallResult.obs] at this ⊢
        exact this
      | call m a k =>
        simp only [runProg]
        have h1 := ihc l l' s m a
        simp only [CallResult.obs, Prod.mk.injEq] at h1
        obtain ⟨hs, hl, ho⟩ := h1
        rw [ho]
        cases hout : (callMethod env fuel l' s m a).out with
        | ret v =>
          simp only
          have h2 := ihp l l' (callMethod env fuel l s m a).shared (k v)
          rw [hs] at h2
          simp only [CallResult.obs, Prod.mk.injEq] at h2 ⊢
          rw [hs] 
          exact ⟨h2.1, by rw [hl, h2.2.1], h2.2.2⟩
        | mockPanic e => simp only [CallResult.obs, Prod.mk.injEq]; exact ⟨hs, hl, ho⟩
        | userPanic => simp only [CallResult.obs, Prod.mk.injEq]; exact ⟨hs, hl, ho⟩
        | outOfFuel => simp only [CallResult.obs, Prod.mk.injEq]; exact ⟨hs, hl, ho⟩

/-- **C15, the default body runs exactly when evaluation says so.** -/
theorem C15_runtime_delegate (env : Env α ρ) (fuel lvl : Nat) (s s' : Shared α ρ) (m : MethodInfo) (a : α)
    (h : call s m a = (s', .contDefault)) (hd : m.hasDefaultImpl = true) :
    (callMethod env (fuel + 1) lvl s m a).obs = (runProg env fuel (lvl + 1) s' (env.dflt m a)).obs := by
  rw [C07_continuations, h]
  simp [hd, CallResult.obs]

/-! ### the helper behind delegation as the source has it (`Generated/Control.lean`) -/

/-- `AsRef` / `AsMut<DefaultImplDelegator> for Unimock` both use the helper cell through `get_or_init` with a *clone* of the
    instance: the helper shares the mock state (same patterns, counts, ordered sequence), and an existing helper — with the
    references it has lent — is reused, never replaced -/
theorem C15_source_helper_cell :
    Generated.delegatorCellRef = .getOrInitClone ∧ Generated.delegatorCellMut = .getOrInitClone := ⟨rfl, rfl⟩

end Unimock
