import Unimock.Generated.Control
import Unimock.Lemmas.Gates
import Unimock.Props.C01
import Unimock.Props.C04
import Unimock.Model.Method
/-!
# C07 — calls without an applicable pattern fail loudly or fall through as documented

Statement (properties.jsonl): a call to a method no clause mentions runs the trait's default body if
it has one, otherwise the registered real implementation in a partial mock (or for
partial-by-default methods), otherwise panics naming the call; a call to an unordered method whose
patterns all reject the arguments panics in a strict mock and goes to the real implementation in a
partial mock. The mock never fabricates a return value, and such calls never change any pattern's
match count.
-/
namespace Unimock
variable {α ρ : Type}

/-- the documented resolution of a call to a method that no clause mentions -/
def unmentionedResolution (fb : Fallback) (m : MethodInfo) : EvalOutcome ρ :=
  if m.hasDefaultImpl then .contDefault
  else if m.partialByDefault then .contUnmock
  else match fb with
    | .error => .err (.noMockImplementation m)
    | .unmock => .contUnmock

/-- **C07, unmentioned method.** Default body first, then the real implementation (partial mock or
    partial-by-default method), else `NoMockImplementation` naming the call; the state is untouched. -/
theorem C07_unmentioned (s : Shared α ρ) (m : MethodInfo) (a : α) (hf : s.find m.id = none) :
    evalCall s m a = (s, unmentionedResolution s.fallback m) := by
  unfold evalCall unmentionedResolution
  simp only [hf]
  split
  · rfl
  · split
    · rfl
    · cases s.fallback <;> rfl

/-- **C07, mentioned but unmatched (unordered).** Strict: `NoMatchingCallPatterns`; partial: real
    implementation. No counter moves (the state is returned unchanged). -/
theorem C07_unmatched (s : Shared α ρ) (m : MethodInfo) (a : α) (fm : FnMocker α ρ)
    (hf : s.find m.id = some fm) (hm : fm.mode = .anyOrder)
    (hrej : ∀ p ∈ fm.pats, tryPat p a = none) :
    evalCall s m a =
      (s, match s.fallback with
          | .error => .err (.noMatchingCallPatterns m)
          | .unmock => .contUnmock) :=
  C01_no_match s m a fm hf hm hrej

theorem respond_ret_mem (m : MethodInfo) (pi : Nat) (rs : List (Responder ρ)) (c : Nat) (v : ρ)
    (h : (respond m pi rs c).2 = .ret v) : ∃ r ∈ rs, ∃ o, r.resp = .ret v o := by
  unfold respond at h
  cases hf : findResponderIdx rs c with
  | none => simp [hf] at h
  | some ri =>
    simp only [hf] at h
    cases hr : rs[ri]? with
    | none => simp [hr] at h
    | some r =>
      simp only [hr] at h
      have hmem : r ∈ rs := List.mem_of_getElem? hr
      obtain ⟨st, resp, taken⟩ := r
      cases resp with
      | ret w once =>
        refine ⟨_, hmem, once, ?_⟩
        cases once <;> cases taken <;> simp at h <;> simp [h]
      | answer f => simp at h
      | applyDefaultImpl => simp at h
      | unmock => simp at h
      | panic msg => simp at h

/-- **C07, the mock never fabricates a return value.** Whenever `eval` hands a value back, that value
    was configured by a `returns`/`returns_default` responder of a pattern of the called method. -/
theorem C07_never_fabricates (s : Shared α ρ) (m : MethodInfo) (a : α) (v : ρ)
    (h : (evalCall s m a).2 = .ret v) :
    ∃ fm, s.find m.id = some fm ∧ ∃ p ∈ fm.pats, ∃ r ∈ p.responders, ∃ o, r.resp = .ret v o := by
  unfold evalCall at h
  cases hf : s.find m.id with
  | none =>
    simp only [hf] at h
    split at h
    · simp at h
    · split at h
      · simp at h
      · cases hfb : s.fallback <;> simp [hfb] at h
  | some fm =>
    refine ⟨fm, rfl, ?_⟩
    simp only [hf] at h
    cases hmode : fm.mode with
    | anyOrder =>
      simp only [hmode] at h
      cases hs : scan fm.pats a 0 with
      | none => simp only [hs] at h; cases hfb : s.fallback <;> simp [hfb] at h
      | some r =>
        obtain ⟨pi, t⟩ := r
        simp only [hs] at h
        cases t with
        | noMatcher => simp at h
        | userPanic => simp at h
        | accept =>
          simp only at h
          cases hp : fm.pats[pi]? with
          | none => simp [hp] at h
          | some p =>
            simp only [hp] at h
            exact ⟨p, List.mem_of_getElem? hp, respond_ret_mem m pi p.responders p.count v h⟩
    | inOrder =>
      simp only [hmode] at h
      cases hfo : findForOrder fm.pats s.nextOrdered with
      | none => simp [hfo] at h
      | some pi =>
        simp only [hfo] at h
        cases hp : fm.pats[pi]? with
        | none => simp [hp] at h
        | some p =>
          simp only [hp] at h
          cases ht : tryPat p a with
          | none => simp [ht] at h
          | some t =>
            cases t <;> simp [ht] at h
            exact ⟨p, List.mem_of_getElem? hp, respond_ret_mem m pi p.responders p.count v h⟩

/-- **C07, continuation arms of the generated method body.** `Unmock` runs the registered real
    function if the body has an Unmock arm, else panics with `CannotUnmock` naming the method (and the
    error is logged); `CallDefaultImpl` runs the trait's default body if there is one, else panics
    with `NoDefaultImpl`. -/
theorem C07_continuations (env : Env α ρ) (fuel lvl : Nat) (s : Shared α ρ) (m : MethodInfo) (a : α) :
    callMethod env (fuel + 1) lvl s m a =
      match call s m a with
      | (s, .ret v) => ⟨s, [], .ret v, 0, 0⟩
      | (s, .err e) => ⟨s, [], .mockPanic e, 0, 0⟩
      | (s, .userPanic) => ⟨s, [], .userPanic, 0, 0⟩
      | (s, .contAnswer f) => runProg env fuel lvl s (env.answer f m a)
      | (s, .contUnmock) =>
        if m.unmockFn then runProg env fuel lvl s (env.real m a)
        else ⟨s.induce (.cannotUnmock m), [], .mockPanic (.cannotUnmock m), 0, 0⟩
      | (s, .contDefault) =>
        if m.hasDefaultImpl then
          let r := runProg env fuel (lvl + 1) s (env.dflt m a)
          { r with helperDepth := max (lvl + 1) r.helperDepth }
        else ⟨s.induce (.noDefaultImpl m), [], .mockPanic (.noDefaultImpl m), 0, 0⟩ := by
  rw [callMethod]
  rcases call s m a with ⟨s', o⟩
  cases o <;> rfl

/-- non-vacuity: strict mock, unmentioned method without default body -/
example : (evalCall (⟨.error, [], 0, []⟩ : Shared Nat Int) ⟨0, "T", "f", false, false, false⟩ 0).2
    = .err (.noMockImplementation ⟨0, "T", "f", false, false, false⟩) := by decide


/-! ### the fall-through decision trees as the source has them (`Generated/Control.lean`) -/

/-- the re-translated "no mocker for this function" tree of `DynCtx::eval_dyn` decides as the model on all 8 observations -/
theorem C07_source_no_mocker_tree :
    ∀ d p : Bool, ∀ fb : Gates.Fb, Generated.noMockerTree.eval d p fb = Gates.specNoMocker d p fb := by
  intro d p fb; cases d <;> cases p <;> cases fb <;> rfl

/-- the re-translated "no pattern matched" tree decides as the model -/
theorem C07_source_no_match_tree :
    ∀ d p : Bool, ∀ fb : Gates.Fb, Generated.noMatchTree.eval d p fb = Gates.specNoMatch fb := by
  intro d p fb; cases d <;> cases p <;> cases fb <;> rfl

/-- a call to a method no clause mentions: the outcome is the one the source tree selects, and the state is untouched -/
theorem C07_source_unmentioned {α ρ} (s : Shared α ρ) (m : MethodInfo) (a : α) (h : s.find m.id = none) :
    evalCall s m a =
      (s, concretiseNoMock m (Generated.noMockerTree.eval m.hasDefaultImpl m.partialByDefault (fbOf s.fallback))) := by
  rw [C07_source_no_mocker_tree]; exact evalCall_noMocker_eq_spec s m a h

/-- a call all of whose method's unordered patterns reject: the outcome is the one the source tree selects -/
theorem C07_source_all_reject {α ρ} (s : Shared α ρ) (m : MethodInfo) (a : α) (fm : FnMocker α ρ)
    (h : s.find m.id = some fm) (hm : fm.mode = .anyOrder) (hs : scan fm.pats a 0 = none) :
    evalCall s m a =
      (s, concretiseNoMock m (Generated.noMatchTree.eval m.hasDefaultImpl m.partialByDefault (fbOf s.fallback))) := by
  rw [C07_source_no_match_tree]; exact evalCall_noMatch_eq_spec s m a fm h hm hs

/-- no leaf of either source tree is a fabricated value: every leaf is a continuation or an error -/
example : Generated.noMockerTree.eval false false .error = .errNoMockImplementation ∧
    Generated.noMockerTree.eval true true .error = .callDefault ∧
    Generated.noMatchTree.eval true true .unmock = .unmock := by decide

end Unimock
