import Unimock.Lemmas.State
import Unimock.Lemmas.Scan
import Unimock.Model.Assemble
/-!
# C04 — next_call patterns are consumed strictly in declaration order across methods

Statement (properties.jsonl): the ordered patterns of a mock (next_call clauses flattened left to
right, each repeated by its exact count) form one global expected sequence: the i-th call made to any
ordered method is accepted only if it targets the method of the i-th slot and its arguments match
that slot's pattern, and it then gets that slot's response. The first deviating call (wrong method,
wrong arguments, or past the end) panics, and calls to unordered methods never consume or disturb slots.
-/
namespace Unimock
variable {α ρ : Type}

/-- pattern `p` owns global slot `idx` -/
def Pattern.owns (p : Pattern α ρ) (idx : Nat) : Prop := p.lo ≤ idx ∧ idx < p.hi

instance (p : Pattern α ρ) (idx : Nat) : Decidable (p.owns idx) := by unfold Pattern.owns; infer_instance

theorem findForOrder_some (ps : List (Pattern α ρ)) (idx pi : Nat) (h : findForOrder ps idx = some pi) :
    ∃ hlt : pi < ps.length, ps[pi].owns idx ∧ ∀ j (hj : j < pi), ¬ (ps[j]'(by omega)).owns idx := by
  unfold findForOrder at h
  rw [List.findIdx?_eq_some_iff_getElem] at h
  obtain ⟨hlt, hp, hn⟩ := h
  refine ⟨hlt, by simpa [Pattern.owns] using hp, ?_⟩
  intro j hj
  have := hn j hj
  simpa [Pattern.owns] using this

theorem findForOrder_none (ps : List (Pattern α ρ)) (idx : Nat) (h : findForOrder ps idx = none) :
    ∀ p ∈ ps, ¬ p.owns idx := by
  unfold findForOrder at h
  rw [List.findIdx?_eq_none_iff] at h
  intro p hp
  have := h p hp
  simpa [Pattern.owns] using this

/-- **C04, every ordered call consumes exactly one global slot number** — accepted or not. -/
theorem C04_ordered_call_bumps (s : Shared α ρ) (m : MethodInfo) (a : α) (fm : FnMocker α ρ)
    (hf : s.find m.id = some fm) (hm : fm.mode = .inOrder) :
    (evalCall s m a).1.nextOrdered = s.nextOrdered + 1 := by
  unfold evalCall
  simp only [hf, hm]
  cases findForOrder fm.pats s.nextOrdered with
  | none => rfl
  | some pi =>
    simp only
    cases fm.pats[pi]? with
    | none => rfl
    | some p =>
      simp only
      cases tryPat p a with
      | none => rfl
      | some t => cases t <;> rfl

/-- **C04, acceptance.** An ordered call to `m` is accepted iff the current global slot is owned by
    a pattern of `m` *and* that pattern's matcher accepts the arguments; it is then answered by that
    pattern at its current match count, and only that pattern's counter (and single-use slot) changes. -/
theorem C04_accepts (s : Shared α ρ) (m : MethodInfo) (a : α) (fm : FnMocker α ρ)
    (hf : s.find m.id = some fm) (hm : fm.mode = .inOrder)
    (pi : Nat) (hlt : pi < fm.pats.length) (hown : fm.pats[pi].owns s.nextOrdered)
    (hfirst : ∀ j (hj : j < pi), ¬ (fm.pats[j]'(by omega)).owns s.nextOrdered)
    (hacc : tryPat fm.pats[pi] a = some .accept) :
    evalCall s m a =
      (({ s with nextOrdered := s.nextOrdered + 1 } : Shared α ρ).setPat m.id pi
          { fm.pats[pi] with count := fm.pats[pi].count + 1,
                             responders := (respond m pi fm.pats[pi].responders fm.pats[pi].count).1 },
        (respond m pi fm.pats[pi].responders fm.pats[pi].count).2) := by
  have hfo : findForOrder fm.pats s.nextOrdered = some pi := by
    unfold findForOrder
    rw [List.findIdx?_eq_some_iff_getElem]
    refine ⟨hlt, by simpa [Pattern.owns] using hown, ?_⟩
    intro j hj
    have := hfirst j hj
    simpa [Pattern.owns] using this
  unfold evalCall
  simp only [hf, hm, hfo, List.getElem?_eq_getElem hlt, hacc]

/-- **C04, wrong method / past the end.** If no pattern of the called ordered method owns the
    current slot, the call panics with `CallOrderNotMatchedForMockFn` (naming the pattern of whichever
    method does own the slot, or "out of range" when none does), and no pattern is counted. -/
theorem C04_wrong_method (s : Shared α ρ) (m : MethodInfo) (a : α) (fm : FnMocker α ρ)
    (hf : s.find m.id = some fm) (hm : fm.mode = .inOrder)
    (hnone : ∀ p ∈ fm.pats, ¬ p.owns s.nextOrdered) :
    evalCall s m a =
      ({ s with nextOrdered := s.nextOrdered + 1 },
       .err (.callOrderNotMatched m s.nextOrdered
              (({ s with nextOrdered := s.nextOrdered + 1 } : Shared α ρ).findOrderedExpected s.nextOrdered))) := by
  have hfo : findForOrder fm.pats s.nextOrdered = none := by
    unfold findForOrder
    rw [List.findIdx?_eq_none_iff]
    intro p hp
    have := hnone p hp
    simpa [Pattern.owns] using this
  unfold evalCall
  simp only [hf, hm, hfo]

/-- **C04, wrong arguments.** If the slot's pattern belongs to the called method but rejects the
    arguments, the call panics with `InputsNotMatchedInCallOrder` and no pattern is counted. -/
theorem C04_wrong_inputs (s : Shared α ρ) (m : MethodInfo) (a : α) (fm : FnMocker α ρ)
    (hf : s.find m.id = some fm) (hm : fm.mode = .inOrder)
    (pi : Nat) (hlt : pi < fm.pats.length) (hown : fm.pats[pi].owns s.nextOrdered)
    (hfirst : ∀ j (hj : j < pi), ¬ (fm.pats[j]'(by omega)).owns s.nextOrdered)
    (hrej : tryPat fm.pats[pi] a = none) :
    evalCall s m a =
      ({ s with nextOrdered := s.nextOrdered + 1 }, .err (.inputsNotMatchedInCallOrder m s.nextOrdered pi)) := by
  have hfo : findForOrder fm.pats s.nextOrdered = some pi := by
    unfold findForOrder
    rw [List.findIdx?_eq_some_iff_getElem]
    refine ⟨hlt, by simpa [Pattern.owns] using hown, ?_⟩
    intro j hj
    have := hfirst j hj
    simpa [Pattern.owns] using this
  unfold evalCall
  simp only [hf, hm, hfo, List.getElem?_eq_getElem hlt, hrej]

/-- **C04, unordered calls never consume or disturb slots.** A call to an unordered method leaves
    the global ordered index unchanged and every pattern of every *other* method (in particular
    every ordered pattern: a method is either ordered or unordered) untouched. -/
theorem C04_unordered_no_slot (s : Shared α ρ) (m : MethodInfo) (a : α) (fm : FnMocker α ρ)
    (hf : s.find m.id = some fm) (hm : fm.mode = .anyOrder) :
    (evalCall s m a).1.nextOrdered = s.nextOrdered ∧
    ∀ id' j, id' ≠ m.id → (evalCall s m a).1.pat? id' j = s.pat? id' j := by
  unfold evalCall
  simp only [hf, hm]
  cases scan fm.pats a 0 with
  | none => cases s.fallback <;> exact ⟨rfl, fun _ _ _ => rfl⟩
  | some r =>
    obtain ⟨pi, t⟩ := r
    cases t with
    | noMatcher => exact ⟨rfl, fun _ _ _ => rfl⟩
    | userPanic => exact ⟨rfl, fun _ _ _ => rfl⟩
    | accept =>
      simp only
      cases fm.pats[pi]? with
      | none => exact ⟨rfl, fun _ _ _ => rfl⟩
      | some p =>
        refine ⟨rfl, ?_⟩
        intro id' j hne
        exact pat?_setPat_other s m.id pi id' j _ (Or.inl hne)

/-- calls to methods that are not in the table at all do not touch the state -/
theorem C04_unmentioned_no_slot (s : Shared α ρ) (m : MethodInfo) (a : α) (hf : s.find m.id = none) :
    (evalCall s m a).1 = s := by
  unfold evalCall
  simp only [hf]
  split
  · rfl
  · split
    · rfl
    · cases s.fallback <;> rfl

end Unimock
