import Unimock.Generated.Control
import Unimock.Lemmas.State
import Unimock.Generated.Counter
import Unimock.Lemmas.Scan
import Unimock.Model.Assemble
import Unimock.Lemmas.Ordered
import Unimock.Generated.ScanSkel
/-!
# C04 — next_call patterns are consumed strictly in declaration order across methods

Statement (properties.jsonl): the ordered patterns of a mock (next_call clauses flattened left to
right, each repeated by its exact count) form one global expected sequence: the i-th call made to any
ordered method is accepted only if it targets the method of the i-th slot and its arguments match
that slot's pattern, and it then gets that slot's response. The first deviating call (wrong method,
wrong arguments, or past the end) panics, and calls to unordered methods never consume or disturb slots.
-/
namespace Unimock
variable {α ρ : Type}

/-- pattern `p` owns global slot `idx` -/
def Pattern.owns (p : Pattern α ρ) (idx : Nat) : Prop := p.lo ≤ idx ∧ idx < p.hi

instance (p : Pattern α ρ) (idx : Nat) : Decidable (p.owns idx) := by unfold Pattern.owns; infer_instance

theorem findForOrder_some (ps : List (Pattern α ρ)) (idx pi : Nat) (h : findForOrder ps idx = some pi) :
    ∃ hlt : pi < ps.length, ps[pi].owns idx ∧ ∀ j (hj : j < pi), ¬ (ps[j]'(by omega)).owns idx := by
  unfold findForOrder at h
  rw [List.findIdx?_eq_some_iff_getElem] at h
  obtain ⟨hlt, hp, hn⟩ := h
  refine ⟨hlt, by simpa [Pattern.owns] using hp, ?_⟩
  intro j hj
  have := hn j hj
  simpa [Pattern.owns] using this

theorem findForOrder_none (ps : List (Pattern α ρ)) (idx : Nat) (h : findForOrder ps idx = none) :
    ∀ p ∈ ps, ¬ p.owns idx := by
  unfold findForOrder at h
  rw [List.findIdx?_eq_none_iff] at h
  intro p hp
  have := h p hp
  simpa [Pattern.owns] using this

/-- **C04, every ordered call consumes exactly one global slot number** — accepted or not. -/
theorem C04_ordered_call_bumps (s : Shared α ρ) (m : MethodInfo) (a : α) (fm : FnMocker α ρ)
    (hf : s.find m.id = some fm) (hm : fm.mode = .inOrder) :
    (evalCall s m a).1.nextOrdered = s.nextOrdered + 1 := by
  unfold evalCall
  simp only [hf, hm]
  cases findForOrder fm.pats s.nextOrdered with
  | none => rfl
  | some pi =>
    simp only
    cases fm.pats[pi]? with
    | none => rfl
    | some p =>
      simp only
      cases tryPat p a with
      | none => rfl
      | some t => cases t <;> rfl

/-- **C04, acceptance.** An ordered call to `m` is accepted iff the current global slot is owned by
    a pattern of `m` *and* that pattern's matcher accepts the arguments; it is then answered by that
    pattern at its current match count, and only that pattern's counter (and single-use slot) changes. -/
theorem C04_accepts (s : Shared α ρ) (m : MethodInfo) (a : α) (fm : FnMocker α ρ)
    (hf : s.find m.id = some fm) (hm : fm.mode = .inOrder)
    (pi : Nat) (hlt : pi < fm.pats.length) (hown : fm.pats[pi].owns s.nextOrdered)
    (hfirst : ∀ j (hj : j < pi), ¬ (fm.pats[j]'(by omega)).owns s.nextOrdered)
    (hacc : tryPat fm.pats[pi] a = some .accept) :
    evalCall s m a =
      (({ s with nextOrdered := s.nextOrdered + 1 } : Shared α ρ).setPat m.id pi
          { fm.pats[pi] with count := fm.pats[pi].count + 1,
                             responders := (respond m pi fm.pats[pi].responders fm.pats[pi].count).1 },
        (respond m pi fm.pats[pi].responders fm.pats[pi].count).2) := by
  have hfo : findForOrder fm.pats s.nextOrdered = some pi := by
    unfold findForOrder
    rw [List.findIdx?_eq_some_iff_getElem]
    refine ⟨hlt, by simpa [Pattern.owns] using hown, ?_⟩
    intro j hj
    have := hfirst j hj
    simpa [Pattern.owns] using this
  unfold evalCall
  simp only [hf, hm, hfo, List.getElem?_eq_getElem hlt, hacc]

/-- **C04, wrong method / past the end.** If no pattern of the called ordered method owns the
    current slot, the call panics with `CallOrderNotMatchedForMockFn` (naming the pattern of whichever
    method does own the slot, or "out of range" when none does), and no pattern is counted. -/
theorem C04_wrong_method (s : Shared α ρ) (m : MethodInfo) (a : α) (fm : FnMocker α ρ)
    (hf : s.find m.id = some fm) (hm : fm.mode = .inOrder)
    (hnone : ∀ p ∈ fm.pats, ¬ p.owns s.nextOrdered) :
    evalCall s m a =
      ({ s with nextOrdered := s.nextOrdered + 1 },
       .err (.callOrderNotMatched m s.nextOrdered
              (({ s with nextOrdered := s.nextOrdered + 1 } : Shared α ρ).findOrderedExpected s.nextOrdered))) := by
  have hfo : findForOrder fm.pats s.nextOrdered = none := by
    unfold findForOrder
    rw [List.findIdx?_eq_none_iff]
    intro p hp
    have := hnone p hp
    simpa [Pattern.owns] using this
  unfold evalCall
  simp only [hf, hm, hfo]

/-- **C04, wrong arguments.** If the slot's pattern belongs to the called method but rejects the
    arguments, the call panics with `InputsNotMatchedInCallOrder` and no pattern is counted. -/
theorem C04_wrong_inputs (s : Shared α ρ) (m : MethodInfo) (a : α) (fm : FnMocker α ρ)
    (hf : s.find m.id = some fm) (hm : fm.mode = .inOrder)
    (pi : Nat) (hlt : pi < fm.pats.length) (hown : fm.pats[pi].owns s.nextOrdered)
    (hfirst : ∀ j (hj : j < pi), ¬ (fm.pats[j]'(by omega)).owns s.nextOrdered)
    (hrej : tryPat fm.pats[pi] a = none) :
    evalCall s m a =
      ({ s with nextOrdered := s.nextOrdered + 1 }, .err (.inputsNotMatchedInCallOrder m s.nextOrdered pi)) := by
  have hfo : findForOrder fm.pats s.nextOrdered = some pi := by
    unfold findForOrder
    rw [List.findIdx?_eq_some_iff_getElem]
    refine ⟨hlt, by simpa [Pattern.owns] using hown, ?_⟩
    intro j hj
    have := hfirst j hj
    simpa [Pattern.owns] using this
  unfold evalCall
  simp only [hf, hm, hfo, List.getElem?_eq_getElem hlt, hrej]

/-- **C04, unordered calls never consume or disturb slots.** A call to an unordered method leaves
    the global ordered index unchanged and every pattern of every *other* method (in particular
    every ordered pattern: a method is either ordered or unordered) untouched. -/
theorem C04_unordered_no_slot (s : Shared α ρ) (m : MethodInfo) (a : α) (fm : FnMocker α ρ)
    (hf : s.find m.id = some fm) (hm : fm.mode = .anyOrder) :
    (evalCall s m a).1.nextOrdered = s.nextOrdered ∧
    ∀ id' j, id' ≠ m.id → (evalCall s m a).1.pat? id' j = s.pat? id' j := by
  unfold evalCall
  simp only [hf, hm]
  cases scan fm.pats a 0 with
  | none => cases s.fallback <;> exact ⟨rfl, fun _ _ _ => rfl⟩
  | some r =>
    obtain ⟨pi, t⟩ := r
    cases t with
    | noMatcher => exact ⟨rfl, fun _ _ _ => rfl⟩
    | userPanic => exact ⟨rfl, fun _ _ _ => rfl⟩
    | accept =>
      simp only
      cases fm.pats[pi]? with
      | none => exact ⟨rfl, fun _ _ _ => rfl⟩
      | some p =>
        refine ⟨rfl, ?_⟩
        intro id' j hne
        exact pat?_setPat_other s m.id pi id' j _ (Or.inl hne)

/-- calls to methods that are not in the table at all do not touch the state -/
theorem C04_unmentioned_no_slot (s : Shared α ρ) (m : MethodInfo) (a : α) (hf : s.find m.id = none) :
    (evalCall s m a).1 = s := by
  unfold evalCall
  simp only [hf]
  split
  · rfl
  · split
    · rfl
    · cases s.fallback <;> rfl

/-! ## the global expected sequence: ranges assigned at construction, counters along a history -/

/-- along a deviation-free history every ordered pattern has been matched exactly as often as the
    global index has advanced into its slot range -/
def CountInv (s : Shared α ρ) : Prop :=
  ∀ id i p, s.pat? id i = some p → modeOf s.mockers id = some .inOrder →
    p.count = min (s.nextOrdered - p.lo) (p.hi - p.lo)

/-- **C04, the slot ranges assigned at construction.** For every clause tree that assembles, the
    ordered patterns (over all methods) own pairwise disjoint ranges `[lo, lo + exact count)`, assigned
    consecutively in flattening order (each range starts where the running index stood and ends where it
    stands afterwards), unordered patterns own nothing, the global index starts at 0 and every counter at
    0 — so the ranges laid end to end are the expected global sequence. -/
theorem C04_assembled_ranges (fb : Fallback) (c : ClauseTree α ρ) (s : Shared α ρ) (h : newMock fb c = .ok s) :
    OrdDisjoint s.mockers ∧ (∃ total, OrdBelow s.mockers total) ∧ s.nextOrdered = 0 ∧ CountInv s := by
  unfold newMock at h
  cases ha : assembleList ({} : Asm α ρ) (flatten c) with
  | error e => simp [ha] at h
  | ok a =>
    simp only [ha] at h
    injection h with h
    subst h
    have hd0 : OrdDisjoint ({} : Asm α ρ).mockers := by intro id i id' j p q hp; simp [patOf] at hp
    have hb0 : OrdBelow ({} : Asm α ρ).mockers ({} : Asm α ρ).cur := by intro id i p hp; simp [patOf] at hp
    obtain ⟨hd, hb⟩ := assembleList_ranges _ a _ ha hd0 hb0
    refine ⟨hd, ⟨a.cur, hb⟩, rfl, ?_⟩
    intro id i p hp hm
    have := hb id i p hp hm
    simp [this.2.2]

theorem modeOf_setPat (s : Shared α ρ) (id i id' : Nat) (p : Pattern α ρ) :
    modeOf (s.setPat id i p).mockers id' = modeOf s.mockers id' := by
  have h := find_setPat s id i id' p
  unfold Shared.find at h
  unfold modeOf
  rw [h]
  cases s.mockers.find? (·.info.id = id') with
  | none => rfl
  | some m => simp only [Option.map_some]; split <;> rfl

/-- replacing a pattern by one with the same range leaves every range as it was -/
theorem ranges_of_setPat (s : Shared α ρ) (id0 i0 : Nat) (p0 p' : Pattern α ρ) (h0 : s.pat? id0 i0 = some p0)
    (id i : Nat) (p : Pattern α ρ) (hp : (s.setPat id0 i0 p').pat? id i = some p)
    (hlo : p'.lo = p0.lo) (hhi : p'.hi = p0.hi) :
    ∃ q, s.pat? id i = some q ∧ q.lo = p.lo ∧ q.hi = p.hi := by
  by_cases hsame : id = id0 ∧ i = i0
  · rw [hsame.1, hsame.2, pat?_setPat_same s id0 i0 p' p0 h0] at hp
    injection hp with hp
    rw [hsame.1, hsame.2]
    exact ⟨p0, h0, by rw [← hp, hlo], by rw [← hp, hhi]⟩
  · have hne : id ≠ id0 ∨ i ≠ i0 := by
      by_cases h1 : id = id0
      · right; intro h2; exact hsame ⟨h1, h2⟩
      · left; exact h1
    rw [pat?_setPat_other s id0 i0 id i p' hne] at hp
    exact ⟨p, hp, rfl, rfl⟩

/-- **C04, an accepted ordered call keeps the counters in step with the global index**, and its
    response index is the slot-local index `i - lo` ("it then gets that slot's response"). -/
theorem C04_accepted_call_refines (s : Shared α ρ) (m : MethodInfo) (a : α) (fm : FnMocker α ρ)
    (hf : s.find m.id = some fm) (hm : fm.mode = .inOrder)
    (hdis : OrdDisjoint s.mockers) (hinv : CountInv s)
    (pi : Nat) (hlt : pi < fm.pats.length) (hown : fm.pats[pi].owns s.nextOrdered)
    (hfirst : ∀ j (hj : j < pi), ¬ (fm.pats[j]'(by omega)).owns s.nextOrdered)
    (hacc : tryPat fm.pats[pi] a = some .accept) :
    fm.pats[pi].count = s.nextOrdered - fm.pats[pi].lo ∧
    (evalCall s m a).2 = (respond m pi fm.pats[pi].responders (s.nextOrdered - fm.pats[pi].lo)).2 ∧
    CountInv (evalCall s m a).1 ∧ OrdDisjoint (evalCall s m a).1.mockers := by
  have hmode : modeOf s.mockers m.id = some .inOrder := by
    unfold modeOf; unfold Shared.find at hf; rw [hf]; simp [hm]
  have hpat : s.pat? m.id pi = some fm.pats[pi] := by
    unfold Shared.pat?; rw [hf]; simp [hlt]
  have hcount := hinv m.id pi fm.pats[pi] hpat hmode
  obtain ⟨hlo, hhi⟩ := hown
  have hc : fm.pats[pi].count = s.nextOrdered - fm.pats[pi].lo := by rw [hcount]; omega
  rw [C04_accepts s m a fm hf hm pi hlt ⟨hlo, hhi⟩ hfirst hacc]
  refine ⟨hc, by simp only; rw [hc], ?_, ?_⟩
  · -- counters
    intro id i q hq hmq
    rw [modeOf_setPat] at hmq
    simp only [setPat_nextOrdered]
    have hpat' : ({ s with nextOrdered := s.nextOrdered + 1 } : Shared α ρ).pat? m.id pi = some fm.pats[pi] := hpat
    by_cases hsame : id = m.id ∧ i = pi
    · rw [hsame.1, hsame.2, pat?_setPat_same _ _ _ _ _ hpat'] at hq
      injection hq with hq
      rw [← hq]
      simp only; omega
    · have hne : id ≠ m.id ∨ i ≠ pi := by
        by_cases h1 : id = m.id
        · right; intro h2; exact hsame ⟨h1, h2⟩
        · left; exact h1
      rw [pat?_setPat_other _ _ _ _ _ _ hne] at hq
      have hq' : s.pat? id i = some q := hq
      have hcq := hinv id i q hq' hmq
      have hd := hdis id i m.id pi q fm.pats[pi] hq' hpat hmq hmode hne
      rw [hcq]
      rcases hd with h | h <;> omega
  · -- ranges never change
    intro id i id' j p q hp hq hm1 hm2 hne
    rw [modeOf_setPat] at hm1 hm2
    have hpat' : ({ s with nextOrdered := s.nextOrdered + 1 } : Shared α ρ).pat? m.id pi = some fm.pats[pi] := hpat
    obtain ⟨p0, hp0, e1, e2⟩ := ranges_of_setPat _ m.id pi fm.pats[pi] _ hpat' id i p hp rfl rfl
    obtain ⟨q0, hq0, e3, e4⟩ := ranges_of_setPat _ m.id pi fm.pats[pi] _ hpat' id' j q hq rfl rfl
    have hp0' : patOf s.mockers id i = some p0 := hp0
    have hq0' : patOf s.mockers id' j = some q0 := hq0
    have := hdis id i id' j p0 q0 hp0' hq0' hm1 hm2 hne
    omega

/-- **C04, unordered and unmentioned calls are stuttering steps of the refinement**: they keep
    `CountInv` (no ordered pattern and not the global index is touched). -/
theorem C04_unordered_keeps_invariant (s : Shared α ρ) (m : MethodInfo) (a : α)
    (hmode : modeOf s.mockers m.id ≠ some .inOrder) (hinv : CountInv s) :
    CountInv (evalCall s m a).1 := by
  cases hf : s.find m.id with
  | none => rw [C04_unmentioned_no_slot s m a hf]; exact hinv
  | some fm =>
    have hm : fm.mode = .anyOrder := by
      have : modeOf s.mockers m.id = some fm.mode := by unfold modeOf; unfold Shared.find at hf; rw [hf]; rfl
      rw [this] at hmode
      cases hfm : fm.mode with
      | anyOrder => rfl
      | inOrder => rw [hfm] at hmode; exact absurd rfl hmode
    obtain ⟨hnext, hother⟩ := C04_unordered_no_slot s m a fm hf hm
    intro id i p hp hmo
    -- ordered methods are different methods: their patterns are untouched
    have hmodes : modeOf (evalCall s m a).1.mockers id = modeOf s.mockers id := by
      unfold evalCall
      simp only [hf, hm]
      cases scan fm.pats a 0 with
      | none => cases s.fallback <;> rfl
      | some r =>
        obtain ⟨pi, t⟩ := r
        cases t with
        | noMatcher => rfl
        | userPanic => rfl
        | accept =>
          simp only
          cases fm.pats[pi]? with
          | none => rfl
          | some q => exact modeOf_setPat s m.id pi id _
    rw [hmodes] at hmo
    have hne : id ≠ m.id := by
      intro he; subst he
      have : modeOf s.mockers m.id = some fm.mode := by unfold modeOf; unfold Shared.find at hf; rw [hf]; rfl
      rw [this, hm] at hmo; cases hmo
    rw [hother id i hne] at hp
    rw [hnext]
    exact hinv id i p hp hmo

/-- the slot-ownership test as written in `FnMocker::find_call_pattern_for_call_order` (regenerated from the
    source on every run by `tools/translate_counter.py`) is the model's `Pattern.owns` -/
theorem C04_source_slot_test (p : Pattern α ρ) (idx : Nat) :
    Generated.ownsSrc p.lo p.hi idx = decide (p.owns idx) := by
  unfold Generated.ownsSrc Pattern.owns
  by_cases h1 : p.lo ≤ idx <;> by_cases h2 : idx < p.hi <;> simp [h1, h2]

/-! ### slot allocation as the source has it (`MockAssembler::new_call_pattern`, re-translated into `Generated.slotAlloc`) -/

/-- only ordered patterns take slots of the global sequence, and an ordered pattern takes exactly its count, starting where
    the previous one ended; `isExact` is a don't-care for unordered patterns and forced for ordered ones (type-state, C14) -/
theorem C04_source_slot_allocation (ordered isExact : Bool) (cur n : Nat) (h : ordered = true → isExact = true) :
    Generated.slotAlloc ordered isExact cur n = if ordered then (cur, cur + n, cur + n) else (0, 0, cur) := by
  cases ordered <;> cases isExact <;> simp_all [Generated.slotAlloc]

/-- the model's `newPattern` allocates as the source does -/
theorem C04_source_new_pattern {α ρ} (a : Asm α ρ) (b : Builder α ρ) (h : b.mode = .inOrder → b.ex = .exact) :
    ((newPattern a b).2.lo, (newPattern a b).2.hi, (newPattern a b).1.cur) =
      Generated.slotAlloc (decide (b.mode = .inOrder)) (decide (b.ex = .exact)) a.cur (exactCalls b) := by
  rw [C04_source_slot_allocation _ _ _ _ (by simpa using h)]
  unfold newPattern
  by_cases hm : b.mode = .inOrder <;> simp [hm]

/-- non-vacuity: an unordered exactly-once pattern between two ordered ones takes no slot -/
example : Generated.slotAlloc false true 3 1 = (0, 0, 3) ∧ Generated.slotAlloc true true 3 2 = (3, 5, 5) := by decide


/-! ## source agreement: the `InOrder` arm of `Eval::match_call_pattern` and `bump_ordered_call_index` -/
section Source
open ScanSkel
variable {α ρ : Type}

/-- **C04, source agreement (statement list).** The `InOrder` block as translated from the current
    source claims the slot first — the counter moves by exactly one whatever the verdict — and judges
    the call against the pattern owning that slot only. -/
theorem C04_source_ordered_steps (find : Nat → Option Nat) (r : Nat → R) (next : Nat) :
    runO find r Generated.orderedSteps {} next = specO find r next := by
  unfold Generated.orderedSteps specO
  cases h : find next with
  | none => simp [runO, h]
  | some pi => cases hr : r pi <;> simp [runO, h, hr]

/-- **C04, source agreement (the counter).** `bump_ordered_call_index` is one `fetch_add(1, SeqCst)`:
    it returns the old value and leaves the counter one higher. -/
theorem C04_source_bump (next : Nat) :
    Generated.bumpSkel.run next = some (next, next + 1) ∧ Generated.bumpSkel.seqCst = true := by
  constructor <;> rfl

/-- **C04, source agreement (slot lookup).** `find_call_pattern_for_call_order` as read from the current source —
    its iteration (from `translate_scan.py`) applied to its ownership test (from `translate_counter.py`) — is the
    model's `findForOrder`: the first pattern in declaration order owning the slot. -/
theorem C04_source_find (ps : List (Pattern α ρ)) (idx : Nat) :
    Generated.findSkel.run (ps.map fun p => Generated.ownsSrc p.lo p.hi idx) = some (findForOrder ps idx) := by
  have hc : (Generated.findSkel.overCallPatterns ∧ Generated.findSkel.ownIndex ∧
      (Generated.findSkel.adaptors = [.iter, .enumerate, .find, .map] ∨
       Generated.findSkel.adaptors = [.iter, .enumerate, .forReturn] ∨
       Generated.findSkel.adaptors = [.iter, .position, .index])) := by decide
  unfold FindSkel.run findForOrder
  rw [if_pos hc]
  congr 1
  induction ps with
  | nil => rfl
  | cons p ps ih =>
    simp only [C04_source_slot_test, Pattern.owns] at ih ⊢
    simp only [List.map_cons, List.findIdx?_cons, id, ih]

theorem expGo_is_findSome (ms : List (FnMocker α ρ)) (idx k : Nat) :
    ExpSkel.run.go (ms.map fun m => (decide (m.mode = .inOrder), findForOrder m.pats idx)) k =
      (ms.zipIdx k).findSome? fun (m, j) =>
        if m.mode = .inOrder then (findForOrder m.pats idx).map (fun i => (j, i)) else none := by
  induction ms generalizing k with
  | nil => rfl
  | cons m ms ih =>
    simp only [List.map_cons, ExpSkel.run.go, List.zipIdx_cons, List.findSome?_cons]
    by_cases hm : m.mode = .inOrder
    · simp only [hm, decide_true, ↓reduceIte]
      cases findForOrder m.pats idx with
      | none => simpa using ih (k + 1)
      | some i => simp
    · simp only [hm, decide_false, Bool.false_eq_true, ↓reduceIte]
      exact ih (k + 1)

/-- **C04 / C19, source agreement (the expected pattern of an out-of-order call).**
    `find_ordered_expected_call_pattern_debug` as read from the current source names the first ordered mocker owning
    the claimed slot and the pattern `find_call_pattern_for_call_order` finds there — unordered mockers are skipped. -/
theorem C04_source_expected (s : Shared α ρ) (idx : Nat) :
    Generated.expectedSkel.run (s.mockers.map fun m => (decide (m.mode = .inOrder), findForOrder m.pats idx)) =
      some ((s.mockers.zipIdx 0).findSome? fun (m, j) =>
        if m.mode = .inOrder then (findForOrder m.pats idx).map (fun i => (j, i)) else none) := by
  have hc : (Generated.expectedSkel.overMockers ∧ Generated.expectedSkel.skipsUnordered ∧ Generated.expectedSkel.usesFind ∧
      Generated.expectedSkel.yieldsFound ∧
      (Generated.expectedSkel.shape = .findMap ∨ Generated.expectedSkel.shape = .forLoop ∨
       Generated.expectedSkel.shape = .filterFindMap)) := by decide
  unfold ExpSkel.run
  rw [if_pos hc, expGo_is_findSome]

/-- how an outcome of the source skeleton reads in the model -/
def agreesO (m : MethodInfo) (fm : FnMocker α ρ) (s' : Shared α ρ) : OOut → EvalOutcome ρ → Prop
  | .errCallOrder idx, out => out = .err (.callOrderNotMatched m idx (s'.findOrderedExpected idx))
  | .errInputs idx pi, out => out = .err (.inputsNotMatchedInCallOrder m idx pi)
  | .errPattern pi, out => out = .err (.noMatcherFunction m pi)
  | .unwound _, out => out = .userPanic
  | .selected pi, out => ∃ p, fm.pats[pi]? = some p ∧ out = (respond m pi p.responders p.count).2
  | .ill, _ => False

/-- **C04, the translated source is the model's ordered branch.** For every state, ordered method and
    argument, running the translated statement list with the model's slot lookup and matcher results
    gives the model's verdict and the model's counter. -/
theorem C04_source_ordered_is_model (s : Shared α ρ) (m : MethodInfo) (a : α) (fm : FnMocker α ρ)
    (hf : s.find m.id = some fm) (hm : fm.mode = .inOrder) :
    let res := runO (findForOrder fm.pats)
      (fun pi => match fm.pats[pi]? with | some p => ofTry (tryPat p a) | none => .e)
      Generated.orderedSteps {} s.nextOrdered
    (evalCall s m a).1.nextOrdered = res.2 ∧
    agreesO m fm { s with nextOrdered := s.nextOrdered + 1 } res.1 (evalCall s m a).2 := by
  simp only [C04_source_ordered_steps]
  unfold specO evalCall
  simp only [hf, hm]
  cases hfo : findForOrder fm.pats s.nextOrdered with
  | none => simp [agreesO]
  | some pi =>
    have hlt := (findForOrder_some fm.pats s.nextOrdered pi hfo).1
    simp only [List.getElem?_eq_getElem hlt]
    cases ht : tryPat fm.pats[pi] a with
    | none => simp [ofTry, agreesO]
    | some t =>
      cases t with
      | accept =>
        simp only [ofTry, agreesO]
        exact ⟨rfl, _, List.getElem?_eq_getElem hlt, rfl⟩
      | noMatcher => simp [ofTry, agreesO]
      | userPanic => simp [ofTry, agreesO]

/-- non-vacuity of the source-agreement theorems: concrete runs of the translated skeletons -/
example :
    Generated.findSkel.run [false, true, true] = some (some 1) ∧
    Generated.expectedSkel.run [(false, some 0), (true, none), (true, some 2)] = some (some (2, 2)) ∧
    runO (fun i => if i = 3 then some 1 else none) (fun _ => .f) Generated.orderedSteps {} 3 = (.errInputs 3 1, 4) ∧
    runO (fun _ => none) (fun _ => .t) Generated.orderedSteps {} 7 = (.errCallOrder 7, 8) ∧
    runO (fun _ => some 0) (fun _ => .t) Generated.orderedSteps {} 0 = (.selected 0, 1) := by decide

end Source

end Unimock
