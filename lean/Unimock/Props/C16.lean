import Unimock.Generated.Control
import Unimock.Lemmas.Gates
import Unimock.Model.Codegen.Method
import Unimock.Props.C07
/-!
# C16 — unmocking calls the registered real function with the mock as its dependency

Statement (properties.jsonl): when a call resolves to the real implementation, the function named in
unmock_with is invoked exactly once with the mock as first argument (or with the explicitly listed
parameter expressions) and the caller's arguments in order, and its result — awaited for async
methods — is returned unchanged; calls it makes back into mocked traits are evaluated by the same
mock. If no function was registered the call panics naming the method.
-/
namespace Unimock.Codegen

/-- **C16, the Unmock arm (receivers `&self`, `self`, `Rc<Self>`, `Arc<Self>`).** With `unmock_with=[f]`
    the arm calls `f(self, p0, …, pn)`; with `unmock_with=[f(e1, …, ek)]` it calls `f(e1, …, ek)`
    verbatim; the call is awaited iff the method is async (or returns `impl Future`); its value is the
    value of the arm. -/
theorem C16_unmock_arm_spec (s : MethodShape) :
    (genMethod s).unmock =
      match s.unmock with
      | .none => none
      | .path p => some (p, unmockSelf s.recv :: s.params.map (·.name), s.isAsync || s.rpit)
      | .listed p args => some (p, args.map (fun a => if a = "self" then unmockSelf s.recv else a), s.isAsync || s.rpit) := by
  simp only [genMethod, fnParam, dotAwait]
  cases s.unmock <;> rfl

/-- the receiver expression is the mock itself: `self` where the method body still owns it, the surrogate the body moved it
    into for `&mut self`, that surrogate re-pinned for `Pin<&mut Self>` -/
theorem C16_unmock_receiver (r : Recv) :
    unmockSelf r = (match r with | .mutRef => "__self" | .pinMut => "::core::pin::Pin::new(__self)" | _ => "self") := by
  cases r <;> rfl

/-- without a registered function there is no Unmock arm -/
theorem C16_no_function_no_arm (s : MethodShape) (h : s.unmock = .none) : (genMethod s).unmock = none := by
  simp only [genMethod, h]

/-- **C16 for `&mut self` and `Pin<&mut Self>` receivers** (after fix: commit "fix: generate the Unmock arm for `&mut self` and
    `Pin<&mut Self>` receivers"; formerly the known finding KF-C16-mut-receiver-unmock): a registered function gets its arm like
    for every other receiver -/
theorem C16_unmock_arm_present_for_mut (s : MethodShape) (h : isPolonius s.recv = true) (p : String) (hu : s.unmock = .path p) :
    (genMethod s).unmock = some (p, unmockSelf s.recv :: s.params.map (·.name), s.isAsync || s.rpit) := by
  simp [genMethod, hu, fnParam, dotAwait]

end Unimock.Codegen

namespace Unimock
variable {α ρ : Type}

/-- **C16, runtime side.** When evaluation yields the Unmock continuation, the generated body runs
    the registered real function exactly once (one `runProg` of `env.real`), on the *same* shared
    state, and its outcome is the outcome of the call; if the body has no Unmock arm the call panics
    with `CannotUnmock` naming the method, and the error is logged. -/
theorem C16_runtime_unmock (env : Env α ρ) (fuel lvl : Nat) (s s' : Shared α ρ) (m : MethodInfo) (a : α)
    (h : call s m a = (s', .contUnmock)) :
    callMethod env (fuel + 1) lvl s m a =
      (if m.unmockFn then runProg env fuel lvl s' (env.real m a)
       else ⟨s'.induce (.cannotUnmock m), [], .mockPanic (.cannotUnmock m), 0, 0⟩) := by
  rw [C07_continuations, h]


/-! ### the responder dispatch of `eval::eval` as the source has it (`Generated/Control.lean`) -/

/-- each `DynResponder` variant leads where the model says: `Unmock` to the real implementation, `ApplyDefaultImpl` to the
    default body, `Answer` to the answer function, `Panic` to the explicit-panic error, `Return` to a value or the single-use error -/
theorem C16_source_dispatch : ∀ v : Gates.RVariant, Generated.dispatch v = Gates.specDispatch v := by
  intro v; cases v <;> rfl

theorem C16_source_eval_result_dispatch :
    Generated.dispatchEvalUnmock = .contUnmock ∧ Generated.dispatchEvalCallDefault = .contDefault := ⟨rfl, rfl⟩

/-- hence the model's `respond` yields an outcome of the class the source dispatches the selected responder to -/
theorem C16_source_respond {ρ} (m : MethodInfo) (pi : Nat) (rs : List (Responder ρ)) (ci ri : Nat) (r : Responder ρ)
    (hf : findResponderIdx rs ci = some ri) (hr : rs[ri]? = some r) :
    fitsDisp (Generated.dispatch (variantOf r.resp)) (respond m pi rs ci).2 := by
  rw [C16_source_dispatch]; exact respond_fits_spec m pi rs ci ri r hf hr

end Unimock
