import Unimock.Lemmas.Verify
import Unimock.Lemmas.History
import Unimock.Generated.Counter
import Unimock.Lemmas.Builder
import Unimock.Model.Lifecycle
/-!
# C03 — verification fails exactly when an expectation is unmet, and names each one

Statement (properties.jsonl): when the original mock is verified (drop, verify() or report()) after
a history without mock-induced panics, it fails iff some pattern's match count violates its
quantifier (exactly n; at least n; at least n+1 after a trailing then) or some method mentioned in a
clause was never matched at all; otherwise it is silent. The failure text has one line for every
violated expectation, naming that pattern or method, and none for satisfied ones.
-/
namespace Unimock
variable {α ρ : Type}

/-- **C03, verdict.** Verification is silent iff every pattern's expectation is met and every
    mentioned method was matched at least once. -/
theorem C03_verify_iff (s : Shared α ρ) :
    verifyAll s = [] ↔
      ∀ fm ∈ s.mockers, (∀ p ∈ fm.pats, PatOk p) ∧ 0 < (fm.pats.map (·.count)).sum := by
  unfold verifyAll
  simp only [List.flatMap_eq_nil_iff, verifyMocker_nil_iff]

/-- **C03, one line per violated expectation, none for satisfied ones.** The errors of one method
    are: for each pattern whose count violates its quantifier, in declaration order, one
    `FailedVerification` naming that pattern (index / debug location), its bound and its actual
    count; then one `MockNeverCalled` naming the method iff its total is 0. -/
theorem C03_lines (fm : FnMocker α ρ) :
    verifyMocker fm =
      ((fm.pats.zipIdx.filter fun x => !countOk x.1).map fun x => patLine fm.info (x.2, x.1)) ++
      (if (fm.pats.map (·.count)).sum = 0 then [.mockNeverCalled fm.info] else []) := by
  unfold verifyMocker
  rw [← flatMap_verifyPat]

/-- the number of lines is the number of violated expectations -/
theorem C03_line_count (fm : FnMocker α ρ) :
    (verifyMocker fm).length =
      (fm.pats.filter fun p => !countOk p).length +
      (if (fm.pats.map (·.count)).sum = 0 then 1 else 0) := by
  rw [C03_lines]
  have : ((fm.pats.zipIdx.filter fun x => !countOk x.1)).length = (fm.pats.filter fun p => !countOk p).length := by
    generalize 0 = k
    induction fm.pats generalizing k with
    | nil => rfl
    | cons p t ih =>
      simp only [List.zipIdx_cons, List.filter_cons]
      cases countOk p <;> simp [ih]
  simp only [List.length_append, List.length_map, this]
  split <;> rfl

/-- **C03, which quantifier is checked**: `exactly n`, `at least n`, `at least n+1`. -/
theorem C03_quantifier_meaning (p : Pattern α ρ) :
    (countOk p = true ↔ PatOk p) ∧
    (p.ex = .exact → (PatOk p ↔ p.count = p.min)) ∧
    (p.ex = .atLeast → (PatOk p ↔ p.min ≤ p.count)) ∧
    (p.ex = .atLeastPlusOne → (PatOk p ↔ p.min + 1 ≤ p.count)) := by
  refine ⟨countOk_iff p, ?_, ?_, ?_⟩ <;> intro h <;> unfold PatOk <;> rw [h]

/-- exactness resulting from a chain -/
def chainExactness (tl : Bool) (mode : Mode) (init : Exactness) : List (Segment ρ) → Exactness
  | [] => init
  | [s] =>
    match s.quant with
    | .once | .nTimes _ => .exact
    | .atLeastTimes _ => .atLeast
    | .unquantified => if implicitOnce tl mode s.viaQRV then .exact else init
  | _ :: t => chainExactness tl mode .atLeastPlusOne t

theorem applyQuant_ex (b : Builder α ρ) (tl : Bool) (s : Segment ρ) :
    (b.applyQuant tl s).ex = chainExactness tl b.mode b.ex [s] := by
  unfold Builder.applyQuant chainExactness Builder.quantify
  cases s.quant with
  | once => rfl
  | nTimes n => rfl
  | atLeastTimes n => rfl
  | unquantified => simp only; split <;> rfl

/-- **C03, the expectation a quantifier chain produces** (closed form): the minimum is the sum of
    the segment counts (an unquantified last segment adds 1 exactly when it is implicitly `once`),
    and the exactness is decided by the last segment: `exact` for `once`/`n_times`, `atLeast` for
    `at_least_times`, and for an unquantified last segment `exact` when implicitly once, otherwise
    `atLeastPlusOne` after a `then` and the initial `atLeast` (minimum 0) for a lone segment. -/
theorem C03_expectation_of_chain (b : Builder α ρ) (tl : Bool) (segs : List (Segment ρ)) :
    (buildChain b tl segs).min = b.min + (segs.map (Segment.advance tl b.mode)).sum ∧
    (buildChain b tl segs).ex = chainExactness tl b.mode b.ex segs := by
  refine ⟨(buildChain_responders b tl segs).2.2.1, ?_⟩
  induction segs generalizing b with
  | nil => rfl
  | cons s t ih =>
    cases t with
    | nil =>
      simp only [buildChain, Builder.segment, ↓reduceIte]
      rw [applyQuant_ex]; rfl
    | cons s2 t2 =>
      have := ih (b.segment tl s false)
      simp only [buildChain] at this ⊢
      rw [this, segment_mode]
      simp [chainExactness, Builder.segment, Builder.then_]

/-- **C03, teardown forwards to verification.** When the original instance is torn down on its
    creator thread, not while unwinding, with no clone alive and an empty error log, the result
    is exactly the verification verdict. -/
theorem C03_teardown_verdict (w : World α ρ) (x : Inst) (t : Nat) (m : MockSt α ρ)
    (horig : x.original = true) (hstrong : w.strong x.sh ≤ 1) (hm : w.mocks[x.sh]? = some m)
    (ht : t = m.creator) (hr : m.shared.reasons = []) :
    teardownVerdict w x t false =
      (if (verifyAll m.shared).isEmpty then .ok else .errs (verifyAll m.shared)) := by
  unfold teardownVerdict
  have h1 : ¬ (w.strong x.sh > 1) := by omega
  simp [horig, h1, hm, ht, hr]

/-- non-vacuity: a state with one satisfied and one violated expectation yields exactly one line -/
example :
    let p0 : Pattern Nat Int := ⟨none, none, [], 0, 0, 2, .exact, 2⟩
    let p1 : Pattern Nat Int := ⟨none, none, [], 0, 0, 1, .atLeastPlusOne, 1⟩
    let m : MethodInfo := ⟨0, "T", "f", false, false, false⟩
    verifyMocker (⟨m, .anyOrder, [p0, p1]⟩ : FnMocker Nat Int) = [.failedVerification m 1 true 2 1] := by
  decide

/-! ## "match count" means what it says: counters along a history -/

/-- **C03, a pattern's counter is the number of calls it answered.** For every state and every history
    of calls (whatever their outcomes — answered, rejected, mock-induced or user panics), the counter of
    pattern `(id, pi)` grows by exactly the number of calls of method `id` that were matched by that
    pattern: unordered, the first pattern whose matcher accepts (C01); ordered, the owner of the current
    slot when its matcher accepts (C04). No call is counted for a pattern that did not answer it. -/
theorem C03_counts_are_matches (s : Shared α ρ) (calls : List (MethodInfo × α)) (id pi : Nat) :
    (runCalls s calls).countOf id pi = s.countOf id pi + matchCount id pi s calls :=
  runCalls_countOf s calls id pi

/-- … read at the table entry verification inspects: in a mock with distinct method ids whose counters
    start at 0, after any history every pattern's `count` is its number of matches in that history —
    so `C03_verify_iff` is a statement about the history. -/
theorem C03_final_count_is_matches (s0 : Shared α ρ) (hu : s0.UniqueIds) (calls : List (MethodInfo × α))
    (h0 : ∀ id pi, s0.countOf id pi = 0)
    (fm : FnMocker α ρ) (hm : fm ∈ (runCalls s0 calls).mockers) (pi : Nat) (p : Pattern α ρ)
    (hp : fm.pats[pi]? = some p) : p.count = matchCount fm.info.id pi s0 calls := by
  have hu' := uniqueIds_runCalls s0 calls hu
  rw [← countOf_of_mem (runCalls s0 calls) hu' fm hm pi p hp, C03_counts_are_matches, h0]
  omega

/-- non-vacuity: three calls, two of them matched by pattern 0 (first match wins over the catch-all) -/
example :
    let mi : MethodInfo := ⟨7, "T", "f", false, false, false⟩
    let p0 : Pattern Nat Int := ⟨some (fun a => some (a == 1)), none, [⟨0, .ret 5 false, false⟩], 0, 0, 0, .atLeast, 0⟩
    let p1 : Pattern Nat Int := ⟨some (fun _ => some true), none, [⟨0, .ret 6 false, false⟩], 0, 0, 0, .atLeast, 0⟩
    let s : Shared Nat Int := ⟨.error, [⟨mi, .anyOrder, [p0, p1]⟩], 0, []⟩
    matchCount 7 0 s [(mi, 1), (mi, 2), (mi, 1)] = 2 ∧ matchCount 7 1 s [(mi, 1), (mi, 2), (mi, 1)] = 1 := by decide

/-! ## the verification conditions as written in the source

`Generated/Counter.lean` is produced on every run by `tools/translate_counter.py` from the text of
`CallCountExpectation::lower_bound`, `CallCounter::verify` (src/counter.rs) and `FnMocker::verify`
(src/fn_mocker.rs). The model's `lowerBound` / `countOk` / never-called test — which all theorems above are
about — are proved equal to those translations. -/

theorem C03_source_lower_bound (min : Nat) (ex : Exactness) : Generated.lowerBoundSrc min ex = lowerBound min ex := by
  cases ex <;> simp [Generated.lowerBoundSrc, lowerBound]

theorem C03_source_verify_condition (p : Pattern α ρ) :
    Generated.verifyFailsSrc p.count (Generated.lowerBoundSrc p.min p.ex) p.ex = !countOk p := by
  rw [C03_source_lower_bound]
  unfold countOk
  cases h : p.ex <;> simp only [Generated.verifyFailsSrc, lowerBound]
  · by_cases hc : p.count = p.min <;> simp [hc]
  · by_cases hc : p.min ≤ p.count
    · simp [hc, Nat.not_lt.2 hc]
    · simp [hc, Nat.lt_of_not_le hc]
  · by_cases hc : p.min + 1 ≤ p.count
    · simp [hc, Nat.not_lt.2 hc]
    · simp [hc, Nat.lt_of_not_le hc]

theorem C03_source_never_called (fm : FnMocker α ρ) :
    Generated.neverCalledSrc ((fm.pats.map (·.count)).sum) = decide ((fm.pats.map (·.count)).sum = 0) := by
  simp [Generated.neverCalledSrc]

end Unimock
