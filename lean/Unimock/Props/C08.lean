import Unimock.Generated.Control
import Unimock.Lemmas.State
import Unimock.Model.Lifecycle
import Unimock.Props.C18
/-!
# C08 — a mock-induced panic anywhere makes final verification fail with that error

Statement (properties.jsonl): whenever the mock itself panics during a call (no matching pattern,
order violation, exhausted single-use value, explicit panics(), missing unmock or default
implementation), the error is remembered in the state shared by all clones: even if the panic is
swallowed by catch_unwind or happened on another thread, verifying the original instance fails and
its message contains the text of every such error. Panics raised by user code (answer functions,
matchers, real implementations) are not recorded and leave verification to judge the counts.
-/
namespace Unimock
variable {α ρ : Type}

theorem evalCall_reasons (s : Shared α ρ) (m : MethodInfo) (a : α) :
    (evalCall s m a).1.reasons = s.reasons := by
  unfold evalCall
  cases s.find m.id with
  | none =>
    simp only
    split
    · rfl
    · split
      · rfl
      · cases s.fallback <;> rfl
  | some fm =>
    simp only
    cases fm.mode with
    | anyOrder =>
      simp only
      cases scan fm.pats a 0 with
      | none => cases s.fallback <;> rfl
      | some r =>
        obtain ⟨pi, t⟩ := r
        cases t with
        | noMatcher => rfl
        | userPanic => rfl
        | accept => simp only; cases fm.pats[pi]? <;> rfl
    | inOrder =>
      simp only
      cases findForOrder fm.pats s.nextOrdered with
      | none => rfl
      | some pi =>
        simp only
        cases fm.pats[pi]? with
        | none => rfl
        | some p =>
          simp only
          cases tryPat p a with
          | none => rfl
          | some t => cases t <;> rfl

/-- **C08, `eval` logs exactly its own error.** After `handle_error`, the shared log is the old log
    plus the error of this call iff the call failed with a mock error; every other outcome
    (value, continuation, user panic inside a matcher) leaves the log unchanged. -/
theorem C08_call_logs (s : Shared α ρ) (m : MethodInfo) (a : α) :
    (call s m a).1.reasons =
      s.reasons ++ (match (call s m a).2 with | .err e => [e] | _ => []) := by
  unfold call
  have h := evalCall_reasons s m a
  rcases hev : evalCall s m a with ⟨s', o⟩
  rw [hev] at h
  simp only at h
  cases o <;> simp [Shared.induce, h]

/-- what a whole method call (including everything user code does underneath) adds to the log -/
def loggedBy (o : CallOutcome ρ) : List MockError :=
  match o with
  | .mockPanic e => [e]
  | _ => []

/-- **C08, a call logs exactly the mock-induced error it panics with.** For every call of a generated
    method — through any depth of answer functions, real implementations and default bodies calling
    back into the mock — the shared log afterwards is the log before plus: the mock error the call
    panicked with, if it panicked with one; nothing if it returned or if *user code* panicked. -/
theorem C08_method_call_logs (env : Env α ρ) (fuel : Nat) :
    (∀ lvl (s : Shared α ρ) m a,
      (callMethod env fuel lvl s m a).shared.reasons = s.reasons ++ loggedBy (callMethod env fuel lvl s m a).out) ∧
    (∀ lvl (s : Shared α ρ) (p : Prog α ρ),
      (runProg env fuel lvl s p).shared.reasons = s.reasons ++ loggedBy (runProg env fuel lvl s p).out) := by
  induction fuel with
  | zero =>
    constructor
    · intro lvl s m a; simp [callMethod, loggedBy]
    · intro lvl s p; cases p with
      | done r => cases r <;> simp [runProg, loggedBy]
      | call m a k => simp [runProg, loggedBy]
      | log e k => simp [runProg, loggedBy]
      | park k => simp [runProg, loggedBy]
  | succ fuel ih =>
    obtain ⟨ihc, ihp⟩ := ih
    constructor
    · intro lvl s m a
      rw [callMethod]
      have hl := C08_call_logs s m a
      rcases hc : call s m a with ⟨s', o⟩
      rw [hc] at hl
      simp only at hl
      cases o with
      | ret v => simpa [loggedBy] using hl
      | err e => simpa [loggedBy] using hl
      | userPanic => simpa [loggedBy] using hl
      | contAnswer f =>
        simp only at hl ⊢
        rw [ihp, hl]; simp
      | contUnmock =>
        simp only at hl ⊢
        split
        · rw [ihp, hl]; simp
        · simp [loggedBy, Shared.induce, hl]
      | contDefault =>
        simp only at hl ⊢
        split
        · simp only; rw [ihp, hl]; simp
        · simp [loggedBy, Shared.induce, hl]
    · intro lvl s p
      cases p with
      | done r => cases r <;> simp [runProg, loggedBy]
      | log e k => simp only [runProg]; exact ihp lvl s k
      | park k => simp only [runProg]; exact ihp lvl s k
      | call m a k =>
        simp only [runProg]
        have h1 := ihc lvl s m a
        cases ho : (callMethod env fuel lvl s m a).out with
        | ret v =>
          simp only
          rw [ihp, h1, ho]; simp [loggedBy]
        | mockPanic e => simp only; rw [h1, ho]
        | userPanic => simp only; rw [h1, ho]
        | outOfFuel => simp only; rw [h1, ho]

/-- **C08, user-code panics are not recorded.** -/
theorem C08_user_panic_not_recorded (env : Env α ρ) (fuel lvl : Nat) (s : Shared α ρ) (m : MethodInfo) (a : α)
    (h : (callMethod env fuel lvl s m a).out = .userPanic) :
    (callMethod env fuel lvl s m a).shared.reasons = s.reasons := by
  rw [(C08_method_call_logs env fuel).1, h]; simp [loggedBy]

/-- **C08, a mock-induced panic is recorded**, whether or not anybody catches it. -/
theorem C08_mock_panic_recorded (env : Env α ρ) (fuel lvl : Nat) (s : Shared α ρ) (m : MethodInfo) (a : α)
    (e : MockError) (h : (callMethod env fuel lvl s m a).out = .mockPanic e) :
    (callMethod env fuel lvl s m a).shared.reasons = s.reasons ++ [e] := by
  rw [(C08_method_call_logs env fuel).1, h]; rfl

/-- **C08, final verification forwards the log.** When the original reaches the decision (on its
    creator thread, not unwinding, no clone alive) with a non-empty log, verification fails with
    exactly the logged errors — whatever the counters say. -/
theorem C08_teardown_forwards (w : World α ρ) (x : Inst) (t : Nat) (m : MockSt α ρ)
    (horig : x.original = true) (hstrong : w.strong x.sh ≤ 1) (hm : w.mocks[x.sh]? = some m)
    (ht : t = m.creator) (hr : m.shared.reasons ≠ []) :
    teardownVerdict w x t false = .errs m.shared.reasons := by
  unfold teardownVerdict
  have h1 : ¬ (w.strong x.sh > 1) := by omega
  have h2 : m.shared.reasons.isEmpty = false := by
    cases hrs : m.shared.reasons with
    | nil => exact absurd hrs hr
    | cons _ _ => rfl
  simp [horig, h1, hm, ht, h2]

/-! ## the error log along arbitrary histories of a whole world (instances, clones, threads) -/

/-- every mock of `w` is still there in `w'`, created by the same thread, and its error log has only grown -/
def LogLe (w w' : World α ρ) : Prop :=
  ∀ (k : Nat) (m : MockSt α ρ), w.mocks[k]? = some m →
    ∃ m' : MockSt α ρ, w'.mocks[k]? = some m' ∧ m'.creator = m.creator ∧ m.shared.reasons <+: m'.shared.reasons

theorem LogLe.refl (w : World α ρ) : LogLe w w := fun _ m h => ⟨m, h, rfl, List.prefix_refl _⟩

theorem LogLe.trans {a b c : World α ρ} (h1 : LogLe a b) (h2 : LogLe b c) : LogLe a c := by
  intro k m hm
  obtain ⟨m1, hm1, hc1, hp1⟩ := h1 k m hm
  obtain ⟨m2, hm2, hc2, hp2⟩ := h2 k m1 hm1
  exact ⟨m2, hm2, hc2.trans hc1, hp1.trans hp2⟩

theorem LogLe.of_mocks_eq {w w' : World α ρ} (h : w'.mocks = w.mocks) : LogLe w w' := by
  intro k m hm; exact ⟨m, by rw [h]; exact hm, rfl, List.prefix_refl _⟩

theorem setInst_mocks' (w : World α ρ) (i : Nat) (x : Inst) : (w.setInst i x).mocks = w.mocks := by
  unfold World.setInst; split <;> rfl

theorem free_mocks (w : World α ρ) (i : Nat) : (w.free i).mocks = w.mocks := by
  unfold World.free; split
  · rfl
  · exact setInst_mocks' _ _ _

theorem dropInst_mocks (w : World α ρ) (i t : Nat) (p : Bool) : (dropInst w i t p).1.mocks = w.mocks := by
  unfold dropInst
  split
  · rfl
  · split
    · exact free_mocks _ _
    · split
      · simp only; rw [free_mocks]; exact setInst_mocks' _ _ _
      · exact free_mocks _ _

theorem dropAllUnwinding_mocks (w : World α ρ) (t : Nat) (is : List Nat) : (dropAllUnwinding w t is).1.mocks = w.mocks := by
  induction is generalizing w with
  | nil => rfl
  | cons i is ih =>
    simp only [dropAllUnwinding]
    rw [ih, dropInst_mocks]

/-- a call through instance of mock `sh` only appends to that mock's log -/
theorem setShared_logLe (w : World α ρ) (sh : Nat) (ms : MockSt α ρ) (s' : Shared α ρ)
    (hms : w.mocks[sh]? = some ms) (hp : ms.shared.reasons <+: s'.reasons) : LogLe w (w.setShared sh s') := by
  intro k m hm
  unfold World.setShared
  simp only [List.getElem?_map, List.getElem?_zipIdx, hm, Option.map_some, Nat.zero_add]
  by_cases hk : k = sh
  · subst hk
    rw [hms] at hm; cases hm
    exact ⟨{ ms with shared := s' }, by simp, rfl, hp⟩
  · exact ⟨m, by simp [hk], rfl, List.prefix_refl _⟩

theorem callMethod_log_prefix (env : Env α ρ) (fuel lvl : Nat) (s : Shared α ρ) (m : MethodInfo) (a : α) :
    s.reasons <+: (callMethod env fuel lvl s m a).shared.reasons := by
  rw [(C08_method_call_logs env fuel).1]; exact List.prefix_append _ _

/-- **C08, the error log of every mock is append-only under every event** — build, call (through any instance, on
    any thread), clone, drop (also while unwinding), verify, report, no_verify_in_drop, by-value consumption. -/
theorem C08_step_log_append_only (env : Env α ρ) (w : World α ρ) (e : Event α ρ) : LogLe w (step env w e).1 := by
  have hcall : ∀ (x : Inst) (ms : MockSt α ρ) (m : MethodInfo) (a : α), w.mocks[x.sh]? = some ms →
      LogLe w (w.setShared x.sh (callMethod env fuelDefault 0 ms.shared m a).shared) :=
    fun x ms m a hms => setShared_logLe w x.sh ms _ hms (callMethod_log_prefix env fuelDefault 0 ms.shared m a)
  cases e with
  | build i t fb c =>
    simp only [step]
    cases newMock fb c with
    | error e => exact LogLe.refl w
    | ok s =>
      simp only
      intro k m hm
      refine ⟨m, ?_, rfl, List.prefix_refl _⟩
      rw [setInst_mocks']
      simp only
      rw [List.getElem?_append_left (List.getElem?_eq_some_iff.1 hm).1]
      exact hm
  | call i t m a =>
    simp only [step]
    cases hi : w.inst? i with
    | none => exact LogLe.refl w
    | some x =>
      simp only
      split
      · exact LogLe.refl w
      · cases hms : w.mocks[x.sh]? with
        | none => exact LogLe.refl w
        | some ms =>
          simp only
          exact (hcall x ms m a hms).trans (LogLe.of_mocks_eq (setInst_mocks' _ _ _))
  | clone i j => exact LogLe.of_mocks_eq (C18_lifecycle_events_keep_shared env w i j 0 false).1
  | drop i t p => exact LogLe.of_mocks_eq (C18_lifecycle_events_keep_shared env w i 0 t p).2.1
  | verify i t => exact LogLe.of_mocks_eq (C18_lifecycle_events_keep_shared env w i 0 t false).2.2.1
  | noVerify i t => exact LogLe.of_mocks_eq (C18_lifecycle_events_keep_shared env w i 0 t false).2.2.2.1
  | report i t => exact LogLe.of_mocks_eq (C18_lifecycle_events_keep_shared env w i 0 t false).2.2.2.2
  | unwindCall i t m a also =>
    simp only [step]
    cases hi : w.inst? i with
    | none => exact LogLe.refl w
    | some x =>
      simp only
      split
      · exact LogLe.refl w
      · cases hms : w.mocks[x.sh]? with
        | none => exact LogLe.refl w
        | some ms =>
          simp only
          refine (hcall x ms m a hms).trans (LogLe.of_mocks_eq ?_)
          rw [dropAllUnwinding_mocks]; exact setInst_mocks' _ _ _
  | consume i t m a =>
    simp only [step]
    cases hi : w.inst? i with
    | none => exact LogLe.refl w
    | some x =>
      simp only
      split
      · exact LogLe.refl w
      · cases hms : w.mocks[x.sh]? with
        | none => exact LogLe.refl w
        | some ms =>
          simp only
          refine (hcall x ms m a hms).trans (LogLe.of_mocks_eq ?_)
          rw [dropInst_mocks]; exact setInst_mocks' _ _ _

/-- **C08 for every history.** Whatever happens afterwards — any events on any instances and threads — an error
    that has been recorded stays in the log of its mock (and with `C08_teardown_forwards`: the original's verification
    then fails with it). -/
theorem C08_log_append_only (env : Env α ρ) (w : World α ρ) (evs : List (Event α ρ)) : LogLe w (run env w evs).1 := by
  induction evs generalizing w with
  | nil => exact LogLe.refl w
  | cons e es ih =>
    simp only [run]
    exact (C08_step_log_append_only env w e).trans (ih _)

/-! ### the error path as the source has it (`Generated/Control.lean`, re-translated on every run) -/

/-- every `Err` of `eval::eval` is handed by `private::eval` to `handle_error`, which hands it to `induce_panic`, whose
    statement list records the error in the shared log *before* it panics, and panics with the error's own text — with no
    condition on either step -/
theorem C08_source_error_path :
    Generated.evalHandlesError = true ∧ Generated.handleErrorInduces = true ∧
    Gates.runE Generated.inducePanicSteps false false = some (true, true) := by decide

/-- a continuation the generated method body cannot serve (no answer function run, no real function registered, no default
    body) is reported through the same `induce_panic`, as the error of its kind -/
theorem C08_source_report_path :
    Generated.reportInduces = true ∧ ∀ c, Generated.reportError c = Gates.specReportError c :=
  ⟨rfl, fun c => by cases c <;> rfl⟩

/-- the forwarding gate of `teardown` as the source has it: an original that reaches the decision with a non-empty log
    reports the log, whatever the counters say (read off the re-translated statement list) -/
theorem C08_source_teardown_forwards (o : Gates.Obs) (h1 : o.original = true) (h2 : o.panicking = false)
    (h3 : o.others = false) (h4 : o.otherThread = false) (h5 : o.reasons = true) :
    (Gates.run Generated.teardownSteps o {}).1 = .errsReasons := by
  obtain ⟨a, b, c, d, e, f, g, k⟩ := o
  simp only at h1 h2 h3 h4 h5; subst h1 h2 h3 h4 h5
  cases d <;> cases e <;> cases k <;> rfl

/-- the two responder kinds that can make the mock itself panic — an explicit `panics(..)` and an exhausted single-use value —
    leave `eval::eval` as `Err(MockError::…)`, i.e. through the recording path above, not as a direct `panic!` -/
theorem C08_source_responder_errors_are_errors :
    Generated.dispatch .panic = .errExplicitPanic ∧ Generated.dispatch .ret = .returnOrCannotReturnTwice := ⟨rfl, rfl⟩

/-! ### the same path as compiled WITHOUT the std feature (`Generated.teardownStepsNoStd`, `Generated.inducePanicStepsNoStd`) -/

/-- without std, `induce_panic` still records before it panics with the error's text, and the flag it sets is the one of the
    instance the call was made on — a clone's panic leaves the original's flag alone -/
theorem C08_source_nostd_error_path :
    Gates.runE Generated.inducePanicStepsNoStd false false = some (true, true) ∧
    Gates.setsOwnFlag Generated.inducePanicStepsNoStd = true := by decide

/-- hence errors induced through clones are reported: an original whose own flag is clear (`panicking = false` in the no_std
    reading), with no clone left alive and a non-empty log, reports the log — there is no thread check without std -/
theorem C08_source_nostd_clone_errors_reported (o : Gates.Obs) (h1 : o.original = true) (h2 : o.panicking = false)
    (h3 : o.others = false) (h5 : o.reasons = true) :
    (Gates.run Generated.teardownStepsNoStd o {}).1 = .errsReasons := by
  obtain ⟨a, b, c, d, e, f, g, k⟩ := o
  simp only at h1 h2 h3 h5; subst h1 h2 h3 h5
  cases d <;> cases e <;> cases f <;> cases k <;> rfl

end Unimock
