import Unimock.Generated.Mirrors
import Unimock.Model.Render
import Unimock.Generated.Counter
import Unimock.Model.Codegen.Matching
import Unimock.Model.Codegen.Method
/-!
# C19 — panic messages identify the call, its arguments and the pattern involved

Statement (properties.jsonl): every mock-induced panic message about a call names it as Trait::method
and — except for the missing real/default implementation errors — renders it as Trait::method(args),
args being the Debug renderings of the actual arguments in declaration order ('?' for types without
Debug); when a specific pattern is involved it is named by its source text and the file:line of its
matching! invocation. For guard-free single-alternative patterns the mismatch report lists exactly the
argument positions whose sub-pattern rejected the actual value, each with that value.
-/
namespace Unimock.Render

/-- **C19, the call is rendered as `Trait::method(arg, arg, …)`** with `?` for arguments without
    `Debug`, in the order given. -/
theorem C19_call_rendering (p : Path) (args : List (Option String)) :
    renderCall p args = p.trait ++ "::" ++ p.method ++ "(" ++ ", ".intercalate (args.map (·.getD "?")) ++ ")" := rfl

/-- **C19, every message about a call starts with that call's rendering.** -/
theorem C19_error_names_call (m : Msg) (p : Path) (a : List (Option String)) (h : m.call? = some (p, a)) :
    ∃ rest, render m = renderCall p a ++ rest := by
  cases m <;> simp [Msg.call?] at h <;> obtain ⟨rfl, rfl⟩ := h <;> simp only [render, String.append_assoc] <;> exact ⟨_, rfl⟩

theorem starts_with_self (a b : String) : ∃ pre rest, a ++ b = pre ++ (a ++ rest) := ⟨"", b, by simp⟩

/-- **C19, every message names its method as `Trait::method`** (the three errors about missing
    implementations name the path only, no argument list). -/
theorem C19_error_names_path (m : Msg) :
    (∃ pre rest, render m = pre ++ (m.path.render ++ rest)) := by
  cases m <;> simp only [render, renderCall, Msg.path, String.append_assoc]
  all_goals first
    | exact starts_with_self _ _
    | exact ⟨"Mock for ", _, rfl⟩

/-- **C19, the pattern involved is named by source text and `file:line`** (or by its index when the
    matcher registered no debug info). -/
theorem C19_error_names_pattern (m : Msg) (p : Path) (pat : PatLoc) (h : m.pattern? = some (p, pat)) :
    ∃ pre rest, render m = pre ++ renderPattern p pat ++ rest := by
  cases m with
  | noMatcherFunction q a pt =>
    simp [Msg.pattern?] at h; obtain ⟨rfl, rfl⟩ := h
    exact ⟨renderCall q a ++ ": No function supplied for matching inputs for ", ".", by simp only [render, String.append_assoc]⟩
  | noOutputAvailable q a pt =>
    simp [Msg.pattern?] at h; obtain ⟨rfl, rfl⟩ := h
    exact ⟨renderCall q a ++ ": No output available for after matching ", ".", by simp only [render, String.append_assoc]⟩
  | wrongOrder q a ep pt =>
    simp [Msg.pattern?] at h; obtain ⟨rfl, rfl⟩ := h
    exact ⟨renderCall q a ++ ": Method matched in wrong order. Expected a call matching ", ".", by simp only [render, String.append_assoc]⟩
  | inputsNotMatched q a o pt =>
    simp [Msg.pattern?] at h; obtain ⟨rfl, rfl⟩ := h
    exact ⟨renderCall q a ++ ": Method invoked in the correct order (" ++ toString (o + 1) ++ "), but inputs didn't match ", ". ",
      by simp only [render, String.append_assoc]⟩
  | cannotReturnTwice q a pt =>
    simp [Msg.pattern?] at h; obtain ⟨rfl, rfl⟩ := h
    exact ⟨renderCall q a ++ ": Cannot return value more than once from ",
      ", because of missing Clone bound. Try using `.each_call()` or explicitly quantifying the response.",
      by simp only [render, String.append_assoc]⟩
  | explicitPanic q a pt msg =>
    simp [Msg.pattern?] at h; obtain ⟨rfl, rfl⟩ := h
    exact ⟨renderCall q a ++ ": Explicit panic from ", ": " ++ msg, by simp only [render, String.append_assoc]⟩
  | failedVerification q pt ex bd act =>
    simp [Msg.pattern?] at h; obtain ⟨rfl, rfl⟩ := h
    exact ⟨q.render ++ ": Expected ",
      " to match " ++ (if ex then "exactly " else "at least ") ++ renderNCalls bd ++ ", but it actually matched " ++ renderNCalls act ++ ".",
      by simp only [render, String.append_assoc]⟩
  | noMockImplementation q a => simp [Msg.pattern?] at h
  | noMatchingCallPatterns q a => simp [Msg.pattern?] at h
  | outOfRange q a o => simp [Msg.pattern?] at h
  | cannotUnmock q => simp [Msg.pattern?] at h
  | noDefaultImpl q => simp [Msg.pattern?] at h
  | notAnswered q => simp [Msg.pattern?] at h
  | mockNeverCalled q => simp [Msg.pattern?] at h

theorem C19_pattern_rendering (p : Path) (src file : String) (line i : Nat) :
    renderPattern p (.debug src file line) = p.trait ++ "::" ++ p.method ++ src ++ " at " ++ file ++ ":" ++ toString line ∧
    renderPattern p (.index i) = "call pattern " ++ p.trait ++ "::" ++ p.method ++ "[#" ++ toString i ++ "]" := by
  simp [renderPattern, Path.render, String.append_assoc]

/-- `impl Display for NCalls` as written in src/counter.rs (regenerated on every run) is the model's rendering of
    call counts in verification messages -/
theorem C19_source_ncalls (n : Nat) : Generated.nCallsSrc n = renderNCalls n := by
  first
    | rfl
    | (unfold Generated.nCallsSrc renderNCalls; split <;> simp)

end Unimock.Render

namespace Unimock.Matching

theorem elemReports_iff (e : Elem) (v : V) : elemReports e v = !elemAccepts e v := by
  cases e with
  | pat p => cases p <;> simp [elemReports, elemAccepts, matchP]
  | cmp isEq c => simp [elemReports]

theorem diagPositions_mem (alt : List Elem) (args : List V) (base i : Nat) :
    i ∈ diagPositions alt args base ↔
      ∃ k, i = base + k ∧ ∃ (h1 : k < alt.length) (h2 : k < args.length),
        elemAccepts alt[k] args[k] = false := by
  induction alt generalizing args base with
  | nil => simp [diagPositions]
  | cons e es ih =>
    cases args with
    | nil => simp [diagPositions]
    | cons v vs =>
      simp only [diagPositions, List.mem_append, ih vs (base + 1), elemReports_iff]
      constructor
      · rintro (h | ⟨k, rfl, h1, h2, hk⟩)
        · by_cases ha : elemAccepts e v = true
          · simp [ha] at h
          · simp [ha] at h
            exact ⟨0, by omega, by simp, by simp, by simpa using ha⟩
        · exact ⟨k + 1, by omega, by simp; omega, by simp; omega, by simpa using hk⟩
      · rintro ⟨k, rfl, h1, h2, hk⟩
        cases k with
        | zero =>
          left
          simp only [List.getElem_cons_zero] at hk
          simp [hk]
        | succ k =>
          right
          exact ⟨k, by omega, by simpa using h1, by simpa using h2, by simpa using hk⟩

/-- **C19, the mismatch report lists exactly the rejecting positions.** For a guard-free
    single-alternative `matching!` input that rejects the arguments with diagnostics enabled, the
    reporter receives position `i` iff the sub-pattern (or `eq!`/`ne!` comparison) at position `i`
    rejects the actual value — wildcards and accepting positions are never reported. -/
theorem C19_diagnostics_positions (alt : List Elem) (args : List V)
    (hrej : specAccept ⟨[alt], none⟩ args = false) (i : Nat) :
    i ∈ (evalIR (generate ⟨[alt], none⟩) args true).2 ↔
      ∃ (h1 : i < alt.length) (h2 : i < args.length), elemAccepts alt[i] args[i] = false := by
  have hacc : (altAccepts alt args && evalG (altEnv alt args) G.tt) = false := by
    simpa [specAccept] using hrej
  simp only [evalIR, generate, List.isEmpty_cons, Bool.false_eq_true, ↓reduceIte, List.map_cons, List.map_nil,
    List.getLast?_singleton, List.cons_append, List.nil_append, evalArms, Option.getD_none, hacc]
  rw [diagPositions_mem]
  constructor
  · rintro ⟨k, rfl, h1, h2, hk⟩; exact ⟨by simpa using h1, by simpa using h2, by simpa using hk⟩
  · rintro ⟨h1, h2, hk⟩; exact ⟨i, by omega, h1, h2, hk⟩

end Unimock.Matching

namespace Unimock.Codegen

/-- **C19, `debug_inputs` yields one entry per non-receiver parameter, in declaration order**, each
    dereferenced down to the value (`&*` through `&mut`; slices as they are). -/
theorem C19_debug_inputs_positions (s : MethodShape) :
    (genMockFn s).debugExprs = s.params.map debugExpr ∧ (genMockFn s).debugExprs.length = s.params.length := by
  simp [genMockFn]

/-- the bundled mocks print the upstream trait's name: for each mirrored trait the declared name (what `MockFnInfo.path`
    carries into every message) is the mirrored trait's own (table regenerated on every run from `/repo/src/mock/*.rs`) -/
theorem C19_mirrored_traits_keep_their_names :
    (Generated.mirrorNamePairs.all fun p => p.1 == p.2) = true := by decide

end Unimock.Codegen
