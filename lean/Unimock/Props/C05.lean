import Unimock.Model.Codegen.Method
/-!
# C05 — `#[unimock]` impls forward arguments, receiver and result unchanged

Statement (properties.jsonl): for every trait shape the attribute accepts, calling the generated
method on Unimock presents exactly the caller's arguments in declaration order to the input matcher
and to the answer function, and returns the answer's result unchanged; mutations an answer makes
through &mut parameters are visible to the caller. An async method does so when its future is awaited,
once per await, and not at all if the future is dropped unpolled.

The theorems are about the code-generation model `Codegen.genMethod` (all shapes: any receiver, any
parameter list, async or not, provided or not, any unmock form, any api form); the model is compared
with the real generator on every run.
-/
namespace Unimock.Codegen

/-- **C05, the matcher sees the caller's arguments in declaration order.** Position `i` of the tuple
    handed to `eval` is parameter `i` itself — except that a `&mut T<'a>` parameter is presented as
    the documented `Impossible` marker. -/
theorem C05_eval_params_in_order (s : MethodShape) :
    (genMethod s).evalParams.length = s.params.length ∧
    ∀ i (h : i < s.params.length),
      (genMethod s).evalParams[i]? = some (if s.params[i].cls = .mutImpossible then impossible else s.params[i].name) := by
  constructor
  · simp [genMethod]
  · intro i h
    simp [genMethod, evalParam, h]

/-- **C05, the answer function receives the receiver and the caller's arguments in declaration
    order** (also the `&mut T<'a>` ones: the original binding is passed, never the marker). -/
theorem C05_answer_args_in_order (s : MethodShape) :
    (genMethod s).answerArgs = s.params.map (·.name) ∧
    (genMethod s).answerSelf = (if isPolonius s.recv then "__self" else "self") := by
  simp [genMethod, fnParam, answerSelf]

/-- **C05, leaving and re-entering the polonius scope re-binds every parameter to itself.** For
    `&mut self` / `Pin<&mut Self>` receivers the inputs are handed out of the borrow scope as the tuple
    `(p0, …, pn)` and re-bound by the pattern `(p0, …, pn)`: same names, same order, same length. -/
theorem C05_polonius_rebinding_is_identity (s : MethodShape) (h : isPolonius s.recv = true) :
    (genMethod s).exitArgs = some (s.params.map (·.name)) ∧
    (genMethod s).rebind = some (s.params.map (·.name)) ∧
    (genMethod s).exitArgs = (genMethod s).rebind := by
  simp [genMethod, h, fnParam]

/-- **C05, the arms that take the inputs back from `eval` bind position `i` to parameter `i`'s own
    name** (or to `_` where the matcher was given the `Impossible` marker, so that the caller's
    original binding stays in scope for the answer call). -/
theorem C05_arm_patterns_keep_positions (s : MethodShape) :
    ∀ i (h : i < s.params.length),
      (genMethod s).armPat[i]? = some (if s.params[i].cls = .mutImpossible then "_" else s.params[i].name) := by
  intro i h
  simp [genMethod, patNoMut, h]

/-- **C05, `MockFn::Inputs` lists the parameter types in declaration order.** -/
theorem C05_inputs_types_in_order (s : MethodShape) :
    (genMockFn s).inputs = s.params.map (inputType ·.cls) ∧
    (genMockFn s).debugPat = s.params.map (·.name) := by
  simp [genMockFn, fnParam]

/-- the `Impossible` marker appears exactly at the `&mut T<'a>` positions -/
theorem C05_impossible_only_where_documented (s : MethodShape) (i : Nat) (h : i < s.params.length)
    (hname : s.params[i].name ≠ impossible) :
    ((genMethod s).evalParams[i]? = some impossible ↔ s.params[i].cls = .mutImpossible) := by
  rw [(C05_eval_params_in_order s).2 i h]
  by_cases hc : s.params[i].cls = .mutImpossible
  · simp [hc]
  · simp [hc, hname]

/-- **C05, nothing is evaluated before the first poll.** A method returning `impl Future` has its
    whole body (including the call to `eval`) inside `async move { … }`; an `async fn` is lazy by the
    language. -/
theorem C05_async_body_is_lazy (s : MethodShape) :
    (genMethod s).asyncWrap = s.rpit ∧ (genMethod s).isAsync = s.isAsync := by
  simp [genMethod]

/-- **C05, the forwarding impl on the default-impl delegator passes the arguments in order.** -/
theorem C05_delegator_forwards_in_order (s : MethodShape) :
    (genDelegator s).args = s.params.map (·.name) ∧ (genDelegator s).await = (s.isAsync || s.rpit) := by
  simp [genDelegator, fnParam, dotAwait]

/-- non-vacuity -/
def exampleShape : MethodShape :=
  { traitName := "T", name := "m", recv := Recv.mutRef,
    params := [Param.mk "p0" PClass.owned, Param.mk "p1" PClass.mutImpossible, Param.mk "p2" PClass.owned] }

example : (genMethod exampleShape).evalParams = ["p0", impossible, "p2"] ∧
    (genMethod exampleShape).exitArgs = some ["p0", "p1", "p2"] := by decide

/-- **C05, the answer function's signature**: `AnswerFn` takes the receiver (as the method's receiver kind dictates —
    by shared / exclusive reference or by value / `Rc` / `Arc`) followed by one parameter per declared parameter, in
    declaration order, each with its declared type. -/
theorem C05_answer_fn_signature (s : MethodShape) :
    (genMockFn s).answerParams = answerRecvType s.recv :: s.params.map (answerParamType ·.cls) ∧
    (genMockFn s).answerParams.length = s.params.length + 1 ∧
    ((genMockFn s).answerHrtb = true ↔ s.recv ≠ .owned ∧ s.recv ≠ .rc ∧ s.recv ≠ .arc) := by
  refine ⟨rfl, by simp [genMockFn], ?_⟩
  simp only [genMockFn]
  cases h : s.recv <;> simp [answerByRef]

/-- **C05, generic traits and methods, impl-Trait parameters.** The `MockFn` of a type-generic method is implemented for
    one struct whose type parameters are the trait's, then the method's, then one per impl-Trait parameter in parameter
    order; the generated body names the same struct with the same trait/method parameters and leaves exactly the
    impl-Trait ones to inference — so every instantiation forwards to *its own* `MockFn` (distinct `TypeId`s, C18). -/
theorem C05_generic_mockfn (s : MethodShape) :
    genericNames s = (if s.traitGen then ["T"] else []) ++ (if s.methodGen then ["U"] else []) ++ implNames s.params ∧
    (isTypeGeneric s = true →
      (genMockFn s).path = s!"__Generic{apiIdent s}<{",".intercalate (genericNames s)}>" ∧
      (genMethod s).mockFn = s!"__Generic{apiIdent s}<{",".intercalate
        ((if s.traitGen then ["T"] else []) ++ (if s.methodGen then ["U"] else []) ++ (implNames s.params).map fun _ => "_")}>") ∧
    (isTypeGeneric s = false → (genMethod s).mockFn = (genMockFn s).path) := by
  refine ⟨rfl, ?_, ?_⟩
  · intro h; simp [genMockFn, genMethod, mockFnPath, evalMockFnPath, h]
  · intro h; simp [genMockFn, genMethod, evalMockFnPath, h]

end Unimock.Codegen
