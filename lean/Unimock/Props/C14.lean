import Unimock.Generated.Typestate
import Unimock.Lemmas.Gates
import Unimock.Generated.Control
import Unimock.Model.Assemble
import Unimock.Generated.TupleImpls
import Unimock.Lemmas.State
import Unimock.Lemmas.Typestate
import Unimock.Lemmas.TypestateBridge
/-!
# C14 — clause composition preserves order and rejects inconsistent setups up front

Statement (properties.jsonl): nesting clauses in tuples of any arity (1-16) and depth is equivalent
to listing their terminal clauses left to right: no clause is dropped, duplicated or reordered.
Constructing a mock fails immediately, not at call time, when a method is given both ordered and
unordered patterns (in either order, at any distance), when a stub declares no pattern, or when a
configured return cannot be produced in the current feature set; ordered patterns can only be given
exact counts and then() can only follow an exact count, both enforced at compile time.
-/
namespace Unimock
variable {α ρ : Type}

/-- every tuple impl of the table deconstructs its fields in declaration order -/
def TableInOrder (table : List (Nat × List Nat)) : Prop := ∀ row ∈ table, row.2 = List.range row.1

/-- **C14, the crate's tuple impls (regenerated from `/repo/src/clause.rs` on every run)**: arities
    are exactly 2..16 and every impl deconstructs its fields `0, 1, …, n-1` in that order. The
    quantifier is the finite table itself, so `decide` is a proof. -/
theorem C14_tuple_impls_in_order :
    Generated.tupleImpls.map (·.1) = (List.range 15).map (· + 2) ∧
    (Generated.tupleImpls.all fun row => row.2 == List.range row.1) = true := by decide

theorem generated_table_in_order : TableInOrder Generated.tupleImpls := by
  intro row hrow
  have h := C14_tuple_impls_in_order.2
  rw [List.all_eq_true] at h
  have := h row hrow
  simpa using this

theorem tupleOrder_range (table : List (Nat × List Nat)) (h : TableInOrder table) (n : Nat) :
    tupleOrder table n = List.range n := by
  unfold tupleOrder
  cases hf : table.find? (·.1 = n) with
  | none => rfl
  | some row =>
    have hmem := List.mem_of_find?_eq_some hf
    have hn : row.1 = n := by have := List.find?_some hf; simpa using this
    simp only [h row hmem, hn]

theorem range_flatMap_getD {β : Type} (kids : List (List β)) :
    ((List.range kids.length).flatMap fun i => kids[i]?.getD []) = kids.flatten := by
  induction kids with
  | nil => rfl
  | cons k ks ih =>
    rw [List.length_cons, List.range_succ_eq_map, List.flatMap_cons, List.flatMap_map]
    simp only [List.getElem?_cons_zero, Option.getD_some, List.getElem?_cons_succ, List.flatten_cons]
    rw [ih]

/-- **C14, nesting = listing left to right.** With tuple impls that deconstruct in declaration
    order, a clause tree of any shape, arity and depth hands the sink exactly `flatten tree`: every
    terminal once, in left-to-right order. -/
theorem C14_deconstruct_flatten (table : List (Nat × List Nat)) (h : TableInOrder table) :
    (∀ t : ClauseTree α ρ, deconstruct table t = flatten t) ∧
    (∀ cs : List (ClauseTree α ρ), (deconstruct.deconstructList table cs).flatten = flatten.flattenList cs) := by
  suffices hs : ∀ n, (∀ t : ClauseTree α ρ, sizeOf t ≤ n → deconstruct table t = flatten t) ∧
      (∀ cs : List (ClauseTree α ρ), sizeOf cs ≤ n →
        (deconstruct.deconstructList table cs).flatten = flatten.flattenList cs) from
    ⟨fun t => (hs (sizeOf t)).1 t (Nat.le_refl _), fun cs => (hs (sizeOf cs)).2 cs (Nat.le_refl _)⟩
  intro n
  induction n with
  | zero =>
    constructor
    · intro t ht; cases t <;> simp at ht
    · intro cs hcs; cases cs <;> simp at hcs
  | succ n ih =>
    constructor
    · intro t ht
      cases t with
      | unit => rfl
      | term t => rfl
      | stub info ps => rfl
      | tuple cs =>
        have hcs : sizeOf cs ≤ n := by simp at ht; omega
        have := ih.2 cs hcs
        simp only [deconstruct, flatten]
        rw [tupleOrder_range table h, range_flatMap_getD, this]
    · intro cs hcs
      cases cs with
      | nil => rfl
      | cons c cs =>
        have h1 : sizeOf c ≤ n := by simp at hcs; omega
        have h2 : sizeOf cs ≤ n := by simp at hcs; omega
        simp only [deconstruct.deconstructList, List.flatten_cons, flatten.flattenList]
        rw [ih.1 c h1, ih.2 cs h2]

/-- the crate's own tuples flatten left to right -/
theorem C14_real_tuples_flatten (t : ClauseTree α ρ) : deconstruct Generated.tupleImpls t = flatten t :=
  (C14_deconstruct_flatten Generated.tupleImpls generated_table_in_order).1 t

/-! ## rejection up front -/

/-- the first-registered mode of method `id` among the terminals pushed so far -/
def regMode (es : List (Terminal α ρ)) (id : Nat) : Option (MethodInfo × Mode) :=
  (es.find? (·.info.id = id)).map fun t => (t.info, t.b.mode)

/-- does terminal `t` offend, given the terminals `es` accepted before it -/
def offends (es : List (Terminal α ρ)) (t : Terminal α ρ) : Option AsmError :=
  if t.b.outputError then some .outputError
  else match regMode es t.info.id with
    | some (info, mode) => if mode ≠ t.b.mode then some (.modeConflict info mode t.b.mode) else none
    | none => none

/-- the assembler's table agrees with the terminals accepted so far -/
def AsmInv (a : Asm α ρ) (es : List (Terminal α ρ)) : Prop :=
  ∀ id, (a.mockers.find? (·.info.id = id)).map (fun fm => (fm.info, fm.mode)) = regMode es id

theorem find?_append_one {β : Type} (l : List β) (x : β) (p : β → Bool) :
    (l ++ [x]).find? p = (l.find? p).or (if p x then some x else none) := by
  induction l with
  | nil => simp [List.find?]
  | cons y ys ih => simp only [List.cons_append, List.find?_cons]; cases p y <;> simp [ih]

theorem push_spec (a : Asm α ρ) (es : List (Terminal α ρ)) (t : Terminal α ρ) (hinv : AsmInv a es) :
    match offends es t with
    | some e => a.push t = .error e
    | none => ∃ a', a.push t = .ok a' ∧ AsmInv a' (es ++ [t]) := by
  unfold offends Asm.push
  by_cases hoe : t.b.outputError = true
  · simp [hoe]
  · simp only [hoe, Bool.false_eq_true, ↓reduceIte]
    have hinv_t := hinv t.info.id
    have hmk : (newPattern a t.b).1.mockers = a.mockers := by unfold newPattern; split <;> rfl
    rw [hmk]
    cases hf : a.mockers.find? (·.info.id = t.info.id) with
    | some fm =>
      rw [hf] at hinv_t
      simp only [Option.map_some] at hinv_t
      rw [← hinv_t]
      simp only
      by_cases hmode : fm.mode = t.b.mode
      · simp only [hmode, ne_eq, not_true_eq_false, ↓reduceIte]
        refine ⟨_, rfl, ?_⟩
        intro id
        rw [find?_map_upd a.mockers t.info.id id (fun m => { m with pats := m.pats ++ [(newPattern a t.b).2] }) (fun _ => rfl)]
        unfold regMode
        rw [find?_append_one]
        have hi := hinv id
        unfold regMode at hi
        cases hfa : a.mockers.find? (·.info.id = id) with
        | none =>
          rw [hfa] at hi
          simp only [Option.map_none] at hi ⊢
          cases hfe : es.find? (·.info.id = id) with
          | some x => rw [hfe] at hi; simp at hi
          | none =>
            simp only [Option.none_or]
            by_cases hid : t.info.id = id
            · subst hid; rw [hf] at hfa; cases hfa
            · simp [hid]
        | some fm' =>
          rw [hfa] at hi
          cases hfe : es.find? (·.info.id = id) with
          | none => rw [hfe] at hi; simp at hi
          | some x =>
            rw [hfe] at hi
            simp only [Option.map_some, Option.some.injEq] at hi
            simp only [Option.map_some, Option.some_or, Option.some.injEq]
            by_cases hc : fm'.info.id = t.info.id <;> simp [hc, hi]
      · simp [hmode]
    | none =>
      rw [hf] at hinv_t
      simp only [Option.map_none] at hinv_t
      rw [← hinv_t]
      simp only
      refine ⟨_, rfl, ?_⟩
      intro id
      rw [find?_append_one]
      unfold regMode
      rw [find?_append_one]
      have hi := hinv id
      unfold regMode at hi
      cases hfa : a.mockers.find? (·.info.id = id) with
      | some fm' =>
        rw [hfa] at hi
        cases hfe : es.find? (·.info.id = id) with
        | none => rw [hfe] at hi; simp at hi
        | some x => rw [hfe] at hi; simpa using hi
      | none =>
        rw [hfa] at hi
        cases hfe : es.find? (·.info.id = id) with
        | some x => rw [hfe] at hi; simp at hi
        | none =>
          simp only [Option.none_or]
          by_cases hid : t.info.id = id <;> simp [hid]

/-- the verdict of scanning the deconstructed items left to right: the first offender's error -/
def firstError (es : List (Terminal α ρ)) : List (Except AsmError (Terminal α ρ)) → Option AsmError
  | [] => none
  | .error e :: _ => some e
  | .ok t :: ts =>
    match offends es t with
    | some e => some e
    | none => firstError (es ++ [t]) ts

/-- **C14, construction fails iff some terminal offends, with the error of the first offender.**
    A terminal offends when its configured return cannot be produced (`outputError`), when it is an
    empty stub, or when its method was registered earlier — at any distance — with the other mode
    (ordered after unordered or unordered after ordered). Nothing is assembled in that case
    (`Unimock::new` panics before any state exists); otherwise assembly succeeds. -/
theorem C14_assemble_error_iff (a : Asm α ρ) (es : List (Terminal α ρ)) (hinv : AsmInv a es)
    (items : List (Except AsmError (Terminal α ρ))) :
    match firstError es items with
    | some e => assembleList a items = .error e
    | none => ∃ a', assembleList a items = .ok a' := by
  induction items generalizing a es with
  | nil => exact ⟨a, rfl⟩
  | cons it items ih =>
    cases it with
    | error e => simp [firstError, assembleList]
    | ok t =>
      simp only [firstError, assembleList]
      have hp := push_spec a es t hinv
      cases ho : offends es t with
      | some e => rw [ho] at hp; simp only at hp ⊢; rw [hp]
      | none =>
        rw [ho] at hp
        obtain ⟨a', hpush, hinv'⟩ := hp
        simp only [hpush]
        exact ih a' (es ++ [t]) hinv'

theorem asmInv_empty : AsmInv ({} : Asm α ρ) ([] : List (Terminal α ρ)) := by
  intro id; rfl

/-- **C14, `Unimock::new` on a clause tree** (with the crate's real tuple impls): fails up front with
    the first offender's error, at whatever position and nesting depth it sits. -/
theorem C14_new_mock_error_iff (fb : Fallback) (c : ClauseTree α ρ) :
    match firstError [] (deconstruct Generated.tupleImpls c) with
    | some e => newMock fb c = .error e
    | none => ∃ s, newMock fb c = .ok s := by
  rw [C14_real_tuples_flatten]
  have h := C14_assemble_error_iff ({} : Asm α ρ) [] asmInv_empty (flatten c)
  unfold newMock
  cases hfe : firstError [] (flatten c) with
  | some e => rw [hfe] at h; simp only at h ⊢; rw [h]
  | none =>
    rw [hfe] at h
    obtain ⟨a', ha⟩ := h
    simp only [ha]
    exact ⟨_, rfl⟩

/-! ## the compile-time half: which builder chains type-check (Model/Typestate) -/

open Typestate in
theorem run_inOrder_no_atLeast (s s' : St) (cs : List Call) (h : Typestate.run s cs = some s') (ho : s.ord = .inOrder) :
    Call.atLeastTimes ∉ cs := by
  induction cs generalizing s with
  | nil => simp
  | cons c cs ih =>
    rw [run_cons] at h
    cases hs : Typestate.step s c with
    | none => simp [hs] at h
    | some s1 =>
      simp only [hs, Option.bind_some] at h
      have ho1 : s1.ord = .inOrder := by rw [step_ord s s1 c hs, ho]
      intro hmem
      rcases List.mem_cons.1 hmem with hc | hc
      · subst hc
        have := step_atLeast_anyOrder s s1 hs
        rw [ho] at this; cases this
      · exact ih s1 h ho1 hc

open Typestate in
/-- **C14, ordered patterns can only be given exact counts** (compile time): no chain that starts with
    `next_call` and type-checks contains `at_least_times`, at any position (also after `then()`). -/
theorem C14_ordered_only_exact_counts (cs : List Call) (h : accepts .nextCall cs = true) :
    Call.atLeastTimes ∉ cs := by
  unfold accepts at h
  cases hr : Typestate.run Entry.nextCall.start cs with
  | none => simp [hr] at h
  | some s' => exact run_inOrder_no_atLeast _ s' cs hr rfl

open Typestate in
theorem run_then_position (s s' : St) (cs : List Call) (h : Typestate.run s cs = some s') (i : Nat)
    (hi : cs[i]? = some .then_) :
    (i = 0 ∧ s = .quantified s.ord .exact) ∨ ∃ j, i = j + 1 ∧ (cs[j]? = some .once ∨ cs[j]? = some .nTimes) := by
  induction cs generalizing s i with
  | nil => simp at hi
  | cons c cs ih =>
    rw [run_cons] at h
    cases hs : Typestate.step s c with
    | none => simp [hs] at h
    | some s1 =>
      simp only [hs, Option.bind_some] at h
      cases i with
      | zero =>
        simp only [List.getElem?_cons_zero, Option.some.injEq] at hi
        subst hi
        exact .inl ⟨rfl, step_then s s1 hs⟩
      | succ k =>
        simp only [List.getElem?_cons_succ] at hi
        rcases ih s1 h k hi with ⟨hk, hq⟩ | ⟨j, hj, hprev⟩
        · right
          refine ⟨0, by omega, ?_⟩
          rw [hq] at hs
          simpa using step_to_exact s c _ hs
        · exact .inr ⟨j + 1, by omega, by simpa using hprev⟩

open Typestate in
/-- **C14, `then()` can only follow an exact count** (compile time): in every chain that type-checks,
    each `then()` is immediately preceded by `once()` or `n_times(_)`. -/
theorem C14_then_only_after_exact (e : Entry) (cs : List Call) (h : accepts e cs = true) (i : Nat)
    (hi : cs[i]? = some .then_) : ∃ j, i = j + 1 ∧ (cs[j]? = some .once ∨ cs[j]? = some .nTimes) := by
  unfold accepts at h
  cases hr : Typestate.run e.start cs with
  | none => simp [hr] at h
  | some s' =>
    rcases run_then_position e.start s' cs hr i hi with ⟨_, hq⟩ | h2
    · cases e <;> simp [Entry.start] at hq
    · exact h2

open Typestate in
example : accepts .nextCall [.other, .nTimes, .then_, .other] = true ∧ accepts .nextCall [.other, .atLeastTimes] = false ∧
    accepts .someCall [.other, .atLeastTimes] = true ∧ accepts .someCall [.other, .atLeastTimes, .then_] = false ∧
    accepts .someCall [.other, .then_] = false ∧ accepts .nextCall [] = false ∧ accepts .stubCall [.other, .once, .then_] = true := by
  decide

open Typestate in
/-- **C14, what the compile-time rule buys at Typestate.run time.** The assembler gives an ordered pattern the slot range
    `[cur, cur + min)` and relies on the count being exact (`exact_calls().expect(..)` in
    `MockAssembler::new_call_pattern`). Every chain of builder calls that starts with `next_call` and type-checks,
    read as a quantifier chain of the value-level builder model and used as a clause, ends with exactness `exact`
    — so that reliance is justified for every program rustc accepts. -/
theorem C14_ordered_chain_is_exact {α ρ : Type} (v : ρ) (cs : List Call) (h : accepts .nextCall cs = true)
    (fuel : Nat) (segs : List (Segment ρ)) (hs : toSegs v fuel true cs = some segs)
    (b : Builder α ρ) (hb : b.mode = .inOrder) : (buildChain b true segs).ex = .exact := by
  rw [(C03_expectation_of_chain b true segs).2, hb]
  apply chainExactness_ordered_exact _ _ (toSegs_ne_nil v fuel true cs segs hs)
  intro s hmem n hq
  exact C14_ordered_only_exact_counts cs h (toSegs_atLeast v fuel true cs segs hs s hmem n hq)

open Typestate in
/-- non-vacuity: `next_call(..).returns(v).n_times(2).then().answers(..)` reads as two segments -/
example : ((toSegs (ρ := Int) 5 9 true [.returns true, .nTimes, .then_, .other]).map (·.length)) = some 2 ∧
    accepts .nextCall [.returns true, .nTimes, .then_, .other] = true := by decide

/-! ### `Sink::push` of the assembler as the source has it (`Generated/Control.lean`, re-translated on every run) -/

/-- the re-translated statement list of `push` with the two arms of its `Entry` match decides as the model on each of the 8
    observations: an output error is reported before anything else (no slots allocated); a mocker of the other match mode
    is reported right there, at construction; otherwise the pattern is appended / the mocker inserted -/
theorem C14_source_push_sequence :
    ∀ o : Gates.PObs, Gates.runP Generated.pushOccupied Generated.pushVacant Generated.pushSteps o false none = Gates.specPush o := by
  intro ⟨a, b, c⟩; cases a <;> cases b <;> cases c <;> rfl

/-- hence the model's `Asm.push` is the source's `push` run on what it observes -/
theorem C14_source_push {α ρ} (a : Asm α ρ) (t : Terminal α ρ) :
    match (Gates.runP Generated.pushOccupied Generated.pushVacant Generated.pushSteps (pushObs a t) false none).1 with
    | .errOutput => a.push t = .error .outputError
    | .errMode => ∃ fm, (newPattern a t.b).1.mockers.find? (·.info.id = t.info.id) = some fm ∧
        a.push t = .error (.modeConflict fm.info fm.mode t.b.mode)
    | .appended => ∃ a', a.push t = .ok a' ∧ a'.cur = (newPattern a t.b).1.cur ∧ a'.mockers.length = a.mockers.length
    | .inserted => ∃ a', a.push t = .ok a' ∧ a'.cur = (newPattern a t.b).1.cur ∧ a'.mockers.length = a.mockers.length + 1
    | .fellThrough => False := by
  rw [C14_source_push_sequence]; exact push_eq_spec a t

/-- non-vacuity: a second clause of the other mode for a known method is rejected -/
example : (Gates.runP Generated.pushOccupied Generated.pushVacant Generated.pushSteps ⟨false, true, true⟩ false none).1 = .errMode := by decide

/-! ### the type-state as the source's *signatures* have it (`Generated/Typestate.lean`, re-translated on every run) -/
section SourceTypestate
open Typestate

/-- the transition function interpreted from the re-translated signature table — which struct each builder method returns,
    its `where` bounds, the `Kind` of each marker type — is the model's `step` on every one of the 14 × 7 (state, call) pairs -/
theorem C14_source_typestate_step (s : St) (c : Call) :
    stepOf Generated.sigTable Generated.ordKind Generated.repKind s c = Typestate.step s c := by
  exact forall_step (P := fun s c => stepOf Generated.sigTable Generated.ordKind Generated.repKind s c = Typestate.step s c)
    (by decide) s c

/-- entry points: the struct and ordering marker each returns are the model's start states, and the run-time match mode
    each passes along is the one its marker names -/
theorem C14_source_entry_points :
    Generated.entryTable.all (fun (e, tag, o, mode) => mkSt tag o none true == some e.start && o == mode) = true ∧
    Generated.entryTable.map (·.1) = [.nextCall, .someCall, .eachCall, .stubCall] := by decide

/-- the builder structs that implement `Clause` are the model's `isClause` states -/
theorem C14_source_clause_structs (s : St) : s.isClause = Generated.clauseStructs.contains s.tag := by
  cases s <;> rfl

end SourceTypestate

end Unimock
