import Unimock.Lemmas.Scan
import Unimock.Lemmas.State
import Unimock.Generated.ScanSkel
/-!
# C01 — unordered calls are answered by the first declared pattern that matches

Statement (properties.jsonl): for a method configured with unordered patterns, every call is
answered by the earliest-declared pattern of that same method whose matcher accepts the call's
arguments, no matter how often that or any later pattern has been matched before. Patterns of other
methods, and patterns that reject the arguments, never influence the answer and are never counted.

All theorems quantify over *every* shared state `s` (hence every history that could have produced
it), every method table, every pattern list and every argument.
-/
namespace Unimock
variable {α ρ : Type}

/-- The state after an unordered call selected pattern `i` (`p`): only its counter and, for a
    single-use responder, its slot are touched. -/
def selectedUpdate (s : Shared α ρ) (m : MethodInfo) (i : Nat) (p : Pattern α ρ) : Shared α ρ :=
  s.setPat m.id i { p with count := p.count + 1, responders := (respond m i p.responders p.count).1 }

/-- **C01, first declared match answers.** If pattern `i` of the called method accepts the
    arguments and every earlier-declared pattern of that method rejects them, the call is answered
    by pattern `i` — by the responder its current match count selects (see C02) — whatever the
    counters of this or any other pattern are. -/
theorem C01_first_match_answers (s : Shared α ρ) (m : MethodInfo) (a : α) (fm : FnMocker α ρ)
    (hf : s.find m.id = some fm) (hm : fm.mode = .anyOrder)
    (i : Nat) (hi : i < fm.pats.length)
    (hacc : tryPat fm.pats[i] a = some .accept)
    (hrej : ∀ j (hj : j < i), tryPat (fm.pats[j]'(by omega)) a = none) :
    evalCall s m a =
      (selectedUpdate s m i fm.pats[i], (respond m i fm.pats[i].responders fm.pats[i].count).2) := by
  have hscan : scan fm.pats a 0 = some (i, .accept) :=
    (scan_some_iff fm.pats a i .accept).mpr ⟨hi, hacc, hrej⟩
  unfold evalCall selectedUpdate
  simp only [hf, hm, hscan, List.getElem?_eq_getElem hi]

/-- **C01, nothing matches.** If every pattern of the method rejects the arguments, no state
    changes at all (no counter moves) and the outcome is decided by the fallback mode only. -/
theorem C01_no_match (s : Shared α ρ) (m : MethodInfo) (a : α) (fm : FnMocker α ρ)
    (hf : s.find m.id = some fm) (hm : fm.mode = .anyOrder)
    (hrej : ∀ p ∈ fm.pats, tryPat p a = none) :
    evalCall s m a =
      (s, match s.fallback with
          | .error => .err (.noMatchingCallPatterns m)
          | .unmock => .contUnmock) := by
  have hscan : scan fm.pats a 0 = none := (scan_none_iff fm.pats a).mpr hrej
  unfold evalCall
  simp only [hf, hm, hscan]
  cases s.fallback <;> rfl

/-- **C01, frame.** After an unordered call that selected pattern `i` of method `m`, every other
    pattern — rejecting patterns and later patterns of the same method, and all patterns of all other
    methods — is exactly as before; the ordered index and the error log are untouched by `evalCall`. -/
theorem C01_frame (s : Shared α ρ) (m : MethodInfo) (i : Nat) (p : Pattern α ρ) (id' j : Nat)
    (h : id' ≠ m.id ∨ j ≠ i) :
    (selectedUpdate s m i p).pat? id' j = s.pat? id' j ∧
    (selectedUpdate s m i p).nextOrdered = s.nextOrdered ∧
    (selectedUpdate s m i p).reasons = s.reasons ∧
    (selectedUpdate s m i p).fallback = s.fallback := by
  unfold selectedUpdate
  exact ⟨pat?_setPat_other s m.id i id' j _ h, rfl, rfl, rfl⟩

/-- **C01, the selected pattern is counted once.** -/
theorem C01_selected_counted (s : Shared α ρ) (m : MethodInfo) (i : Nat) (p : Pattern α ρ)
    (h : s.pat? m.id i = some p) :
    ∃ q, (selectedUpdate s m i p).pat? m.id i = some q ∧ q.count = p.count + 1 ∧
      q.matcher = p.matcher ∧ q.min = p.min ∧ q.ex = p.ex ∧ q.lo = p.lo ∧ q.hi = p.hi := by
  unfold selectedUpdate
  exact ⟨_, pat?_setPat_same s m.id i _ p h, rfl, rfl, rfl, rfl, rfl, rfl⟩

/-- **C01, the choice depends on the matchers only.** Two pattern lists with the same matchers
    (but arbitrary counters, slots, responders and expectations) select the same index. -/
theorem C01_choice_ignores_history (ps qs : List (Pattern α ρ)) (a : α)
    (h : ps.map (·.matcher) = qs.map (·.matcher)) : scan ps a 0 = scan qs a 0 :=
  scan_config_only ps qs a h 0

/-- **C01, other methods never influence the answer.** `evalCall` for method `m` reads nothing
    of the method table but `m`'s own entry. -/
theorem C01_other_methods_irrelevant (s s' : Shared α ρ) (m : MethodInfo) (a : α)
    (hfb : s.fallback = s'.fallback) (hf : s.find m.id = s'.find m.id)
    (hm : ∀ fm, s.find m.id = some fm → fm.mode = .anyOrder) :
    (evalCall s m a).2 = (evalCall s' m a).2 := by
  unfold evalCall
  rw [← hf, ← hfb]
  cases hfm : s.find m.id with
  | none => simp only; split <;> (try split) <;> (try split) <;> rfl
  | some fm =>
    have := hm fm hfm
    simp only [this]
    cases scan fm.pats a 0 with
    | none => simp only; cases s.fallback <;> rfl
    | some r =>
      obtain ⟨pi, t⟩ := r
      cases t <;> simp only
      cases fm.pats[pi]? <;> rfl

/-- non-vacuity: a concrete two-pattern method where the second pattern is the first to accept -/
example :
    let p0 : Pattern Nat Int := ⟨some (fun a => some (a == 1)), none, [⟨0, .ret 10 false, false⟩], 0, 0, 0, .atLeast, 5⟩
    let p1 : Pattern Nat Int := ⟨some (fun _ => some true), none, [⟨0, .ret 20 false, false⟩], 0, 0, 0, .atLeast, 7⟩
    let m : MethodInfo := ⟨0, "T", "f", false, false, false⟩
    let s : Shared Nat Int := ⟨.error, [⟨m, .anyOrder, [p0, p1]⟩], 0, []⟩
    (evalCall s m 2).2 = .ret 20 ∧ (evalCall s m 1).2 = .ret 10 := by
  decide


/-! ## source agreement: the `InAnyOrder` arm of `Eval::match_call_pattern` as read from `/repo/src/eval.rs` -/
section Source
open ScanSkel

/-- the model's `scan` result in the vocabulary of the source skeleton -/
def selOfScan : Option (Nat × Try) → Sel
  | none => .nothing
  | some (i, .accept) => .selected i
  | some (i, .noMatcher) => .patErr i
  | some (i, .userPanic) => .unwound i

theorem filterMapped_is_scan (sk : AnySkel) (hf : sk.onFalse = .none_) (ht : sk.onTrue = .someOk)
    (he : sk.onErr = .someErr) (ps : List (Pattern α ρ)) (a : α) (k : Nat) :
    takeNext (filterMapped sk (ps.map fun p => ofTry (tryPat p a)) k) = selOfScan (scan ps a k) := by
  induction ps generalizing k with
  | nil => simp [filterMapped, takeNext, scan, selOfScan]
  | cons p ps ih =>
    simp only [List.map_cons, filterMapped, scan]
    cases h : tryPat p a with
    | none => simp only [ofTry, AnySkel.arm, hf]; exact ih (k + 1)
    | some t =>
      cases t <;> simp [ofTry, AnySkel.arm, ht, he, takeNext, selOfScan]

/-- **C01, source agreement.** The iterator chain of the `InAnyOrder` arm, as translated from the
    current source (receiver, adaptor sequence, closure arms, `None` reporter, index passed to
    `map_pattern_error`) and given Rust's iterator semantics, computes exactly the model's
    first-match `scan`, for every pattern list and argument — including lists where a matcher is
    missing (`NoMatcherFunction` at that index) or panics. -/
theorem C01_source_scan_is_model_scan (ps : List (Pattern α ρ)) (a : α) :
    Generated.anySkel.run (ps.map fun p => ofTry (tryPat p a)) = selOfScan (scan ps a 0) := by
  have hc : (Generated.anySkel.overCallPatterns ∧ Generated.anySkel.errMapsOwnIndex ∧
      (Generated.anySkel.adaptors = [.iter, .enumerate, .filterMap, .next, .transpose, .mapErr] ∨
       Generated.anySkel.adaptors = [.iter, .enumerate, .forReturn])) := by decide
  unfold AnySkel.run
  rw [if_pos hc]
  exact filterMapped_is_scan _ (by decide) (by decide) (by decide) ps a 0

/-- **C01 / C07, source agreement for `CallPattern::match_inputs`.** The arms as read from the current
    source give, for a pattern with or without a matcher function and with or without a mismatch
    reporter, exactly the model's `tryPat`: the matcher's own verdict decides, a missing matcher is
    `NoMatcherFunction`, and whether diagnostics are collected changes nothing. -/
theorem C01_source_match_inputs (p : Pattern α ρ) (a : α) (withReporter : Bool) :
    miRun Generated.matchInputsArms p.matcher.isSome withReporter (p.matcher.bind (· a)) =
      some (ofTry (tryPat p a)) := by
  unfold tryPat
  cases hm : p.matcher with
  | none => cases withReporter <;> rfl
  | some f =>
    cases hf : f a with
    | none => cases withReporter <;> simp [Option.bind, hf, miRun, Generated.matchInputsArms, miSelect, MIArm.applies, ofTry]
    | some b => cases b <;> cases withReporter <;> simp [Option.bind, hf, miRun, Generated.matchInputsArms, miSelect, MIArm.applies, ofTry]

/-- how an outcome of the translated unordered selection reads in the model -/
def agreesU (m : MethodInfo) (fm : FnMocker α ρ) (s : Shared α ρ) : Sel → EvalOutcome ρ → Prop
  | .nothing, out => out = (match s.fallback with
      | .error => .err (.noMatchingCallPatterns m)
      | .unmock => .contUnmock)
  | .patErr i, out => out = .err (.noMatcherFunction m i)
  | .unwound _, out => out = .userPanic
  | .selected i, out => ∃ p, fm.pats[i]? = some p ∧ out = (respond m i p.responders p.count).2
  | .ill, _ => False

/-- **C01, the translated source is the model's unordered branch.** For every state, unordered method and
    argument: running the translated iterator chain over the translated `match_inputs` results gives the
    outcome of the model's `evalCall` — the selected pattern's response, the fallback decision when nothing
    matches, `NoMatcherFunction` at the failing index, or the user's own panic. -/
theorem C01_source_unordered_is_model (s : Shared α ρ) (m : MethodInfo) (a : α) (fm : FnMocker α ρ)
    (hf : s.find m.id = some fm) (hm : fm.mode = .anyOrder) :
    agreesU m fm s (Generated.anySkel.run (fm.pats.map fun p => ofTry (tryPat p a))) (evalCall s m a).2 := by
  rw [C01_source_scan_is_model_scan]
  unfold evalCall
  simp only [hf, hm]
  cases hscan : scan fm.pats a 0 with
  | none => cases hfb : s.fallback <;> simp [selOfScan, agreesU, hfb]
  | some r =>
    obtain ⟨i, t⟩ := r
    cases t with
    | noMatcher => simp [selOfScan, agreesU]
    | userPanic => simp [selOfScan, agreesU]
    | accept =>
      obtain ⟨hi, _, _⟩ := (scan_some_iff fm.pats a i .accept).mp hscan
      simp only [selOfScan, agreesU, List.getElem?_eq_getElem hi]
      exact ⟨_, rfl, rfl⟩

/-- **C01 / C02, source agreement (the match counter).** `CallCounter::fetch_add` is one `fetch_add(1, SeqCst)` and
    `next_responder` selects by the value it returns — the number of matches *before* this call — which is what the
    model's `evalCall` does: `respond … p.count`, then `count := p.count + 1`. -/
theorem C01_source_count_bump (n : Nat) :
    Generated.countBumpSkel.run n = some (n, n + 1) ∧ Generated.countBumpSkel.seqCst = true ∧
    Generated.nextResponderByOldCount = true := by
  refine ⟨rfl, rfl, rfl⟩

/-- non-vacuity: second pattern selected; a matcher-less pattern before an accepting one is an error at ITS index -/
example :
    Generated.anySkel.run [.f, .t, .t] = .selected 1 ∧ Generated.anySkel.run [.f, .e, .t] = .patErr 1 ∧
    Generated.anySkel.run [.f, .f] = .nothing := by decide
/-- non-vacuity: the translated `match_inputs` arms on concrete inputs (no matcher; matcher accepting without a reporter;
    matcher rejecting with one; matcher panicking) -/
example :
    miRun Generated.matchInputsArms false true none = some .e ∧
    miRun Generated.matchInputsArms true false (some true) = some .t ∧
    miRun Generated.matchInputsArms true true (some false) = some .f ∧
    miRun Generated.matchInputsArms true true none = some .p := by decide
end Source

end Unimock
