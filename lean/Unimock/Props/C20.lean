import Unimock.Model.Script
import Unimock.Lemmas.BinSearch
import Unimock.Generated.Mirrors
/-!
# C20 — bundled std/core/tokio/futures/embedded-hal mocks act like hand-written impls

Statement (properties.jsonl): for each trait mirrored under unimock::mock, every required method is
served by its own mock entry point and every provided method that is not mocked runs the upstream
default body over the mocked required methods. Hence driving a Unimock whose required methods replay a
script through upstream provided methods gives the same results and the same sequence of
required-method calls as a plain struct implementing the trait with that script.
-/
namespace Unimock

/-- **C20, the mirror declarations agree with the upstream traits** (tables regenerated on every run
    from `/repo/src/mock/*.rs` and from the upstream sources on disk): every mirrored method exists
    upstream with the same required/provided status, and every stable upstream *required* method is
    mirrored as required — so required methods get a mock entry point and provided ones fall back to
    the upstream default body. The quantifier is the finite table: `decide` is a proof. -/
theorem C20_mirror_tables_agree :
    (Generated.mirrors.all fun row =>
      (row.1.all fun mth => row.2.contains mth) &&
      (row.2.all fun mth => mth.2 || row.1.contains mth)) = true := by decide

/-- **C20 / C19, mirrored traits keep their upstream names**: the trait name each mirror block declares — the one every
    diagnostic about its methods prints as `Trait::method` — is the last segment of the path it mirrors (table regenerated
    on every run). -/
theorem C20_mirror_names_agree : (Generated.mirrorNamePairs.all fun p => p.1 == p.2) = true := by decide

variable {α ρ : Type}

theorem scriptResponders_length (script : List ρ) : (scriptResponders script).length = script.length := by
  simp [scriptResponders]

theorem scriptResponders_get (script : List ρ) (i : Nat) (h : i < script.length) :
    (scriptResponders script)[i]? = some ⟨i, .ret script[i] false, false⟩ := by
  simp [scriptResponders, h]

theorem scriptKeys_get (script : List ρ) (i : Nat) (h : i < script.length) :
    ((scriptResponders script).map (·.start)).toArray[i]! = i := by
  have hl : i < ((scriptResponders script).map (·.start)).length := by simp [scriptResponders_length, h]
  simp [scriptResponders, h]

/-- the k-th request of a scripted pattern finds responder k -/
theorem script_find (script : List ρ) (i : Nat) (h : i < script.length) :
    findResponderIdx (scriptResponders script) i = some i := by
  rw [findResponderIdx_eq]
  have hsize : ((scriptResponders script).map (·.start)).toArray.size = script.length := by
    simp [scriptResponders_length]
  have hsorted : SortedKeys ((scriptResponders script).map (·.start)).toArray := by
    intro a b hab hb
    rw [hsize] at hb
    rw [scriptKeys_get script a (by omega), scriptKeys_get script b hb]; exact hab
  have h0 : ((scriptResponders script).map (·.start)).toArray[0]! ≤ i := by
    rw [scriptKeys_get script 0 (by omega)]; omega
  obtain ⟨j, hf, hj, hle, hgt⟩ := findKey_spec _ i hsorted (by omega) h0
  rw [hsize] at hj
  rw [scriptKeys_get script j hj] at hle
  have : j = i := by
    rcases Nat.lt_or_ge j i with hlt | hge
    · have := hgt i hlt (by rw [hsize]; exact h)
      rw [scriptKeys_get script i h] at this
      omega
    · omega
  rw [hf, this]

/-- **C20, one call of the scripted required method**: answered with `script[i]`, the state moves
    from position `i` to `i+1`, nothing else changes. (`m'` is the `MockFnInfo` presented by the
    call site; it denotes the same method: same id.) -/
theorem script_call (fb : Fallback) (m m' : MethodInfo) (hid : m'.id = m.id) (script : List ρ) (i : Nat) (a : α)
    (h : i < script.length) :
    call (scriptMock fb m script i) m' a = (scriptMock fb m script (i + 1), .ret script[i]) := by
  unfold call evalCall
  have hfind : (scriptMock fb m script i : Shared α ρ).find m'.id = some ⟨m, .anyOrder, [scriptPattern script i]⟩ := by
    simp [scriptMock, Shared.find, hid]
  rw [hfind]
  simp only [scan, tryPat, scriptPattern, List.getElem?_cons_zero]
  simp only [respond, script_find script i h, scriptResponders_get script i h]
  simp [scriptMock, Shared.setPat, scriptPattern, hid]

/-- **C20, provided methods over a scripted mock behave like over a plain struct.** For every user
    program over the required method (an upstream default body such as `write_all`, `read_exact`,
    `delay_ms`: an arbitrary interaction tree), every script and every starting position: if the plain
    script-replaying implementation completes with result `r` at position `i'`, then running the same
    program against the mock yields the same result and leaves the mock exactly at position `i'` —
    the same number of required-method requests were made and each got the same answer. -/
theorem C20_provided_over_mock_eq_struct (env : Env α ρ) (fb : Fallback) (m : MethodInfo) (script : List ρ) (lvl : Nat) :
    ∀ (fuel i : Nat) (p : Prog α ρ) (r : Option ρ) (i' : Nat),
      runPlain m script fuel i p = some (r, i') →
      (runProg env (fuel + 1) lvl (scriptMock fb m script i) p).shared = scriptMock fb m script i' ∧
      (runProg env (fuel + 1) lvl (scriptMock fb m script i) p).out =
        (match r with | some v => .ret v | none => .userPanic) := by
  intro fuel
  induction fuel with
  | zero =>
    intro i p r i' h
    cases p with
    | done x => simp [runPlain] at h; obtain ⟨rfl, rfl⟩ := h; cases x <;> simp [runProg]
    | call m' a k => simp [runPlain] at h
    | log e k => simp [runPlain] at h
    | park k => simp [runPlain] at h
  | succ fuel ih =>
    intro i p r i' h
    cases p with
    | done x => simp [runPlain] at h; obtain ⟨rfl, rfl⟩ := h; cases x <;> simp [runProg]
    | log e k =>
      simp only [runPlain] at h
      have := ih i k r i' h
      simp only [runProg]; exact this
    | park k =>
      simp only [runPlain] at h
      have := ih i k r i' h
      simp only [runProg]; exact this
    | call m' a k =>
      simp only [runPlain] at h
      by_cases hid : m'.id = m.id
      · simp only [hid, ↓reduceIte] at h
        cases hs : script[i]? with
        | none => simp [hs] at h
        | some v =>
          simp only [hs] at h
          have hi : i < script.length := (List.getElem?_eq_some_iff.mp hs).1
          have hv : script[i] = v := (List.getElem?_eq_some_iff.mp hs).2
          have := ih (i + 1) (k v) r i' h
          -- the mock side: one call of the required method, then the continuation
          have hcall : callMethod env (fuel + 1) lvl (scriptMock fb m script i) m' a =
              ⟨scriptMock fb m script (i + 1), [], .ret v, 0, 0⟩ := by
            rw [callMethod]
            have hm : call (scriptMock fb m script i) m' a = (scriptMock fb m script (i + 1), .ret v) := by
              have hc := script_call fb m m' hid script i a hi
              rw [hv] at hc
              exact hc
            rw [hm]
          simp only [runProg, hcall]
          exact this
      · simp [hid] at h

end Unimock
