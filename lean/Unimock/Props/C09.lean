import Unimock.Model.Lifecycle
/-!
# C09 — only the original instance verifies: once, on its thread, with no clones alive

Statement (properties.jsonl): dropping a clone never verifies and never panics, whatever the
expectations; the original verifies exactly once (verify() or report() pre-empt the check at drop,
no_verify_in_drop() disables it) and that verification panics if any clone is still alive or if it
runs on a thread other than the one that created the mock. verify() and no_verify_in_drop() on a
clone panic, and report() maps the same verdict to its exit code: FAILURE exactly when verify() would
have reported unmet expectations or recorded errors.
-/
namespace Unimock
variable {α ρ : Type}

/-- **C09, a clone never verifies and never panics** — in every world, on every thread, unwinding or
    not, whatever the counters, the error log and the number of live instances are. -/
theorem C09_clone_teardown_ok (w : World α ρ) (x : Inst) (t : Nat) (p : Bool) (h : x.original = false) :
    teardownVerdict w x t p = .ok := by
  unfold teardownVerdict; simp [h]

theorem C09_clone_drop_ok (w : World α ρ) (i : Nat) (x : Inst) (t : Nat) (p : Bool)
    (hx : w.inst? i = some x) (h : x.original = false) :
    (dropInst w i t p).2 = .ok := by
  unfold dropInst
  simp only [hx]
  split
  · rfl
  · split
    · simp only [teardownInst]
      exact C09_clone_teardown_ok _ _ t p (by simpa using h)
    · rfl

/-- **C09, at most one verification**: once an instance has been torn down (by `verify()`,
    `report()` or a first drop attempt), dropping it never evaluates the verdict again. -/
theorem C09_torn_down_drop_silent (w : World α ρ) (i : Nat) (x : Inst) (t : Nat) (p : Bool)
    (hx : w.inst? i = some x) (h : x.tornDown = true) :
    (dropInst w i t p).2 = .ok := by
  unfold dropInst; simp [hx, h]

/-- teardown always marks the instance as torn down and releases its helper chain -/
theorem C09_teardown_marks (w : World α ρ) (i : Nat) (x : Inst) (t : Nat) (p : Bool) :
    (teardownInst w i x t p).1 = w.setInst i { x with tornDown := true, helper := 0, parked := 0 } := rfl

/-- **C09, `no_verify_in_drop()` disables the check at drop.** -/
theorem C09_no_verify_disables (w : World α ρ) (i : Nat) (x : Inst) (t : Nat) (p : Bool)
    (hx : w.inst? i = some x) (h : x.verifyInDrop = false) :
    (dropInst w i t p).2 = .ok := by
  unfold dropInst
  simp only [hx]
  split
  · rfl
  · simp [h]

/-- **C09, verification with a live clone panics** ("clones still alive"), before looking at any
    expectation. -/
theorem C09_live_clone_panics (w : World α ρ) (x : Inst) (t : Nat)
    (horig : x.original = true) (hstrong : w.strong x.sh > 1) :
    teardownVerdict w x t false = .panicClones := by
  unfold teardownVerdict; simp [horig, hstrong]

/-- **C09, verification on a foreign thread panics.** -/
theorem C09_other_thread_panics (w : World α ρ) (x : Inst) (t : Nat) (m : MockSt α ρ)
    (horig : x.original = true) (hstrong : w.strong x.sh ≤ 1) (hm : w.mocks[x.sh]? = some m)
    (ht : t ≠ m.creator) :
    teardownVerdict w x t false = .panicThread := by
  unfold teardownVerdict
  have h1 : ¬ (w.strong x.sh > 1) := by omega
  simp [horig, h1, hm, ht]

/-- **C09, `verify()` / `no_verify_in_drop()` on a clone panic.** -/
theorem C09_verify_on_clone_panics (env : Env α ρ) (w : World α ρ) (i t : Nat) (x : Inst)
    (hx : w.inst? i = some x) (ha : x.alive = true) (h : x.original = false) :
    (step env w (.verify i t)).2 = .panicOnClone ∧ (step env w (.noVerify i t)).2 = .panicOnClone := by
  constructor <;> simp [step, hx, ha, h]

/-- **C09, `report()` maps the verify verdict to the exit code**: FAILURE exactly when `verify()`
    in the same world would have reported errors; the two panic cases are the same panics. -/
theorem C09_report_matches_verify (env : Env α ρ) (w : World α ρ) (i t : Nat) (x : Inst)
    (hx : w.inst? i = some x) (ha : x.alive = true) (horig : x.original = true) :
    match (step env w (.verify i t)).2 with
    | .teardown .ok => (step env w (.report i t)).2 = .exit false []
    | .teardown (.errs es) => (step env w (.report i t)).2 = .exit true es
    | o => (step env w (.report i t)).2 = o := by
  simp only [step, hx, ha, horig]
  cases (teardownInst w i x t false).2 <;> simp

/-- **C09, the verdict is evaluated only by the original**: whenever teardown returns anything but
    `ok`, the instance is the original one. -/
theorem C09_only_original_can_fail (w : World α ρ) (x : Inst) (t : Nat) (p : Bool)
    (h : teardownVerdict w x t p ≠ .ok) : x.original = true := by
  cases ho : x.original with
  | true => rfl
  | false => exact absurd (C09_clone_teardown_ok w x t p ho) h

/-- non-vacuity: an original with one live clone panics with "clones alive"; alone it verifies -/
example :
    let w : World Nat Int := { mocks := [⟨⟨.error, [], 0, []⟩, 0⟩],
                               insts := [(0, { sh := 0, original := true }), (1, { sh := 0, original := false })] }
    teardownVerdict w { sh := 0, original := true } 0 false = .panicClones ∧
    teardownVerdict (w.free 1) { sh := 0, original := true } 0 false = .ok ∧
    teardownVerdict (w.free 1) { sh := 0, original := true } 1 false = .panicThread := by decide

end Unimock
