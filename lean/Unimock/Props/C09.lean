import Unimock.Generated.Control
import Unimock.Lemmas.Gates
import Unimock.Model.Lifecycle
/-!
# C09 — only the original instance verifies: once, on its thread, with no clones alive

Statement (properties.jsonl): dropping a clone never verifies and never panics, whatever the
expectations; the original verifies exactly once (verify() or report() pre-empt the check at drop,
no_verify_in_drop() disables it) and that verification panics if any clone is still alive or if it
runs on a thread other than the one that created the mock. verify() and no_verify_in_drop() on a
clone panic, and report() maps the same verdict to its exit code: FAILURE exactly when verify() would
have reported unmet expectations or recorded errors.
-/
namespace Unimock
variable {α ρ : Type}

/-- **C09, a clone never verifies and never panics** — in every world, on every thread, unwinding or
    not, whatever the counters, the error log and the number of live instances are. -/
theorem C09_clone_teardown_ok (w : World α ρ) (x : Inst) (t : Nat) (p : Bool) (h : x.original = false) :
    teardownVerdict w x t p = .ok := by
  unfold teardownVerdict; simp [h]

theorem C09_clone_drop_ok (w : World α ρ) (i : Nat) (x : Inst) (t : Nat) (p : Bool)
    (hx : w.inst? i = some x) (h : x.original = false) :
    (dropInst w i t p).2 = .ok := by
  unfold dropInst
  simp only [hx]
  split
  · rfl
  · split
    · simp only [teardownInst]
      exact C09_clone_teardown_ok _ _ t p (by simpa using h)
    · rfl

/-- **C09, at most one verification**: once an instance has been torn down (by `verify()`,
    `report()` or a first drop attempt), dropping it never evaluates the verdict again. -/
theorem C09_torn_down_drop_silent (w : World α ρ) (i : Nat) (x : Inst) (t : Nat) (p : Bool)
    (hx : w.inst? i = some x) (h : x.tornDown = true) :
    (dropInst w i t p).2 = .ok := by
  unfold dropInst; simp [hx, h]

/-- teardown always marks the instance as torn down and releases its helper chain -/
theorem C09_teardown_marks (w : World α ρ) (i : Nat) (x : Inst) (t : Nat) (p : Bool) :
    (teardownInst w i x t p).1 = w.setInst i { x with tornDown := true, helper := 0, parked := 0 } := rfl

/-- **C09, `no_verify_in_drop()` disables the check at drop.** -/
theorem C09_no_verify_disables (w : World α ρ) (i : Nat) (x : Inst) (t : Nat) (p : Bool)
    (hx : w.inst? i = some x) (h : x.verifyInDrop = false) :
    (dropInst w i t p).2 = .ok := by
  unfold dropInst
  simp only [hx]
  split
  · rfl
  · simp [h]

/-- **C09, verification with a live clone panics** ("clones still alive"), before looking at any
    expectation. -/
theorem C09_live_clone_panics (w : World α ρ) (x : Inst) (t : Nat)
    (horig : x.original = true) (hstrong : w.strong x.sh > 1) :
    teardownVerdict w x t false = .panicClones := by
  unfold teardownVerdict; simp [horig, hstrong]

/-- **C09, verification on a foreign thread panics.** -/
theorem C09_other_thread_panics (w : World α ρ) (x : Inst) (t : Nat) (m : MockSt α ρ)
    (horig : x.original = true) (hstrong : w.strong x.sh ≤ 1) (hm : w.mocks[x.sh]? = some m)
    (ht : t ≠ m.creator) :
    teardownVerdict w x t false = .panicThread := by
  unfold teardownVerdict
  have h1 : ¬ (w.strong x.sh > 1) := by omega
  simp [horig, h1, hm, ht]

/-- **C09, `verify()` / `no_verify_in_drop()` on a clone panic.** -/
theorem C09_verify_on_clone_panics (env : Env α ρ) (w : World α ρ) (i t : Nat) (x : Inst)
    (hx : w.inst? i = some x) (ha : x.alive = true) (h : x.original = false) :
    (step env w (.verify i t)).2 = .panicOnClone ∧ (step env w (.noVerify i t)).2 = .panicOnClone := by
  constructor <;> simp [step, hx, ha, h]

/-- **C09, `report()` maps the verify verdict to the exit code**: FAILURE exactly when `verify()`
    in the same world would have reported errors; the two panic cases are the same panics. -/
theorem C09_report_matches_verify (env : Env α ρ) (w : World α ρ) (i t : Nat) (x : Inst)
    (hx : w.inst? i = some x) (ha : x.alive = true) (horig : x.original = true) :
    match (step env w (.verify i t)).2 with
    | .teardown .ok => (step env w (.report i t)).2 = .exit false []
    | .teardown (.errs es) => (step env w (.report i t)).2 = .exit true es
    | o => (step env w (.report i t)).2 = o := by
  simp only [step, hx, ha, horig]
  cases (teardownInst w i x t false).2 <;> simp

/-- **C09, the verdict is evaluated only by the original**: whenever teardown returns anything but
    `ok`, the instance is the original one. -/
theorem C09_only_original_can_fail (w : World α ρ) (x : Inst) (t : Nat) (p : Bool)
    (h : teardownVerdict w x t p ≠ .ok) : x.original = true := by
  cases ho : x.original with
  | true => rfl
  | false => exact absurd (C09_clone_teardown_ok w x t p ho) h

/-- non-vacuity: an original with one live clone panics with "clones alive"; alone it verifies -/
example :
    let w : World Nat Int := { mocks := [⟨⟨.error, [], 0, []⟩, 0⟩],
                               insts := [(0, { sh := 0, original := true }), (1, { sh := 0, original := false })] }
    teardownVerdict w { sh := 0, original := true } 0 false = .panicClones ∧
    teardownVerdict (w.free 1) { sh := 0, original := true } 0 false = .ok ∧
    teardownVerdict (w.free 1) { sh := 0, original := true } 1 false = .panicThread := by decide


/-! ### the teardown / drop / verify statement sequences as the source has them (`Generated/Control.lean`) -/

/-- the re-translated statement list of `teardown::teardown`, interpreted, equals the model's decision on every one of the
    256 observations (which flags it leaves behind included) -/
theorem C09_source_teardown_sequence :
    ∀ o : Gates.Obs, Gates.run Generated.teardownSteps o {} = Gates.specVerdict o := by
  intro ⟨a, b, c, d, e, f, g, h⟩
  cases a <;> cases b <;> cases c <;> cases d <;> cases e <;> cases f <;> cases g <;> cases h <;> rfl

/-- hence the model's `teardown` is the source's statement list run on what the instance can observe -/
theorem C09_source_teardown {α ρ} (w : World α ρ) (i : Nat) (x : Inst) (t : Nat) (p : Bool) :
    (teardownInst w i x t p).2 =
      concretise (w.setInst i { x with tornDown := true, helper := 0, parked := 0 })
        { x with tornDown := true, helper := 0, parked := 0 }
        (Gates.run Generated.teardownSteps (obsInst w i x t p) {}).1 ∧
    (teardownInst w i x t p).1 =
      w.setInst i (applyFlags x (Gates.run Generated.teardownSteps (obsInst w i x t p) {}).snd) := by
  rw [C09_source_teardown_sequence]
  exact ⟨teardownInst_eq_spec w i x t p, teardownInst_flags w i x t p⟩

/-- a clone's teardown is silent, whatever else is observed — read off the source's own statement order -/
theorem C09_source_clone_silent (o : Gates.Obs) (h : o.original = false) :
    (Gates.run Generated.teardownSteps o {}).1 = .ok := by
  rw [C09_source_teardown_sequence]; simp [Gates.specVerdict, h]

/-- the original, not unwinding, with any other holder of the shared state alive — or its own helper / parked clone, had
    they not been released first — panics; the source releases both before counting -/
theorem C09_source_live_clone_panics (o : Gates.Obs) (h : o.original = true) (hp : o.panicking = false) :
    (Gates.run Generated.teardownSteps o {}).1 = .panicClones ↔ o.others = true := by
  rw [C09_source_teardown_sequence]
  obtain ⟨a, b, c, d, e, f, g, k⟩ := o
  simp only at h hp; subst h hp
  cases c <;> cases f <;> cases g <;> cases k <;> simp [Gates.specVerdict]

theorem C09_source_drop : ∀ f : Gates.IFlags, Gates.runD Generated.dropSteps f = Gates.specDrop f := by
  intro ⟨a, b, c⟩; cases a <;> cases b <;> cases c <;> rfl

theorem C09_source_verify : ∀ f : Gates.IFlags, Gates.runD Generated.verifySteps f = Gates.specVerify f := by
  intro ⟨a, b, c⟩; cases a <;> cases b <;> cases c <;> rfl

theorem C09_source_no_verify : ∀ f : Gates.IFlags, Gates.runD Generated.noVerifySteps f = Gates.specNoVerify f := by
  intro ⟨a, b, c⟩; cases a <;> cases b <;> cases c <;> rfl

/-- `impl Drop`, `verify()`, `no_verify_in_drop()` of the model are the source's gate sequences -/
theorem C09_source_drop_impl {α ρ} (w : World α ρ) (i t : Nat) (p : Bool) (x : Inst) (h : w.inst? i = some x) :
    dropInst w i t p =
      match Gates.runD Generated.dropSteps (iflags x) with
      | .teardown => ((teardownInst w i x t p).1.free i, (teardownInst w i x t p).2)
      | _ => (w.free i, .ok) := by
  rw [C09_source_drop]; exact dropInst_eq_spec w i t p x h

theorem C09_source_verify_impl {α ρ} (env : Env α ρ) (w : World α ρ) (i t : Nat) (x : Inst)
    (h : w.inst? i = some x) (ha : x.alive = true) :
    Unimock.step env w (.verify i t) =
      match Gates.runD Generated.verifySteps (iflags x) with
      | .panicNotOriginal => ((dropInst w i t true).1, Outcome.panicOnClone)
      | _ => ((teardownInst w i x t false).1.free i, Outcome.teardown (teardownInst w i x t false).2) := by
  rw [C09_source_verify]; exact step_verify_eq_spec env w i t x h ha

theorem C09_source_no_verify_impl {α ρ} (env : Env α ρ) (w : World α ρ) (i t : Nat) (x : Inst)
    (h : w.inst? i = some x) (ha : x.alive = true) :
    Unimock.step env w (.noVerify i t) =
      match Gates.runD Generated.noVerifySteps (iflags x) with
      | .panicNotOriginal => ((dropInst w i t true).1, Outcome.panicOnClone)
      | _ => (w.setInst i { x with verifyInDrop := false }, Outcome.ok) := by
  rw [C09_source_no_verify]; exact step_noVerify_eq_spec env w i t x h ha

/-- the lifecycle flags a new mock and a clone start with, as the source's struct literals have them -/
theorem C09_source_initial_flags :
    Generated.newFlags = ⟨true, false, true⟩ ∧ ∀ f : Gates.IFlags, Generated.cloneFlags f = ⟨false, false, f.verifyInDrop⟩ := by
  exact ⟨rfl, fun _ => rfl⟩

theorem C09_source_clone_inst {α ρ} (env : Env α ρ) (w : World α ρ) (i j : Nat) (x : Inst)
    (h : w.inst? i = some x) (ha : x.alive = true) :
    ∃ y, (Unimock.step env w (.clone i j)).1 = w.setInst j y ∧ iflags y = Generated.cloneFlags (iflags x) ∧ y.sh = x.sh := by
  refine ⟨{ sh := x.sh, original := false, verifyInDrop := x.verifyInDrop }, ?_, ?_, rfl⟩
  · simp [Unimock.step, h, ha]
  · rw [C09_source_initial_flags.2]; rfl

/-- non-vacuity: an original with a live clone, not unwinding, on its own thread -/
example : (Gates.run Generated.teardownSteps ⟨true, false, true, true, true, false, true, true⟩ {}).1 = .panicClones ∧
    (Gates.run Generated.teardownSteps ⟨true, false, false, true, true, false, false, true⟩ {}).1 = .errsVerify := by decide

end Unimock
