import Unimock.Generated.Builder
import Unimock.Lemmas.Builder
import Unimock.Lemmas.History
import Unimock.Lemmas.BinSearch
import Unimock.Lemmas.State
/-!
# C02 — the k-th match of a pattern yields the response its quantifier chain assigns

Statement (properties.jsonl): if a pattern's responses are chained as r1 × n1, then r2 × n2, ...,
then r_last, the k-th call matching that pattern (counted over the original and all clones) receives
r_i for the first i with n1+...+ni ≥ k, and r_last for every later match when the last segment is
open-ended. A response configured without Clone is single-use: the second request for it panics
instead of producing a value.
-/
namespace Unimock
variable {α ρ : Type}

theorem sum_take_mono (ns : List Nat) (i j : Nat) (h : i ≤ j) : (ns.take i).sum ≤ (ns.take j).sum := by
  induction ns generalizing i j with
  | nil => simp
  | cons n t ih =>
    cases i with
    | zero => simp
    | succ i =>
      cases j with
      | zero => omega
      | succ j => simp only [List.take_succ_cons, List.sum_cons]; have := ih i j (by omega); omega

theorem keys_get (rs : List (Responder ρ)) (i : Nat) (h : i < rs.length) :
    (rs.map (·.start)).toArray[i]! = rs[i].start := by
  simp [h]

/-- the prefix sums `0, n1, n1+n2, ...` at which the chain's responders start -/
def segStart (tl : Bool) (mode : Mode) (segs : List (Segment ρ)) (i : Nat) : Nat :=
  ((segs.take i).map (Segment.advance tl mode)).sum

theorem segStart_mono (tl : Bool) (mode : Mode) (segs : List (Segment ρ)) (i j : Nat) (h : i ≤ j) :
    segStart tl mode segs i ≤ segStart tl mode segs j := by
  unfold segStart
  rw [List.map_take, List.map_take]
  exact sum_take_mono _ i j h

/-- **C02, responders start at the prefix sums of the segment counts** (for a fresh pattern). -/
theorem C02_starts_are_prefix_sums (b : Builder α ρ) (hb : b.responders = []) (hi0 : b.idx = 0)
    (tl : Bool) (segs : List (Segment ρ)) :
    (buildChain b tl segs).responders.length = segs.length ∧
    ∀ i (h : i < segs.length), (buildChain b tl segs).responders[i]? =
      some ⟨segStart tl b.mode segs i, segs[i].stored, false⟩ := by
  have h := (buildChain_responders b tl segs).1
  rw [hb, hi0] at h
  simp only [List.nil_append] at h
  constructor
  · rw [h, chainStarts_length]
  · intro i hi
    rw [h, List.getElem?_eq_getElem (by rw [chainStarts_length]; exact hi), chainStarts_getElem _ _ _ _ _ hi]
    simp [segStart]

/-- **C02, k-th response (lookup form).** For the call with 0-based match index `c` (the `k = c+1`-th
    match), the responder chosen by the modelled `find_responder_by_call_index` (std binary search
    included) is segment `i`, the *greatest* index whose start `n1+…+n_i` is ≤ `c`; duplicates
    (zero-count segments) resolve to the last one. -/
theorem C02_kth_response_lookup (b : Builder α ρ) (hb : b.responders = []) (hi0 : b.idx = 0)
    (tl : Bool) (segs : List (Segment ρ)) (hne : segs ≠ []) (c : Nat) :
    ∃ i, ∃ hi : i < segs.length,
      findResponderIdx (buildChain b tl segs).responders c = some i ∧
      (buildChain b tl segs).responders[i]? = some ⟨segStart tl b.mode segs i, segs[i].stored, false⟩ ∧
      segStart tl b.mode segs i ≤ c ∧
      ∀ j, i < j → j < segs.length → c < segStart tl b.mode segs j := by
  obtain ⟨hlen, hget⟩ := C02_starts_are_prefix_sums b hb hi0 tl segs
  let rs := (buildChain b tl segs).responders
  have hpos : 0 < segs.length := List.length_pos_iff.mpr hne
  have hkey : ∀ i (h : i < segs.length), (rs.map (·.start)).toArray[i]! = segStart tl b.mode segs i := by
    intro i h
    have h' : i < rs.length := by simp only [rs]; omega
    rw [keys_get rs i h']
    have := hget i h
    rw [List.getElem?_eq_getElem h'] at this
    injection this with this
    simp only [rs]; rw [this]
  have hsize : (rs.map (·.start)).toArray.size = segs.length := by simp [rs, hlen]
  have hsorted : SortedKeys (rs.map (·.start)).toArray := by
    intro i j hij hj
    rw [hsize] at hj
    rw [hkey i (by omega), hkey j hj]
    exact segStart_mono tl b.mode segs i j hij
  have h0 : (rs.map (·.start)).toArray[0]! ≤ c := by
    rw [hkey 0 hpos]; simp [segStart]
  obtain ⟨i, hfind, hilt, hle, hgt⟩ := findKey_spec _ c hsorted (by omega) h0
  rw [hsize] at hilt
  refine ⟨i, hilt, hfind, hget i hilt, ?_, ?_⟩
  · rw [← hkey i hilt]; exact hle
  · intro j hij hj
    have := hgt j hij (by rw [hsize]; exact hj)
    rw [hkey j hj] at this
    omega

/-- cumulative count `n1+…+n_{i+1}` (1-based `i+1` segments) -/
def segCum (tl : Bool) (mode : Mode) (segs : List (Segment ρ)) (i : Nat) : Nat := segStart tl mode segs (i + 1)

/-- **C02, k-th response (property form).** The `k`-th match (`k ≥ 1`) receives `r_i` for the
    *first* `i` with `n1+…+n_i ≥ k`; if no such segment exists (k lies beyond the chain's end) it
    receives the last response. -/
theorem C02_kth_response (b : Builder α ρ) (hb : b.responders = []) (hi0 : b.idx = 0)
    (tl : Bool) (segs : List (Segment ρ)) (hne : segs ≠ []) (k : Nat) (hk : 1 ≤ k) :
    ∃ i, ∃ hi : i < segs.length,
      findResponderIdx (buildChain b tl segs).responders (k - 1) = some i ∧
      ((buildChain b tl segs).responders[i]?).map (·.resp) = some segs[i].stored ∧
      (∀ j, j < i → segCum tl b.mode segs j < k) ∧
      (k ≤ segCum tl b.mode segs i ∨ i = segs.length - 1) := by
  obtain ⟨i, hi, hfind, hget, hle, hgt⟩ := C02_kth_response_lookup b hb hi0 tl segs hne (k - 1)
  refine ⟨i, hi, hfind, by rw [hget]; rfl, ?_, ?_⟩
  · intro j hj
    have := segStart_mono tl b.mode segs (j + 1) i (by omega)
    unfold segCum; omega
  · by_cases hl : i = segs.length - 1
    · exact Or.inr hl
    · left
      have := hgt (i + 1) (by omega) (by omega)
      unfold segCum; omega

/-! ## single-use responses -/

/-- **C02, single-use: first request.** A responder stored through the once-path hands out its value
    on the first request and marks the slot empty. -/
theorem C02_once_first (m : MethodInfo) (pi : Nat) (rs : List (Responder ρ)) (c ri : Nat) (v : ρ) (st : Nat)
    (hf : findResponderIdx rs c = some ri) (hr : rs[ri]? = some ⟨st, .ret v true, false⟩) :
    respond m pi rs c = (rs.set ri ⟨st, .ret v true, true⟩, .ret v) := by
  unfold respond; simp [hf, hr]

/-- **C02, single-use: every later request panics** with `CannotReturnValueMoreThanOnce`; no value
    is produced and nothing changes. -/
theorem C02_once_again (m : MethodInfo) (pi : Nat) (rs : List (Responder ρ)) (c ri : Nat) (v : ρ) (st : Nat)
    (hf : findResponderIdx rs c = some ri) (hr : rs[ri]? = some ⟨st, .ret v true, true⟩) :
    respond m pi rs c = (rs, .err (.cannotReturnValueMoreThanOnce m pi)) := by
  unfold respond; simp [hf, hr]

/-- `respond` either leaves the responder list alone or empties exactly one full single-use slot -/
theorem respond_cases (m : MethodInfo) (pi : Nat) (rs : List (Responder ρ)) (c : Nat) :
    (respond m pi rs c).1 = rs ∨
    ∃ ri st v, rs[ri]? = some ⟨st, .ret v true, false⟩ ∧
      respond m pi rs c = (rs.set ri ⟨st, .ret v true, true⟩, .ret v) := by
  unfold respond
  cases hf : findResponderIdx rs c with
  | none => left; rfl
  | some ri =>
    simp only
    cases hr : rs[ri]? with
    | none => left; rfl
    | some r =>
      obtain ⟨st, resp, taken⟩ := r
      cases resp with
      | ret v once =>
        cases once with
        | false => left; rfl
        | true =>
          cases taken with
          | true => left; rfl
          | false => right; exact ⟨ri, st, v, hr, rfl⟩
      | answer f => left; rfl
      | applyDefaultImpl => left; rfl
      | unmock => left; rfl
      | panic msg => left; rfl

/-- **C02, slots never refill and configuration never changes**: `respond` preserves every
    responder's start and response, and a slot that is empty stays empty — so "at most one
    delivery" holds along every history (the induction over calls uses exactly this step). -/
theorem C02_respond_monotone (m : MethodInfo) (pi : Nat) (rs : List (Responder ρ)) (c : Nat) :
    ((respond m pi rs c).1).length = rs.length ∧
    ∀ (j : Nat) (r r' : Responder ρ), rs[j]? = some r → (respond m pi rs c).1[j]? = some r' →
      r'.start = r.start ∧ r'.resp = r.resp ∧ (r.taken = true → r'.taken = true) := by
  rcases respond_cases m pi rs c with h | ⟨ri, st, v, hr, h⟩
  · rw [h]
    refine ⟨rfl, ?_⟩
    intro j r r' h1 h2
    rw [h1] at h2; injection h2 with h2; subst h2; exact ⟨rfl, rfl, id⟩
  · rw [h]
    refine ⟨List.length_set .., ?_⟩
    intro j r r' h1 h2
    have hri : ri < rs.length := (List.getElem?_eq_some_iff.mp hr).1
    by_cases hj : ri = j
    · subst hj
      rw [hr] at h1; injection h1 with h1; subst h1
      simp only [List.getElem?_set_self hri] at h2
      injection h2 with h2; subst h2
      exact ⟨rfl, rfl, fun _ => rfl⟩
    · simp only [List.getElem?_set_ne hj] at h2
      rw [h1] at h2; injection h2 with h2; subst h2; exact ⟨rfl, rfl, id⟩

/-- which segments are stored single-use: exactly those that came through `returns(v)` on
    `some_call`/`next_call` and were quantified `once()` or left unquantified -/
theorem C02_single_use_iff (s : Segment ρ) (v : ρ) (o : Bool) (h : s.resp = .ret v o) :
    s.stored = .ret v true ↔ (s.viaQRV = true ∧ (s.quant = .once ∨ s.quant = .unquantified)) := by
  unfold Segment.stored
  rw [h]
  cases hq : s.quant <;> cases hv : s.viaQRV <;> simp

/-- non-vacuity + the `n_times(0)` corner: chain ret1 × 0, ret2 × 0, ret3 × 2, ret4 (open) answers 3,3,4,4 -/
example :
    let b : Builder Nat Int := { mode := .anyOrder, matcher := none, dbg := none }
    let segs : List (Segment Int) := [⟨.ret 1 false, .nTimes 0, false⟩, ⟨.ret 2 false, .nTimes 0, false⟩,
      ⟨.ret 3 false, .nTimes 2, false⟩, ⟨.ret 4 false, .unquantified, false⟩]
    (List.range 4).map (fun c => findResponderIdx (buildChain b true segs).responders c) =
      [some 2, some 2, some 3, some 3] := by decide

/-! ## the k-th match along a history -/

/-- **C02, the k-th match of a pattern along any history.** Start from a mock whose counters are 0 and make any
    history of calls (through the original or clones: they share this state), whatever their outcomes. If the next
    call is matched by pattern `pi` of its method, its outcome is that pattern's response chain asked at index
    `k - 1`, where `k - 1` is the number of earlier calls of the history matched by that same pattern — the position is
    counted per pattern, over everything that happened before, and nothing else influences which response comes. -/
theorem C02_history_kth_match (s0 : Shared α ρ) (h0 : ∀ id pi, s0.countOf id pi = 0)
    (calls : List (MethodInfo × α)) (m : MethodInfo) (a : α) (pi : Nat)
    (hsel : selected (runCalls s0 calls) m a = some pi) :
    ∃ p, (runCalls s0 calls).pat? m.id pi = some p ∧
      (evalCall (runCalls s0 calls) m a).2 = (respond m pi p.responders (matchCount m.id pi s0 calls)).2 := by
  obtain ⟨p, hp, hout⟩ := evalCall_outcome_of_selected (runCalls s0 calls) m a pi hsel
  refine ⟨p, hp, ?_⟩
  rw [hout, runCalls_countOf, h0]
  simp

/-! ### the builder's quantifier methods as the source has them (`Generated/Builder.lean`, re-translated from `src/build.rs`
and `src/counter.rs` on every run) -/

/-- `DynBuilderWrapper::quantify` as re-translated -/
def srcQuantify {α ρ} (b : Builder α ρ) (times : Nat) (e : Exactness) : Builder α ρ :=
  { b with min := Generated.addToMinimum b.min (Generated.quantifyDelta times), ex := e, idx := Generated.quantifyIdx b.idx times }

theorem C02_source_quantify {α ρ} (b : Builder α ρ) (n : Nat) (e : Exactness) : b.quantify n e = srcQuantify b n e := by
  simp [Builder.quantify, srcQuantify, Generated.addToMinimum, Generated.quantifyDelta, Generated.quantifyIdx]

/-- `QuantifiedResponse::then` as re-translated: `add_to_minimum(0, AtLeastPlusOne)`, the response index untouched -/
theorem C02_source_then {α ρ} (b : Builder α ρ) :
    b.then_ = { b with min := Generated.addToMinimum b.min Generated.thenAdd.1, ex := Generated.thenAdd.2 } := by
  simp [Builder.then_, Generated.addToMinimum, Generated.thenAdd]

/-- what a segment's quantifier does to the builder, read from the re-translated method table: which of the two impls
    (`QuantifyReturnValue` after `returns(v)`, `Quantify` otherwise) and which method; an unquantified response used as a
    clause goes through `Clause for QuantifyReturnValue` (= `once()`) or `Clause for Quantify` (per match mode) -/
def applyQuantSrc {α ρ} (b : Builder α ρ) (topLevel : Bool) (s : Segment ρ) : Builder α ρ :=
  let step (t : Option Nat × Exactness) (arg : Nat) := srcQuantify b (t.1.getD arg) t.2
  match s.quant with
  | .once => step (if s.viaQRV then Generated.qrvOnce.2 else Generated.qOnce) 0
  | .nTimes n => step (if s.viaQRV then Generated.qrvNTimes.2 else Generated.qNTimes) n
  | .atLeastTimes n => step (if s.viaQRV then Generated.qrvAtLeast.2 else Generated.qAtLeast) n
  | .unquantified =>
    if topLevel then
      if s.viaQRV then (if Generated.qrvClauseViaOnce then step Generated.qrvOnce.2 0 else b)
      else match (if b.mode = .inOrder then Generated.qClauseOrdered else Generated.qClauseUnordered) with
        | some (k, e) => srcQuantify b k e
        | none => b
    else b

theorem C02_source_apply_quant {α ρ} (b : Builder α ρ) (topLevel : Bool) (s : Segment ρ) :
    b.applyQuant topLevel s = applyQuantSrc b topLevel s := by
  unfold Builder.applyQuant applyQuantSrc implicitOnce
  simp only [← C02_source_quantify]
  cases s.quant <;> cases hv : s.viaQRV <;> cases topLevel <;> cases hm : b.mode <;>
    simp [Generated.qrvOnce, Generated.qOnce, Generated.qrvNTimes, Generated.qNTimes, Generated.qrvAtLeast,
      Generated.qAtLeast, Generated.qrvClauseViaOnce, Generated.qClauseOrdered, Generated.qClauseUnordered]

/-- whether the stored value is single-use, read from the same table: the conversion each `QuantifyReturnValue` method
    applies; an unquantified value is stored by `once()` when used as a clause and by `Drop` inside `stub` -/
def storedOnceSrc (q : Quant) (topLevel : Bool) : Bool :=
  match q with
  | .once => Generated.qrvOnce.1
  | .nTimes _ => Generated.qrvNTimes.1
  | .atLeastTimes _ => Generated.qrvAtLeast.1
  | .unquantified => if topLevel && Generated.qrvClauseViaOnce then Generated.qrvOnce.1 else Generated.qrvDropSingleUse

theorem C02_source_stored {ρ} (s : Segment ρ) (topLevel : Bool) (v : ρ) (o : Bool) (h : s.resp = .ret v o)
    (hq : s.viaQRV = true) : s.stored = .ret v (storedOnceSrc s.quant topLevel) := by
  unfold Segment.stored storedOnceSrc
  simp only [h, hq]
  cases s.quant <;> cases topLevel <;>
    simp [Generated.qrvOnce, Generated.qrvNTimes, Generated.qrvAtLeast, Generated.qrvClauseViaOnce, Generated.qrvDropSingleUse]

/-- `find_responder_by_call_index` as re-translated from `src/call_pattern.rs` (empty slice: none; `Ok(i)`: responder `i`;
    `Err(i)`: responder `i - 1`, over the model of std's binary search) is the model's `findKey` -/
theorem C02_source_find_responder (keys : Array Nat) (k : Nat) : Generated.findResponderSrc keys k = findKey keys k := by
  unfold Generated.findResponderSrc
  first
    | rfl
    | (unfold findKey; split <;> simp_all)

end Unimock
