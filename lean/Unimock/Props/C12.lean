import Unimock.Generated.Typestate
import Unimock.Lemmas.Actions
import Unimock.Props.C02
import Unimock.Props.C17
import Unimock.Lemmas.Typestate
import Unimock.Lemmas.LeafRace
import Unimock.Lemmas.TypestateBridge
/-!
# C12 — single-use return values are moved out at most once and never duplicated

Statement (properties.jsonl): a by-value return configured without a Clone requirement is handed to
exactly one caller — also when several threads race for it — every other request panics, and the
value is dropped exactly once overall. Values configured for repeated use are cloned per call while
the stored original stays intact until the mock is torn down, and the builder refuses at compile time
to quantify a non-Clone value for more than one use.
-/
namespace Unimock
variable {α ρ : Type}

/-- results of the `takeSlot id pi ri` actions of an execution, in execution order -/
def takeResults (id pi ri : Nat) : List Action → List ActResult → List Bool
  | a :: as, r :: rs =>
    match a, r with
    | .takeSlot id' pi' ri', .took ok =>
      if id' = id ∧ pi' = pi ∧ ri' = ri then ok :: takeResults id pi ri as rs else takeResults id pi ri as rs
    | _, _ => takeResults id pi ri as rs
  | _, _ => []

theorem slotTaken_mapPat_other (s : Shared α ρ) (id pi id' pi' ri' : Nat) (f : Pattern α ρ → Pattern α ρ)
    (h : id' ≠ id ∨ pi' ≠ pi) : (s.mapPat id pi f).slotTaken id' pi' ri' = s.slotTaken id' pi' ri' := by
  unfold Shared.slotTaken
  rw [find_mapPat]
  cases hf : s.find id' with
  | none => rfl
  | some fm =>
    have hid := find_id s id' fm hf
    simp only [Option.map_some]
    by_cases hc : fm.info.id = id
    · have hpi : pi' ≠ pi := by
        rcases h with h | h
        · exact absurd (hid ▸ hc) h
        · exact h
      simp only [hc, ↓reduceIte, List.getElem?_modify_ne _ _ (Ne.symm hpi)]
    · simp only [hc, ↓reduceIte]

theorem slotTaken_mapPat_keep (s : Shared α ρ) (id pi id' pi' ri' : Nat) (f : Pattern α ρ → Pattern α ρ)
    (hf : ∀ p, (f p).responders = p.responders) :
    (s.mapPat id pi f).slotTaken id' pi' ri' = s.slotTaken id' pi' ri' := by
  unfold Shared.slotTaken
  rw [find_mapPat]
  cases hfm : s.find id' with
  | none => rfl
  | some fm =>
    simp only [Option.map_some]
    by_cases hc : fm.info.id = id
    · simp only [hc, ↓reduceIte]
      by_cases hpi : pi = pi'
      · subst hpi
        simp only [List.getElem?_modify_eq]
        cases fm.pats[pi]? <;> simp [hf]
      · simp only [List.getElem?_modify_ne _ _ hpi]
    · simp only [hc, ↓reduceIte]

/-- setting the `taken` flag of responder `ri` of pattern `(id, pi)` -/
theorem slotTaken_after_take (s : Shared α ρ) (id pi ri id' pi' ri' : Nat) :
    (s.mapPat id pi fun p => { p with responders := p.responders.modify ri fun r => { r with taken := true } }).slotTaken id' pi' ri'
      = (s.slotTaken id' pi' ri' || (id' == id && pi' == pi && ri' == ri)) := by
  by_cases hsame : id' = id ∧ pi' = pi
  · obtain ⟨h1, h2⟩ := hsame; subst h1; subst h2
    unfold Shared.slotTaken
    rw [find_mapPat]
    cases hfm : s.find id' with
    | none => simp
    | some fm =>
      have hid := find_id s id' fm hfm
      simp only [Option.map_some, hid, ↓reduceIte, List.getElem?_modify_eq]
      cases hp : fm.pats[pi']? with
      | none => simp
      | some p =>
        by_cases hri : ri = ri'
        · subst hri
          cases hr : p.responders[ri]? <;> simp [List.getElem?_modify_eq, hr]
        · have : (ri' == ri) = false := by
            simp only [beq_eq_false_iff_ne, ne_eq]; exact fun h => hri h.symm
          simp [List.getElem?_modify_ne _ _ hri, this]
  · have hne : id' ≠ id ∨ pi' ≠ pi := by
      by_cases h1 : id' = id
      · right; intro h2; exact hsame ⟨h1, h2⟩
      · left; exact h1
    rw [slotTaken_mapPat_other _ _ _ _ _ _ _ hne]
    have : (id' == id && pi' == pi && ri' == ri) = false := by
      rcases hne with h | h <;> simp [h]
    simp [this]

theorem slotTaken_applyAction (s : Shared α ρ) (a : Action) (id pi ri : Nat) :
    (applyAction s a).1.slotTaken id pi ri = (s.slotTaken id pi ri || a == .takeSlot id pi ri) := by
  cases a with
  | bumpGlobal => simp [applyAction, Shared.slotTaken, Shared.find]
  | bumpPat id' pi' =>
    simp only [applyAction]
    have := slotTaken_mapPat_keep s id' pi' id pi ri (fun p => { p with count := p.count + 1 }) (fun _ => rfl)
    rw [this]; simp
  | pushReason e => simp [applyAction, Shared.slotTaken, Shared.find, Shared.induce]
  | takeSlot id' pi' ri' =>
    simp only [applyAction]
    by_cases hsame : id' = id ∧ pi' = pi ∧ ri' = ri
    · obtain ⟨h1, h2, h3⟩ := hsame; subst h1; subst h2; subst h3
      split
      · rename_i ht; simp [ht]
      · rw [slotTaken_after_take]; simp
    · have hbeq : (Action.takeSlot id' pi' ri' == Action.takeSlot id pi ri) = false := by
        simp only [beq_eq_false_iff_ne, ne_eq]
        intro he; injection he with h1 h2 h3; exact hsame ⟨h1, h2, h3⟩
      simp only [hbeq, Bool.or_false]
      split
      · rfl
      · rw [slotTaken_after_take]
        have : (id == id' && pi == pi' && ri == ri') = false := by
          simp only [Bool.and_eq_false_iff, beq_eq_false_iff_ne, ne_eq]
          by_cases h1 : id = id'
          · by_cases h2 : pi = pi'
            · right; intro h3; exact hsame ⟨h1.symm, h2.symm, h3.symm⟩
            · left; right; exact h2
          · left; left; exact h1
        simp [this]

/-- **C12, a single-use value is moved out at most once under every interleaving.** Along *any*
    execution (any threads, any schedule), the requests for one single-use slot are answered
    `true` (value handed over) exactly for the first request if the slot was full, and `false`
    (⇒ `CannotReturnValueMoreThanOnce`) for every other request; a slot that is empty stays empty. -/
theorem C12_single_use_linear (s : Shared α ρ) (as : List Action) (id pi ri : Nat) :
    takeResults id pi ri as (runActions s as).2 =
      (if s.slotTaken id pi ri then List.replicate ((as.filter (· == .takeSlot id pi ri)).length) false
       else match (as.filter (· == .takeSlot id pi ri)).length with
            | 0 => []
            | n+1 => true :: List.replicate n false) ∧
    ((runActions s as).1.slotTaken id pi ri = (s.slotTaken id pi ri || as.contains (.takeSlot id pi ri))) := by
  induction as generalizing s with
  | nil => simp [runActions, takeResults]
  | cons a as ih =>
    have hstep := slotTaken_applyAction s a id pi ri
    have := ih (applyAction s a).1
    rw [hstep] at this
    simp only [runActions]
    by_cases ha : a = .takeSlot id pi ri
    · subst ha
      simp only [beq_self_eq_true, Bool.or_true, ↓reduceIte] at this
      simp only [List.filter_cons, beq_self_eq_true, ↓reduceIte, List.length_cons, List.contains_cons, Bool.true_or,
        Bool.or_true]
      refine ⟨?_, this.2⟩
      simp only [applyAction]
      cases ht : s.slotTaken id pi ri with
      | true =>
        simp only [↓reduceIte, takeResults, and_self, List.replicate_succ]
        simp only [ht, ↓reduceIte, applyAction] at this
        rw [this.1]
      | false =>
        simp only [Bool.false_eq_true, ↓reduceIte, takeResults, and_self]
        have h2 := this.1
        simp only [applyAction, ht, Bool.false_eq_true, ↓reduceIte] at h2
        rw [h2]
    · have hbeq : (a == Action.takeSlot id pi ri) = false := by simp [ha]
      simp only [hbeq, Bool.or_false] at this
      simp only [List.filter_cons, hbeq, Bool.false_eq_true, ↓reduceIte, List.contains_cons]
      have hbeq' : (Action.takeSlot id pi ri == a) = false := by
        simp only [beq_eq_false_iff_ne, ne_eq]; exact fun h => ha h.symm
      simp only [hbeq', Bool.false_or]
      refine ⟨?_, this.2⟩
      rw [← this.1]
      cases a with
      | takeSlot id' pi' ri' =>
        have hne : ¬ (id' = id ∧ pi' = pi ∧ ri' = ri) := by
          rintro ⟨h1, h2, h3⟩; subst h1; subst h2; subst h3; exact ha rfl
        simp only [applyAction]
        split <;> simp [takeResults, hne]
      | bumpGlobal => simp [applyAction, takeResults]
      | bumpPat id' pi' => simp [applyAction, takeResults]
      | pushReason e => simp [applyAction, takeResults]

/-- **C12, delivered + still stored = 1**: the number of successful takes along any execution from a
    full slot is at most one, and exactly one iff the slot ends up empty. -/
theorem C12_at_most_one_delivery (s : Shared α ρ) (as : List Action) (id pi ri : Nat)
    (hfull : s.slotTaken id pi ri = false) :
    ((takeResults id pi ri as (runActions s as).2).filter fun b => b).length ≤ 1 ∧
    (((takeResults id pi ri as (runActions s as).2).filter fun b => b).length = 1 ↔
      (runActions s as).1.slotTaken id pi ri = true) := by
  have h := C12_single_use_linear s as id pi ri
  rw [h.1, h.2, hfull]
  simp only [Bool.false_eq_true, ↓reduceIte, Bool.false_or]
  cases hn : (as.filter (· == .takeSlot id pi ri)).length with
  | zero =>
    have : as.contains (.takeSlot id pi ri) = false := by
      rw [List.length_eq_zero_iff] at hn
      rw [List.filter_eq_nil_iff] at hn
      simp only [List.contains_eq_any_beq, List.any_eq_false, beq_iff_eq]
      intro x hx he; subst he; exact hn _ hx (by simp)
    have hmem : ¬ Action.takeSlot id pi ri ∈ as := by simpa using this
    simp [this, hmem]
  | succ n =>
    have : as.contains (.takeSlot id pi ri) = true := by
      have hpos : 0 < (as.filter (· == .takeSlot id pi ri)).length := by omega
      obtain ⟨x, hx⟩ := List.exists_mem_of_length_pos hpos
      rw [List.mem_filter] at hx
      have : x = .takeSlot id pi ri := by simpa using hx.2
      subst this
      simpa using hx.1
    have hmem : Action.takeSlot id pi ri ∈ as := by simpa using this
    have hrep : (List.replicate n false).filter (fun b => b) = [] := by
      rw [List.filter_eq_nil_iff]; intro b hb; rw [List.mem_replicate] at hb; simp [hb.2]
    simp [this, hmem, List.filter_cons, hrep]

/-- **C12, repeatable responses stay intact**: a responder stored through the Clone-demanding path is
    never modified by answering (re-export of the sequential step lemma of C02). -/
theorem C12_multi_use_intact (m : MethodInfo) (pi : Nat) (rs : List (Responder ρ)) (c ri : Nat) (v : ρ) (st : Nat) (t : Bool)
    (hf : findResponderIdx rs c = some ri) (hr : rs[ri]? = some ⟨st, .ret v false, t⟩) :
    respond m pi rs c = (rs, .ret v) := by
  unfold respond; simp [hf, hr]

/-- **C12, which builder chains produce a single-use slot** (type-state, value level): only
    `some_call/next_call(..).returns(v)` followed by `once()` or nothing; every quantifier that
    allows more than one use (`n_times`, `at_least_times`) stores a repeatable responder — in the
    real builder these are exactly the methods that demand `T: IntoReturn` (i.e. `Clone`). -/
theorem C12_typestate_value_level (s : Segment ρ) (v : ρ) (o : Bool) (h : s.resp = .ret v o) :
    (s.stored = .ret v true ↔ (s.viaQRV = true ∧ (s.quant = .once ∨ s.quant = .unquantified))) ∧
    (s.stored = .ret v true → Segment.advance true .anyOrder s ≤ 1) := by
  refine ⟨C02_single_use_iff s v o h, ?_⟩
  intro hs
  have := (C02_single_use_iff s v o h).mp hs
  unfold Segment.advance
  rcases this.2 with hq | hq <;> rw [hq] <;> simp <;> split <;> omega

/-- **C12, owned leaves inside composites** (`Option` / `Result` / tuples / `Vec` / `Poll`, nested):
    a value stored through the single-use path is handed out in full exactly once; the second request
    fails iff some owned leaf sits on the populated path of the configured value (re-export of
    `Output.C17_once`). -/
theorem C12_composite_single_use (v : Output.Val) (k : Output.Kind) (s : Output.Stored)
    (h : Output.intoReturn true k v = some s) : Output.OnceSpec (Output.hasOwned k v) v s :=
  Output.C17_once v k s h

/-! ## the compile-time half: which builder chains type-check (Model/Typestate) -/

open Typestate in
theorem run_nonclone (s s' : St) (cs : List Call) (h : Typestate.run s cs = some s') (i : Nat)
    (hi : cs[i]? = some (.returns false)) :
    i = 0 ∧ (∃ o, s = .defineResponse o) ∧ (cs[1]? = none ∨ cs[1]? = some .once) := by
  induction cs generalizing s i with
  | nil => simp at hi
  | cons c cs ih =>
    rw [run_cons] at h
    cases hs : Typestate.step s c with
    | none => simp [hs] at h
    | some s1 =>
      simp only [hs, Option.bind_some] at h
      cases i with
      | zero =>
        simp only [List.getElem?_cons_zero, Option.some.injEq] at hi
        subst hi
        obtain ⟨o, hs0, hs1⟩ := step_returns_nonclone s s1 hs
        refine ⟨rfl, ⟨o, hs0⟩, ?_⟩
        cases cs with
        | nil => left; rfl
        | cons d ds =>
          right
          rw [run_cons] at h
          cases hd : Typestate.step s1 d with
          | none => simp [hd] at h
          | some s2 =>
            subst hs1
            simp [step_from_quantifyRV_nonclone o d s2 hd]
      | succ k =>
        simp only [List.getElem?_cons_succ] at hi
        obtain ⟨_, ⟨o, ho⟩, _⟩ := ih s1 h k hi
        exact absurd (ho ▸ hs) (step_not_defineResponse s c o)

open Typestate in
/-- **C12, the builder refuses to quantify a non-Clone value for more than one use.** In every chain
    of builder calls that type-checks, a `returns(v)` with a non-`Clone` `v` can only be the first call
    after `some_call` / `next_call` (never after `each_call`, inside a `stub` or after `then()`), and it
    is followed by nothing (implicit once) or by `.once()` — never by `n_times` / `at_least_times`. -/
theorem C12_nonclone_quantified_once_only (e : Entry) (cs : List Call) (h : accepts e cs = true) (i : Nat)
    (hi : cs[i]? = some (.returns false)) :
    i = 0 ∧ (e = .someCall ∨ e = .nextCall) ∧ (cs[1]? = none ∨ cs[1]? = some .once) := by
  unfold accepts at h
  cases hr : Typestate.run e.start cs with
  | none => simp [hr] at h
  | some s' =>
    obtain ⟨h0, ⟨o, ho⟩, h1⟩ := run_nonclone e.start s' cs hr i hi
    refine ⟨h0, ?_, h1⟩
    cases e <;> simp [Entry.start] at ho ⊢

open Typestate in
/-- non-vacuity and the boundary cases, decided on the model (the same chains are compiled against the
    real crate by the check) -/
example : accepts .someCall [.returns false] = true ∧ accepts .nextCall [.returns false, .once] = true ∧
    accepts .someCall [.returns false, .nTimes] = false ∧ accepts .someCall [.returns false, .atLeastTimes] = false ∧
    accepts .eachCall [.returns false] = false ∧ accepts .someCall [.returns false, .once, .then_, .returns false] = false ∧
    accepts .someCall [.returns true, .nTimes, .then_, .returns true, .atLeastTimes] = true := by decide

/-! ## several threads racing for one composite single-use value (Model/LeafRace)

A `Deep<…>` value configured through the single-use path keeps every owned leaf in its own locked slot
and asks them left to right, stopping at the first empty one. For any number of leaves, any number of
requesting threads and **any interleaving of their leaf accesses**: -/

open LeafRace in
theorem reqs_length_step (s : LeafRace.St) (i : Nat) : (LeafRace.step s i).reqs.length = s.reqs.length := by
  unfold LeafRace.step
  cases s.reqs[i]? with
  | none => rfl
  | some r => simp only; split <;> (try split) <;> simp

open LeafRace in
theorem reqs_length_run (s : LeafRace.St) (sch : List Nat) : (LeafRace.run s sch).reqs.length = s.reqs.length := by
  induction sch generalizing s with
  | nil => rfl
  | cons i is ih => simp only [LeafRace.run]; rw [ih, reqs_length_step]

open LeafRace in
/-- **C12, at most one caller receives a composite single-use value**, under every schedule. -/
theorem C12_composite_race_at_most_one (n k : Nat) (hn : 0 < n) (sch : List Nat) (i j : Nat) (ri rj : Req)
    (hi : (LeafRace.run (LeafRace.init n k) sch).reqs[i]? = some ri) (hj : (LeafRace.run (LeafRace.init n k) sch).reqs[j]? = some rj)
    (hri : ri.received n = true) (hrj : rj.received n = true) : i = j := by
  obtain ⟨_, k', _, _, hc⟩ := inv_run n (LeafRace.init n k) sch (inv_init n k)
  simp only [Req.received, Bool.and_eq_true, Bool.not_eq_true', decide_eq_true_eq] at hri hrj
  rcases hc with ⟨_, hall⟩ | ⟨_, w, rw_, _, _, _, hothers⟩
  · have := (hall ri (List.mem_of_getElem? hi)).1; omega
  · rcases Nat.lt_or_ge 0 0 with h | _
    · omega
    · have hiw : i = w := by
        rcases Nat.decEq i w with h | h
        · have := hothers i ri h hi; omega
        · exact h
      have hjw : j = w := by
        rcases Nat.decEq j w with h | h
        · have := hothers j rj h hj; omega
        · exact h
      rw [hiw, hjw]

open LeafRace in
/-- **C12, the value is not lost in the race**: once every requester has finished, exactly one of them
    holds the whole value, and every other one failed at the very first leaf without having taken
    anything — no leaf is taken (and dropped) by a caller that does not receive the value. -/
theorem C12_composite_race_no_loss (n k : Nat) (hn : 0 < n) (hk : 0 < k) (sch : List Nat)
    (hall : ∀ r : Req, r ∈ (LeafRace.run (LeafRace.init n k) sch).reqs → r.done n = true) :
    ∃ (w : Nat) (rw_ : Req), (LeafRace.run (LeafRace.init n k) sch).reqs[w]? = some rw_ ∧ rw_.received n = true ∧
      ∀ (i : Nat) (r : Req), i ≠ w → (LeafRace.run (LeafRace.init n k) sch).reqs[i]? = some r → r.failed = true ∧ r.pos = 0 := by
  obtain ⟨_, k', _, _, hc⟩ := inv_run n (LeafRace.init n k) sch (inv_init n k)
  have hlen : (LeafRace.run (LeafRace.init n k) sch).reqs.length = k := by rw [reqs_length_run]; simp [init]
  rcases hc with ⟨_, hzero⟩ | ⟨_, w, rw_, hw, hwpos, hwf, hothers⟩
  · -- nothing taken: then nobody can be done
    exfalso
    have h0 : 0 < (LeafRace.run (LeafRace.init n k) sch).reqs.length := by omega
    have hmem := List.getElem_mem h0
    have hd := hall _ hmem
    have hz := hzero _ hmem
    simp only [Req.done, Bool.or_eq_true, decide_eq_true_eq] at hd
    rcases hd with hd | hd
    · rw [hz.2] at hd; cases hd
    · omega
  · refine ⟨w, rw_, hw, ?_, ?_⟩
    · have hd := hall rw_ (List.mem_of_getElem? hw)
      simp only [Req.done, Bool.or_eq_true, decide_eq_true_eq] at hd
      simp only [Req.received, Bool.and_eq_true, Bool.not_eq_true', decide_eq_true_eq]
      rcases hd with hd | hd
      · rw [hwf] at hd; cases hd
      · exact ⟨hwf, hd⟩
    · intro i r hne hr
      have hp := hothers i r hne hr
      have hd := hall r (List.mem_of_getElem? hr)
      simp only [Req.done, Bool.or_eq_true, decide_eq_true_eq] at hd
      rcases hd with hd | hd
      · exact ⟨hd, hp⟩
      · omega

open LeafRace in
/-- non-vacuity: three leaves, two requesters, a schedule with two context switches -/
example : (LeafRace.run (init 3 2) [0, 1, 0, 0]).reqs = [⟨3, false⟩, ⟨0, true⟩] := by decide

open Typestate in
/-- **C12, what the compile-time refusal buys at run time.** In every chain that type-checks, a `returns(v)` of a
    non-`Clone` value, read as a segment of the value-level builder model, is stored through the single-use path
    (`into_return_once`): the stored responder is `ret v` with the single-use flag set, and the segment advances the
    response index by at most one. -/
theorem C12_nonclone_segment_is_single_use {ρ : Type} (v : ρ) (e : Entry) (cs : List Call) (h : accepts e cs = true)
    (hnc : cs[0]? = some (.returns false)) (fuel : Nat) (segs : List (Segment ρ))
    (hs : toSegs v fuel (e == .someCall || e == .nextCall) cs = some segs) :
    ∃ s rest, segs = s :: rest ∧ s.stored = .ret v true := by
  obtain ⟨_, he, hnext⟩ := C12_nonclone_quantified_once_only e cs h 0 hnc
  have hq : (e == .someCall || e == .nextCall) = true := by rcases he with rfl | rfl <;> rfl
  rw [hq] at hs
  cases fuel with
  | zero => simp [toSegs] at hs
  | succ fuel =>
    cases cs with
    | nil => simp at hnc
    | cons r rest =>
      simp only [List.getElem?_cons_zero, Option.some.injEq] at hnc
      subst hnc
      simp only [toSegs, respOf] at hs
      cases rest with
      | nil =>
        simp at hs; subst hs
        exact ⟨_, [], rfl, by simp [Segment.stored]⟩
      | cons q rest' =>
        simp only [List.getElem?_cons_succ, List.getElem?_cons_zero] at hnext
        rcases hnext with hn | hn
        · cases hn
        · simp only [Option.some.injEq] at hn
          subst hn
          simp only [quantOf] at hs
          cases rest' with
          | nil =>
            simp at hs; subst hs
            exact ⟨_, [], rfl, by simp [Segment.stored]⟩
          | cons x rest'' =>
            cases x <;> simp at hs
            obtain ⟨t, _, rfl⟩ := hs
            exact ⟨_, t, rfl, by simp [Segment.stored]⟩

/-! ### the compile-time refusal as the source's signatures have it (`Generated/Typestate.lean`, re-translated on every run) -/
section SourceTypestate
open Typestate

/-- `QuantifyReturnValue::n_times`, `::at_least_times` and `DefineMultipleResponses::returns` carry the bound
    `T: IntoReturn<..>` (the value must be `Clone`); `DefineResponse::returns` and `QuantifyReturnValue::once` do not -/
theorem C12_source_clone_bounds :
    (Generated.sigTable.lookup (2, 3)).map (·.needClone) = some true ∧
    (Generated.sigTable.lookup (2, 4)).map (·.needClone) = some true ∧
    (Generated.sigTable.lookup (1, 0)).map (·.needClone) = some true ∧
    (Generated.sigTable.lookup (2, 2)).map (·.needClone) = some false ∧
    (Generated.sigTable.lookup (0, 0)).map (·.needClone) = some false := by decide

/-- hence, by the signatures alone: a non-`Clone` value cannot be given a count other than `once`, nor be the response of an
    `each_call` / `stub` / `then` continuation — for either ordering -/
theorem C12_source_nonclone_refused (o : Typestate.Ord) :
    stepOf Generated.sigTable Generated.ordKind Generated.repKind (.quantifyRV o false) .nTimes = none ∧
    stepOf Generated.sigTable Generated.ordKind Generated.repKind (.quantifyRV o false) .atLeastTimes = none ∧
    stepOf Generated.sigTable Generated.ordKind Generated.repKind (.defineMulti o) (.returns false) = none ∧
    stepOf Generated.sigTable Generated.ordKind Generated.repKind (.quantifyRV o false) .once = some (.quantified o .exact) := by
  cases o <;> decide

end SourceTypestate

end Unimock
