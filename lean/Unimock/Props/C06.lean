import Unimock.Model.Codegen.Matching
/-!
# C06 — `matching!` accepts exactly what the equivalent Rust `match` would accept

Statement (properties.jsonl): a matcher written as matching!(p1, ..., pn) or
matching!((...) | (...) | ...), optionally with an if-guard and eq!/ne! operands, accepts an argument
tuple exactly when a Rust match on those arguments with the same patterns, guard and ==/!= comparisons
would select an arm; matching!() accepts everything. The accept/reject decision is the same whether or
not mismatch diagnostics are collected.
-/
namespace Unimock.Matching

theorem evalArms_success_prefix (alts : List (List Elem)) (g : Option G) (tail : List Arm) (args : List V) (en : Bool) :
    evalArms (alts.map (fun a => Arm.success a g) ++ tail) args en =
      if alts.any (fun alt => altAccepts alt args && evalG (altEnv alt args) (g.getD .tt)) then (true, [])
      else evalArms tail args en := by
  induction alts with
  | nil => simp
  | cons a as ih =>
    simp only [List.map_cons, List.cons_append, evalArms, List.any_cons]
    by_cases h : (altAccepts a args && evalG (altEnv a args) (g.getD .tt)) = true
    · simp [h]
    · simp only [h, Bool.false_eq_true, ↓reduceIte, Bool.false_or]
      exact ih

theorem evalArms_tail_rejects (tail : List Arm) (args : List V) (en : Bool)
    (h : ∀ a ∈ tail, match a with | .success _ _ => False | _ => True) :
    (evalArms tail args en).1 = false := by
  induction tail with
  | nil => rfl
  | cons a as ih =>
    cases a with
    | success alt g => exact absurd (h _ (List.mem_cons_self)) (by simp)
    | diag alt =>
      simp only [evalArms]
      cases en with
      | true => rfl
      | false => exact ih (fun a ha => h a (List.mem_cons_of_mem _ ha))
    | catchAll => rfl

/-- **C06, the generated matcher accepts exactly when the equivalent `match` selects an arm** — for
    every input of the grammar (any number of alternatives, any patterns, `eq!`/`ne!` operands,
    optional guard over the bindings), every argument tuple, and both settings of
    `reporter.enabled()`. -/
theorem C06_matching_equiv_match (inp : Input) (args : List V) (enabled : Bool) :
    (evalIR (generate inp) args enabled).1 = specAccept inp args := by
  unfold evalIR generate specAccept
  by_cases he : inp.alts.isEmpty = true
  · simp [he]
  · simp only [he, Bool.false_eq_true, ↓reduceIte]
    rw [List.append_assoc, evalArms_success_prefix]
    by_cases ha : (inp.alts.any fun alt => altAccepts alt args && evalG (altEnv alt args) (inp.guard.getD .tt)) = true
    · simp [ha]
    · simp only [ha, Bool.false_eq_true, ↓reduceIte]
      apply evalArms_tail_rejects
      intro a hmem
      simp only [List.mem_append, List.mem_singleton] at hmem
      rcases hmem with h | h
      · cases hg : inp.guard <;> cases hl : inp.alts.getLast? <;> simp [hg, hl] at h
        subst h; trivial
      · subst h; trivial

/-- **C06, collecting diagnostics never changes the decision.** -/
theorem C06_diagnostics_do_not_decide (inp : Input) (args : List V) :
    (evalIR (generate inp) args true).1 = (evalIR (generate inp) args false).1 := by
  rw [C06_matching_equiv_match, C06_matching_equiv_match]

/-- **C06, `matching!()` accepts everything.** -/
theorem C06_empty_accepts_all (g : Option G) (args : List V) (enabled : Bool) :
    (evalIR (generate ⟨[], g⟩) args enabled).1 = true := by
  simp [evalIR, generate]

/-- how two guard token streams combine when the first is spliced in WITHOUT parentheses before
    `&& rest` (the behaviour of the code before the repair): `a || b && r` parses as `a || (b && r)` -/
def spliceUnparenthesized : G → G → G
  | .or a b, r => .or a (spliceUnparenthesized b r)
  | g, r => .and g r

/-- **Defect repaired by the `fix:` commit** (kept as a machine-checked witness): with the guard
    spliced unparenthesised, `matching!((eq!(&1), y) if *y == 0 || *y == 5)` accepts `(2, 0)`,
    although the equivalent `match` rejects it (the comparison `m0 == l0` is false). -/
example :
    let guard := G.or (.eqc 1 0) (.eqc 1 5)          -- *y == 0 || *y == 5
    let cmpHolds := G.eqc 0 1                        -- the eq!(&1) comparison on the first argument
    let env : Env := [(0, .n 2), (1, .n 0)]          -- arguments (2, 0)
    evalG env (spliceUnparenthesized guard cmpHolds) = true ∧ evalG env (.and guard cmpHolds) = false := by
  decide

/-- non-vacuity: two alternatives with a guard over a binding -/
example :
    let inp : Input := ⟨[[.pat (.bind 0), .pat (.lit 2)], [.pat (.lit 1), .pat .wild]], some (.ltc 0 3)⟩
    specAccept inp [.n 5, .n 2] = false ∧ specAccept inp [.n 2, .n 2] = true := by decide

end Unimock.Matching
