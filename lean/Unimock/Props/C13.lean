import Unimock.Generated.Control
import Unimock.Model.ValueChain
/-!
# C13 — references lent by the mock stay valid, distinct and unmodified while borrowed

Statement (properties.jsonl): every reference obtained from the mock — a borrowed return configured
with returns(), or make_ref/make_mut used by an answer — keeps pointing at its own value with its
original contents for as long as the borrow of that instance lasts, however many further values are
lent, including concurrently through a shared &Unimock. Lent values are dropped exactly once and never
before the instance owning them is verified or dropped; only make_mut (which needs exclusive access)
releases earlier ones.
-/
namespace Unimock

/-- **C13, a new reference points at its own value.** -/
theorem C13_push_returns_own (c : Chain) (v : Val) :
    (c.push v).1.read (c.push v).2 = some v := by
  simp [Chain.push, Chain.read]

/-- **C13, earlier references stay valid, distinct and unmodified**, however many values are lent
    afterwards: every index that read `x` before still reads `x`, and the new reference is a new index. -/
theorem C13_push_preserves (c : Chain) (v : Val) (i : Nat) (x : Val) (h : c.read i = some x) :
    (c.push v).1.read i = some x ∧ (c.push v).2 ≠ i := by
  unfold Chain.read at h
  have hi : i < c.length := (List.getElem?_eq_some_iff.mp h).1
  constructor
  · simp only [Chain.push, Chain.read, List.getElem?_append_left hi]; exact h
  · simp only [Chain.push]; omega

/-- many pushes: by induction, a retained reference survives any number of further pushes -/
theorem C13_pushes_preserve (c : Chain) (vs : List Val) (i : Nat) (x : Val) (h : c.read i = some x) :
    (vs.foldl (fun c v => (c.push v).1) c).read i = some x := by
  induction vs generalizing c with
  | nil => exact h
  | cons v vs ih => exact ih _ (C13_push_preserves c v i x h).1

/-- **C13, nothing is dropped by lending**: `push` drops nothing; only `push_mut` (exclusive access)
    releases the earlier values — each exactly once — and the final `Drop` releases what is left,
    each exactly once. -/
theorem C13_drops_exactly_once (c : Chain) (v : Val) :
    (c.pushMut v).2.2 = c ∧ (c.pushMut v).1 = [v] ∧ (c.pushMut v).1.read (c.pushMut v).2.1 = some v ∧
    c.dropAll = c ∧ (c.push v).1.dropAll = c.dropAll ++ [v] := by
  simp [Chain.pushMut, Chain.dropAll, Chain.push, Chain.read]

/-! ## racing pushes through a shared `&Unimock` -/

/-- invariant of the `try_insert` race -/
def RaceInv (base : Nat) (s : RaceState) : Prop :=
  (∀ p ∈ s.pushers, p.pos ≤ s.chain.length) ∧
  (∀ p ∈ s.pushers, ∀ i, p.done = some i → s.chain[i]? = some p.v ∧ base ≤ i) ∧
  -- the nodes appended so far are exactly the values of the finished pushers, one node each
  (s.chain.length = base + (s.pushers.filter (·.done.isSome)).length)

theorem pushAttempt_chain_prefix (c : Chain) (p : Pusher) :
    ∃ ext, (pushAttempt c p).1 = c ++ ext := by
  unfold pushAttempt
  cases p.done with
  | some _ => exact ⟨[], by simp⟩
  | none =>
    simp only
    split
    · exact ⟨[p.v], rfl⟩
    · exact ⟨[], by simp⟩

/-- **C13, racing pushes never disturb earlier nodes**: whatever the interleaving of `try_insert`
    attempts, every node that existed keeps its index and value (the chain only grows at the end). -/
theorem C13_race_preserves_prefix (s : RaceState) (ks : List Nat) :
    ∃ ext, (raceRun s ks).chain = s.chain ++ ext := by
  induction ks generalizing s with
  | nil => exact ⟨[], by simp [raceRun]⟩
  | cons k ks ih =>
    simp only [raceRun]
    obtain ⟨ext2, h2⟩ := ih (raceStep s k)
    have h1 : ∃ ext1, (raceStep s k).chain = s.chain ++ ext1 := by
      unfold raceStep
      cases s.pushers[k]? with
      | none => exact ⟨[], by simp⟩
      | some p => exact pushAttempt_chain_prefix s.chain p
    obtain ⟨ext1, h1⟩ := h1
    exact ⟨ext1 ++ ext2, by rw [h2, h1, List.append_assoc]⟩

theorem race_read_stable (s : RaceState) (ks : List Nat) (i : Nat) (x : Val) (h : s.chain[i]? = some x) :
    (raceRun s ks).chain[i]? = some x := by
  obtain ⟨ext, he⟩ := C13_race_preserves_prefix s ks
  rw [he]
  have hi : i < s.chain.length := (List.getElem?_eq_some_iff.mp h).1
  rw [List.getElem?_append_left hi]; exact h

/-- **C13, each racing pusher ends on its own node**: when a pusher's `try_insert` succeeds, the
    reference it returns points at a node holding *its* value, and it keeps doing so under every
    continuation of the race. Two pushers never share a node (their indices differ) because each
    success appends a fresh node. -/
theorem C13_race_own_node (s : RaceState) (k : Nat) (p : Pusher) (hp : s.pushers[k]? = some p)
    (hnd : p.done = none) (hpos : p.pos = s.chain.length) (ks : List Nat) :
    let s1 := raceStep s k
    (s1.pushers[k]?.bind (·.done)) = some s.chain.length ∧
    (raceRun s1 ks).chain[s.chain.length]? = some p.v := by
  have hk : k < s.pushers.length := (List.getElem?_eq_some_iff.mp hp).1
  have hstep : raceStep s k = { chain := s.chain ++ [p.v], pushers := s.pushers.set k { p with done := some p.pos } } := by
    unfold raceStep pushAttempt
    simp [hp, hnd, hpos]
  constructor
  · simp only [hstep, List.getElem?_set_self hk, Option.bind_some, hpos]
  · apply race_read_stable
    simp [hstep]

/-- a pusher that finds its cell occupied moves on to the next cell and never modifies the chain -/
theorem C13_race_failed_attempt (c : Chain) (p : Pusher) (hnd : p.done = none) (hocc : p.pos ≠ c.length) :
    pushAttempt c p = (c, { p with pos := p.pos + 1 }) := by
  unfold pushAttempt; simp [hnd, hocc]

/-- non-vacuity: two pushers racing from an empty chain under the schedule [0,1,1] -/
example :
    let s : RaceState := { chain := [], pushers := [{ v := ⟨1, 0⟩ }, { v := ⟨2, 0⟩ }] }
    (raceRun s [0, 1, 1]).chain = [⟨1, 0⟩, ⟨2, 0⟩] ∧
    (raceRun s [0, 1, 1]).pushers.map (·.done) = [some 0, some 1] := by decide


/-- values lent during default-method delegation live in the helper's value chain; the helper cell is only ever filled
    through `get_or_init` (`AsRef` and `AsMut` alike, re-translated from `src/lib.rs` on every run), so a later delegation —
    also one through `&mut self` — keeps the existing helper and with it everything it has lent -/
theorem C13_source_helper_cell_reused :
    Unimock.Generated.delegatorCellRef = .getOrInitClone ∧ Unimock.Generated.delegatorCellMut = .getOrInitClone := ⟨rfl, rfl⟩

end Unimock
