import Unimock.Lemmas.Actions
import Unimock.Lemmas.SoloRun
/-!
# C10 — counting, sequencing and ordering are exact under every thread interleaving

Statement (properties.jsonl): when clones of a mock (or a shared &Unimock) are called concurrently,
every accepted call gets a distinct position: N concurrent matches of a pattern receive precisely the
responses of positions 1..N, N concurrent ordered calls occupy N distinct consecutive slots, and
after joining the threads the verification verdict equals that of the same calls made sequentially.
No call is lost, counted twice or given another call's position, for any schedule.

The quantifier "for any schedule" is discharged by quantifying over *every list of atomic actions*:
whatever the threads' programs and however a scheduler interleaves them, the execution is some list
of `Action`s applied one after the other to the shared state.
-/
namespace Unimock
variable {α ρ : Type}

/-- the values handed out to the `bumpPat id pi` actions of an execution, in execution order -/
def patPositions (id pi : Nat) : List Action → List ActResult → List Nat
  | a :: as, r :: rs =>
    match a, r with
    | .bumpPat id' pi', .idx n => if id' = id ∧ pi' = pi then n :: patPositions id pi as rs else patPositions id pi as rs
    | _, _ => patPositions id pi as rs
  | _, _ => []

def globalPositions : List Action → List ActResult → List Nat
  | a :: as, r :: rs =>
    match a, r with
    | .bumpGlobal, .idx n => n :: globalPositions as rs
    | _, _ => globalPositions as rs
  | _, _ => []

def countBumps (id pi : Nat) (as : List Action) : Nat := (as.filter (· == .bumpPat id pi)).length
def countGlobal (as : List Action) : Nat := (as.filter (· == .bumpGlobal)).length

theorem patCount_applyAction (s : Shared α ρ) (a : Action) (id pi : Nat) (h : s.hasPat id pi) :
    (applyAction s a).1.patCount id pi = s.patCount id pi + (if a = .bumpPat id pi then 1 else 0) := by
  cases a with
  | bumpGlobal => simp [applyAction, Shared.patCount, Shared.find]
  | bumpPat id' pi' =>
    simp only [applyAction]
    by_cases hc : id' = id ∧ pi' = pi
    · obtain ⟨h1, h2⟩ := hc; subst h1; subst h2
      simp [patCount_mapPat_count_same s id' pi' h]
    · have : ¬ (Action.bumpPat id' pi' = Action.bumpPat id pi) := by
        intro he; injection he with h1 h2; exact hc ⟨h1, h2⟩
      simp only [this, ↓reduceIte, Nat.add_zero]
      apply patCount_mapPat_other
      by_cases h1 : id = id'
      · right; intro h2; exact hc ⟨h1.symm, h2.symm⟩
      · left; exact h1
  | takeSlot id' pi' ri =>
    simp only [applyAction]
    split
    · simp
    · simp only [reduceCtorEq, ↓reduceIte, Nat.add_zero]
      exact patCount_mapPat_keepCount s id' pi' id pi _ (fun _ => rfl)
  | pushReason e => simp [applyAction, Shared.patCount, Shared.find, Shared.induce]

/-- **C10, positions of a pattern are exact under every interleaving.** Along *any* execution, the
    positions handed to the calls that selected pattern `(id, pi)` are `c, c+1, …, c+N-1` in
    execution order (`c` = count before, `N` = number of such calls): pairwise distinct, no gap, none
    handed out twice — and the counter ends at `c + N`: no match is lost or counted twice. -/
theorem C10_positions_exact (s : Shared α ρ) (as : List Action) (id pi : Nat) (h : s.hasPat id pi) :
    patPositions id pi as (runActions s as).2 = List.range' (s.patCount id pi) (countBumps id pi as) ∧
    (runActions s as).1.patCount id pi = s.patCount id pi + countBumps id pi as := by
  induction as generalizing s with
  | nil => simp [runActions, patPositions, countBumps]
  | cons a as ih =>
    have hstep := patCount_applyAction s a id pi h
    have hex := hasPat_applyAction s a id pi h
    have := ih (applyAction s a).1 hex
    simp only [runActions]
    by_cases ha : a = .bumpPat id pi
    · subst ha
      simp only [↓reduceIte] at hstep
      simp only [applyAction, patPositions, and_self, ↓reduceIte, countBumps, List.filter_cons, beq_self_eq_true,
        List.length_cons, List.range'_succ] at this ⊢
      simp only [applyAction] at hstep
      rw [hstep] at this
      refine ⟨by rw [this.1], by rw [this.2]; omega⟩
    · simp only [ha, ↓reduceIte, Nat.add_zero] at hstep
      rw [hstep] at this
      have hcb : countBumps id pi (a :: as) = countBumps id pi as := by
        simp [countBumps, ha]
      rw [hcb]
      refine ⟨?_, this.2⟩
      rw [← this.1]
      cases a with
      | bumpPat id' pi' =>
        have hne : ¬ (id' = id ∧ pi' = pi) := by
          rintro ⟨h1, h2⟩; subst h1; subst h2; exact ha rfl
        simp [applyAction, patPositions, hne]
      | bumpGlobal => simp [applyAction, patPositions]
      | takeSlot id' pi' ri => simp only [applyAction]; split <;> simp [patPositions]
      | pushReason e => simp [applyAction, patPositions]

theorem nextOrdered_applyAction (s : Shared α ρ) (a : Action) :
    (applyAction s a).1.nextOrdered = s.nextOrdered + (if a = .bumpGlobal then 1 else 0) := by
  cases a with
  | bumpGlobal => simp [applyAction]
  | bumpPat id pi => simp [applyAction, Shared.mapPat]
  | takeSlot id pi ri => simp only [applyAction]; split <;> simp [Shared.mapPat]
  | pushReason e => simp [applyAction, Shared.induce]

/-- **C10, ordered slots are distinct and consecutive under every interleaving.** The global slot
    numbers handed to ordered calls are `n, n+1, …, n+K-1` in execution order. -/
theorem C10_slots_exact (s : Shared α ρ) (as : List Action) :
    globalPositions as (runActions s as).2 = List.range' s.nextOrdered (countGlobal as) ∧
    (runActions s as).1.nextOrdered = s.nextOrdered + countGlobal as := by
  induction as generalizing s with
  | nil => simp [runActions, globalPositions, countGlobal]
  | cons a as ih =>
    have hstep := nextOrdered_applyAction s a
    have := ih (applyAction s a).1
    simp only [runActions]
    by_cases ha : a = .bumpGlobal
    · subst ha
      simp only [↓reduceIte] at hstep
      rw [hstep] at this
      simp only [applyAction, globalPositions, countGlobal, List.filter_cons, beq_self_eq_true, ↓reduceIte,
        List.length_cons, List.range'_succ] at this ⊢
      refine ⟨by rw [this.1], by rw [this.2]; omega⟩
    · simp only [ha, ↓reduceIte, Nat.add_zero] at hstep
      rw [hstep] at this
      have hcb : countGlobal (a :: as) = countGlobal as := by simp [countGlobal, ha]
      rw [hcb]
      refine ⟨?_, this.2⟩
      rw [← this.1]
      cases a with
      | bumpGlobal => exact absurd rfl ha
      | bumpPat id pi => simp [applyAction, globalPositions]
      | takeSlot id pi ri => simp only [applyAction]; split <;> simp [globalPositions]
      | pushReason e => simp [applyAction, globalPositions]

/-- **C10, the final counters do not depend on the schedule.** Two executions performing the same
    atomic actions in different orders (any permutation: any other interleaving of the same calls)
    end with the same pattern counters and the same ordered index — hence the same verification
    verdict as the sequential execution of those calls. -/
theorem C10_final_counts_schedule_independent (s : Shared α ρ) (as bs : List Action) (hperm : as.Perm bs)
    (id pi : Nat) (h : s.hasPat id pi) :
    (runActions s as).1.patCount id pi = (runActions s bs).1.patCount id pi ∧
    (runActions s as).1.nextOrdered = (runActions s bs).1.nextOrdered := by
  rw [(C10_positions_exact s as id pi h).2, (C10_positions_exact s bs id pi h).2,
      (C10_slots_exact s as).2, (C10_slots_exact s bs).2]
  unfold countBumps countGlobal
  exact ⟨by rw [(hperm.filter _).length_eq], by rw [(hperm.filter _).length_eq]⟩

theorem reasons_applyAction (s : Shared α ρ) (a : Action) :
    (applyAction s a).1.reasons = s.reasons ++ (match a with | .pushReason e => [e] | _ => []) := by
  cases a with
  | bumpGlobal => simp [applyAction]
  | bumpPat id pi => simp [applyAction, Shared.mapPat]
  | takeSlot id pi ri => simp only [applyAction]; split <;> simp [Shared.mapPat]
  | pushReason e => simp [applyAction, Shared.induce]

/-- **C10/C08, racing error reports are all kept**: the final log is the initial log followed by
    every pushed error, in push order. -/
theorem C10_racing_reasons_all_kept (s : Shared α ρ) (as : List Action) :
    (runActions s as).1.reasons =
      s.reasons ++ as.filterMap (fun a => match a with | .pushReason e => some e | _ => none) := by
  induction as generalizing s with
  | nil => simp [runActions]
  | cons a as ih =>
    simp only [runActions]
    rw [ih, reasons_applyAction]
    cases a <;> simp

/-- non-vacuity: two racing bumps of one pattern get positions 0 and 1 whatever else is interleaved -/
example :
    let p : Pattern Nat Int := ⟨none, none, [], 0, 0, 0, .atLeast, 0⟩
    let s : Shared Nat Int := ⟨.error, [⟨⟨7, "T", "f", false, false, false⟩, .anyOrder, [p]⟩], 0, []⟩
    patPositions 7 0 [.bumpPat 7 0, .bumpGlobal, .bumpPat 7 0]
      (runActions s [.bumpPat 7 0, .bumpGlobal, .bumpPat 7 0]).2 = [0, 1] := by decide

/-! ## the interleaving model run without interference is the sequential model

The theorems above speak about lists of atomic actions; the other properties' theorems speak about the
sequential `call`. The two models are the same thing seen at two granularities: a thread of the
interleaving model, scheduled alone until it has finished, makes its calls exactly as `call` does.
Together with the schedule-independence theorems this is the sequential reference the property's
"equals that of the same calls made sequentially" refers to. -/

/-- **C10, a thread that nobody interleaves with is the sequential run** — for every mock assembled
    from clauses (more generally: distinct method ids) and every list of calls: after `5·n+5`
    scheduling steps the thread has finished, its outcomes are those of `call` applied one after the
    other, and the shared state (counters, ordered index, single-use slots, error log) is the same. -/
theorem C10_solo_thread_is_sequential (s : Shared α ρ) (hu : s.UniqueIds) (calls : List (MethodInfo × α)) :
    let r := soloRun (5 * calls.length + 5) (s, ({ todo := calls } : ThreadSt α ρ))
    r.2.isFinished = true ∧ r.2.outs = (seqCalls s calls).2 ∧ r.1 = (seqCalls s calls).1 := by
  have := soloRun_spec (5 * calls.length + 5) s ({ todo := calls } : ThreadSt α ρ) hu
    (by simp [ThreadSt.measure, Phase.rank])
  simpa [remaining] using this

/-- every mock built by `Unimock::new` from clauses satisfies the hypothesis of the theorem above -/
theorem C10_assembled_mocks_have_distinct_ids (fb : Fallback) (c : ClauseTree α ρ) (s : Shared α ρ)
    (h : newMock fb c = .ok s) : s.UniqueIds := newMock_uniqueIds fb c s h

/-- one call, cut into its atomic actions and run alone, is `call` -/
theorem C10_atomic_call_is_call (s : Shared α ρ) (hu : s.UniqueIds) (m : MethodInfo) (a : α) :
    finish 4 s (beginCall s m a) = ((call s m a).1, some (ThreadOut.ofEval (call s m a).2)) :=
  finish_begin_eq_call s hu m a

/-- non-vacuity: a two-call thread over an ordered single-use pattern (second call over-runs) -/
example :
    let mi : MethodInfo := ⟨7, "T", "f", false, false, false⟩
    let p : Pattern Nat Int := ⟨some (fun _ => some true), none, [⟨0, .ret 5 true, false⟩], 0, 1, 1, .exact, 0⟩
    let s : Shared Nat Int := ⟨.error, [⟨mi, .inOrder, [p]⟩], 0, []⟩
    (soloRun 15 (s, ({ todo := [(mi, 1), (mi, 2)] } : ThreadSt Nat Int))).2.outs
      = [.ret 5, .err (.callOrderNotMatched mi 1 none)] := by decide

end Unimock
