import Unimock.Props.C01
import Unimock.Model.Lifecycle
import Unimock.Lemmas.Layout
/-!
# C18 — behaviour depends only on clauses and call history, not on incidental layout

Statement (properties.jsonl): reordering clauses that belong to different methods (keeping each
method's own pattern order and the relative order of ordered clauses), routing any call through the
original or through any clone, or building a second independent mock from the same clauses never
changes any call's outcome or the verification verdict: distinct mocks share nothing, clones share
everything. Generic methods instantiated with different type arguments are distinct methods whose
patterns never mix.
-/
namespace Unimock
variable {α ρ : Type}

theorem setInst_mocks (w : World α ρ) (i : Nat) (x : Inst) : (w.setInst i x).mocks = w.mocks := by
  unfold World.setInst; split <;> rfl

/-- **C18, routing is irrelevant (clones share everything).** A call made through instance `i` and
    the same call made through any other live instance `j` of the same mock have the same outcome,
    the same user-code log and leave the same shared states behind. -/
theorem C18_routing_irrelevant (env : Env α ρ) (w : World α ρ) (i j t t' : Nat) (xi xj : Inst)
    (m : MethodInfo) (a : α)
    (hi : w.inst? i = some xi) (hj : w.inst? j = some xj)
    (hai : xi.alive = true) (haj : xj.alive = true) (hsh : xi.sh = xj.sh) :
    (step env w (.call i t m a)).2 = (step env w (.call j t' m a)).2 ∧
    (step env w (.call i t m a)).1.mocks = (step env w (.call j t' m a)).1.mocks := by
  simp only [step, hi, hj, hai, haj, hsh]
  cases w.mocks[xj.sh]? with
  | none => exact ⟨rfl, rfl⟩
  | some ms =>
    simp only
    constructor
    · rfl
    · simp only [Bool.not_true, Bool.false_eq_true, ↓reduceIte]
      rw [setInst_mocks, setInst_mocks]

theorem setShared_other (w : World α ρ) (sh k : Nat) (s : Shared α ρ) (h : k ≠ sh) :
    (w.setShared sh s).mocks[k]? = w.mocks[k]? := by
  unfold World.setShared
  simp only [List.getElem?_map, List.getElem?_zipIdx]
  cases w.mocks[k]? with
  | none => rfl
  | some m => simp [h]

/-- **C18, distinct mocks share nothing.** A call on an instance of mock `sh` leaves every other
    mock's shared state exactly as it was. -/
theorem C18_mocks_independent (env : Env α ρ) (w : World α ρ) (i t : Nat) (x : Inst)
    (m : MethodInfo) (a : α) (hi : w.inst? i = some x) (k : Nat) (hk : k ≠ x.sh) :
    (step env w (.call i t m a)).1.mocks[k]? = w.mocks[k]? := by
  simp only [step, hi]
  split
  · rfl
  · cases w.mocks[x.sh]? with
    | none => rfl
    | some ms =>
      simp only
      rw [setInst_mocks, setShared_other _ _ _ _ hk]

/-- **C18, no event other than `build` and `call` touches any shared state** (clone, drop, verify,
    report, no_verify_in_drop only change instance bookkeeping). -/
theorem C18_lifecycle_events_keep_shared (env : Env α ρ) (w : World α ρ) (i j t : Nat) (p : Bool) :
    (step env w (.clone i j)).1.mocks = w.mocks ∧
    (step env w (.drop i t p)).1.mocks = w.mocks ∧
    (step env w (.verify i t)).1.mocks = w.mocks ∧
    (step env w (.noVerify i t)).1.mocks = w.mocks ∧
    (step env w (.report i t)).1.mocks = w.mocks := by
  have hfree : ∀ (w : World α ρ) i, (w.free i).mocks = w.mocks := by
    intro w i; unfold World.free; split
    · rfl
    · exact setInst_mocks _ _ _
  have htd : ∀ (w : World α ρ) i x t p, (teardownInst w i x t p).1.mocks = w.mocks := by
    intro w i x t p; exact setInst_mocks _ _ _
  have hdrop : ∀ (w : World α ρ) i t p, (dropInst w i t p).1.mocks = w.mocks := by
    intro w i t p; unfold dropInst
    split
    · rfl
    · split
      · exact hfree _ _
      · split
        · simp only; rw [hfree, htd]
        · exact hfree _ _
  refine ⟨?_, ?_, ?_, ?_, ?_⟩
  · simp only [step]; split
    · rfl
    · split
      · rfl
      · exact setInst_mocks _ _ _
  · simp only [step]; split
    · rfl
    · split
      · rfl
      · simp only; exact hdrop _ _ _ _
  · simp only [step]; split
    · rfl
    · split
      · rfl
      · split
        · simp only; exact hdrop _ _ _ _
        · simp only; rw [hfree, htd]
  · simp only [step]; split
    · rfl
    · split
      · rfl
      · split
        · simp only; exact hdrop _ _ _ _
        · exact setInst_mocks _ _ _
  · simp only [step]; split
    · rfl
    · split
      · rfl
      · split <;> (simp only; rw [hfree, htd])

/-- **C18, distinct methods (e.g. two instantiations of a generic method: different `TypeId`) never
    mix**: the answer for method `m` is a function of `m`'s own table entry only. -/
theorem C18_methods_distinct (s s' : Shared α ρ) (m : MethodInfo) (a : α)
    (hfb : s.fallback = s'.fallback) (hf : s.find m.id = s'.find m.id)
    (hm : ∀ fm, s.find m.id = some fm → fm.mode = .anyOrder) :
    (evalCall s m a).2 = (evalCall s' m a).2 :=
  C01_other_methods_irrelevant s s' m a hfb hf hm

/-! ## the runtime reaches the method table only through lookups by method id -/

/-- two shared states that agree on every lookup (the order of the table entries may differ) -/
def SharedEquiv (s s' : Shared α ρ) : Prop :=
  s.fallback = s'.fallback ∧ s.nextOrdered = s'.nextOrdered ∧ s.reasons = s'.reasons ∧ ∀ id, s.find id = s'.find id

/-- forget the "which pattern was expected instead" hint of a wrong-order error (it is computed by
    scanning the table and is the only thing `eval` derives from the table's entry order) -/
def forgetHint : EvalOutcome ρ → EvalOutcome ρ
  | .err (.callOrderNotMatched m o _) => .err (.callOrderNotMatched m o none)
  | o => o

theorem setPat_equiv (s s' : Shared α ρ) (h : SharedEquiv s s') (id i : Nat) (p : Pattern α ρ) :
    SharedEquiv (s.setPat id i p) (s'.setPat id i p) := by
  obtain ⟨h1, h2, h3, h4⟩ := h
  refine ⟨h1, h2, h3, ?_⟩
  intro id'
  rw [find_setPat, find_setPat, h4]

/-- **C18, evaluation depends on the table only through lookups.** Equivalent states give the same
    outcome (up to the hint above) and equivalent successor states, for every call. Together with
    `C18_assemble_layout_invariant`: rearranged clause lists behave identically on every history. -/
theorem C18_eval_respects_equiv (s s' : Shared α ρ) (h : SharedEquiv s s') (m : MethodInfo) (a : α) :
    forgetHint (evalCall s m a).2 = forgetHint (evalCall s' m a).2 ∧ SharedEquiv (evalCall s m a).1 (evalCall s' m a).1 := by
  obtain ⟨fb, mk, no, rs⟩ := s
  obtain ⟨fb', mk', no', rs'⟩ := s'
  obtain ⟨h1, h2, h3, h4⟩ := h
  simp only at h1 h2 h3
  subst h1 h2 h3
  have h0 : SharedEquiv (⟨fb, mk, no, rs⟩ : Shared α ρ) ⟨fb, mk', no, rs⟩ := ⟨rfl, rfl, rfl, h4⟩
  unfold evalCall
  rw [← h4 m.id]
  cases hf : Shared.find (⟨fb, mk, no, rs⟩ : Shared α ρ) m.id with
  | none =>
    simp only
    split
    · exact ⟨rfl, h0⟩
    · split
      · exact ⟨rfl, h0⟩
      · cases fb <;> exact ⟨rfl, h0⟩
  | some fm =>
    simp only
    cases fm.mode with
    | anyOrder =>
      simp only
      cases scan fm.pats a 0 with
      | none => cases fb <;> exact ⟨rfl, h0⟩
      | some r =>
        obtain ⟨pi, t⟩ := r
        cases t with
        | noMatcher => exact ⟨rfl, h0⟩
        | userPanic => exact ⟨rfl, h0⟩
        | accept =>
          simp only
          cases fm.pats[pi]? with
          | none => exact ⟨rfl, h0⟩
          | some p => exact ⟨rfl, setPat_equiv _ _ h0 _ _ _⟩
    | inOrder =>
      simp only
      have hb : SharedEquiv (⟨fb, mk, no + 1, rs⟩ : Shared α ρ) ⟨fb, mk', no + 1, rs⟩ := ⟨rfl, rfl, rfl, h4⟩
      cases findForOrder fm.pats no with
      | none => exact ⟨rfl, hb⟩
      | some pi =>
        simp only
        cases fm.pats[pi]? with
        | none => exact ⟨rfl, hb⟩
        | some p =>
          simp only
          cases tryPat p a with
          | none => exact ⟨rfl, hb⟩
          | some t =>
            cases t with
            | noMatcher => exact ⟨rfl, hb⟩
            | userPanic => exact ⟨rfl, hb⟩
            | accept => exact ⟨rfl, setPat_equiv _ _ hb _ _ _⟩

/-- run a whole history of calls through `evalCall`, collecting the outcomes -/
def evalHistory (s : Shared α ρ) : List (MethodInfo × α) → Shared α ρ × List (EvalOutcome ρ)
  | [] => (s, [])
  | (m, a) :: rest =>
    let r := evalCall s m a
    let r' := evalHistory r.1 rest
    (r'.1, r.2 :: r'.2)

/-- **C18 for every history.** Equivalent states produce the same outcome list (up to the hint) and end
    in equivalent states, whatever the sequence of calls. -/
theorem C18_history_respects_equiv (s s' : Shared α ρ) (h : SharedEquiv s s') (calls : List (MethodInfo × α)) :
    (evalHistory s calls).2.map forgetHint = (evalHistory s' calls).2.map forgetHint ∧
      SharedEquiv (evalHistory s calls).1 (evalHistory s' calls).1 := by
  induction calls generalizing s s' with
  | nil => exact ⟨rfl, h⟩
  | cons c rest ih =>
    obtain ⟨m, a⟩ := c
    have h1 := C18_eval_respects_equiv s s' h m a
    have h2 := ih _ _ h1.2
    simp only [evalHistory, List.map_cons]
    exact ⟨by rw [h1.1, h2.1], h2.2⟩

/-! ## clause layout -/

theorem AsmEquiv.trans {a b c : Asm α ρ} (h1 : AsmEquiv a b) (h2 : AsmEquiv b c) : AsmEquiv a c :=
  ⟨h1.1.trans h2.1, fun id => (h1.2 id).trans (h2.2 id)⟩

theorem ResEquiv.trans {x y z : Except AsmError (Asm α ρ)} (h1 : ResEquiv x y) (h2 : ResEquiv y z) : ResEquiv x z := by
  cases x <;> cases y <;> cases z <;> simp_all [ResEquiv]
  exact AsmEquiv.trans h1 h2

theorem assembleList_append (a : Asm α ρ) (xs ys : List (Except AsmError (Terminal α ρ))) :
    assembleList a (xs ++ ys) = match assembleList a xs with
      | .error e => .error e
      | .ok a' => assembleList a' ys := by
  induction xs generalizing a with
  | nil => rfl
  | cons x xs ih =>
    cases x with
    | error e => simp [assembleList]
    | ok t =>
      simp only [List.cons_append, assembleList]
      cases a.push t with
      | error e => rfl
      | ok a' => exact ih a'

/-- one admissible rearrangement: two neighbouring terminals of different methods, not both ordered,
    change places (every reordering "of clauses that belong to different methods, keeping each method's
    own pattern order and the relative order of ordered clauses" is a sequence of such steps) -/
inductive LayoutEq : List (Terminal α ρ) → List (Terminal α ρ) → Prop
  | refl (ts : List (Terminal α ρ)) : LayoutEq ts ts
  | swap (pre post : List (Terminal α ρ)) (t1 t2 : Terminal α ρ) (h : Swappable t1 t2) (ts : List (Terminal α ρ))
      (rest : LayoutEq (pre ++ t2 :: t1 :: post) ts) : LayoutEq (pre ++ t1 :: t2 :: post) ts

/-- **C18, assembly does not depend on clause layout.** Rearranging terminals as allowed yields
    assembler results that are both failures, or both succeed with the same running index and the same
    entry for every method id — the same mock, since every later operation reaches the table only
    through lookups by method id. -/
theorem C18_assemble_layout_invariant (ts ts' : List (Terminal α ρ)) (h : LayoutEq ts ts') (a : Asm α ρ) :
    ResEquiv (assembleList a (ts.map .ok)) (assembleList a (ts'.map .ok)) := by
  induction h with
  | refl ts => exact ResEquiv.refl _
  | swap pre post t1 t2 hs ts rest ih =>
    refine ResEquiv.trans ?_ ih
    simp only [List.map_append, List.map_cons]
    rw [assembleList_append, assembleList_append]
    cases assembleList a (pre.map .ok) with
    | error e => trivial
    | ok a0 =>
      simp only [assembleList]
      have hc := push_comm a0 t1 t2 hs
      unfold push2 at hc
      cases h1 : a0.push t1 with
      | error e1 =>
        rw [h1] at hc
        cases h2 : a0.push t2 with
        | error e2 => trivial
        | ok a2 =>
          rw [h2] at hc; simp only at hc ⊢
          cases h21 : a2.push t1 with
          | error e => trivial
          | ok a21 => rw [h21] at hc; exact hc.elim
      | ok a1 =>
        rw [h1] at hc
        simp only at hc ⊢
        cases h12 : a1.push t2 with
        | error e =>
          rw [h12] at hc
          cases h2 : a0.push t2 with
          | error e2 => trivial
          | ok a2 =>
            rw [h2] at hc; simp only at hc ⊢
            cases h21 : a2.push t1 with
            | error e' => trivial
            | ok a21 => rw [h21] at hc; exact hc.elim
        | ok a12 =>
          rw [h12] at hc
          cases h2 : a0.push t2 with
          | error e2 => rw [h2] at hc; exact hc.elim
          | ok a2 =>
            rw [h2] at hc; simp only at hc ⊢
            cases h21 : a2.push t1 with
            | error e' => rw [h21] at hc; exact hc.elim
            | ok a21 =>
              rw [h21] at hc
              exact assembleList_congr a12 a21 hc (post.map .ok)

end Unimock
