import Unimock.Props.C01
import Unimock.Model.Lifecycle
/-!
# C18 — behaviour depends only on clauses and call history, not on incidental layout

Statement (properties.jsonl): reordering clauses that belong to different methods (keeping each
method's own pattern order and the relative order of ordered clauses), routing any call through the
original or through any clone, or building a second independent mock from the same clauses never
changes any call's outcome or the verification verdict: distinct mocks share nothing, clones share
everything. Generic methods instantiated with different type arguments are distinct methods whose
patterns never mix.
-/
namespace Unimock
variable {α ρ : Type}

theorem setInst_mocks (w : World α ρ) (i : Nat) (x : Inst) : (w.setInst i x).mocks = w.mocks := by
  unfold World.setInst; split <;> rfl

/-- **C18, routing is irrelevant (clones share everything).** A call made through instance `i` and
    the same call made through any other live instance `j` of the same mock have the same outcome,
    the same user-code log and leave the same shared states behind. -/
theorem C18_routing_irrelevant (env : Env α ρ) (w : World α ρ) (i j t t' : Nat) (xi xj : Inst)
    (m : MethodInfo) (a : α)
    (hi : w.inst? i = some xi) (hj : w.inst? j = some xj)
    (hai : xi.alive = true) (haj : xj.alive = true) (hsh : xi.sh = xj.sh) :
    (step env w (.call i t m a)).2 = (step env w (.call j t' m a)).2 ∧
    (step env w (.call i t m a)).1.mocks = (step env w (.call j t' m a)).1.mocks := by
  simp only [step, hi, hj, hai, haj, hsh]
  cases w.mocks[xj.sh]? with
  | none => exact ⟨rfl, rfl⟩
  | some ms =>
    simp only
    constructor
    · rfl
    · simp only [Bool.not_true, Bool.false_eq_true, ↓reduceIte]
      rw [setInst_mocks, setInst_mocks]

theorem setShared_other (w : World α ρ) (sh k : Nat) (s : Shared α ρ) (h : k ≠ sh) :
    (w.setShared sh s).mocks[k]? = w.mocks[k]? := by
  unfold World.setShared
  simp only [List.getElem?_map, List.getElem?_zipIdx]
  cases w.mocks[k]? with
  | none => rfl
  | some m => simp [h]

/-- **C18, distinct mocks share nothing.** A call on an instance of mock `sh` leaves every other
    mock's shared state exactly as it was. -/
theorem C18_mocks_independent (env : Env α ρ) (w : World α ρ) (i t : Nat) (x : Inst)
    (m : MethodInfo) (a : α) (hi : w.inst? i = some x) (k : Nat) (hk : k ≠ x.sh) :
    (step env w (.call i t m a)).1.mocks[k]? = w.mocks[k]? := by
  simp only [step, hi]
  split
  · rfl
  · cases w.mocks[x.sh]? with
    | none => rfl
    | some ms =>
      simp only
      rw [setInst_mocks, setShared_other _ _ _ _ hk]

/-- **C18, no event other than `build` and `call` touches any shared state** (clone, drop, verify,
    report, no_verify_in_drop only change instance bookkeeping). -/
theorem C18_lifecycle_events_keep_shared (env : Env α ρ) (w : World α ρ) (i j t : Nat) (p : Bool) :
    (step env w (.clone i j)).1.mocks = w.mocks ∧
    (step env w (.drop i t p)).1.mocks = w.mocks ∧
    (step env w (.verify i t)).1.mocks = w.mocks ∧
    (step env w (.noVerify i t)).1.mocks = w.mocks ∧
    (step env w (.report i t)).1.mocks = w.mocks := by
  have hfree : ∀ (w : World α ρ) i, (w.free i).mocks = w.mocks := by
    intro w i; unfold World.free; split
    · rfl
    · exact setInst_mocks _ _ _
  have htd : ∀ (w : World α ρ) i x t p, (teardownInst w i x t p).1.mocks = w.mocks := by
    intro w i x t p; exact setInst_mocks _ _ _
  have hdrop : ∀ (w : World α ρ) i t p, (dropInst w i t p).1.mocks = w.mocks := by
    intro w i t p; unfold dropInst
    split
    · rfl
    · split
      · exact hfree _ _
      · split
        · simp only; rw [hfree, htd]
        · exact hfree _ _
  refine ⟨?_, ?_, ?_, ?_, ?_⟩
  · simp only [step]; split
    · rfl
    · split
      · rfl
      · exact setInst_mocks _ _ _
  · simp only [step]; split
    · rfl
    · split
      · rfl
      · simp only; exact hdrop _ _ _ _
  · simp only [step]; split
    · rfl
    · split
      · rfl
      · split
        · simp only; exact hdrop _ _ _ _
        · simp only; rw [hfree, htd]
  · simp only [step]; split
    · rfl
    · split
      · rfl
      · split
        · simp only; exact hdrop _ _ _ _
        · exact setInst_mocks _ _ _
  · simp only [step]; split
    · rfl
    · split
      · rfl
      · split <;> (simp only; rw [hfree, htd])

/-- **C18, distinct methods (e.g. two instantiations of a generic method: different `TypeId`) never
    mix**: the answer for method `m` is a function of `m`'s own table entry only. -/
theorem C18_methods_distinct (s s' : Shared α ρ) (m : MethodInfo) (a : α)
    (hfb : s.fallback = s'.fallback) (hf : s.find m.id = s'.find m.id)
    (hm : ∀ fm, s.find m.id = some fm → fm.mode = .anyOrder) :
    (evalCall s m a).2 = (evalCall s' m a).2 :=
  C01_other_methods_irrelevant s s' m a hfb hf hm

end Unimock
